/* C bindings of the XORWOW data types (celeritas/random/XorwowRngData.hh).
 * Layout/size equalities are static_asserted against the real types in
 * replay/bindings.cc.  Array<T,N> is lowered to struct { T d[N]; }.        */
#ifndef VERIF_XORWOW_H
#define VERIF_XORWOW_H
#include "celer.h"

typedef uint32_t uint_t;                       /* XorwowUInt */
typedef struct { uint_t d[5]; } JumpPoly;      /* Array<uint_t,5> */
typedef struct { JumpPoly d[32]; } ArrayJumpPoly;
typedef struct { uint_t d[5]; } XorState5;
typedef struct { XorState5 xorstate; uint_t weylstate; } XorwowState;
typedef struct { unsigned int d[1]; } XorwowSeed;
typedef struct {
    XorwowSeed seed;
    ArrayJumpPoly jump;
    ArrayJumpPoly jump_subsequence;
} XorwowRngParamsData;
typedef struct { XorwowSeed seed; ull_int subsequence; ull_int offset; } XorwowRngInitializer;
typedef struct { XorwowRngParamsData const* params_; XorwowState* state_; } XorwowRngEngine;

/* XorwowRngParamsData::num_words()/num_bits(): constants, bound in bindings.cc */
#define VERIF_NUM_WORDS 5u
#define VERIF_NUM_BITS 32u

/* ---- specification functions (Marsaglia 2003, "xorwow", p.5) ------------ */
/* T: one step of the 160-bit xorshift part                                   */
static inline XorState5 spec_T(XorState5 x)
{
    XorState5 r;
    uint_t t = x.d[0] ^ (x.d[0] >> 2);
    r.d[0] = x.d[1]; r.d[1] = x.d[2]; r.d[2] = x.d[3]; r.d[3] = x.d[4];
    r.d[4] = (x.d[4] ^ (x.d[4] << 4)) ^ (t ^ (t << 1));
    return r;
}
/* g(T) x  for the polynomial g whose coefficient of z^b is bit b of p        */
static inline XorState5 spec_poly_apply(XorState5 x, JumpPoly p)
{
    XorState5 acc = {{0, 0, 0, 0, 0}};
    for (unsigned w = 0; w < 5; ++w)
        for (unsigned b = 0; b < 32; ++b)   /* coefficient of z^(32 w + b) */
        {
            if (p.d[w] & (1u << b))
                for (unsigned k = 0; k < 5; ++k) acc.d[k] ^= x.d[k];
            {   /* x = T(x); written out: dfcc cannot instrument nested calls inside contract functions */
                uint_t t = x.d[0] ^ (x.d[0] >> 2);
                x.d[0] = x.d[1]; x.d[1] = x.d[2]; x.d[2] = x.d[3]; x.d[3] = x.d[4];
                x.d[4] = (x.d[4] ^ (x.d[4] << 4)) ^ (t ^ (t << 1));
            }
        }
    return acc;
}
/* one coefficient step of spec_poly_apply, shared with the lock-step ghost
 * in unit c13_jump_poly: (acc, x) -> (acc ^ [bit (w,b) of p] x, T x)         */
static inline void spec_poly_step(XorState5* acc, XorState5* x, JumpPoly const* p, unsigned w, unsigned b)
{
    if (p->d[w] & (1u << b))
    {
        acc->d[0] ^= x->d[0]; acc->d[1] ^= x->d[1]; acc->d[2] ^= x->d[2]; acc->d[3] ^= x->d[3]; acc->d[4] ^= x->d[4];
    }
    uint_t t = x->d[0] ^ (x->d[0] >> 2);
    x->d[0] = x->d[1]; x->d[1] = x->d[2]; x->d[2] = x->d[3]; x->d[3] = x->d[4];
    x->d[4] = (x->d[4] ^ (x->d[4] << 4)) ^ (t ^ (t << 1));
}
#define ST_EQ(a, b) ((a).d[0] == (b).d[0] && (a).d[1] == (b).d[1] && (a).d[2] == (b).d[2] && (a).d[3] == (b).d[3] && (a).d[4] == (b).d[4])
static inline _Bool st_eq(XorState5 a, XorState5 b)
{
    return a.d[0] == b.d[0] && a.d[1] == b.d[1] && a.d[2] == b.d[2] && a.d[3] == b.d[3] && a.d[4] == b.d[4];
}
#endif
