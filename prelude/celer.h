/* C prelude for text extracted from Celeritas headers (see DESIGN.md 2.3).
 * Bindings to the real C++ types are asserted by /verif/replay/bindings.cc. */
#ifndef VERIF_CELER_H
#define VERIF_CELER_H
#include <stdint.h>
#include <stddef.h>

#include "celer_types.h"
typedef _Bool bool;
#define true 1
#define false 0
#define nullptr ((void*)0)

#ifdef VERIF_CBMC
/* CELER_EXPECT in an enforced function: its condition is ALSO a conjunct of
 * the function's requires (harvested mechanically), so this assert is
 * discharged from it. In a stub (replaced callee) the condition is the
 * stub's requires and thereby asserted at each call site. */
#define CELER_EXPECT(c) __CPROVER_assert((c), "celer_expect: " #c)
#define CELER_ASSERT(c) __CPROVER_assert((c), "celer_assert: " #c)
#define CELER_ENSURE(c) __CPROVER_assert((c), "celer_ensure: " #c)
#define CELER_ASSERT_UNREACHABLE() __CPROVER_assert(0, "celer_unreachable")
#define VERIF_CANARY() __CPROVER_assert(0, "canary.reach")
#else
/* native cross-check build of the extracted text */
#include <assert.h>
#define CELER_EXPECT(c) ((void)0)
#define CELER_ASSERT(c) ((void)0)
#define CELER_ENSURE(c) ((void)0)
#define CELER_ASSERT_UNREACHABLE() ((void)0)
#define VERIF_CANARY() ((void)0)
#define __CPROVER_requires(x)
#define __CPROVER_ensures(x)
#define __CPROVER_assigns(...)
#define __CPROVER_loop_invariant(x)
#define __CPROVER_decreases(x)
#define __CPROVER_assume(x) ((void)0)
#define __CPROVER_assert(x, m) ((void)0)
#endif

#endif
