//-----------------------------------*-C++-*---------------------------------//
// Copyright 2020-2024 UT-Battelle, LLC, and other Celeritas developers.
// See the top-level COPYRIGHT file for details.
// SPDX-License-Identifier: (Apache-2.0 OR MIT)
//---------------------------------------------------------------------------//
/*!
 * \file corecel/Config.hh
 * \brief Configuration-specific options for Celeritas.
 *
 * Note that the nonzero values for \c CELERITAS_CORE_RNG and \c
 * CELERITAS_CORE_GEO values *must not* be used directly: only compare between
 * (e.g.) \c CELERITAS_CORE_RNG and \c CELERITAS_CORE_RNG_HIPRAND; options that
 * are *invalid* (e.g. for missing libraries such as HIP) will have a value of
 * zero.
 */
//---------------------------------------------------------------------------//
#pragma once

//---------------------------------------------------------------------------//
// User-configurable options for Celeritas
//---------------------------------------------------------------------------//

#define CELERITAS_USE_CUDA 0
#define CELERITAS_USE_GEANT4 0
#define CELERITAS_USE_HEPMC3 0
#define CELERITAS_USE_HIP 0
#define CELERITAS_USE_MPI 1
#define CELERITAS_USE_OPENMP 1
#define CELERITAS_USE_PERFETTO 0
#define CELERITAS_USE_PNG 1
#define CELERITAS_USE_ROOT 0
#define CELERITAS_USE_VECGEOM 0

#define CELERITAS_DEBUG 0
#define CELERITAS_DEVICE_DEBUG 0

#define CELERITAS_REAL_TYPE_DOUBLE 1
#define CELERITAS_REAL_TYPE_FLOAT 2
#define CELERITAS_REAL_TYPE CELERITAS_REAL_TYPE_DOUBLE

#define CELERITAS_UNITS_CGS 1
#define CELERITAS_UNITS_SI 2
#define CELERITAS_UNITS_CLHEP 3
#define CELERITAS_UNITS CELERITAS_UNITS_CGS

#define CELERITAS_OPENMP_DISABLED 0
#define CELERITAS_OPENMP_EVENT 1
#define CELERITAS_OPENMP_TRACK 2
#define CELERITAS_OPENMP CELERITAS_OPENMP_EVENT

#define CELERITAS_CORE_GEO_VECGEOM 0
#define CELERITAS_CORE_GEO_GEANT4 0
#define CELERITAS_CORE_GEO_ORANGE 1
#define CELERITAS_CORE_GEO CELERITAS_CORE_GEO_ORANGE

#define CELERITAS_CORE_RNG_CURAND 0
#define CELERITAS_CORE_RNG_HIPRAND 0
#define CELERITAS_CORE_RNG_XORWOW 1
#define CELERITAS_CORE_RNG CELERITAS_CORE_RNG_XORWOW

#define CELERITAS_MAX_BLOCK_SIZE 0

//---------------------------------------------------------------------------//
// Detailed CMake configuration information
//---------------------------------------------------------------------------//

inline constexpr char celeritas_build_type[] = "RelWithDebInfo";
inline constexpr char celeritas_hostname[] = "vm";
inline constexpr char celeritas_real_type[] = "double";
inline constexpr char celeritas_units[] = "CGS";
inline constexpr char celeritas_openmp[] = "event";
inline constexpr char celeritas_core_geo[] = "ORANGE";
inline constexpr char celeritas_core_rng[] = "xorwow";
inline constexpr char celeritas_clhep_version[] = "";
inline constexpr char celeritas_geant4_version[] = "";
inline constexpr char celeritas_vecgeom_version[] = "";


//---------------------------------------------------------------------------//
// System-specific properties for Celeritas
//---------------------------------------------------------------------------//

#define CELERITAS_HAVE_ROCTX 0


#define CELERITAS_GEANT4_VERSION 0x000000
#define CELERITAS_VECGEOM_VERSION 0x000000
#define CELERITAS_HEPMC3_VERSION 0x000000
