//-----------------------------------*-C++-*---------------------------------//
// Copyright 2020-2024 UT-Battelle, LLC, and other Celeritas developers.
// See the top-level COPYRIGHT file for details.
// SPDX-License-Identifier: (Apache-2.0 OR MIT)
//---------------------------------------------------------------------------//
//! \file corecel/Version.hh
//! \brief Celeritas version.
//---------------------------------------------------------------------------//
#pragma once

/*!
* Celeritas version as a compile-time constant.
*
* Encoded as a big-endian hexadecimal with one byte per component:
* (major * 256 + minor) * 256 + patch.
*/
#define CELERITAS_VERSION 0x000000

//! Celeritas version string with git metadata
inline constexpr char celeritas_version[]    = "0.0.0+8d87e4b";
//! Celeritas major version
inline constexpr int celeritas_version_major = 0;
//! Celeritas minor version
inline constexpr int celeritas_version_minor = 0;
//! Celeritas patch version
inline constexpr int celeritas_version_patch = 0;
