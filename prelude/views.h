/* Abstract single-slot model of the track views used by the executors
 * (CoreTrackView and the views it makes).  Every view is a handle on one
 * `Track` record; each view member function the executors call is a stub with
 * a contract.  Leaf contracts marked [enforced: <unit>] are discharged against
 * the real member function in that unit; the others are assumed and listed in
 * the evidence.  Quantity<> is lowered to its real_type value.                */
#ifndef VERIF_VIEWS_H
#define VERIF_VIEWS_H
#include "celer.h"

/* enum class TrackStatus : std::int_least8_t (celeritas/Types.hh), bound in bindings.cc */
enum { TS_inactive = 0, TS_initializing = 1, TS_alive = 2, TS_errored = 3, TS_killed = 4 };
typedef size_type ActionId;   /* OpaqueId<..., size_type>, invalid = all ones */
#define INVALID_ID ((size_type)-1)

typedef struct
{
    /* particle state + params */
    real_type energy;            /* states.particle_energy[slot] */
    real_type mass;              /* ParticleView::mass  (> 0 or 0) */
    bool antiparticle;           /* ParticleView::is_antiparticle */
    real_type charge;            /* ParticleView::charge */
    /* sim state */
    int status;
    real_type step_length;       /* sim.step_length() */
    ActionId post_step_action;
    ActionId along_step_action;
    real_type time;
    unsigned num_steps;
    /* physics step state */
    real_type energy_deposition;
    /* physics scalars / track state */
    real_type lowest_electron_energy;
    real_type linear_loss_limit;
    ActionId range_action, discrete_action, failure_action, boundary_action, tracking_cut_action, propagation_limit_action;
    bool has_at_rest;
    size_type eloss_ppid;          /* invalid => no continuous loss */
    real_type dedx_range;
    real_type interaction_mfp;
    real_type macro_xs;          /* PhysicsStepView::macro_xs() */
} Track;

typedef struct { Track* t; } CoreTrackView;
typedef struct { Track* t; } ParticleTrackView;
typedef struct { Track* t; } SimTrackView;
typedef struct { Track* t; } PhysicsStepView;
typedef struct { Track* t; } PhysicsTrackView;
typedef struct { real_type lowest_electron_energy; real_type linear_loss_limit; ActionId range_action_, discrete_action_, failure_action_; } PhysicsParamsScalars;

#define VIEW_OK(v) ((v) != 0 && (v)->t != 0)

/* ---- CoreTrackView factories: pure, the view is bound to the same slot ---- */
static ParticleTrackView CTV_make_particle_view(CoreTrackView const* track) { ParticleTrackView v = {track->t}; return v; }
static SimTrackView CTV_make_sim_view(CoreTrackView const* track) { SimTrackView v = {track->t}; return v; }
static PhysicsStepView CTV_make_physics_step_view(CoreTrackView const* track) { PhysicsStepView v = {track->t}; return v; }
static PhysicsTrackView CTV_make_physics_view(CoreTrackView const* track) { PhysicsTrackView v = {track->t}; return v; }
static ActionId CTV_boundary_action(CoreTrackView const* track) { return track->t->boundary_action; }
static ActionId CTV_tracking_cut_action(CoreTrackView const* track) { return track->t->tracking_cut_action; }
static ActionId CTV_propagation_limit_action(CoreTrackView const* track) { return track->t->propagation_limit_action; }

/* ---- ParticleTrackView ---- */
/* energy(): [enforced: c01_ptv_energy_get] */
static real_type PTV_energy(ParticleTrackView const* self) { return self->t->energy; }
/* is_stopped(): energy() == 0  [enforced: c01_ptv_is_stopped] */
static bool PTV_is_stopped(ParticleTrackView const* self) { return self->t->energy == 0; }
static bool PTV_is_antiparticle(ParticleTrackView const* self) { return self->t->antiparticle; }   /* assumed: reads ParticleView */
static real_type PTV_mass(ParticleTrackView const* self) { return self->t->mass; }                /* assumed: reads ParticleView */
static real_type PTV_charge(ParticleTrackView const* self) { return self->t->charge; }            /* assumed: reads ParticleView */
/* subtract_energy(d): own EXPECTs d >= 0, d <= energy(); energy -= d   [enforced: c01_ptv_subtract_energy] */
void PTV_subtract_energy(ParticleTrackView* self, real_type eloss)
__CPROVER_requires(VIEW_OK(self))
__CPROVER_requires(eloss >= 0 && eloss <= self->t->energy)
__CPROVER_assigns(self->t->energy)
__CPROVER_ensures(self->t->energy == __CPROVER_old(self->t->energy) - eloss)
;
/* energy(E): own EXPECT E >= 0; energy = E   [enforced: c01_ptv_energy_set] */
void PTV_energy_set(ParticleTrackView* self, real_type quantity)
__CPROVER_requires(VIEW_OK(self))
__CPROVER_requires(quantity >= 0)
__CPROVER_assigns(self->t->energy)
__CPROVER_ensures(self->t->energy == quantity)
;

/* ---- PhysicsStepView ---- */
/* deposit_energy(e): own EXPECT e >= 0; deposition += e   [enforced: c01_psv_deposit_energy] */
void PSV_deposit_energy(PhysicsStepView* self, real_type energy)
__CPROVER_requires(VIEW_OK(self))
__CPROVER_requires(energy >= 0)
__CPROVER_assigns(self->t->energy_deposition)
__CPROVER_ensures(self->t->energy_deposition == __CPROVER_old(self->t->energy_deposition) + energy)
;

/* ---- SimTrackView ---- */
static int STV_status(SimTrackView const* self) { return self->t->status; }
static real_type STV_step_length(SimTrackView const* self) { return self->t->step_length; }
static ActionId STV_post_step_action(SimTrackView const* self) { return self->t->post_step_action; }
/* status(s): own EXPECT s != TrackStatus::size_   [enforced: c05_stv_status_set] */
void STV_status_set(SimTrackView* self, int status)
__CPROVER_requires(VIEW_OK(self))
__CPROVER_requires(status >= 0 && status < 5)
__CPROVER_assigns(self->t->status)
__CPROVER_ensures(self->t->status == status)
;
/* post_step_action(a): own CELER_ASSERT(a)   [enforced: c05_stv_post_step_action_set] */
void STV_post_step_action_set(SimTrackView* self, ActionId action)
__CPROVER_requires(VIEW_OK(self))
__CPROVER_requires(action != INVALID_ID)
__CPROVER_assigns(self->t->post_step_action)
__CPROVER_ensures(self->t->post_step_action == action)
;

/* ---- PhysicsTrackView ---- */
static bool PHV_has_at_rest(PhysicsTrackView const* self) { return self->t->has_at_rest; }
static size_type PHV_eloss_ppid(PhysicsTrackView const* self) { return self->t->eloss_ppid; }
static real_type PHV_dedx_range(PhysicsTrackView const* self) { return self->t->dedx_range; }
static PhysicsParamsScalars PHV_scalars(PhysicsTrackView const* self)
{
    PhysicsParamsScalars s = {self->t->lowest_electron_energy, self->t->linear_loss_limit, self->t->range_action, self->t->discrete_action, self->t->failure_action};
    return s;
}
#define SCAL_range_action(s) ((s).range_action_)
#define SCAL_discrete_action(s) ((s).discrete_action_)
#define SCAL_failure_action(s) ((s).failure_action_)

#endif
