/* Scalar bindings shared by the C prelude and replay/bindings.cc (which static_asserts them against the real types). */
#ifndef VERIF_CELER_TYPES_H
#define VERIF_CELER_TYPES_H
typedef unsigned long size_type;         /* celeritas::size_type == std::size_t on the host (non-device) build */
typedef double real_type;                /* celeritas::real_type */
typedef unsigned long long ull_int;      /* celeritas::ull_int */
#endif
