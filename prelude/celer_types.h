/* Scalar bindings shared by the C prelude and replay/bindings.cc (which static_asserts them against the real types). */
#ifndef VERIF_CELER_TYPES_H
#define VERIF_CELER_TYPES_H
typedef unsigned long size_type;         /* celeritas::size_type == std::size_t on the host (non-device) build */
#if defined(VERIF_REAL_BITS)
/* exact small-integer abstraction of real_type: N-bit signed values (arithmetic is carried out in int after the usual promotions) */
typedef signed __CPROVER_bitvector[VERIF_REAL_BITS] real_type;
#define __CPROVER_isinfd(x) 0
#define __CPROVER_isnand(x) 0
#elif defined(VERIF_REAL_AS_INT)
/* exact-integer abstraction of real_type (labelled in the unit): sums are exact and associative, no rounding */
typedef long real_type;
#define __CPROVER_isinfd(x) 0
#define __CPROVER_isnand(x) 0
#else
typedef double real_type;                /* celeritas::real_type */
#endif
typedef unsigned long long ull_int;      /* celeritas::ull_int */
#endif
