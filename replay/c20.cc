// Native battery for C20 on the REAL code.
//   c20 scint_energy_battery : ScintillationGenerator for one material whose single component has a broad emission spectrum
//                              (lambda_sigma = lambda_mean / 4, accepted by ScintRecord::operator bool and by the importer),
//                              sampled with std::mt19937: every photon energy must be finite and positive
#include <cmath>
#include <cstdio>
#include <random>
#include <string>

#include <vector>

#include "corecel/data/CollectionBuilder.hh"
#include "corecel/math/ArrayOperators.hh"
#include "corecel/math/ArrayUtils.hh"
#include "celeritas/grid/GenericGridData.hh"
#include "celeritas/optical/CerenkovData.hh"
#include "celeritas/optical/CerenkovGenerator.hh"
#include "celeritas/optical/MaterialData.hh"
#include "celeritas/optical/MaterialView.hh"
#include "celeritas/optical/ScintillationData.hh"
#include "celeritas/optical/ScintillationGenerator.hh"
#include "native_stubs.hh"

using namespace celeritas;
using namespace celeritas::optical;

//   c20 photon_battery       : Cerenkov and scintillation photons for three parent steps (straight; curved: path length 1 > chord 0.8;
//                              pre- and post-step speed equal) sampled with std::mt19937: finite positive energy (Cerenkov: inside the table),
//                              unit direction / polarisation, perpendicular, Cerenkov cone about the chord direction, position on the segment
//                              [pre, post], finite time >= pre-step time
static int photon_battery()
{
    std::vector<real_type> const energy = {2.0e-6, 3.0e-6, 4.0e-6};
    std::vector<real_type> const rindex = {1.33, 1.34, 1.36};
    HostVal<MaterialParamsData> mat_host;
    {
        auto reals = make_builder(&mat_host.reals);
        GenericGridRecord rec;
        rec.grid = reals.insert_back(energy.begin(), energy.end());
        rec.value = reals.insert_back(rindex.begin(), rindex.end());
        make_builder(&mat_host.refractive_index).push_back(rec);
        make_builder(&mat_host.optical_id).push_back(OpticalMaterialId{0});
    }
    HostCRef<MaterialParamsData> mat_ref;
    mat_ref = mat_host;
    HostVal<CerenkovData> cer_host;
    {
        std::vector<real_type> integral(energy.size(), 0);
        for (std::size_t i = 1; i < energy.size(); ++i)
            integral[i] = integral[i - 1] + 0.5 * (energy[i] - energy[i - 1]) * (1 / (rindex[i - 1] * rindex[i - 1]) + 1 / (rindex[i] * rindex[i]));
        auto reals = make_builder(&cer_host.reals);
        GenericGridRecord rec;
        rec.grid = reals.insert_back(energy.begin(), energy.end());
        rec.value = reals.insert_back(integral.begin(), integral.end());
        make_builder(&cer_host.angle_integral).push_back(rec);
    }
    HostCRef<CerenkovData> cer_ref;
    cer_ref = cer_host;
    MaterialView material{mat_ref, OpticalMaterialId{0}};

    HostVal<ScintillationData> data;
    make_builder(&data.resolution_scale).push_back(1);
    ScintRecord comp;
    comp.lambda_mean = 4e-5; comp.lambda_sigma = 1e-6; comp.rise_time = 1e-9; comp.fall_time = 5e-9;
    auto comps = make_builder(&data.scint_records).insert_back(&comp, &comp + 1);
    real_type one = 1;
    auto pdf = make_builder(&data.reals).insert_back(&one, &one + 1);
    MatScintSpectrumRecord mat;
    mat.yield_per_energy = 1000; mat.yield_pdf = pdf; mat.components = comps;
    make_builder(&data.materials).push_back(mat);
    HostCRef<ScintillationData> sref;
    sref = data;

    struct Step { char const* name; double len; Real3 pre, post; double vpre, vpost; };
    Step const steps[] = {
        {"straight step", 1.0, {1, 2, 3}, {1.6, 2, 3.8}, 0.99, 0.98},
        {"curved step (path length 1, chord 0.8)", 1.0, {1, 2, 3}, {1.48, 2, 3.64}, 0.99, 0.98},
        {"step without speed change", 1.0, {1, 2, 3}, {1.6, 2, 3.8}, 0.99, 0.99},
    };
    int bad = 0;
    double const tol = 1e-6;
    for (Step const& st : steps)
    {
        GeneratorDistributionData dist;
        dist.num_photons = 2000; dist.time = 1e-9; dist.step_length = st.len; dist.charge = units::ElementaryCharge{-1}; dist.material = OpticalMaterialId{0};
        dist.points[StepPoint::pre].speed = units::LightSpeed{st.vpre}; dist.points[StepPoint::pre].pos = st.pre;
        dist.points[StepPoint::post].speed = units::LightSpeed{st.vpost}; dist.points[StepPoint::post].pos = st.post;
        Real3 const chord = st.post - st.pre;
        Real3 const pdir = make_unit_vector(chord);
        double const chord_len = norm(chord);
        double const inv_beta = 2 / (st.vpre + st.vpost);
        GenericCalculator calc_n = material.make_refractive_index_calculator();
        for (int kind = 0; kind < 2; ++kind)
        {
            std::mt19937 rng(2024);
            CerenkovGenerator gen_c(material, cer_ref, dist);
            ScintillationGenerator gen_s(sref, dist);
            for (unsigned i = 0; i < dist.num_photons; ++i)
            {
                TrackInitializer p = kind == 0 ? gen_c(rng) : gen_s(rng);
                double e = p.energy.value();
                bool ok = std::isfinite(e) && e > 0;
                if (kind == 0) ok = ok && e >= energy.front() && e <= energy.back();
                ok = ok && std::fabs(norm(p.direction) - 1) < tol && std::fabs(norm(p.polarization) - 1) < tol && std::fabs(dot_product(p.direction, p.polarization)) < tol;
                if (kind == 0) ok = ok && std::fabs(dot_product(p.direction, pdir) - inv_beta / calc_n(e)) < tol;
                Real3 rel = p.position - st.pre;
                double t = dot_product(rel, pdir);
                Real3 perp = rel; axpy(-t, pdir, &perp);
                ok = ok && t >= -tol && t <= chord_len + tol && norm(perp) < tol;
                ok = ok && std::isfinite(p.time) && p.time >= dist.time;
                if (!ok)
                {
                    if (bad < 3)
                        std::printf("REPRODUCED %s photon %u of the %s (std::mt19937(2024)): E=%g |dir|=%.9f |pol|=%.9f dir.pol=%.3e cos(dir,parent)=%.9f [1/(n beta)=%.9f] along-step=%.9f of chord %.9f off-axis=%.3e time=%g (pre-step %g)\n",
                                    kind == 0 ? "Cerenkov" : "scintillation", i, st.name, e, norm(p.direction), norm(p.polarization), dot_product(p.direction, p.polarization),
                                    dot_product(p.direction, pdir), kind == 0 ? inv_beta / calc_n(e) : 0.0, t, chord_len, norm(perp), (double)p.time, (double)dist.time);
                    ++bad;
                }
            }
        }
    }
    if (bad) { std::printf("photon_battery: %d invalid photons\n", bad); return 1; }
    std::printf("ok photon_battery: 12000 photons valid\n");
    return 0;
}

int main(int argc, char** argv)
{
    if (argc >= 2 && std::string(argv[1]) == "photon_battery") return photon_battery();
    if (argc < 2 || std::string(argv[1]) != "scint_energy_battery") return 2;
    HostVal<ScintillationData> data;
    make_builder(&data.resolution_scale).push_back(1);
    ScintRecord comp;
    comp.lambda_mean = 4e-5;   // 400 nm [cm]
    comp.lambda_sigma = 1e-5;  // 100 nm
    comp.rise_time = 0;
    comp.fall_time = 1e-9;
    auto comps = make_builder(&data.scint_records).insert_back(&comp, &comp + 1);
    real_type one = 1;
    auto pdf = make_builder(&data.reals).insert_back(&one, &one + 1);
    MatScintSpectrumRecord mat;
    mat.yield_per_energy = 1000;
    mat.yield_pdf = pdf;
    mat.components = comps;
    make_builder(&data.materials).push_back(mat);
    HostCRef<ScintillationData> ref;
    ref = data;
    if (!ref || !mat || !comp) { std::printf("battery set-up invalid\n"); return 2; }

    GeneratorDistributionData dist;
    dist.num_photons = 1;
    dist.time = 0;
    dist.step_length = 1;
    dist.charge = units::ElementaryCharge{-1};
    dist.material = OpticalMaterialId{0};
    dist.points[StepPoint::pre].speed = units::LightSpeed(0.9);
    dist.points[StepPoint::pre].pos = {0, 0, 0};
    dist.points[StepPoint::post].speed = units::LightSpeed(0.8);
    dist.points[StepPoint::post].pos = {0, 0, 1};

    std::mt19937 rng(12345);
    ScintillationGenerator generate(ref, dist);
    for (unsigned long i = 1; i <= 20000000ul; ++i)
    {
        TrackInitializer p = generate(rng);
        double e = p.energy.value();
        if (!(e > 0) || !std::isfinite(e))
        {
            std::printf("REPRODUCED ScintillationGenerator (lambda_mean 4e-5, lambda_sigma 1e-5) with std::mt19937(12345): photon %lu has energy %g MeV (wavelength sampled <= 0)\n", i, e);
            return 1;
        }
    }
    std::printf("ok scint_energy_battery: 20000000 photons, all energies finite and positive\n");
    return 0;
}
