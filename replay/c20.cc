// Native battery for C20 on the REAL code.
//   c20 scint_energy_battery : ScintillationGenerator for one material whose single component has a broad emission spectrum
//                              (lambda_sigma = lambda_mean / 4, accepted by ScintRecord::operator bool and by the importer),
//                              sampled with std::mt19937: every photon energy must be finite and positive
#include <cmath>
#include <cstdio>
#include <random>
#include <string>

#include "corecel/data/CollectionBuilder.hh"
#include "celeritas/optical/ScintillationData.hh"
#include "celeritas/optical/ScintillationGenerator.hh"
#include "native_stubs.hh"

using namespace celeritas;
using namespace celeritas::optical;

int main(int argc, char** argv)
{
    if (argc < 2 || std::string(argv[1]) != "scint_energy_battery") return 2;
    HostVal<ScintillationData> data;
    make_builder(&data.resolution_scale).push_back(1);
    ScintRecord comp;
    comp.lambda_mean = 4e-5;   // 400 nm [cm]
    comp.lambda_sigma = 1e-5;  // 100 nm
    comp.rise_time = 0;
    comp.fall_time = 1e-9;
    auto comps = make_builder(&data.scint_records).insert_back(&comp, &comp + 1);
    real_type one = 1;
    auto pdf = make_builder(&data.reals).insert_back(&one, &one + 1);
    MatScintSpectrumRecord mat;
    mat.yield_per_energy = 1000;
    mat.yield_pdf = pdf;
    mat.components = comps;
    make_builder(&data.materials).push_back(mat);
    HostCRef<ScintillationData> ref;
    ref = data;
    if (!ref || !mat || !comp) { std::printf("battery set-up invalid\n"); return 2; }

    GeneratorDistributionData dist;
    dist.num_photons = 1;
    dist.time = 0;
    dist.step_length = 1;
    dist.charge = units::ElementaryCharge{-1};
    dist.material = OpticalMaterialId{0};
    dist.points[StepPoint::pre].speed = units::LightSpeed(0.9);
    dist.points[StepPoint::pre].pos = {0, 0, 0};
    dist.points[StepPoint::post].speed = units::LightSpeed(0.8);
    dist.points[StepPoint::post].pos = {0, 0, 1};

    std::mt19937 rng(12345);
    ScintillationGenerator generate(ref, dist);
    for (unsigned long i = 1; i <= 20000000ul; ++i)
    {
        TrackInitializer p = generate(rng);
        double e = p.energy.value();
        if (!(e > 0) || !std::isfinite(e))
        {
            std::printf("REPRODUCED ScintillationGenerator (lambda_mean 4e-5, lambda_sigma 1e-5) with std::mt19937(12345): photon %lu has energy %g MeV (wavelength sampled <= 0)\n", i, e);
            return 1;
        }
    }
    std::printf("ok scint_energy_battery: 20000000 photons, all energies finite and positive\n");
    return 0;
}
