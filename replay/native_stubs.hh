// Minimal definitions of out-of-line corecel symbols that header code references
// on error paths only (so the native replay harnesses link without libcorecel).
#pragma once
#include <cstdio>
#include <cstdlib>
#include <string>
#include "corecel/Assert.hh"
#include "corecel/sys/Device.hh"
namespace celeritas
{
char const RuntimeError::validate_err_str[] = "runtime";
char const RuntimeError::not_config_err_str[] = "configuration";
char const RuntimeError::not_impl_err_str[] = "implementation";
RuntimeError::RuntimeError(RuntimeErrorDetails&& d) : std::runtime_error(d.what), details_(std::move(d)) {}
void Device::StreamStorageDeleter::operator()(detail::StreamStorage*) noexcept {}
Device const& device() { static Device const d; return d; }  // no device in the replay build
DebugError::DebugError(DebugErrorDetails&& d) : std::logic_error(d.condition), details_(std::move(d)) {}
}  // namespace celeritas
