// Static binding check: every C type/constant binding used by the extracted C
// text is tied to the real C++ definitions here.  Compiled (not run) by
// bin/check before any unit; a failure is exit 2 (binding drift), never a violation.
#include <cstddef>
#include <cstdint>
#include <type_traits>

#include "corecel/Types.hh"
#include "corecel/OpaqueId.hh"
#include "corecel/cont/Array.hh"
#include "corecel/grid/UniformGridData.hh"
#include "corecel/data/StackAllocatorData.hh"
#include "corecel/sys/ThreadId.hh"
#include "celeritas/Types.hh"
#include "celeritas/phys/Secondary.hh"
#include "celeritas/random/XorwowRngData.hh"
#include "celeritas/random/RngParamsFwd.hh"
#include "orange/OrangeTypes.hh"

extern "C" {
#define VERIF_BINDINGS_ONLY
namespace cbind
{
#include "celer_types.h"
}
}

using namespace celeritas;

// ---- scalar bindings (prelude/celer_types.h) ----
static_assert(std::is_same_v<celeritas::size_type, cbind::size_type>, "size_type binding");
static_assert(std::is_same_v<celeritas::real_type, cbind::real_type>, "real_type binding");
static_assert(std::is_same_v<celeritas::ull_int, cbind::ull_int>, "ull_int binding");
static_assert(sizeof(celeritas::size_type) == 8, "size_type is 64-bit on this (host) build");
static_assert(std::is_same_v<TrackSlotId::size_type, celeritas::size_type>);
static_assert(std::is_same_v<ThreadId::size_type, celeritas::size_type>);
static_assert(TrackSlotId{}.unchecked_get() == static_cast<celeritas::size_type>(-1), "invalid OpaqueId = all ones");
static_assert(sizeof(UniqueEventId::size_type) == 8);
static_assert(CELERITAS_DEBUG == 0, "CELER_EXPECT/ASSERT/ENSURE are compiled out in the shipped build");
static_assert(CELERITAS_CORE_RNG == CELERITAS_CORE_RNG_XORWOW, "RngEngine is XorwowRngEngine");
static_assert(CELERITAS_OPENMP != CELERITAS_OPENMP_TRACK, "omp pragmas inside kernels are compiled out");

// ---- xorwow (prelude/xorwow.h) ----
static_assert(std::is_same_v<XorwowUInt, std::uint32_t>);
static_assert(sizeof(XorwowState) == 6 * 4 && offsetof(XorwowState, weylstate) == 20);
static_assert(XorwowRngParamsData<Ownership::value, MemSpace::host>::num_words() == 5);
static_assert(XorwowRngParamsData<Ownership::value, MemSpace::host>::num_bits() == 32);
static_assert(sizeof(XorwowRngParamsData<Ownership::value, MemSpace::host>::JumpPoly) == 20);
static_assert(sizeof(XorwowRngParamsData<Ownership::value, MemSpace::host>::ArrayJumpPoly) == 32 * 20);
static_assert(XorwowRngParamsData<Ownership::value, MemSpace::host>::ArrayJumpPoly{}.size() == 32);
static_assert(XorwowRngInitializer{}.seed[0] == 0 && XorwowRngInitializer{}.subsequence == 0 && XorwowRngInitializer{}.offset == 0, "default Initializer");

// ---- grid ----
static_assert(sizeof(UniformGridData) == 8 + 3 * 8 && offsetof(UniformGridData, delta) == 24);

// ---- track status ----
static_assert(static_cast<int>(TrackStatus::inactive) == 0 && static_cast<int>(TrackStatus::initializing) == 1 && static_cast<int>(TrackStatus::alive) == 2
              && static_cast<int>(TrackStatus::errored) == 3 && static_cast<int>(TrackStatus::killed) == 4 && static_cast<int>(TrackStatus::size_) == 5);

// ---- logic ----
static_assert(std::is_same_v<logic_int, celeritas::size_type>);
static_assert(std::is_same_v<std::underlying_type_t<Sense>, bool>);

// ---- secondary (StackAllocator<T> binding) ----
static_assert(std::is_trivially_copyable_v<Secondary>);
static_assert(!Secondary{}.particle_id, "default Secondary has an invalid particle id");
static_assert(Secondary{}.energy.value() == 0);

int main() { return 0; }
