// Native battery for C15 on the REAL code.
//   c15 poisson_battery : PoissonDistribution in the Gaussian regime (lambda just above the direct-method threshold) sampled with std::mt19937:
//                         every count must be a plausible non-negative integer (a normal deviate below -1/2 must not wrap to ~4e9)
#include <cstdio>
#include <random>
#include <string>

#include "celeritas/random/distribution/PoissonDistribution.hh"
#include "native_stubs.hh"

using namespace celeritas;

int main(int argc, char** argv)
{
    if (argc < 2 || std::string(argv[1]) != "poisson_battery") return 2;
    int bad = 0;
    for (double lambda : {16.5, 17.0, 20.0})
    {
        std::mt19937 rng(12345);
        PoissonDistribution<double> sample(lambda);
        unsigned long n = 0;
        for (unsigned long i = 0; i < 20000000ul && !bad; ++i)
        {
            unsigned int k = sample(rng);
            ++n;
            if (k > 100000u)
            {
                std::printf("REPRODUCED PoissonDistribution<double>(%g) with std::mt19937(12345): draw %lu returned %u (a negative normal deviate converted to unsigned)\n", lambda, n, k);
                bad = 1;
            }
        }
    }
    if (!bad) std::printf("ok poisson_battery: all sampled counts are small non-negative integers\n");
    return bad;
}
