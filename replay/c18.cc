// Native replay for C18/C14 grid units on the REAL headers of /repo.
//   c18 ugrid_find <front> <back> <size> <value>   (doubles as 64-char binary strings or decimal)
//       -> exit 1 if UniformGrid(from_bounds(front,back,size)).find(value) + 1 >= size  (value in [front, back))
//   c18 ugrid_search  -> directed search over typical grids, value = nextafter(back, front) and one ulp around every knot
#include <cmath>
#include <cstdio>
#include <cstdlib>
#include <cstring>
#include <string>

#include <algorithm>
#include <functional>
#include <vector>

#include "corecel/grid/UniformGrid.hh"
#include "corecel/math/Algorithms.hh"
#include "corecel/grid/UniformGridData.hh"
#include "native_stubs.hh"

using namespace celeritas;

static double parse_d(char const* s)
{
    if (std::strlen(s) == 64 && std::strspn(s, "01") == 64)
    {
        unsigned long long u = 0;
        for (int i = 0; i < 64; ++i) u = (u << 1) | (s[i] == '1');
        double d;
        std::memcpy(&d, &u, 8);
        return d;
    }
    return std::strtod(s, nullptr);
}

static int check(double front, double back, unsigned size, double value, bool verbose)
{
    if (!(size >= 2 && front < back)) return 0;
    UniformGridData data = UniformGridData::from_bounds(front, back, size);
    if (!data) return 0;  // spacing underflowed: outside the stated precondition
    if (!(value >= front && value < back)) return 0;
    UniformGrid grid(data);
    size_type bin = grid.find(value);
    bool bad = !(bin + 1 < size);
    if (bad || verbose)
        std::printf("%s UniformGrid(from_bounds(%.17g, %.17g, %u)).find(%.17g) = %u%s\n", bad ? "REPRODUCED" : "ok", front, back, size, value, bin,
                    bad ? "  (bin + 1 >= size: callers read grid point [bin+1] out of range)" : "");
    return bad;
}

int main(int argc, char** argv)
{
    if (argc < 2) return 2;
    std::string mode = argv[1];
    if (mode == "ugrid_find" && argc == 6)
        return check(parse_d(argv[2]), parse_d(argv[3]), static_cast<unsigned>(std::strtoul(argv[4], nullptr, 0)), parse_d(argv[5]), true);
    if (mode == "ugrid_search")
    {
        double fronts[] = {0.0, std::log(1e-4), -1.0, 1.0, 1e-3};
        double backs[] = {1.0, std::log(1e8), 1.0, 2.0, 1e3};
        for (int g = 0; g < 5; ++g)
            for (unsigned n = 2; n < 300; ++n)
            {
                double f = fronts[g], b = backs[g];
                if (check(f, b, n, std::nextafter(b, f), false)) return 1;
                UniformGridData d = UniformGridData::from_bounds(f, b, n);
                for (unsigned i = 1; i + 1 < n; ++i)
                {
                    double knot = d.front + d.delta * i;
                    for (double v : {std::nextafter(knot, f), knot, std::nextafter(knot, b)})
                        if (v >= f && v < b && check(f, b, n, v, false)) return 1;
                }
            }
        std::printf("ok ugrid_search: no failing input\n");
        return 0;
    }
    if (mode == "algo_battery")
    {
        // every sequence of length <= 6 over {0,1,2,3}: celeritas algorithms vs the standard library
        int bad = 0;
        for (int len = 0; len <= 6 && !bad; ++len)
        {
            long total = 1;
            for (int i = 0; i < len; ++i) total *= 4;
            for (long code = 0; code < total && !bad; ++code)
            {
                std::vector<unsigned> v(len);
                long c = code;
                for (int i = 0; i < len; ++i) { v[i] = c % 4; c /= 4; }
                auto show = [&](char const* what) {
                    std::printf("REPRODUCED %s differs from the standard library on {", what);
                    for (auto x : v) std::printf("%u ", x);
                    std::printf("}\n");
                    bad = 1;
                };
                if ((celeritas::min_element(v.begin(), v.end()) - v.begin()) != (std::min_element(v.begin(), v.end()) - v.begin())) show("min_element");
                {
                    auto a = v, b = v;
                    celeritas::sort(a.begin(), a.end());
                    std::sort(b.begin(), b.end());
                    if (a != b) show("sort");
                    for (unsigned q = 0; q < 5 && !bad; ++q)
                    {
                        if ((celeritas::lower_bound(b.begin(), b.end(), q) - b.begin()) != (std::lower_bound(b.begin(), b.end(), q) - b.begin())) show("lower_bound");
                        if ((celeritas::upper_bound(b.begin(), b.end(), q) - b.begin()) != (std::upper_bound(b.begin(), b.end(), q) - b.begin())) show("upper_bound");
                        if ((celeritas::lower_bound_linear(b.begin(), b.end(), q) - b.begin()) != (std::lower_bound(b.begin(), b.end(), q) - b.begin())) show("lower_bound_linear");
                    }
                }
                for (unsigned mask = 0; mask < 16 && !bad; ++mask)
                {
                    auto a = v;
                    auto pred = [mask](unsigned x) { return ((mask >> x) & 1u) != 0; };
                    auto it = celeritas::partition(a.begin(), a.end(), pred);
                    bool ok = std::is_partitioned(a.begin(), a.end(), pred) && std::partition_point(a.begin(), a.end(), pred) == it;
                    auto s1 = a, s2 = v;
                    std::sort(s1.begin(), s1.end());
                    std::sort(s2.begin(), s2.end());
                    if (!ok || s1 != s2) show("partition");
                }
            }
        }
        // integer helpers against 128-bit exact arithmetic at boundary operands
        unsigned long long tops[] = {0ull, 1ull, 31ull, 32ull, 33ull, 0xfffffffeull, 0xffffffffull, 0x100000000ull, 0xfffffffffffffffeull, 0xffffffffffffffffull};
        unsigned long long bots[] = {1ull, 2ull, 7ull, 32ull, 256ull, 0xffffffffull, 0x100000000ull, 0xffffffffffffffffull};
        for (auto t : tops)
            for (auto b : bots)
            {
                unsigned __int128 exact = ((unsigned __int128)t + b - 1) / b;
                if (celeritas::ceil_div<unsigned long long>(t, b) != (unsigned long long)exact)
                {
                    std::printf("REPRODUCED ceil_div<u64>(%llu, %llu) = %llu, exact %llu\n", t, b, celeritas::ceil_div<unsigned long long>(t, b), (unsigned long long)exact);
                    bad = 1;
                }
                if (t <= 0xffffffffull && b <= 0xffffffffull)
                {
                    unsigned long long e32 = ((unsigned long long)t + b - 1) / b;
                    if (celeritas::ceil_div<unsigned>(t, b) != (unsigned)e32)
                    {
                        std::printf("REPRODUCED ceil_div<u32>(%llu, %llu) = %u, exact %llu\n", t, b, celeritas::ceil_div<unsigned>(t, b), e32);
                        bad = 1;
                    }
                }
            }
        if (!bad) std::printf("ok algo_battery: no mismatch\n");
        return bad;
    }
    return 2;
}
