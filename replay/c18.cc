// Native replay for C18/C14 grid units on the REAL headers of /repo.
//   c18 ugrid_find <front> <back> <size> <value>   (doubles as 64-char binary strings or decimal)
//       -> exit 1 if UniformGrid(from_bounds(front,back,size)).find(value) + 1 >= size  (value in [front, back))
//   c18 ugrid_search  -> directed search over typical grids, value = nextafter(back, front) and one ulp around every knot
#include <cmath>
#include <cstdio>
#include <cstdlib>
#include <cstring>
#include <string>

#include "corecel/grid/UniformGrid.hh"
#include "corecel/grid/UniformGridData.hh"
#include "native_stubs.hh"

using namespace celeritas;

static double parse_d(char const* s)
{
    if (std::strlen(s) == 64 && std::strspn(s, "01") == 64)
    {
        unsigned long long u = 0;
        for (int i = 0; i < 64; ++i) u = (u << 1) | (s[i] == '1');
        double d;
        std::memcpy(&d, &u, 8);
        return d;
    }
    return std::strtod(s, nullptr);
}

static int check(double front, double back, unsigned size, double value, bool verbose)
{
    if (!(size >= 2 && front < back)) return 0;
    UniformGridData data = UniformGridData::from_bounds(front, back, size);
    if (!data) return 0;  // spacing underflowed: outside the stated precondition
    if (!(value >= front && value < back)) return 0;
    UniformGrid grid(data);
    size_type bin = grid.find(value);
    bool bad = !(bin + 1 < size);
    if (bad || verbose)
        std::printf("%s UniformGrid(from_bounds(%.17g, %.17g, %u)).find(%.17g) = %u%s\n", bad ? "REPRODUCED" : "ok", front, back, size, value, bin,
                    bad ? "  (bin + 1 >= size: callers read grid point [bin+1] out of range)" : "");
    return bad;
}

int main(int argc, char** argv)
{
    if (argc < 2) return 2;
    std::string mode = argv[1];
    if (mode == "ugrid_find" && argc == 6)
        return check(parse_d(argv[2]), parse_d(argv[3]), static_cast<unsigned>(std::strtoul(argv[4], nullptr, 0)), parse_d(argv[5]), true);
    if (mode == "ugrid_search")
    {
        double fronts[] = {0.0, std::log(1e-4), -1.0, 1.0, 1e-3};
        double backs[] = {1.0, std::log(1e8), 1.0, 2.0, 1e3};
        for (int g = 0; g < 5; ++g)
            for (unsigned n = 2; n < 300; ++n)
            {
                double f = fronts[g], b = backs[g];
                if (check(f, b, n, std::nextafter(b, f), false)) return 1;
                UniformGridData d = UniformGridData::from_bounds(f, b, n);
                for (unsigned i = 1; i + 1 < n; ++i)
                {
                    double knot = d.front + d.delta * i;
                    for (double v : {std::nextafter(knot, f), knot, std::nextafter(knot, b)})
                        if (v >= f && v < b && check(f, b, n, v, false)) return 1;
                }
            }
        std::printf("ok ugrid_search: no failing input\n");
        return 0;
    }
    return 2;
}
