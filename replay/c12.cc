// Native battery for C12 on the REAL code: translated surfaces keep their point set.
//   c12 translate_sq_battery : for simple quadrics with integer coefficients (exact in double), f'(x + t) == f(x)
//   c12 quadratic_battery    : every distance QuadraticSolver reports is > 0 (or +inf), on a grid of coefficients incl. zeros
//   c12 quadratic_along <half_b bits> <c bits> : one call of solve_along_surface with the verifier's inputs
#include <cstdio>
#include <cstdlib>
#include <string>

#include "orange/surf/SimpleQuadric.hh"
#include "orange/surf/Sphere.hh"
#include "orange/transform/Translation.hh"
#include "orange/surf/detail/SurfaceTranslator.hh"
#include "orange/surf/detail/QuadraticSolver.hh"
#include <cstring>
#include <cstdint>
// the real implementation files, compiled from /repo's current text
#include "orange/surf/detail/SurfaceTranslator.cc"
#include "orange/surf/ConeAligned.cc"
#include "orange/surf/CylAligned.cc"
#include "orange/surf/Sphere.cc"
#include "orange/surf/Involute.cc"
#include "orange/surf/Plane.cc"
#include "orange/surf/PlaneAligned.cc"
#include "orange/surf/SimpleQuadric.cc"
#include "orange/surf/GeneralQuadric.cc"
#include "native_stubs.hh"

using namespace celeritas;

static double eval(SimpleQuadric const& s, Real3 const& x)
{
    double v = s.zeroth();
    for (int i = 0; i < 3; ++i) v += s.second()[i] * x[i] * x[i] + s.first()[i] * x[i];
    return v;
}

static double from_bits(char const* b)
{
    std::uint64_t u = 0;
    for (char const* p = b; *p; ++p) u = (u << 1) | std::uint64_t(*p == '1');
    double d;
    std::memcpy(&d, &u, sizeof d);
    return d;
}

static int check_dist(char const* what, double a, double hb, double c, double d)
{
    if (d > 0) return 0;   // positive or +inf
    std::printf("REPRODUCED %s(a=%g, half_b=%g, c=%g) reports intersection distance %g (not positive)\n", what, a, hb, c, d);
    return 1;
}

static int quadratic_battery()
{
    using detail::QuadraticSolver;
    double const vals[] = {-2, -0.75, -1e-20, -0.0, 0.0, 1e-20, 0.5, 3};
    int bad = 0;
    for (double a : {0.0, 1e-20, 1.0, -1.0}) for (double hb : vals) for (double c : vals) for (SurfaceState s : {SurfaceState::off, SurfaceState::on})
    {
        if (bad) break;
        auto x = QuadraticSolver::solve_general(a, hb, c, s);
        bad |= check_dist(s == SurfaceState::off ? "QuadraticSolver::solve_general[off]" : "QuadraticSolver::solve_general[on]", a, hb, c, x[0]);
        bad |= check_dist(s == SurfaceState::off ? "QuadraticSolver::solve_general[off]" : "QuadraticSolver::solve_general[on]", a, hb, c, x[1]);
    }
    if (!bad) std::printf("ok quadratic_battery: every reported distance is positive\n");
    return bad;
}

int main(int argc, char** argv)
{
    if (argc >= 2 && std::string(argv[1]) == "quadratic_battery") return quadratic_battery();
    if (argc >= 4 && std::string(argv[1]) == "quadratic_along")
    {
        double hb = from_bits(argv[2]), c = from_bits(argv[3]);
        auto x = detail::QuadraticSolver::solve_along_surface(hb, c);
        int bad = check_dist("QuadraticSolver::solve_along_surface", 0, hb, c, x[0]) | check_dist("QuadraticSolver::solve_along_surface", 0, hb, c, x[1]);
        if (!bad) std::printf("not reproduced\n");
        return bad;
    }
    if (argc < 2 || std::string(argv[1]) != "translate_sq_battery") return 2;
    int bad = 0;
    int const vals[] = {-3, -1, 0, 1, 2};
    for (int a : vals) for (int d : vals) for (int g : {-2, 0, 5}) for (int t : {-2, 0, 1, 3}) for (int x : {-1, 0, 2})
    {
        if (bad) break;
        SimpleQuadric sq{Real3{double(a), 1, 2}, Real3{double(d), -1, 3}, double(g)};
        Translation tr{Real3{double(t), 1, -2}};
        detail::SurfaceTranslator translate(tr);
        SimpleQuadric moved = translate(sq);
        Real3 p{double(x), 1, -1};
        Real3 q{p[0] + t, p[1] + 1, p[2] - 2};
        double f0 = eval(sq, p), f1 = eval(moved, q);
        if (f0 != f1)
        {
            std::printf("REPRODUCED SurfaceTranslator(SimpleQuadric{second={%d,1,2}, first={%d,-1,3}, zeroth=%d}) by t={%d,1,-2}: f(x)=%g at x={%d,1,-1} but f'(x+t)=%g\n", a, d, g, t, f0, x, f1);
            bad = 1;
        }
    }
    if (!bad) std::printf("ok translate_sq_battery: f'(x + t) == f(x) on all cases\n");
    return bad;
}
