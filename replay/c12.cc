// Native battery for C12 on the REAL code: translated surfaces keep their point set.
//   c12 translate_sq_battery : for simple quadrics with integer coefficients (exact in double), f'(x + t) == f(x)
#include <cstdio>
#include <cstdlib>
#include <string>

#include "orange/surf/SimpleQuadric.hh"
#include "orange/surf/Sphere.hh"
#include "orange/transform/Translation.hh"
#include "orange/surf/detail/SurfaceTranslator.hh"
// the real implementation files, compiled from /repo's current text
#include "orange/surf/detail/SurfaceTranslator.cc"
#include "orange/surf/ConeAligned.cc"
#include "orange/surf/CylAligned.cc"
#include "orange/surf/Sphere.cc"
#include "orange/surf/Involute.cc"
#include "orange/surf/Plane.cc"
#include "orange/surf/PlaneAligned.cc"
#include "orange/surf/SimpleQuadric.cc"
#include "orange/surf/GeneralQuadric.cc"
#include "native_stubs.hh"

using namespace celeritas;

static double eval(SimpleQuadric const& s, Real3 const& x)
{
    double v = s.zeroth();
    for (int i = 0; i < 3; ++i) v += s.second()[i] * x[i] * x[i] + s.first()[i] * x[i];
    return v;
}

int main(int argc, char** argv)
{
    if (argc < 2 || std::string(argv[1]) != "translate_sq_battery") return 2;
    int bad = 0;
    int const vals[] = {-3, -1, 0, 1, 2};
    for (int a : vals) for (int d : vals) for (int g : {-2, 0, 5}) for (int t : {-2, 0, 1, 3}) for (int x : {-1, 0, 2})
    {
        if (bad) break;
        SimpleQuadric sq{Real3{double(a), 1, 2}, Real3{double(d), -1, 3}, double(g)};
        Translation tr{Real3{double(t), 1, -2}};
        detail::SurfaceTranslator translate(tr);
        SimpleQuadric moved = translate(sq);
        Real3 p{double(x), 1, -1};
        Real3 q{p[0] + t, p[1] + 1, p[2] - 2};
        double f0 = eval(sq, p), f1 = eval(moved, q);
        if (f0 != f1)
        {
            std::printf("REPRODUCED SurfaceTranslator(SimpleQuadric{second={%d,1,2}, first={%d,-1,3}, zeroth=%d}) by t={%d,1,-2}: f(x)=%g at x={%d,1,-1} but f'(x+t)=%g\n", a, d, g, t, f0, x, f1);
            bad = 1;
        }
    }
    if (!bad) std::printf("ok translate_sq_battery: f'(x + t) == f(x) on all cases\n");
    return bad;
}
