// Native replay for C13 on the REAL headers of /repo.
// usage:
//   c13 canon_float <u32>              -> exit 1 if GenerateCanonical32<float> is outside [0,1)
//   c13 canon_double <u32> <u32>       -> exit 1 if GenerateCanonical32<double> is outside [0,1)
//   c13 discard <s0..s4> <weyl> <count>   -> exit 1 if discard(count) != count draws (reference: T^count by matrix powers of the real operator())
//   c13 subseq  <s0..s4> <weyl> <count>   -> exit 1 if discard_subsequence(count) != T^(count*2^67)
//   c13 battery                        -> directed search: powers of four, every base-4 digit position/value, all-ones, on several states
#include <array>
#include <bitset>
#include <cstdio>
#include <cstdlib>
#include <cstring>
#include <memory>
#include <sstream>
#include <string>
#include <vector>
#include "corecel/Assert.hh"
#include "corecel/cont/Array.hh"
#include "corecel/data/Collection.hh"
#define private public
#include "celeritas/random/XorwowRngEngine.hh"
#undef private

#include "celeritas/random/XorwowRngParams.hh"
#include "corecel/data/CollectionBuilder.hh"
// the real tables and params constructor, compiled from /repo's current text
#include "celeritas/random/XorwowRngParams.cc"
#include "native_stubs.hh"

using namespace celeritas;
using Bits = std::bitset<160>;
using Mat = std::array<Bits, 160>;  // column j = image of basis vector j

struct MockGen
{
    using result_type = unsigned int;
    static constexpr result_type min() { return 0u; }
    static constexpr result_type max() { return 0xffffffffu; }
    std::vector<unsigned> v;
    std::size_t i = 0;
    result_type operator()() { return v[i++ % v.size()]; }
};

static Bits to_bits(XorwowState const& s)
{
    Bits b;
    for (int w = 0; w < 5; ++w)
        for (int k = 0; k < 32; ++k)
            b[32 * w + k] = (s.xorstate[w] >> k) & 1u;
    return b;
}
static Bits mapply(Mat const& m, Bits const& x)
{
    Bits r;
    for (int j = 0; j < 160; ++j)
        if (x[j])
            r ^= m[j];
    return r;
}
static Mat mul(Mat const& a, Mat const& b)  // a*b : column j = a * b[j]
{
    Mat r;
    for (int j = 0; j < 160; ++j)
        r[j] = mapply(a, b[j]);
    return r;
}

struct Fixture
{
    std::shared_ptr<XorwowRngParams> params = std::make_shared<XorwowRngParams>(12345);
    HostVal<XorwowRngStateData> state_val;
    HostRef<XorwowRngStateData> state_ref;
    Fixture()
    {
        celeritas::resize(&state_val.state, 1);
        state_ref = state_val;
    }
    XorwowRngEngine engine() { return XorwowRngEngine(params->host_ref(), state_ref, TrackSlotId{0}); }
    XorwowState& st() { return state_ref.state[TrackSlotId{0}]; }
};

static Mat step_matrix(Fixture& f)
{
    // image of each basis vector under one real operator() call (xor part)
    Mat m;
    for (int j = 0; j < 160; ++j)
    {
        XorwowState& s = f.st();
        for (int w = 0; w < 5; ++w) s.xorstate[w] = 0;
        s.xorstate[j / 32] = 1u << (j % 32);
        s.weylstate = 0;
        auto e = f.engine();
        e();
        m[j] = to_bits(f.st());
    }
    return m;
}

// T^(count * 2^shift)
static Mat mat_pow(Mat const& t, unsigned long long count, int shift)
{
    Mat result;
    for (int j = 0; j < 160; ++j) { result[j].reset(); result[j][j] = 1; }
    Mat p = t;
    for (int i = 0; i < shift; ++i) p = mul(p, p);
    while (count)
    {
        if (count & 1) result = mul(p, result);
        p = mul(p, p);
        count >>= 1;
    }
    return result;
}

static int check_skip(Fixture& f, Mat const& t, unsigned const s[5], unsigned weyl, unsigned long long count, bool subseq, bool verbose)
{
    XorwowState& st = f.st();
    for (int w = 0; w < 5; ++w) st.xorstate[w] = s[w];
    st.weylstate = weyl;
    Bits x0 = to_bits(st);
    auto e = f.engine();
    if (subseq) e.discard_subsequence(count); else e.discard(count);
    Bits got = to_bits(f.st());
    Bits want = mapply(mat_pow(t, count, subseq ? 67 : 0), x0);
    unsigned want_weyl = subseq ? weyl : static_cast<unsigned>(weyl + static_cast<unsigned>((static_cast<unsigned __int128>(count) * 362437u) & 0xffffffffu));
    bool bad = (got != want) || (f.st().weylstate != want_weyl);
    if (bad || verbose)
        std::printf("%s %s state={%#x,%#x,%#x,%#x,%#x} weyl=%#x count=%llu : xor %s, weyl %#x vs %#x\n", bad ? "REPRODUCED" : "ok", subseq ? "discard_subsequence" : "discard",
                    s[0], s[1], s[2], s[3], s[4], weyl, count, got == want ? "equal" : "DIFFERS from sequential reference", f.st().weylstate, want_weyl);
    return bad ? 1 : 0;
}

int main(int argc, char** argv)
{
    if (argc < 2) return 2;
    std::string mode = argv[1];
    auto U = [&](int i) { return static_cast<unsigned>(std::strtoull(argv[i], nullptr, 0)); };
    if (mode == "canon_float")
    {
        MockGen g{{U(2)}};
        float r = detail::GenerateCanonical32<float>()(g);
        bool bad = !(r >= 0.0f && r < 1.0f);
        std::printf("%s GenerateCanonical32<float>(draw=%#x) = %.9g\n", bad ? "REPRODUCED" : "ok", U(2), r);
        return bad;
    }
    if (mode == "canon_double")
    {
        MockGen g{{U(2), U(3)}};
        double r = detail::GenerateCanonical32<double>()(g);
        bool bad = !(r >= 0.0 && r < 1.0);
        std::printf("%s GenerateCanonical32<double>(%#x,%#x) = %.17g\n", bad ? "REPRODUCED" : "ok", U(2), U(3), r);
        return bad;
    }
    Fixture f;
    Mat t = step_matrix(f);
    if (mode == "discard" || mode == "subseq")
    {
        unsigned s[5] = {U(2), U(3), U(4), U(5), U(6)};
        return check_skip(f, t, s, U(7), std::strtoull(argv[8], nullptr, 0), mode == "subseq", true);
    }
    if (mode == "battery")
    {
        // sequential ground truth for the matrix itself: T^n via n real draws
        {
            unsigned s0[5] = {1, 2, 3, 4, 5};
            XorwowState& st = f.st();
            for (int w = 0; w < 5; ++w) st.xorstate[w] = s0[w];
            st.weylstate = 7;
            Bits x0 = to_bits(st);
            auto e = f.engine();
            for (int i = 0; i < 1000; ++i) e();
            if (to_bits(f.st()) != mapply(mat_pow(t, 1000, 0), x0)) { std::printf("internal: reference matrix power disagrees with 1000 draws\n"); return 2; }
        }
        unsigned states[3][5] = {{1, 0, 0, 0, 0}, {0x12345678u, 0x9abcdef0u, 0xdeadbeefu, 0x0badcafeu, 0x31415926u}, {0xffffffffu, 0xffffffffu, 0xffffffffu, 0xffffffffu, 0xffffffffu}};
        int bad = 0;
        for (auto& s : states)
            for (int sub = 0; sub < 2 && !bad; ++sub)
            {
                for (int idx = 0; idx < 32 && !bad; ++idx)
                    for (unsigned d = 1; d < 4 && !bad; ++d)
                        bad |= check_skip(f, t, s, 99u, static_cast<unsigned long long>(d) << (2 * idx), sub, false);
                unsigned long long extra[] = {0ull, ~0ull, 0x5555555555555555ull, 0xaaaaaaaaaaaaaaaaull, 0x123456789abcdef0ull};
                for (auto c : extra) if (!bad) bad |= check_skip(f, t, s, 99u, c, sub, false);
            }
        if (!bad) std::printf("ok battery: no mismatch\n");
        return bad;
    }
    return 2;
}
