// Native battery for C04 on the REAL code.
//   c04 eplus_gg_momentum : positron annihilation in flight returns both products, so momentum must be conserved:
//                           p(e+) d_inc == k1 d1 + k2 d2  (relative tolerance 1e-6), sampled with std::mt19937 at several energies
#include <cmath>
#include <cstdio>
#include <random>
#include <string>

#include "corecel/data/Collection.hh"
#include "corecel/data/CollectionBuilder.hh"
#include "corecel/data/StackAllocator.hh"
#include "corecel/data/StackAllocatorData.hh"
#include "celeritas/em/data/EPlusGGData.hh"
#include "celeritas/em/interactor/EPlusGGInteractor.hh"
#include "celeritas/phys/ParticleData.hh"
#include "celeritas/phys/ParticleTrackView.hh"
#include "celeritas/phys/Secondary.hh"
#include "native_stubs.hh"

using namespace celeritas;
using units::MevEnergy;

int main(int argc, char** argv)
{
    if (argc < 2 || std::string(argv[1]) != "eplus_gg_momentum") return 2;
    ParticleId const gamma_id{0};
    ParticleId const positron_id{1};
    constexpr double m = 0.5109989461;

    HostVal<ParticleParamsData> pp;
    make_builder(&pp.mass).push_back(units::MevMass{0});
    make_builder(&pp.mass).push_back(units::MevMass{m});
    make_builder(&pp.charge).push_back(units::ElementaryCharge{0});
    make_builder(&pp.charge).push_back(units::ElementaryCharge{1});
    make_builder(&pp.decay_constant).push_back(0);
    make_builder(&pp.decay_constant).push_back(0);
    make_builder(&pp.matter).push_back(MatterType::particle);
    make_builder(&pp.matter).push_back(MatterType::antiparticle);
    HostCRef<ParticleParamsData> pp_ref;
    pp_ref = pp;
    HostVal<ParticleStateData> ps;
    resize(&ps, pp_ref, 1);
    HostRef<ParticleStateData> ps_ref;
    ps_ref = ps;

    EPlusGGData data;
    data.positron = positron_id;
    data.gamma = gamma_id;
    data.electron_mass = units::MevMass{m};

    constexpr int num_samples = 200;
    int bad = 0;
    std::mt19937 rng(12345);
    for (double T : {0.01, 1.0, 10.0})
    {
        StackAllocatorData<Secondary, Ownership::value, MemSpace::host> sd;
        resize(&sd, num_samples * 2);
        StackAllocatorData<Secondary, Ownership::reference, MemSpace::host> sd_ref;
        sd_ref = sd;
        StackAllocator<Secondary> allocate(sd_ref);

        ParticleTrackView particle(pp_ref, ps_ref, TrackSlotId{0});
        ParticleTrackView::Initializer_t init;
        init.particle_id = positron_id;
        init.energy = MevEnergy{T};
        particle = init;
        Real3 const dir{0, 0, 1};
        double const p = std::sqrt(T * (T + 2 * m));

        EPlusGGInteractor interact(data, particle, dir, allocate);
        for (int i = 0; i < num_samples && !bad; ++i)
        {
            Interaction r = interact(rng);
            if (r.secondaries.size() != 2) { std::printf("unexpected number of secondaries\n"); return 2; }
            double k1 = r.secondaries[0].energy.value(), k2 = r.secondaries[1].energy.value();
            double worst = 0;
            for (int a = 0; a < 3; ++a)
            {
                double lhs = p * dir[a];
                double rhs = k1 * r.secondaries[0].direction[a] + k2 * r.secondaries[1].direction[a];
                worst = std::fmax(worst, std::fabs(lhs - rhs));
            }
            if (worst > 1e-6 * (p + k1 + k2))
            {
                std::printf("REPRODUCED EPlusGGInteractor at T=%g MeV, sample %d: |p(e+) - (k1 d1 + k2 d2)| = %.6g MeV/c (k1=%.6g along (%.4f,%.4f,%.4f), k2=%.6g along (%.4f,%.4f,%.4f)): momentum is not conserved\n",
                            T, i, worst, k1, r.secondaries[0].direction[0], r.secondaries[0].direction[1], r.secondaries[0].direction[2], k2, r.secondaries[1].direction[0], r.secondaries[1].direction[1], r.secondaries[1].direction[2]);
                bad = 1;
            }
        }
    }
    if (!bad) std::printf("ok eplus_gg_momentum: momentum conserved in all samples\n");
    return bad;
}
