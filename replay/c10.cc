// Native battery for C10 (runtime side) on the REAL headers: exit 1 + "REPRODUCED ..." when the real code disagrees
// with a plain reference.   c10 battery
#include <cstdio>
#include <cstdlib>
#include <random>
#include <string>
#include <vector>

#include "orange/OrangeTypes.hh"
#include "orange/univ/detail/InfixEvaluator.hh"
#include "orange/univ/detail/LogicEvaluator.hh"
#include "orange/univ/detail/LogicStack.hh"
#include "native_stubs.hh"

using namespace celeritas;
using celeritas::detail::InfixEvaluator;
using celeritas::detail::LogicEvaluator;
using celeritas::detail::LogicStack;

static int bad = 0;

// ---- LogicStack vs std::vector<bool> on random operation sequences that reach full depth ----
static void stack_battery()
{
    std::mt19937_64 rng(12345);
    for (int trial = 0; trial < 2000 && !bad; ++trial)
    {
        LogicStack s;
        std::vector<bool> ref;
        for (int op = 0; op < 400 && !bad; ++op)
        {
            unsigned r = rng() % 8;
            size_type const maxd = LogicStack::max_stack_depth();
            if ((r < 4 || ref.size() < 2) && ref.size() < maxd) { bool v = rng() & 1; s.push(v); ref.push_back(v); }
            else if (r == 4 && !ref.empty()) { bool a = s.pop(); bool b = ref.back(); ref.pop_back(); if (a != b) { std::printf("REPRODUCED LogicStack::pop returned %d, reference %d (depth %zu)\n", a, b, ref.size() + 1); bad = 1; } }
            else if (r == 5 && !ref.empty()) { s.apply_not(); ref.back() = !ref.back(); }
            else if (r == 6 && ref.size() >= 2) { s.apply_and(); bool t = ref.back(); ref.pop_back(); ref.back() = ref.back() && t; }
            else if (r == 7 && ref.size() >= 2) { s.apply_or(); bool t = ref.back(); ref.pop_back(); ref.back() = ref.back() || t; }
            if (s.size() != ref.size()) { std::printf("REPRODUCED LogicStack size %zu, reference %zu\n", (size_t)s.size(), ref.size()); bad = 1; }
            for (size_type i = 0; i < ref.size() && !bad; ++i)
                if (s[i] != ref[i]) { std::printf("REPRODUCED LogicStack element %zu of %zu is %d, reference %d\n", (size_t)i, ref.size(), (int)s[i], (int)ref[i]); bad = 1; }
        }
    }
}

// ---- random well-formed postfix strings: LogicEvaluator vs array-stack evaluation ----
static void postfix_battery()
{
    std::mt19937_64 rng(777);
    for (int trial = 0; trial < 20000 && !bad; ++trial)
    {
        unsigned nfaces = 1 + rng() % 6;
        std::vector<logic_int> lg;
        std::vector<Sense> senses(nfaces);
        for (auto& s : senses) s = (rng() & 1) ? Sense::outside : Sense::inside;
        unsigned depth = 0, len = 1 + rng() % 120, maxdepth = 1 + rng() % 60;
        std::vector<bool> ref;
        for (unsigned i = 0; i < len || depth != 1; ++i)
        {
            unsigned r = rng() % 6;
            bool must_reduce = (i >= len && depth > 1) || depth >= maxdepth;
            if (!must_reduce && (r < 3 || depth == 0)) { logic_int f = rng() % nfaces; lg.push_back(f); ref.push_back(static_cast<bool>(senses[f])); ++depth; }
            else if (!must_reduce && r == 3) { lg.push_back(logic::ltrue); ref.push_back(true); ++depth; }
            else if (r == 4 && depth >= 1 && !must_reduce) { lg.push_back(logic::lnot); ref.back() = !ref.back(); }
            else if (depth >= 2) { bool isand = rng() & 1; lg.push_back(isand ? logic::land : logic::lor); bool t = ref.back(); ref.pop_back(); ref.back() = isand ? (ref.back() && t) : (ref.back() || t); --depth; }
            else if (i >= len) break;
        }
        if (depth != 1) continue;
        LogicEvaluator eval(make_span(lg));
        bool got = eval(make_span(senses));
        if (got != ref[0]) { std::printf("REPRODUCED LogicEvaluator = %d, reference %d on a postfix string of %zu tokens\n", got, (int)ref[0], lg.size()); bad = 1; }
    }
}

// ---- enumerated infix expressions (generated from random trees): InfixEvaluator vs direct evaluation ----
struct Node { int kind; int face; std::vector<Node> kids; };  // kind 0 face, 1 not-face, 2 true, 3 any, 4 all
static Node gen(std::mt19937_64& rng, int depth)
{
    unsigned r = rng() % 10;
    if (depth == 0 || r < 4) { unsigned k = rng() % 5; return Node{k < 3 ? 0 : (k == 3 ? 1 : 2), int(rng() % 4), {}}; }
    Node n{(rng() & 1) ? 3 : 4, 0, {}};
    unsigned nk = 2 + rng() % 3;
    for (unsigned i = 0; i < nk; ++i) n.kids.push_back(gen(rng, depth - 1));
    return n;
}
static bool eval_tree(Node const& n, bool const* s)
{
    if (n.kind == 0) return s[n.face];
    if (n.kind == 1) return !s[n.face];
    if (n.kind == 2) return true;
    bool acc = (n.kind == 4);
    for (auto const& k : n.kids) acc = (n.kind == 4) ? (acc && eval_tree(k, s)) : (acc || eval_tree(k, s));
    return acc;
}
static void emit(Node const& n, std::vector<logic_int>& out)
{
    if (n.kind == 0) { out.push_back(n.face); return; }
    if (n.kind == 1) { out.push_back(logic::lnot); out.push_back(n.face); return; }
    if (n.kind == 2) { out.push_back(logic::ltrue); return; }
    out.push_back(logic::lopen);
    for (size_t i = 0; i < n.kids.size(); ++i) { if (i) out.push_back(n.kind == 4 ? logic::land : logic::lor); emit(n.kids[i], out); }
    out.push_back(logic::lclose);
}
static void infix_battery()
{
    std::mt19937_64 rng(4242);
    for (int trial = 0; trial < 20000 && !bad; ++trial)
    {
        Node t = gen(rng, 4);
        std::vector<logic_int> lg;
        emit(t, lg);
        for (unsigned m = 0; m < 16 && !bad; ++m)
        {
            bool s[4] = {bool(m & 1), bool(m & 2), bool(m & 4), bool(m & 8)};
            InfixEvaluator eval(make_span(lg));
            bool got = eval([&](FaceId i) { return s[i.get()]; });
            if (got != eval_tree(t, s)) { std::printf("REPRODUCED InfixEvaluator = %d, expression value %d (%zu tokens, senses %u)\n", got, (int)eval_tree(t, s), lg.size(), m); bad = 1; }
        }
    }
}

int main(int argc, char** argv)
{
    stack_battery();
    if (!bad) postfix_battery();
    if (!bad) infix_battery();
    if (!bad) std::printf("ok c10 battery: no mismatch\n");
    return bad;
}
