"""C16: storage exhaustion never corrupts or loses physics (allocator part)."""
from vkit.extract import Rule, LoopContracts
from vkit.runner import Unit

SA = "src/corecel/data/StackAllocator.hh"
AT = "src/corecel/math/Atomics.hh"

HDR = '#include "celer.h"\n'

SA_TYPES = """
/* T = Secondary (celeritas/phys/Secondary.hh): { ParticleId particle_id; MevEnergy energy; Real3 direction; }  (bound in bindings.cc) */
typedef struct { size_type particle_id; real_type energy; real_type direction[3]; } value_type;   /* ParticleId = OpaqueId<Particle_, size_type> */
#define INVALID_ID ((size_type)-1)
/* `new (&x) value_type;` = default-initialisation: ParticleId() -> invalid, MevEnergy value_{} -> 0, Real3 left indeterminate */
static void VT_default_init(value_type* x) { x->particle_id = INVALID_ID; x->energy = 0; }
typedef struct { value_type* ptr; size_type size; } StorageItems;   /* Collection<T, reference, native> */
typedef struct { size_type* ptr; size_type size; } SizeItems;        /* Collection<size_type, reference, native> */
typedef struct { StorageItems storage; SizeItems size; } StackAllocatorData;
typedef struct { StackAllocatorData const* data_; } StackAllocator;  /* holds Data const& */
typedef value_type* result_type;
/* Collection::operator[]: CELER_EXPECT(i < size()) then pointer index */
static value_type* STOR_AT(StackAllocatorData const* d, size_type i) { __CPROVER_assert(i < d->storage.size, "celer_expect: Collection::operator[] i < size (storage)"); return &d->storage.ptr[i]; }
static size_type* SIZE_AT(StackAllocatorData const* d, size_type i) { __CPROVER_assert(i < d->size.size, "celer_expect: Collection::operator[] i < size (size)"); return &d->size.ptr[i]; }
/* StackAllocatorData::operator bool */
#define SAD_VALID(d) ((d)->storage.size != 0 && (d)->size.size != 0)
size_type g_k;              /* ghost witness index into storage */
value_type g_old;           /* ghost: storage[g_k] before the call */
"""

SA_RULES = [
    Rule(r"&data_\.size\[this->size_id\(\)\]", "SIZE_AT(self->data_, 0)", (0, 2), note="Collection[ItemId{0}] address; size_id() == SizeId{0} (bound)"),
    Rule(r"data_\.size\[this->size_id\(\)\]", "(*SIZE_AT(self->data_, 0))", "*", note="Collection[ItemId{0}]; size_id() == SizeId{0} (bound)"),
    Rule(r"data_\.storage\.size\(\)", "self->data_->storage.size", "*", note="Collection::size()"),
    Rule(r"this->capacity\(\)", "SA_capacity(self)", "*", note="member call"),
    Rule(r"new \(&data_\.storage\[StorageId\{([^{}]*)\}\]\) value_type", r"(VT_default_init(STOR_AT(self->data_, \1)), STOR_AT(self->data_, \1))", "*", note="placement new -> default-initialise, yields the address"),
    Rule(r"&data_\.storage\[StorageId\{([^{}]*)\}\]", r"STOR_AT(self->data_, \1)", "*", note="Collection[ItemId] address"),
]


def atomic_add(ctx):
    pc = ctx.func(AT, r"CELER_FORCEINLINE_FUNCTION T atomic_add\(T\* address, T value\)", [
        Rule(r"#if CELER_DEVICE_COMPILE\s*return atomicAdd\(address, value\);\s*#else", "", 1, note="device branch dropped (host build)"),
        Rule(r"#\s*if defined\(_OPENMP\) && CELERITAS_OPENMP == CELERITAS_OPENMP_TRACK\s*#\s*pragma omp atomic capture\s*#\s*endif", "", 1, note="omp atomic pragma dropped: atomics treated sequentially"),
        Rule(r"#endif", "", 1, note="preprocessor"),
        Rule(r"\bT\b", "size_type", "+", note="template parameter bound to size_type"),
    ], name="atomic_add<T>")
    return "static size_type atomic_add(size_type* address, size_type value)\n{" + pc.body + "}\n"


def capacity(ctx):
    pc = ctx.func(SA, r"CELER_FUNCTION auto StackAllocator<T>::capacity\(\) const -> size_type", SA_RULES, name="StackAllocator::capacity")
    return "static size_type SA_capacity(StackAllocator const* self)\n{" + pc.body + "}\n"


ALLOC_LOOP = LoopContracts([
    "    __CPROVER_assigns(i, __CPROVER_object_whole(self->data_->storage.ptr))\n"
    "    __CPROVER_loop_invariant(1 <= i && i <= count)\n"
    "    __CPROVER_loop_invariant((g_k >= start && g_k < start + i) ==> (self->data_->storage.ptr[g_k].particle_id == INVALID_ID && self->data_->storage.ptr[g_k].energy == 0))\n"
    "    __CPROVER_loop_invariant((g_k < self->data_->storage.size && !(g_k >= start && g_k < start + i)) ==> (self->data_->storage.ptr[g_k].particle_id == g_old.particle_id && self->data_->storage.ptr[g_k].energy == g_old.energy && self->data_->storage.ptr[g_k].direction[0] == g_old.direction[0]))\n"
    "    __CPROVER_decreases(count - i)\n"])

VALID_SA = ("self != 0 && self->data_ != 0 && SAD_VALID(self->data_) && self->data_->storage.size <= 65536 && self->data_->size.size == 1 "
            "&& __CPROVER_rw_ok(self->data_->storage.ptr, self->data_->storage.size * sizeof(value_type)) && __CPROVER_rw_ok(self->data_->size.ptr, sizeof(size_type))")


def build_alloc(ctx):
    pc = ctx.func(SA, r"StackAllocator<T>::operator\(\)\(size_type count\) -> result_type", SA_RULES + [ALLOC_LOOP], name="StackAllocator::operator()")
    return (HDR + "#include <stdlib.h>\n" + SA_TYPES + atomic_add(ctx) + capacity(ctx) + """
result_type SA_alloc(StackAllocator* self, size_type count)
__CPROVER_requires(""" + VALID_SA + """)
__CPROVER_requires(count > 0)   /* the function's own CELER_EXPECT */
/* sequential invariant of the allocator, and stated range: size + count does not wrap */
__CPROVER_requires(self->data_->size.ptr[0] <= self->data_->storage.size && (unsigned __int128)self->data_->size.ptr[0] + count <= (unsigned __int128)(size_type)-1)
__CPROVER_requires(g_k < self->data_->storage.size && g_old.particle_id == self->data_->storage.ptr[g_k].particle_id && g_old.energy == self->data_->storage.ptr[g_k].energy && g_old.direction[0] == self->data_->storage.ptr[g_k].direction[0])
__CPROVER_assigns(self->data_->size.ptr[0], __CPROVER_object_whole(self->data_->storage.ptr))
/* success iff it fits */
__CPROVER_ensures((__CPROVER_return_value != 0) == ((unsigned __int128)__CPROVER_old(self->data_->size.ptr[0]) + count <= self->data_->storage.size))
/* success: the block [old size, old size + count) is handed out, size advanced by exactly count */
__CPROVER_ensures(__CPROVER_return_value != 0 ==> (__CPROVER_return_value == &self->data_->storage.ptr[__CPROVER_old(self->data_->size.ptr[0])] && self->data_->size.ptr[0] == __CPROVER_old(self->data_->size.ptr[0]) + count))
/*          every element of the block is default-initialised (empty secondary), every other element untouched */
__CPROVER_ensures((__CPROVER_return_value != 0 && g_k >= __CPROVER_old(self->data_->size.ptr[0]) && g_k < self->data_->size.ptr[0]) ==> (self->data_->storage.ptr[g_k].particle_id == INVALID_ID && self->data_->storage.ptr[g_k].energy == 0))
__CPROVER_ensures((__CPROVER_return_value != 0 && !(g_k >= __CPROVER_old(self->data_->size.ptr[0]) && g_k < self->data_->size.ptr[0])) ==> (self->data_->storage.ptr[g_k].particle_id == g_old.particle_id && self->data_->storage.ptr[g_k].energy == g_old.energy && self->data_->storage.ptr[g_k].direction[0] == g_old.direction[0]))
/* failure: null, size restored, nothing written */
__CPROVER_ensures(__CPROVER_return_value == 0 ==> (self->data_->size.ptr[0] == __CPROVER_old(self->data_->size.ptr[0]) && self->data_->storage.ptr[g_k].particle_id == g_old.particle_id && self->data_->storage.ptr[g_k].energy == g_old.energy && self->data_->storage.ptr[g_k].direction[0] == g_old.direction[0]))
{""" + pc.body + """}
void h_alloc(void)
{
    size_type cap, count, k; __CPROVER_assume(cap >= 1 && cap <= 65536);
    value_type* st = malloc(cap * sizeof(value_type)); size_type* sz = malloc(sizeof(size_type)); __CPROVER_assume(st != 0 && sz != 0);
    StackAllocatorData d = {{st, cap}, {sz, 1}};
    StackAllocator a = {&d};
    __CPROVER_assume(k < cap); g_k = k; g_old = st[k];
    SA_alloc(&a, count);
    VERIF_CANARY();
}
""")


def build_simple(name):
    sigs = {
        "clear": (r"CELER_FUNCTION void StackAllocator<T>::clear\(\)", "void SA_clear(StackAllocator* self)", "self->data_->size.ptr[0]",
                  ["self->data_->size.ptr[0] == 0"]),
        "size": (r"CELER_FUNCTION auto StackAllocator<T>::size\(\) const -> size_type", "size_type SA_size(StackAllocator const* self)", "",
                 ["__CPROVER_return_value == self->data_->size.ptr[0]", "__CPROVER_return_value <= self->data_->storage.size"]),
    }

    def build(ctx):
        loc, sig, assigns, ens = sigs[name]
        pc = ctx.func(SA, loc, SA_RULES, name="StackAllocator::" + name)
        cname = sig.split("(")[0].split()[-1]
        return (HDR + "#include <stdlib.h>\n" + SA_TYPES + capacity(ctx) + sig + "\n__CPROVER_requires(" + VALID_SA + ")\n"
                + "__CPROVER_requires(self->data_->size.ptr[0] <= self->data_->storage.size)\n"
                + "__CPROVER_assigns(%s)\n" % assigns + "".join("__CPROVER_ensures(%s)\n" % e for e in ens) + "{" + pc.body + "}\n" + """
void h_sa(void)
{
    size_type cap; __CPROVER_assume(cap >= 1 && cap <= 65536);
    value_type* st = malloc(cap * sizeof(value_type)); size_type* sz = malloc(sizeof(size_type)); __CPROVER_assume(st != 0 && sz != 0);
    StackAllocatorData d = {{st, cap}, {sz, 1}};
    StackAllocator a = {&d};
    %s(&a);
    VERIF_CANARY();
}
""" % cname)
    return build


UNITS = [
    Unit("c16_alloc", build_alloc, "h_alloc", enforce="SA_alloc", loop_contracts=True, timeout=600, object_bits=10,
         must_have=[r"SA_alloc.postcondition", r"loop_invariant_step", r"celer_assert", r"celer_expect"], checks=["--bounds-check", "--pointer-check"],
         assumptions=["atomic_add treated as a sequential read-modify-write (single thread)", "size + count does not wrap size_type (64 bits) (stated precondition)",
                      "T = Secondary; placement new = default-initialisation (particle_id invalid, energy 0, direction indeterminate)",
                      "witness element compared on particle_id, energy, direction[0]"],
         note="StackAllocator::operator(): success iff it fits; block [old,old+count) default-initialised and nothing else touched; failure returns null with size restored and storage untouched (unbounded count, loop contract)"),
    Unit("c16_clear", build_simple("clear"), "h_sa", enforce="SA_clear", timeout=120, must_have=[r"SA_clear.postcondition"], checks=["--bounds-check", "--pointer-check"],
         note="StackAllocator::clear"),
    Unit("c16_size", build_simple("size"), "h_sa", enforce="SA_size", timeout=120, must_have=[r"SA_size.postcondition", r"celer_ensure"], checks=["--bounds-check", "--pointer-check"],
         note="StackAllocator::size (own ENSURE result <= capacity under the sequential invariant)"),
]
