"""C16: storage exhaustion never corrupts or loses physics (allocator part)."""
from vkit.extract import Rule, LoopContracts
from vkit.runner import Unit

SA = "src/corecel/data/StackAllocator.hh"
AT = "src/corecel/math/Atomics.hh"

HDR = '#include "celer.h"\n'

SA_TYPES = """
/* T = Secondary (celeritas/phys/Secondary.hh): { ParticleId particle_id; MevEnergy energy; Real3 direction; }  (bound in bindings.cc) */
typedef struct { size_type particle_id; real_type energy; real_type direction[3]; } value_type;   /* ParticleId = OpaqueId<Particle_, size_type> */
#define INVALID_ID ((size_type)-1)
/* `new (&x) value_type;` = default-initialisation: ParticleId() -> invalid, MevEnergy value_{} -> 0, Real3 left indeterminate */
static void VT_default_init(value_type* x) { x->particle_id = INVALID_ID; x->energy = 0; }
typedef struct { value_type* ptr; size_type size; } StorageItems;   /* Collection<T, reference, native> */
typedef struct { size_type* ptr; size_type size; } SizeItems;        /* Collection<size_type, reference, native> */
typedef struct { StorageItems storage; SizeItems size; } StackAllocatorData;
typedef struct { StackAllocatorData const* data_; } StackAllocator;  /* holds Data const& */
typedef value_type* result_type;
/* Collection::operator[]: CELER_EXPECT(i < size()) then pointer index */
static value_type* STOR_AT(StackAllocatorData const* d, size_type i) { __CPROVER_assert(i < d->storage.size, "celer_expect: Collection::operator[] i < size (storage)"); return &d->storage.ptr[i]; }
static size_type* SIZE_AT(StackAllocatorData const* d, size_type i) { __CPROVER_assert(i < d->size.size, "celer_expect: Collection::operator[] i < size (size)"); return &d->size.ptr[i]; }
/* StackAllocatorData::operator bool */
#define SAD_VALID(d) ((d)->storage.size != 0 && (d)->size.size != 0)
size_type g_k;              /* ghost witness index into storage */
value_type g_old;           /* ghost: storage[g_k] before the call */
"""

SA_RULES = [
    Rule(r"&data_\.size\[this->size_id\(\)\]", "SIZE_AT(self->data_, 0)", (0, 2), note="Collection[ItemId{0}] address; size_id() == SizeId{0} (bound)"),
    Rule(r"data_\.size\[this->size_id\(\)\]", "(*SIZE_AT(self->data_, 0))", "*", note="Collection[ItemId{0}]; size_id() == SizeId{0} (bound)"),
    Rule(r"data_\.storage\.size\(\)", "self->data_->storage.size", "*", note="Collection::size()"),
    Rule(r"this->capacity\(\)", "SA_capacity(self)", "*", note="member call"),
    Rule(r"new \(&data_\.storage\[StorageId\{([^{}]*)\}\]\) value_type", r"(VT_default_init(STOR_AT(self->data_, \1)), STOR_AT(self->data_, \1))", "*", note="placement new -> default-initialise, yields the address"),
    Rule(r"&data_\.storage\[StorageId\{([^{}]*)\}\]", r"STOR_AT(self->data_, \1)", "*", note="Collection[ItemId] address"),
]


def atomic_add(ctx):
    pc = ctx.func(AT, r"CELER_FORCEINLINE_FUNCTION T atomic_add\(T\* address, T value\)", [
        Rule(r"#if CELER_DEVICE_COMPILE\s*return atomicAdd\(address, value\);\s*#else", "", 1, note="device branch dropped (host build)"),
        Rule(r"#\s*if defined\(_OPENMP\) && CELERITAS_OPENMP == CELERITAS_OPENMP_TRACK\s*#\s*pragma omp atomic capture\s*#\s*endif", "", 1, note="omp atomic pragma dropped: atomics treated sequentially"),
        Rule(r"#endif", "", 1, note="preprocessor"),
        Rule(r"\bT\b", "size_type", "+", note="template parameter bound to size_type"),
    ], name="atomic_add<T>")
    return "static size_type atomic_add(size_type* address, size_type value)\n{" + pc.body + "}\n"


def capacity(ctx):
    pc = ctx.func(SA, r"CELER_FUNCTION auto StackAllocator<T>::capacity\(\) const -> size_type", SA_RULES, name="StackAllocator::capacity")
    return "static size_type SA_capacity(StackAllocator const* self)\n{" + pc.body + "}\n"


ALLOC_LOOP = LoopContracts([
    "    __CPROVER_assigns(i, __CPROVER_object_whole(self->data_->storage.ptr))\n"
    "    __CPROVER_loop_invariant(1 <= i && i <= count)\n"
    "    __CPROVER_loop_invariant((g_k >= start && g_k < start + i) ==> (self->data_->storage.ptr[g_k].particle_id == INVALID_ID && self->data_->storage.ptr[g_k].energy == 0))\n"
    "    __CPROVER_loop_invariant((g_k < self->data_->storage.size && !(g_k >= start && g_k < start + i)) ==> (self->data_->storage.ptr[g_k].particle_id == g_old.particle_id && self->data_->storage.ptr[g_k].energy == g_old.energy && self->data_->storage.ptr[g_k].direction[0] == g_old.direction[0]))\n"
    "    __CPROVER_decreases(count - i)\n"])

VALID_SA = ("self != 0 && self->data_ != 0 && SAD_VALID(self->data_) && self->data_->storage.size <= 65536 && self->data_->size.size == 1 "
            "&& __CPROVER_rw_ok(self->data_->storage.ptr, self->data_->storage.size * sizeof(value_type)) && __CPROVER_rw_ok(self->data_->size.ptr, sizeof(size_type))")


def build_alloc(ctx):
    pc = ctx.func(SA, r"StackAllocator<T>::operator\(\)\(size_type count\) -> result_type", SA_RULES + [ALLOC_LOOP], name="StackAllocator::operator()")
    return (HDR + "#include <stdlib.h>\n" + SA_TYPES + atomic_add(ctx) + capacity(ctx) + """
result_type SA_alloc(StackAllocator* self, size_type count)
__CPROVER_requires(""" + VALID_SA + """)
__CPROVER_requires(count > 0)   /* the function's own CELER_EXPECT */
/* sequential invariant of the allocator, and stated range: size + count does not wrap */
__CPROVER_requires(self->data_->size.ptr[0] <= self->data_->storage.size && (unsigned __int128)self->data_->size.ptr[0] + count <= (unsigned __int128)(size_type)-1)
__CPROVER_requires(g_k < self->data_->storage.size && g_old.particle_id == self->data_->storage.ptr[g_k].particle_id && g_old.energy == self->data_->storage.ptr[g_k].energy && g_old.direction[0] == self->data_->storage.ptr[g_k].direction[0])
__CPROVER_assigns(self->data_->size.ptr[0], __CPROVER_object_whole(self->data_->storage.ptr))
/* success iff it fits */
__CPROVER_ensures((__CPROVER_return_value != 0) == ((unsigned __int128)__CPROVER_old(self->data_->size.ptr[0]) + count <= self->data_->storage.size))
/* success: the block [old size, old size + count) is handed out, size advanced by exactly count */
__CPROVER_ensures(__CPROVER_return_value != 0 ==> (__CPROVER_return_value == &self->data_->storage.ptr[__CPROVER_old(self->data_->size.ptr[0])] && self->data_->size.ptr[0] == __CPROVER_old(self->data_->size.ptr[0]) + count))
/*          every element of the block is default-initialised (empty secondary), every other element untouched */
__CPROVER_ensures((__CPROVER_return_value != 0 && g_k >= __CPROVER_old(self->data_->size.ptr[0]) && g_k < self->data_->size.ptr[0]) ==> (self->data_->storage.ptr[g_k].particle_id == INVALID_ID && self->data_->storage.ptr[g_k].energy == 0))
__CPROVER_ensures((__CPROVER_return_value != 0 && !(g_k >= __CPROVER_old(self->data_->size.ptr[0]) && g_k < self->data_->size.ptr[0])) ==> (self->data_->storage.ptr[g_k].particle_id == g_old.particle_id && self->data_->storage.ptr[g_k].energy == g_old.energy && self->data_->storage.ptr[g_k].direction[0] == g_old.direction[0]))
/* failure: null, size restored, nothing written */
__CPROVER_ensures(__CPROVER_return_value == 0 ==> (self->data_->size.ptr[0] == __CPROVER_old(self->data_->size.ptr[0]) && self->data_->storage.ptr[g_k].particle_id == g_old.particle_id && self->data_->storage.ptr[g_k].energy == g_old.energy && self->data_->storage.ptr[g_k].direction[0] == g_old.direction[0]))
{""" + pc.body + """}
void h_alloc(void)
{
    size_type cap, count, k; __CPROVER_assume(cap >= 1 && cap <= 65536);
    value_type* st = malloc(cap * sizeof(value_type)); size_type* sz = malloc(sizeof(size_type)); __CPROVER_assume(st != 0 && sz != 0);
    StackAllocatorData d = {{st, cap}, {sz, 1}};
    StackAllocator a = {&d};
    __CPROVER_assume(k < cap); g_k = k; g_old = st[k];
    SA_alloc(&a, count);
    VERIF_CANARY();
}
""")


def build_simple(name):
    sigs = {
        "clear": (r"CELER_FUNCTION void StackAllocator<T>::clear\(\)", "void SA_clear(StackAllocator* self)", "self->data_->size.ptr[0]",
                  ["self->data_->size.ptr[0] == 0"]),
        "size": (r"CELER_FUNCTION auto StackAllocator<T>::size\(\) const -> size_type", "size_type SA_size(StackAllocator const* self)", "",
                 ["__CPROVER_return_value == self->data_->size.ptr[0]", "__CPROVER_return_value <= self->data_->storage.size"]),
    }

    def build(ctx):
        loc, sig, assigns, ens = sigs[name]
        pc = ctx.func(SA, loc, SA_RULES, name="StackAllocator::" + name)
        cname = sig.split("(")[0].split()[-1]
        return (HDR + "#include <stdlib.h>\n" + SA_TYPES + capacity(ctx) + sig + "\n__CPROVER_requires(" + VALID_SA + ")\n"
                + "__CPROVER_requires(self->data_->size.ptr[0] <= self->data_->storage.size)\n"
                + "__CPROVER_assigns(%s)\n" % assigns + "".join("__CPROVER_ensures(%s)\n" % e for e in ens) + "{" + pc.body + "}\n" + """
void h_sa(void)
{
    size_type cap; __CPROVER_assume(cap >= 1 && cap <= 65536);
    value_type* st = malloc(cap * sizeof(value_type)); size_type* sz = malloc(sizeof(size_type)); __CPROVER_assume(st != 0 && sz != 0);
    StackAllocatorData d = {{st, cap}, {sz, 1}};
    StackAllocator a = {&d};
    %s(&a);
    VERIF_CANARY();
}
""" % cname)
    return build


UNITS = [
    Unit("c16_alloc", build_alloc, "h_alloc", enforce="SA_alloc", loop_contracts=True, timeout=600, object_bits=10,
         must_have=[r"SA_alloc.postcondition", r"loop_invariant_step", r"celer_assert", r"celer_expect"], checks=["--bounds-check", "--pointer-check"],
         assumptions=["atomic_add treated as a sequential read-modify-write (single thread)", "size + count does not wrap size_type (64 bits) (stated precondition)",
                      "T = Secondary; placement new = default-initialisation (particle_id invalid, energy 0, direction indeterminate)",
                      "witness element compared on particle_id, energy, direction[0]"],
         note="StackAllocator::operator(): success iff it fits; block [old,old+count) default-initialised and nothing else touched; failure returns null with size restored and storage untouched (unbounded count, loop contract)"),
    Unit("c16_clear", build_simple("clear"), "h_sa", enforce="SA_clear", timeout=120, must_have=[r"SA_clear.postcondition"], checks=["--bounds-check", "--pointer-check"],
         note="StackAllocator::clear"),
    Unit("c16_size", build_simple("size"), "h_sa", enforce="SA_size", timeout=120, must_have=[r"SA_size.postcondition", r"celer_ensure"], checks=["--bounds-check", "--pointer-check"],
         note="StackAllocator::size (own ENSURE result <= capacity under the sequential invariant)"),
]


# ---------------------------------------------------------------------------
# capacity validation precedes initializer writes (host actions)
# ---------------------------------------------------------------------------
EFP = "src/celeritas/track/ExtendFromPrimariesAction.cc"
EFS = "src/celeritas/track/ExtendFromSecondariesAction.cc"

HOST_MODEL = """
typedef struct { size_type num_initializers, num_vacancies, num_secondaries, num_alive, num_active, num_generated, num_pending; } CoreStateCounters;   /* members used here */
typedef struct { CoreStateCounters counters; size_type size_; size_type init_capacity; } CoreState;    /* counters(), size(), ref().init.initializers.size() */
typedef struct { size_type init_capacity; } CoreParams;                                               /* init()->capacity() */
typedef struct { void const* ptr; size_type size; } SpanPrimary;
int g_threw;          /* ghost: CELER_VALIDATE threw (exception = flag + early return) */
int g_writes;         /* ghost: number of initializer-writing kernels launched */
#define CELER_VALIDATE_C(c) if (!(c)) { g_threw = 1; return; }
"""

EFP_RULES = [
    Rule(r"state\.counters\(\)\.", "state->counters.", "*", note="CoreStateInterface::counters()"),
    Rule(r"params\.init\(\)->capacity\(\)", "params->init_capacity", "*", note="TrackInitParams::capacity()"),
    Rule(r"host_primaries\.size\(\)", "host_primaries.size", "*", note="Span::size()"),
    Rule(r"CELER_VALIDATE\(([^,]*),.*?\);", r"CELER_VALIDATE_C(\1)", 1, flags=16, note="CELER_VALIDATE(cond, << message) -> ghost throw flag + early return (message dropped)"),
    Rule(r"if \(auto\* s = dynamic_cast<CoreState<MemSpace::host>\*>\(&state\)\).*CELER_ASSERT_UNREACHABLE\(\);\s*\}", "EFP_insert_impl(state, host_primaries);", 1, flags=16,
         note="dynamic_cast dispatch to insert_impl<host|device> -> one call to the stub"),
]


def build_efp_insert(ctx):
    pc = ctx.func(EFP, r"^void ExtendFromPrimariesAction::insert\(CoreParams const& params,", EFP_RULES, name="ExtendFromPrimariesAction::insert")
    return (HDR + HOST_MODEL + """
/* insert_impl copies ALL host primaries into the initializer buffer behind the pending ones (ProcessPrimariesExecutor writes
 * initializers[num_initializers .. num_initializers + n)); its precondition is that they fit */
void EFP_insert_impl(CoreState* state, SpanPrimary host_primaries)
__CPROVER_requires(state != 0)
__CPROVER_requires((unsigned __int128)host_primaries.size + state->counters.num_initializers <= state->init_capacity)
__CPROVER_assigns(g_writes, state->counters)
__CPROVER_ensures(g_writes == __CPROVER_old(g_writes) + 1)
;
void EFP_insert(CoreParams const* params, CoreState* state, SpanPrimary host_primaries)
__CPROVER_requires(params != 0 && state != 0 && params->init_capacity == state->init_capacity && g_threw == 0 && g_writes == 0)
__CPROVER_requires((unsigned __int128)host_primaries.size + state->counters.num_initializers <= (unsigned __int128)(size_type)-1)   /* stated range: the sum does not wrap */
__CPROVER_assigns(g_threw, g_writes, state->counters)
/* either it fits and the primaries are written, or an error is reported and nothing is written */
__CPROVER_ensures(g_threw ? g_writes == 0 : g_writes == 1)
__CPROVER_ensures(g_threw == ((unsigned __int128)host_primaries.size + __CPROVER_old(state->counters.num_initializers) > state->init_capacity))
{""" + pc.body + """}
void h_efp(void)
{
    CoreParams p; CoreState s; SpanPrimary pr;
    EFP_insert(&p, &s, pr);
    VERIF_CANARY();
}
""")


EFS_RULES = [
    Rule(r"TrackInitStateData<Ownership::reference, M>& init = core_state\.ref\(\)\.init;", "", 1, note="reference to the init state dropped (members lowered below)"),
    Rule(r"CoreStateCounters& counters = core_state\.counters\(\);", "CoreStateCounters* counters_ = &core_state->counters;", 1, note="reference -> pointer"),
    Rule(r"\bcounters\.", "counters_->", "*", note="reference -> pointer"),
    Rule(r"this->locate_alive\(core_params, core_state\);", "EFS_locate_alive(core_state);", 1, note="kernel launch -> stub"),
    Rule(r"remove_if_alive\(init\.vacancies, core_state\.stream_id\(\)\)", "EFS_remove_if_alive(core_state)", 1, note="algorithm -> stub (assumed contract)"),
    Rule(r"exclusive_scan_counts\(\s*init\.secondary_counts, core_state\.stream_id\(\)\)", "EFS_exclusive_scan_counts(core_state)", 1, note="algorithm -> stub (assumed contract)"),
    Rule(r"init\.initializers\.size\(\)", "core_state->init_capacity", "*", note="Collection::size()"),
    Rule(r"core_state\.size\(\)", "core_state->size_", "*", note="CoreState::size()"),
    Rule(r"CELER_VALIDATE\(([^,]*),.*?\);", r"CELER_VALIDATE_C(\1)", 1, flags=16, note="CELER_VALIDATE -> ghost throw flag + early return"),
    Rule(r"this->process_secondaries\(core_params, core_state\);", "EFS_process_secondaries(core_state);", 1, note="kernel launch -> stub"),
]


def build_efs_step(ctx):
    pc = ctx.func(EFS, r"^void ExtendFromSecondariesAction::step_impl\(CoreParams const& core_params,", EFS_RULES, name="ExtendFromSecondariesAction::step_impl")
    return (HDR + HOST_MODEL + """
void EFS_locate_alive(CoreState* st) __CPROVER_requires(st != 0) __CPROVER_assigns() __CPROVER_ensures(1);   /* writes vacancies / secondary_counts only (unit c02_locate_alive) */
size_type g_total_secondaries;   /* ghost: what the scan returns */
/* std::remove_if over the vacancy list: returns the number of remaining (vacant) slots <= size (assumed contract) */
size_type EFS_remove_if_alive(CoreState* st) __CPROVER_requires(st != 0) __CPROVER_assigns() __CPROVER_ensures(__CPROVER_return_value <= st->size_);
/* std::exclusive_scan over the per-slot counts: returns their total (assumed contract) */
size_type EFS_exclusive_scan_counts(CoreState* st) __CPROVER_requires(st != 0) __CPROVER_assigns() __CPROVER_ensures(__CPROVER_return_value == g_total_secondaries);
/* ProcessSecondariesExecutor writes initializers[num_initializers - num_secondaries .. num_initializers): needs that range inside the buffer */
void EFS_process_secondaries(CoreState* st)
__CPROVER_requires(st != 0)
__CPROVER_requires(st->counters.num_secondaries <= st->counters.num_initializers && st->counters.num_initializers <= st->init_capacity)
__CPROVER_requires(st->counters.num_alive == st->size_ - st->counters.num_vacancies)
__CPROVER_assigns(g_writes)
__CPROVER_ensures(g_writes == __CPROVER_old(g_writes) + 1)
;
void EFS_step_impl(CoreParams const* core_params, CoreState* core_state)
__CPROVER_requires(core_params != 0 && core_state != 0 && g_threw == 0 && g_writes == 0)
__CPROVER_requires(core_state->counters.num_initializers <= core_state->init_capacity)    /* invariant between steps */
__CPROVER_requires((unsigned __int128)core_state->init_capacity + g_total_secondaries < ((unsigned __int128)1 << 63))   /* stated range: counts do not wrap */
__CPROVER_assigns(g_threw, g_writes, core_state->counters)
/* the secondaries are queued iff they fit; otherwise an error is reported BEFORE any initializer is written */
__CPROVER_ensures(g_threw ? g_writes == 0 : g_writes == 1)
__CPROVER_ensures(g_threw == ((unsigned __int128)__CPROVER_old(core_state->counters.num_initializers) + g_total_secondaries > core_state->init_capacity))
/* counters */
__CPROVER_ensures(core_state->counters.num_secondaries == g_total_secondaries && core_state->counters.num_vacancies <= core_state->size_)
__CPROVER_ensures(!g_threw ==> (core_state->counters.num_alive == core_state->size_ - core_state->counters.num_vacancies && core_state->counters.num_initializers == __CPROVER_old(core_state->counters.num_initializers) + g_total_secondaries))
{""" + pc.body + """}
void h_efs(void)
{
    CoreParams p; CoreState s; size_type tot;
    g_total_secondaries = tot;
    EFS_step_impl(&p, &s);
    VERIF_CANARY();
}
""")


UNITS += [
    Unit("c16_efp_insert", build_efp_insert, "h_efp", enforce="EFP_insert", replace=["EFP_insert_impl"], timeout=120,
         must_have=[r"EFP_insert.postcondition", r"EFP_insert_impl.precondition"], checks=["--bounds-check", "--pointer-check", "--unsigned-overflow-check"],
         assumptions=["insert_impl writes all host primaries behind the pending initializers (its precondition: they fit); CELER_VALIDATE = ghost flag + early return"],
         note="ExtendFromPrimariesAction::insert: error reported iff primaries + pending > capacity, and then nothing is written; otherwise the writer's precondition holds"),
    Unit("c16_efs_step", build_efs_step, "h_efs", enforce="EFS_step_impl", replace=["EFS_locate_alive", "EFS_remove_if_alive", "EFS_exclusive_scan_counts", "EFS_process_secondaries"], timeout=120,
         must_have=[r"EFS_step_impl.postcondition", r"EFS_process_secondaries.precondition"], checks=["--bounds-check", "--pointer-check"],
         assumptions=["std::remove_if / exclusive_scan contracts assumed; kernels replaced by their contracts", "capacity + total secondaries of the step < 2^63 (stated range so that the counter addition does not wrap)"],
         note="ExtendFromSecondariesAction::step_impl: capacity validated before ProcessSecondaries writes; num_alive = size - num_vacancies; num_initializers += total"),
]


# ---------------------------------------------------------------------------
# CoreState<M>::reset (host): after a reset nothing of the aborted event is left in the counters, the slot statuses or the vacancy list
# ---------------------------------------------------------------------------
CST = "src/celeritas/global/CoreState.cc"
RESET_MODEL = """
typedef struct { size_type num_initializers, num_vacancies, num_secondaries, num_alive, num_active, num_generated, num_pending; } CoreStateCounters;   /* all default-initialised to {0}: checked on the text of CoreStateCounters.hh each run (num_pending: not a member of the real struct, kept for the shared model) */
typedef struct { CoreStateCounters counters_; size_type size_; } CoreState;
enum { TS_inactive = 0 };
int g_status_fill = -1; int g_vacancies_identity; unsigned g_fills;     /* ghost: value every sim.status entry was filled with; vacancies = 0,1,2,... */
static void FILL_status(CoreState* st, int status) { g_status_fill = status; ++g_fills; }
static void FILL_sequence_vacancies(CoreState* st) { g_vacancies_identity = 1; ++g_fills; }
"""
RESET_RULES = [
    Rule(r"counters_ = CoreStateCounters\{\};", "{ CoreStateCounters z_ = {0, 0, 0, 0, 0, 0, 0}; self->counters_ = z_; }", 1, note="value-initialised counters (all members default to 0)"),
    Rule(r"counters_\.", "self->counters_.", "*", note="data member"),
    Rule(r"this->size\(\)", "self->size_", "*", note="CoreState::size()"),
    Rule(r"fill\(TrackStatus::(\w+), &this->ref\(\)\.sim\.status\);", r"FILL_status(self, TS_\1);", "*", note="fill(status collection) -> ghost"),
    Rule(r"fill_sequence\(&this->ref\(\)\.init\.vacancies, this->stream_id\(\)\);", "FILL_sequence_vacancies(self);", "*", note="fill_sequence(vacancies) -> ghost"),
]


def build_core_state_reset(ctx):
    pc = ctx.func(CST, r"^void CoreState<M>::reset\(\)", RESET_RULES, name="CoreState<M>::reset (host)")
    # value-initialisation `CoreStateCounters{}` zeroes every counter only if every member's default initialiser is {0}: checked on the struct's text each run
    import re
    from vkit.extract import ExtractionDrift
    st = ctx.func("src/celeritas/track/CoreStateCounters.hh", r"^struct CoreStateCounters", [], name="struct CoreStateCounters")
    decls = re.findall(r"^\s*(\w[\w:<> ]*?)\s+(\w+)\s*(\{[^{}]*\})?\s*;", st.body, flags=re.M)
    for ty, nm, init in decls:
        if ty != "size_type" or init != "{0}":
            raise ExtractionDrift("CoreStateCounters member %s %s%s is not `size_type name{0}`: CoreStateCounters{} would not zero it" % (ty, nm, init))
    if not {"num_initializers", "num_vacancies", "num_secondaries", "num_alive", "num_active", "num_generated"} <= {d[1] for d in decls}:
        raise ExtractionDrift("CoreStateCounters members changed: %s" % [d[1] for d in decls])
    return (HDR + RESET_MODEL + """
void CS_reset(CoreState* self)
__CPROVER_requires(__CPROVER_rw_ok(self, sizeof(*self)) && g_fills == 0 && g_vacancies_identity == 0 && g_status_fill == -1)
__CPROVER_assigns(self->counters_, g_status_fill, g_vacancies_identity, g_fills)
/* nothing queued, alive, active or pending is left over from an aborted event; every slot is vacant */
__CPROVER_ensures(self->counters_.num_initializers == 0 && self->counters_.num_secondaries == 0 && self->counters_.num_alive == 0 && self->counters_.num_active == 0 && self->counters_.num_pending == 0 && self->counters_.num_generated == 0)
__CPROVER_ensures(self->counters_.num_vacancies == self->size_)
/* ... every track slot is inactive and the vacancy list names every slot once (0, 1, 2, ...) */
__CPROVER_ensures(g_status_fill == TS_inactive && g_vacancies_identity == 1)
{""" + pc.body + """}
void h_csr(void)
{
    CoreState s;
    g_status_fill = -1;
    CS_reset(&s);
    VERIF_CANARY();
}
""")


UNITS += [
    Unit("c16_core_state_reset", build_core_state_reset, "h_csr", enforce="CS_reset", timeout=60, backend=["sat"], must_have=[r"CS_reset.postcondition"], checks=["--bounds-check", "--pointer-check"],
         assumptions=["fill / fill_sequence lowered to ghost flags (which collection is filled with what)"],
         note="CoreState::reset (host): all counters zero, num_vacancies == size, every slot inactive, vacancy list = every slot once"),
]
