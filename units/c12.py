"""C12: surface primitives self-consistent; transforms preserve point sets (translation of quadrics; planes; solver signs)."""
from vkit.extract import Rule, MulToUF
from vkit.runner import Unit

STR = "src/orange/surf/detail/SurfaceTranslator.cc"
HDR = '#include "celer.h"\n'

SQ_MODEL = """
/* products are an uninterpreted COMMUTATIVE function MUL (no solver here decides 53-bit or 64-bit multiplications): the unit decides
   WHICH products enter WHICH coefficient with which sign and factor, exactly; additions/subtractions are real IEEE operations */
double __CPROVER_uninterpreted_mul(double, double);
#define CZ_(x) ((double)(x) + 0.0)   /* -0 -> +0, so that equal values have equal bits */
#define MUL(a, b) (CZ_(a) <= CZ_(b) ? __CPROVER_uninterpreted_mul(CZ_(a), CZ_(b)) : __CPROVER_uninterpreted_mul(CZ_(b), CZ_(a)))
typedef struct { real_type v[3]; } Real3;
typedef struct { real_type second[3]; real_type first[3]; real_type zeroth; } SimpleQuadric;   /* a x^2 + b y^2 + c z^2 + d x + e y + f z + g */
typedef struct { Real3 tr_; } Translation;
typedef struct { Translation const* tr_; } SurfaceTranslator;
#define IPOW2(x) MUL((x), (x))      /* ipow<2>(x) == x * x */
"""
SQ_RULES = [
    Rule(r"auto const second = make_array\(other\.second\(\)\);", "real_type second[3] = {other->second[0], other->second[1], other->second[2]};", 1, note="make_array(Span) -> array copy"),
    Rule(r"auto first = make_array\(other\.first\(\)\);", "real_type first[3] = {other->first[0], other->first[1], other->first[2]};", 1, note="make_array(Span) -> array copy"),
    Rule(r"other\.zeroth\(\)", "other->zeroth", 1, note="accessor"),
    Rule(r"auto const& origin = tr_\.translation\(\);", "real_type const* origin = self->tr_->tr_.v;", 1, note="Translation::translation()"),
    Rule(r"for \(auto i = to_int\(Axis::x\); i < to_int\(Axis::size_\); \+\+i\)", "for (int i = 0; i < 3; ++i)", 1, note="Axis loop: to_int(Axis::x) == 0, to_int(Axis::size_) == 3 (bound)"),
    Rule(r"ipow<2>\(([^()]*)\)", r"IPOW2(\1)", "*", note="ipow<2>(x) == x*x"),
    Rule(r"other\.first\(\)\[i\]", "other->first[i]", "*", note="accessor"),
    MulToUF(),
    Rule(r"return SimpleQuadric\{second, first, zeroth\};", "SimpleQuadric res_ = {{second[0], second[1], second[2]}, {first[0], first[1], first[2]}, zeroth}; return res_;", 1, note="aggregate construction"),
]


def build_translate_sq(ctx):
    pc = ctx.func(STR, r"^SimpleQuadric SurfaceTranslator::operator\(\)\(SimpleQuadric const& other\) const", SQ_RULES, name="SurfaceTranslator::operator()(SimpleQuadric)")
    return (HDR + SQ_MODEL + """
#define NN(v) (!__CPROVER_isnand(v))
SimpleQuadric STR_sq(SurfaceTranslator const* self, SimpleQuadric const* other)
__CPROVER_requires(self != 0 && self->tr_ != 0 && other != 0)
__CPROVER_requires(NN(other->second[0]) && NN(other->second[1]) && NN(other->second[2]) && NN(other->first[0]) && NN(other->first[1]) && NN(other->first[2]) && NN(other->zeroth))
__CPROVER_requires(NN(self->tr_->tr_.v[0]) && NN(self->tr_->tr_.v[1]) && NN(self->tr_->tr_.v[2]))
__CPROVER_assigns()
/* coefficients of f'(x') = f(x' - t), expanded:  a' = a;  d' = d - 2 a t;  g' = g + sum_i (a_i t_i^2 - d_i t_i)
   (lemma c12_translate_sq_lemma: with these coefficients f'(x + t) == f(x) for every point x) */
#define T_(i) (self->tr_->tr_.v[i])
__CPROVER_ensures(__CPROVER_return_value.second[0] == other->second[0] && __CPROVER_return_value.second[1] == other->second[1] && __CPROVER_return_value.second[2] == other->second[2])
#define EQN(a, b) ((a) == (b) || (__CPROVER_isnand(a) && __CPROVER_isnand(b)))
#define D_(i) (other->first[i] - (MUL(other->second[i], T_(i)) + MUL(other->second[i], T_(i))))   /* d - 2 a t (doubling is exact) */                         /* d - 2 a t */
#define G_(i) (MUL(other->second[i], MUL(T_(i), T_(i))) - MUL(other->first[i], T_(i)))         /* a t^2 - d t */
__CPROVER_ensures(EQN(__CPROVER_return_value.first[0], D_(0)) && EQN(__CPROVER_return_value.first[1], D_(1)) && EQN(__CPROVER_return_value.first[2], D_(2)))
__CPROVER_ensures(EQN(__CPROVER_return_value.zeroth, ((other->zeroth + G_(0)) + G_(1)) + G_(2)))
{""" + pc.body + """}
void h_tsq(void)
{
    Translation t; SurfaceTranslator s = {&t}; SimpleQuadric q;
    STR_sq(&s, &q);
    VERIF_CANARY();
}
""")


def build_translate_sq_lemma(ctx):
    return (HDR + """
/* lemma (one axis; the three axes are independent and additive): with a' = a, d' = d - 2 a t, g' = a t^2 - d t the translated polynomial takes at x + t the value of the original at x */
void h_tsq_lemma(void)
{
    int a, d, t, x;
    __CPROVER_assume(a >= -7 && a <= 7 && d >= -7 && d <= 7 && t >= -7 && t <= 7 && x >= -7 && x <= 7);
    int d2 = d - 2 * a * t, g2 = a * t * t - d * t;
    __CPROVER_assert(a * (x + t) * (x + t) + d2 * (x + t) + g2 == a * x * x + d * x, "lemma.translate_sq: f'(x + t) == f(x)");
    VERIF_CANARY();
}
""")


def _tsq_argv(inputs, fl):
    return [["translate_sq_battery"]]


REPLAY_C12 = {"src": "replay/c12.cc", "argv": _tsq_argv}

UNITS = [
    Unit("c12_translate_sq", build_translate_sq, "h_tsq", enforce="STR_sq", unwind=5, timeout=900, backend=["sat", "cvc5"],
         must_have=[r"STR_sq.postcondition"], checks=["--bounds-check", "--pointer-check"], replay=REPLAY_C12,
         assumptions=["real multiplication treated as an uninterpreted commutative function (which products enter which coefficient is decided exactly; rounding of the products themselves is not)"],
         note="SurfaceTranslator(SimpleQuadric): result coefficients equal those of f(x - t) expanded (a, d - 2at, g + sum(a t^2 - d t))"),
    Unit("c12_translate_sq_lemma", build_translate_sq_lemma, "h_tsq_lemma", timeout=900, backend=["sat", "z3", "kissat"],
         bounded="integers in [-7, 7]: 15^4 points (the identity has degree <= 2 in each variable, so 3 values per variable already determine it)",
         must_have=[r"lemma.translate_sq"], checks=["--signed-overflow-check"],
         note="lemma: the specified coefficients make f'(x + t) == f(x)"),
]
