"""C12: surface primitives self-consistent; transforms preserve point sets (translation of quadrics; planes; solver signs)."""
from vkit.extract import Rule, MulToUF
from vkit.runner import Unit

STR = "src/orange/surf/detail/SurfaceTranslator.cc"
HDR = '#include "celer.h"\n'

SQ_MODEL = """
/* products are an uninterpreted COMMUTATIVE function MUL (no solver here decides 53-bit or 64-bit multiplications): the unit decides
   WHICH products enter WHICH coefficient with which sign and factor, exactly; additions/subtractions are real IEEE operations */
double __CPROVER_uninterpreted_mul(double, double);
#define CZ_(x) ((double)(x) + 0.0)   /* -0 -> +0, so that equal values have equal bits */
#define MUL(a, b) (CZ_(a) <= CZ_(b) ? __CPROVER_uninterpreted_mul(CZ_(a), CZ_(b)) : __CPROVER_uninterpreted_mul(CZ_(b), CZ_(a)))
typedef struct { real_type v[3]; } Real3;
typedef struct { real_type second[3]; real_type first[3]; real_type zeroth; } SimpleQuadric;   /* a x^2 + b y^2 + c z^2 + d x + e y + f z + g */
typedef struct { Real3 tr_; } Translation;
typedef struct { Translation const* tr_; } SurfaceTranslator;
#define IPOW2(x) MUL((x), (x))      /* ipow<2>(x) == x * x */
"""
SQ_RULES = [
    Rule(r"auto const second = make_array\(other\.second\(\)\);", "real_type second[3] = {other->second[0], other->second[1], other->second[2]};", 1, note="make_array(Span) -> array copy"),
    Rule(r"auto first = make_array\(other\.first\(\)\);", "real_type first[3] = {other->first[0], other->first[1], other->first[2]};", 1, note="make_array(Span) -> array copy"),
    Rule(r"other\.zeroth\(\)", "other->zeroth", 1, note="accessor"),
    Rule(r"auto const& origin = tr_\.translation\(\);", "real_type const* origin = self->tr_->tr_.v;", 1, note="Translation::translation()"),
    Rule(r"for \(auto i = to_int\(Axis::x\); i < to_int\(Axis::size_\); \+\+i\)", "for (int i = 0; i < 3; ++i)", 1, note="Axis loop: to_int(Axis::x) == 0, to_int(Axis::size_) == 3 (bound)"),
    Rule(r"ipow<2>\(([^()]*)\)", r"IPOW2(\1)", "*", note="ipow<2>(x) == x*x"),
    Rule(r"other\.first\(\)\[i\]", "other->first[i]", "*", note="accessor"),
    MulToUF(),
    Rule(r"return SimpleQuadric\{second, first, zeroth\};", "SimpleQuadric res_ = {{second[0], second[1], second[2]}, {first[0], first[1], first[2]}, zeroth}; return res_;", 1, note="aggregate construction"),
]


def build_translate_sq(ctx):
    pc = ctx.func(STR, r"^SimpleQuadric SurfaceTranslator::operator\(\)\(SimpleQuadric const& other\) const", SQ_RULES, name="SurfaceTranslator::operator()(SimpleQuadric)")
    return (HDR + SQ_MODEL + """
#define NN(v) (!__CPROVER_isnand(v))
SimpleQuadric STR_sq(SurfaceTranslator const* self, SimpleQuadric const* other)
__CPROVER_requires(self != 0 && self->tr_ != 0 && other != 0)
__CPROVER_requires(NN(other->second[0]) && NN(other->second[1]) && NN(other->second[2]) && NN(other->first[0]) && NN(other->first[1]) && NN(other->first[2]) && NN(other->zeroth))
__CPROVER_requires(NN(self->tr_->tr_.v[0]) && NN(self->tr_->tr_.v[1]) && NN(self->tr_->tr_.v[2]))
__CPROVER_assigns()
/* coefficients of f'(x') = f(x' - t), expanded:  a' = a;  d' = d - 2 a t;  g' = g + sum_i (a_i t_i^2 - d_i t_i)
   (lemma c12_translate_sq_lemma: with these coefficients f'(x + t) == f(x) for every point x) */
#define T_(i) (self->tr_->tr_.v[i])
__CPROVER_ensures(__CPROVER_return_value.second[0] == other->second[0] && __CPROVER_return_value.second[1] == other->second[1] && __CPROVER_return_value.second[2] == other->second[2])
#define EQN(a, b) ((a) == (b) || (__CPROVER_isnand(a) && __CPROVER_isnand(b)))
#define D_(i) (other->first[i] - (MUL(other->second[i], T_(i)) + MUL(other->second[i], T_(i))))   /* d - 2 a t (doubling is exact) */                         /* d - 2 a t */
#define G_(i) (MUL(other->second[i], MUL(T_(i), T_(i))) - MUL(other->first[i], T_(i)))         /* a t^2 - d t */
__CPROVER_ensures(EQN(__CPROVER_return_value.first[0], D_(0)) && EQN(__CPROVER_return_value.first[1], D_(1)) && EQN(__CPROVER_return_value.first[2], D_(2)))
__CPROVER_ensures(EQN(__CPROVER_return_value.zeroth, ((other->zeroth + G_(0)) + G_(1)) + G_(2)))
{""" + pc.body + """}
void h_tsq(void)
{
    Translation t; SurfaceTranslator s = {&t}; SimpleQuadric q;
    STR_sq(&s, &q);
    VERIF_CANARY();
}
""")


def build_translate_sq_lemma(ctx):
    return (HDR + """
/* lemma (one axis; the three axes are independent and additive): with a' = a, d' = d - 2 a t, g' = a t^2 - d t the translated polynomial takes at x + t the value of the original at x */
void h_tsq_lemma(void)
{
    int a, d, t, x;
    __CPROVER_assume(a >= -7 && a <= 7 && d >= -7 && d <= 7 && t >= -7 && t <= 7 && x >= -7 && x <= 7);
    int d2 = d - 2 * a * t, g2 = a * t * t - d * t;
    __CPROVER_assert(a * (x + t) * (x + t) + d2 * (x + t) + g2 == a * x * x + d * x, "lemma.translate_sq: f'(x + t) == f(x)");
    VERIF_CANARY();
}
""")


def _tsq_argv(inputs, fl):
    return [["translate_sq_battery"]]


REPLAY_C12 = {"src": "replay/c12.cc", "argv": _tsq_argv}

UNITS = [
    Unit("c12_translate_sq", build_translate_sq, "h_tsq", enforce="STR_sq", unwind=5, timeout=900, backend=["sat", "cvc5"],
         must_have=[r"STR_sq.postcondition"], checks=["--bounds-check", "--pointer-check"], replay=REPLAY_C12,
         assumptions=["real multiplication treated as an uninterpreted commutative function (which products enter which coefficient is decided exactly; rounding of the products themselves is not)"],
         note="SurfaceTranslator(SimpleQuadric): result coefficients equal those of f(x - t) expanded (a, d - 2at, g + sum(a t^2 - d t))"),
    Unit("c12_translate_sq_lemma", build_translate_sq_lemma, "h_tsq_lemma", timeout=900, backend=["sat", "z3", "kissat"],
         bounded="integers in [-7, 7]: 15^4 points (the identity has degree <= 2 in each variable, so 3 values per variable already determine it)",
         must_have=[r"lemma.translate_sq"], checks=["--signed-overflow-check"],
         note="lemma: the specified coefficients make f'(x + t) == f(x)"),
]


# ---------------------------------------------------------------------------
# GeneralQuadric: coefficients of the quadratic along a ray
# ---------------------------------------------------------------------------
GQ = "src/orange/surf/GeneralQuadric.hh"
GQ_MODEL = """
/* exact-integer abstraction (VERIF_REAL_BITS: small signed values, arithmetic in int).  Every variable occurs with degree <= 2 in the identity below, so a polynomial that
   vanishes for all values in {-1, 0, 1} vanishes identically: the range {-1,0,1} per variable is a COMPLETE proof of the identity over the reals. */
typedef struct { real_type a_, b_, c_, d_, e_, f_, g_, h_, i_, j_; } GeneralQuadric;
typedef struct { real_type v[2]; } Intersections;
int g_a, g_b, g_c;     /* ghost: the quadratic coefficients handed to the solver (a, b, c with half_b = b / 2) */
Intersections QS_solve_general(real_type a, real_type half_b, real_type c, int on_surface) __CPROVER_requires(1) __CPROVER_assigns() __CPROVER_ensures(1);
/* the surface function  f(x,y,z) = a x^2 + b y^2 + c z^2 + d xy + e yz + f zx + g x + h y + i z + j  (GeneralQuadric.hh class documentation) */
static int gq_eval(GeneralQuadric const* q, int x, int y, int z)
{
    return q->a_ * x * x + q->b_ * y * y + q->c_ * z * z + q->d_ * x * y + q->e_ * y * z + q->f_ * z * x + q->g_ * x + q->h_ * y + q->i_ * z + q->j_;
}
"""
GQ_RULES = [
    Rule(r"\b([a-j]_)\b", r"self->\1", "+", note="data member"),
    Rule(r"\b(pos|dir)\[(\d)\]", r"\1[\2]", "*", note="Real3 const& -> pointer to 3 reals"),
    Rule(r"return QuadraticSolver::solve_general\(a, b / 2, c, on_surface\);", "g_a = a; g_b = b; g_c = c; return QS_solve_general(a, b / 2, c, on_surface);", 1, note="solver call -> stub; ghost capture of the coefficients"),
]


def build_gq_coeffs(ctx):
    pc = ctx.func(GQ, r"^GeneralQuadric::calc_intersections\(Real3 const& pos,", GQ_RULES, name="GeneralQuadric::calc_intersections")
    return (HDR + GQ_MODEL + """
real_type g_t;   /* ghost: an arbitrary distance along the ray */
#define R1(v) ((v) >= -1 && (v) <= 1)
Intersections GQ_calc_intersections(GeneralQuadric const* self, real_type const* pos, real_type const* dir, int on_surface)
__CPROVER_requires(self != 0 && __CPROVER_r_ok(pos, 3 * sizeof(real_type)) && __CPROVER_r_ok(dir, 3 * sizeof(real_type)))
__CPROVER_requires(R1(self->a_) && R1(self->b_) && R1(self->c_) && R1(self->d_) && R1(self->e_) && R1(self->f_) && R1(self->g_) && R1(self->h_) && R1(self->i_) && R1(self->j_))
__CPROVER_requires(R1(pos[0]) && R1(pos[1]) && R1(pos[2]) && R1(dir[0]) && R1(dir[1]) && R1(dir[2]) && R1(g_t))
__CPROVER_assigns(g_a, g_b, g_c)
/* the solver is given the coefficients of the surface function restricted to the ray: f(pos + t dir) == a t^2 + b t + c for every t */
__CPROVER_ensures(gq_eval(self, pos[0] + g_t * dir[0], pos[1] + g_t * dir[1], pos[2] + g_t * dir[2]) == g_a * g_t * g_t + g_b * g_t + g_c)
{""" + pc.body + """}
void h_gq(void)
{
    GeneralQuadric q; real_type p[3], d[3], t; int s;
    g_t = t;
    GQ_calc_intersections(&q, p, d, s);
    VERIF_CANARY();
}
""")


UNITS += [
    Unit("c12_gq_ray_coeffs", build_gq_coeffs, "h_gq", enforce="GQ_calc_intersections", replace=["QS_solve_general"], timeout=900, backend=["sat", "kissat", "cvc5"], defines=["VERIF_REAL_BITS=8"],
         bounded="exact-integer abstraction of real_type (8-bit signed values, int arithmetic) with every variable in {-1,0,1}; complete for the polynomial identity (degree <= 2 per variable); floating-point rounding not covered",
         must_have=[r"GQ_calc_intersections.postcondition"], checks=["--bounds-check", "--pointer-check", "--signed-overflow-check"],
         assumptions=["QuadraticSolver::solve_general not under contract (sqrt)"],
         note="GeneralQuadric::calc_intersections: the quadratic handed to the solver is the surface function along the ray, f(pos + t dir) == a t^2 + b t + c"),
]


# ---------------------------------------------------------------------------
# QuadraticSolver: every reported distance is positive (or "no intersection")
# ---------------------------------------------------------------------------
QS = "src/orange/surf/detail/QuadraticSolver.hh"
QS_MODEL = """
#include <math.h>
typedef struct { real_type v[2]; } Intersections;                 /* Array<real_type, 2> */
typedef struct { real_type a_inv_, hba_; } QuadraticSolver;
enum { SS_off = 0, SS_on = 1 };                                   /* SurfaceState (bound) */
#define NO_INT __builtin_inf()                                    /* no_intersection() */
double __CPROVER_uninterpreted_sqrt(double);
/* std::sqrt of a positive finite value: some non-negative, non-NaN value (its accuracy is NOT decided) */
static real_type UF_sqrt(real_type x) { __CPROVER_assert(x > 0, "sqrt argument positive"); real_type r = __CPROVER_uninterpreted_sqrt(x); __CPROVER_assume(r >= 0); return r; }
real_type g_min_a;    /* QuadraticSolver::min_a(): a positive tolerance (any value) */
#define FIN(x) (!__CPROVER_isnand(x) && !__CPROVER_isinfd(x))
/* magnitudes of geometry coefficients: zero, or within [1e-100, 1e100] (excludes overflow / underflow of the quotient, which no real geometry reaches) */
#define PHYS(x) ((x) == 0 || (fabs(x) >= 1e-100 && fabs(x) <= 1e100))
/* the property's clause: a reported intersection distance is positive, or it is the no-intersection value */
#define DIST_OK(x) ((x) > 0)
"""
QS_RULES = [
    Rule(r"Intersections result;", "Intersections result = {{0, 0}};", (0, 1), note="value-initialised array"),
    Rule(r"Intersections result\{-2 \* hba_, no_intersection\(\)\};", "Intersections result = {{-2 * hba_, no_intersection()}};", (0, 1), note="aggregate initialisation"),
    Rule(r"result = \{no_intersection\(\), no_intersection\(\)\};", "result.v[0] = no_intersection(); result.v[1] = no_intersection();", (0, 2), note="aggregate assignment"),
    Rule(r"return \{no_intersection\(\), no_intersection\(\)\};", "{ Intersections r_ = {{no_intersection(), no_intersection()}}; return r_; }", (0, 1), note="aggregate return"),
    Rule(r"result\[(\d)\]", r"result.v[\1]", "*", note="Array::operator[]"),
    Rule(r"no_intersection\(\)", "NO_INT", "*", note="no_intersection() == +infinity"),
    Rule(r"ipow<2>\(([^()]*)\)", r"((\1) * (\1))", "*", note="ipow<2>(x) == x*x"),
    Rule(r"std::sqrt\(", "UF_sqrt(", "*", note="sqrt -> uninterpreted non-negative value"),
    Rule(r"std::fabs\(", "fabs(", "*", note="std::fabs -> C fabs"),
    Rule(r"QuadraticSolver::min_a\(\)", "g_min_a", "*", note="tolerance constant -> any positive value"),
    Rule(r"(?<![\w.>])(a_inv_|hba_)\b", r"self->\1", "*", note="data members"),
]


def qs_piece(ctx, which):
    if which == "call_c":
        return ctx.func(QS, r"^QuadraticSolver::operator\(\)\(real_type c\) const -> Intersections", QS_RULES, name="QuadraticSolver::operator()(c)")
    if which == "call_on":
        return ctx.func(QS, r"CELER_FUNCTION auto QuadraticSolver::operator\(\)\(\) const -> Intersections", QS_RULES, name="QuadraticSolver::operator()()")
    if which == "along":
        return ctx.func(QS, r"^QuadraticSolver::solve_along_surface\(real_type half_b,", QS_RULES, name="QuadraticSolver::solve_along_surface")
    raise KeyError(which)


QS_SIGS = {
    "call_c": ("Intersections QS_call_c(QuadraticSolver const* self, real_type c)", "self != 0 && FIN(self->a_inv_) && FIN(self->hba_) && FIN(c)", "QS_call_c(&q, c);"),
    "call_on": ("Intersections QS_call_on(QuadraticSolver const* self)", "self != 0 && FIN(self->hba_)", "QS_call_on(&q);"),
    "along": ("Intersections QS_solve_along_surface(real_type half_b, real_type c)", "FIN(half_b) && FIN(c) && g_min_a > 0 && PHYS(half_b) && PHYS(c)", "QS_solve_along_surface(hb, c);"),
}


def build_qs(which):
    def build(ctx):
        pc = qs_piece(ctx, which)
        sig, req, call = QS_SIGS[which]
        return (HDR + QS_MODEL + sig + "\n__CPROVER_requires(" + req + ")\n__CPROVER_assigns()\n"
                "/* each reported distance is positive (possibly the no-intersection value +inf), never zero, negative or NaN */\n"
                "__CPROVER_ensures(DIST_OK(__CPROVER_return_value.v[0]) && DIST_OK(__CPROVER_return_value.v[1]))\n"
                "{" + pc.body + "}\nvoid h_qs(void)\n{\n    QuadraticSolver q; real_type c, hb;\n    " + call + "\n    VERIF_CANARY();\n}\n")
    return build


QSG_RULES = QS_RULES + [
    Rule(r"QuadraticSolver solve\(a, half_b\);", "QuadraticSolver solve; QS_ctor(&solve, a, half_b);", 1, note="constructor call (body extracted)"),
    Rule(r"on_surface == SurfaceState::on \? solve\(\) : solve\(c\)", "on_surface == SS_on ? QS_call_on(&solve) : QS_call_c(&solve, c)", 1, note="functor calls -> contracts (enforced in c12_qs_call_on / c12_qs_call_c)"),
    Rule(r"SurfaceState::(\w+)", r"SS_\1", "*", note="enum class value (bound)"),
    Rule(r"QuadraticSolver::solve_along_surface\(", "QS_solve_along_surface(", 1, note="static member -> contract (enforced in c12_qs_along_surface)"),
]


def build_qs_general(ctx):
    import re
    from vkit.extract import init_list, ExtractionDrift
    pc = ctx.func(QS, r"^QuadraticSolver::solve_general\(real_type a,", QSG_RULES, name="QuadraticSolver::solve_general")
    ct = ctx.span(QS, r"CELER_FUNCTION QuadraticSolver::QuadraticSolver\(real_type a, real_type half_b\)", r"\n\{\n.*?\n\}", [], name="QuadraticSolver::QuadraticSolver")
    k = ct.body.index("\n{\n")
    inits = init_list(ct.body[:k])
    if [m for m, _ in inits] != ["a_inv_", "hba_"]:
        raise ExtractionDrift("QuadraticSolver constructor initialiser list changed")
    ctor = "\n".join("    self->%s = %s;" % (m, re.sub(r"(?<![\w.>])(a_inv_|hba_)\b", r"self->\1", e)) for m, e in inits)
    ctor_body = ct.body[k + 3 : -1].replace("std::fabs(", "fabs(").replace("QuadraticSolver::min_a()", "g_min_a")
    stubs = ""
    for w in ("call_c", "call_on", "along"):
        sig, req, _ = QS_SIGS[w]
        stubs += sig + "\n__CPROVER_requires(" + req + ")\n__CPROVER_assigns()\n__CPROVER_ensures(DIST_OK(__CPROVER_return_value.v[0]) && DIST_OK(__CPROVER_return_value.v[1]))\n;\n"
    return (HDR + QS_MODEL + stubs + "static void QS_ctor(QuadraticSolver* self, real_type a, real_type half_b)\n{\n" + ctor + "\n" + ctor_body + "}\n" + """
Intersections QS_solve_general(real_type a, real_type half_b, real_type c, int on_surface)
__CPROVER_requires(FIN(a) && FIN(half_b) && FIN(c) && PHYS(a) && PHYS(half_b) && PHYS(c) && g_min_a >= 1e-100 && (on_surface == SS_off || on_surface == SS_on))
__CPROVER_assigns()
__CPROVER_ensures(DIST_OK(__CPROVER_return_value.v[0]) && DIST_OK(__CPROVER_return_value.v[1]))
{""" + pc.body + """}
void h_qsg(void)
{
    real_type a, hb, c; int s;
    QS_solve_general(a, hb, c, s);
    VERIF_CANARY();
}
""")


def _qs_argv(inputs, fl):
    runs = []
    if "hb#bin" in inputs and "c#bin" in inputs and "along_surface" in (fl.get("obligation", "") + fl.get("description", "")):
        runs.append(["quadratic_along", inputs["hb#bin"], inputs["c#bin"]])
    runs.append(["quadratic_battery"])
    return runs


REPLAY_QS = {"src": "replay/c12.cc", "argv": _qs_argv}

UNITS += [
    Unit("c12_qs_call_c", build_qs("call_c"), "h_qs", enforce="QS_call_c", timeout=600, backend=["sat", "kissat", "cvc5"], must_have=[r"QS_call_c.postcondition", r"sqrt argument"], replay=REPLAY_QS,
         assumptions=["std::sqrt returns some non-negative non-NaN value for a positive argument (accuracy not decided)"],
         note="QuadraticSolver::operator()(c): both reported roots are > 0 or no_intersection, for every finite a_inv, b/2a, c and ANY sqrt value; sqrt is only taken of a positive discriminant"),
    Unit("c12_qs_call_on", build_qs("call_on"), "h_qs", enforce="QS_call_on", timeout=300, backend=["sat", "kissat", "cvc5"], must_have=[r"QS_call_on.postcondition"], replay=REPLAY_QS,
         note="QuadraticSolver::operator()() (on-surface): the single reported root is > 0 or no_intersection"),
    Unit("c12_qs_along_surface", build_qs("along"), "h_qs", enforce="QS_solve_along_surface", timeout=600, backend=["sat", "kissat", "cvc5"], must_have=[r"QS_solve_along_surface.postcondition"], replay=REPLAY_QS,
         note="QuadraticSolver::solve_along_surface (degenerate a ~ 0): the reported root is > 0 or no_intersection"),
    Unit("c12_qs_solve_general", build_qs_general, "h_qsg", enforce="QS_solve_general", replace=["QS_call_c", "QS_call_on", "QS_solve_along_surface"], timeout=900, backend=["sat", "kissat", "cvc5", "z3"],
         must_have=[r"QS_solve_general.postcondition", r"QS_call_c.precondition", r"QS_solve_along_surface.precondition", r"celer_expect"], replay=REPLAY_QS,
         assumptions=["coefficient magnitudes zero or within [1e-100, 1e100]"],
         note="QuadraticSolver::solve_general: dispatch to the three solvers with their preconditions satisfied (finite 1/a and b/2a when |a| >= min_a; constructor EXPECT holds); every reported distance > 0 or no_intersection in all four branches"),
]


# ---------------------------------------------------------------------------
# calc_normal: the normal is the (normalised) gradient of the surface function, in GLOBAL axis order
# ---------------------------------------------------------------------------
import re as _re  # noqa: E402
from vkit.extract import ExtractionDrift as _Drift  # noqa: E402

SURF_DIR = "src/orange/surf/"
NORMAL_MODEL = """
/* exact small-integer abstraction (VERIF_REAL_BITS = 8, every input in [-3, 3], no intermediate exceeds 8 bits): the gradient components are polynomials of degree <= 1
   in the position and in each coefficient, so agreement on 7 values per variable is agreement for all reals.  make_unit_vector is an uninterpreted function of the
   three components: the unit decides WHICH vector is normalised, not the normalisation itself. */
typedef struct { real_type v[3]; } Real3;
int __CPROVER_uninterpreted_unit0(int, int, int);
int __CPROVER_uninterpreted_unit1(int, int, int);
int __CPROVER_uninterpreted_unit2(int, int, int);
typedef struct { int v[3]; } Unit3;
static Unit3 UT_unit(Real3 n) { Unit3 r = {{__CPROVER_uninterpreted_unit0(n.v[0], n.v[1], n.v[2]), __CPROVER_uninterpreted_unit1(n.v[0], n.v[1], n.v[2]), __CPROVER_uninterpreted_unit2(n.v[0], n.v[1], n.v[2])}}; return r; }
#define UNIT_OF(r, g0, g1, g2) ((r).v[0] == __CPROVER_uninterpreted_unit0((g0), (g1), (g2)) && (r).v[1] == __CPROVER_uninterpreted_unit1((g0), (g1), (g2)) && (r).v[2] == __CPROVER_uninterpreted_unit2((g0), (g1), (g2)))
#define R3(x) ((x) >= -3 && (x) <= 3)
#define POS_OK (R3(pos->v[0]) && R3(pos->v[1]) && R3(pos->v[2]))
"""
NORMAL_RULES = [
    Rule(r"Real3 (\w+)\{([^{}]*)\};", r"Real3 \1 = {{\2}};", "*", note="Array aggregate initialisation"),
    Rule(r"Real3\{([^{}]*)\}", r"(Real3){{\1}}", "*", note="Array temporary"),
    Rule(r"\bpos\[", "pos->v[", "*", note="Real3 const& -> pointer; Array::operator[]"),
    Rule(r"\bnorm\[", "norm.v[", "*", note="Array::operator[]"),
    Rule(r"\borigin_\[", "self->origin_.v[", "*", note="member Array::operator[]"),
    Rule(r"to_int\(Axis::x\)", "0", "*", note="to_int(Axis::x) == 0 (bound)"), Rule(r"to_int\(Axis::y\)", "1", "*", note="to_int(Axis::y) == 1 (bound)"),
    Rule(r"to_int\(Axis::z\)", "2", "*", note="to_int(Axis::z) == 2 (bound)"), Rule(r"to_int\(Axis::size_\)", "3", "*", note="to_int(Axis::size_) == 3 (bound)"),
    Rule(r"to_int\(([TUV])\)", r"\1_AX", "*", note="template axis / derived axes (extracted from the class)"),
    Rule(r"for \(auto i = ", "for (int i = ", "*", note="auto"),
    Rule(r"make_unit_vector\(pos\)", "UT_unit(*pos)", "*", note="normalisation -> uninterpreted"),
    Rule(r"make_unit_vector\(", "UT_unit(", "*", note="normalisation -> uninterpreted"),
    Rule(r"(?<![\w.>])(tsq_|origin_u_|origin_v_|[a-j]_)\b", r"self->\1", "*", note="data members"),
    Rule(r"return norm;", "return UT_ident(norm);", "*", note="already-unit vector returned as is"),
    Rule(r"return normal_;", "return UT_ident(self->normal_);", "*", note="stored unit normal returned as is"),
    Rule(r"return this->calc_normal\(\);", "return SURF_calc_normal0(self);", "*", note="delegation"),
]


def axes_defs(ctx, path, axis):
    """T bound to `axis`; U, V from the class's own `static constexpr Axis U{...}` lines."""
    text = ctx.read(path)
    out = "#define T_AX %d\n" % axis
    for nm in "UV":
        m = _re.search(r"static constexpr Axis %s\{T == Axis::(\w) \? Axis::(\w) : Axis::(\w)\};" % nm, text)
        if not m:
            raise _Drift("definition of axis %s not found in %s" % (nm, path))
        ax = {"x": 0, "y": 1, "z": 2}
        out += "#define %s_AX (T_AX == %d ? %d : %d)   /* %s */\n" % (nm, ax[m.group(1)], ax[m.group(2)], ax[m.group(3)], m.group(0))
    return out


NORMALS = {
    # name: (file, locator, struct fields, axis-templated?, requires on members, gradient components g0,g1,g2 (global axis order))
    "cone": ("ConeAligned.hh", r"CELER_FUNCTION Real3 ConeAligned<T>::calc_normal\(Real3 const& pos\) const", "Real3 origin_; real_type tsq_;", True,
             "R3(self->origin_.v[0]) && R3(self->origin_.v[1]) && R3(self->origin_.v[2]) && R3(self->tsq_)",
             ["(pos->v[%d] - self->origin_.v[%d]) * (T_AX == %d ? -self->tsq_ : 1)" % (k, k, k) for k in range(3)],
             "f = -t^2 (x_T - o_T)^2 + (x_U - o_U)^2 + (x_V - o_V)^2:  grad f / 2"),
    "cyl": ("CylAligned.hh", r"CELER_FUNCTION Real3 CylAligned<T>::calc_normal\(Real3 const& pos\) const", "real_type origin_u_, origin_v_, radius_sq_;", True,
            "R3(self->origin_u_) && R3(self->origin_v_)",
            ["(T_AX == %d ? 0 : (U_AX == %d ? pos->v[%d] - self->origin_u_ : pos->v[%d] - self->origin_v_))" % (k, k, k, k) for k in range(3)],
            "f = (x_U - o_U)^2 + (x_V - o_V)^2 - r^2:  grad f / 2"),
    "ccyl": ("CylCentered.hh", r"CELER_FUNCTION Real3 CylCentered<T>::calc_normal\(Real3 const& pos\) const", "real_type radius_sq_;", True, "1",
             ["(T_AX == %d ? 0 : pos->v[%d])" % (k, k) for k in range(3)], "f = x_U^2 + x_V^2 - r^2:  grad f / 2"),
    "sphere": ("Sphere.hh", r"CELER_FUNCTION Real3 Sphere::calc_normal\(Real3 const& pos\) const", "Real3 origin_; real_type radius_sq_;", False,
               "R3(self->origin_.v[0]) && R3(self->origin_.v[1]) && R3(self->origin_.v[2])",
               ["(pos->v[%d] - self->origin_.v[%d])" % (k, k) for k in range(3)], "f = |x - o|^2 - r^2:  grad f / 2"),
    "csphere": ("SphereCentered.hh", r"CELER_FUNCTION Real3 SphereCentered::calc_normal\(Real3 const& pos\) const", "real_type radius_sq_;", False, "1",
                ["pos->v[%d]" % k for k in range(3)], "f = |x|^2 - r^2:  grad f / 2"),
    "sq": ("SimpleQuadric.hh", r"CELER_FUNCTION Real3 SimpleQuadric::calc_normal\(Real3 const& pos\) const", "real_type a_, b_, c_, d_, e_, f_, g_;", False,
           "R3(self->a_) && R3(self->b_) && R3(self->c_) && R3(self->d_) && R3(self->e_) && R3(self->f_)",
           ["2 * self->a_ * pos->v[0] + self->d_", "2 * self->b_ * pos->v[1] + self->e_", "2 * self->c_ * pos->v[2] + self->f_"],
           "f = a x^2 + b y^2 + c z^2 + d x + e y + f z + g:  grad f"),
    "gq": ("GeneralQuadric.hh", r"CELER_FUNCTION Real3 GeneralQuadric::calc_normal\(Real3 const& pos\) const", "real_type a_, b_, c_, d_, e_, f_, g_, h_, i_, j_;", False,
           "R3(self->a_) && R3(self->b_) && R3(self->c_) && R3(self->d_) && R3(self->e_) && R3(self->f_) && R3(self->g_) && R3(self->h_) && R3(self->i_)",
           ["2 * self->a_ * pos->v[0] + self->d_ * pos->v[1] + self->f_ * pos->v[2] + self->g_", "2 * self->b_ * pos->v[1] + self->d_ * pos->v[0] + self->e_ * pos->v[2] + self->h_",
            "2 * self->c_ * pos->v[2] + self->e_ * pos->v[1] + self->f_ * pos->v[0] + self->i_"],
           "f = a x^2 + b y^2 + c z^2 + d xy + e yz + f zx + g x + h y + i z + j:  grad f"),
}


def build_normal(kind, axis=None):
    fname, loc, fields, templ, req, grad, doc = NORMALS[kind]

    def build(ctx):
        pc = ctx.func(SURF_DIR + fname, loc, NORMAL_RULES, name=fname[:-3] + "::calc_normal" + ("<%s>" % "xyz"[axis] if templ else ""))
        ax = axes_defs(ctx, SURF_DIR + fname, axis) if templ else ""
        return (HDR + NORMAL_MODEL + ax + "typedef struct { " + fields + " } Surf;\n"
                "/* " + doc + " */\n"
                "Unit3 SURF_calc_normal(Surf const* self, Real3 const* pos)\n"
                "__CPROVER_requires(self != 0 && pos != 0 && POS_OK && " + req + ")\n__CPROVER_assigns()\n"
                "/* the returned vector is the normalisation of the gradient of the surface function at pos, component k along GLOBAL axis k */\n"
                "__CPROVER_ensures(UNIT_OF(__CPROVER_return_value, " + ", ".join(grad) + "))\n"
                "{" + pc.body + "}\nvoid h_nrm(void)\n{\n    Surf s; Real3 p;\n    SURF_calc_normal(&s, &p);\n    VERIF_CANARY();\n}\n")
    return build


for _k, _spec in NORMALS.items():
    for _ax in ((0, 1, 2) if _spec[3] else (None,)):
        _name = "c12_normal_%s%s" % (_k, "" if _ax is None else "_" + "xyz"[_ax])
        UNITS.append(Unit(_name, build_normal(_k, _ax), "h_nrm", enforce="SURF_calc_normal", timeout=600, backend=["sat", "kissat", "cvc5"], defines=["VERIF_REAL_BITS=8"], unwind=5,
                          must_have=[r"SURF_calc_normal.postcondition"], checks=["--bounds-check", "--pointer-check", "--signed-overflow-check"],
                          assumptions=["exact small-integer abstraction of real_type (complete for these degree-1 polynomial identities; floating-point rounding of the components not covered)", "make_unit_vector uninterpreted (normalisation itself not decided)"],
                          note=_spec[0][:-3] + "::calc_normal" + ("<%s>" % "xyz"[_ax] if _ax is not None else "") + ": the vector that is normalised is the gradient of the surface function, each component on its own global axis"))


# ---------------------------------------------------------------------------
# SurfaceSimplifier (host): an off-axis cylinder is only snapped onto the axis when BOTH offsets are within tolerance
# ---------------------------------------------------------------------------
SSI = "src/orange/surf/SurfaceSimplifier.cc"
SSI_MODEL = """
/* exact small-integer abstraction (VERIF_REAL_BITS = 8; offsets and tolerance in [-7, 7] so that the squares and their sum fit).  The property clause is a
   NECESSARY condition of sense preservation: replacing CylAligned{u, v, r} by CylCentered{r} moves the surface by (u, v), so both |u| and |v| must be below the tolerance. */
typedef struct { real_type origin_u_, origin_v_, radius_sq_; } CylAligned;
typedef struct { real_type tol_; } SurfaceSimplifier;
bool g_simplified;
int nondet_int(void);
/* std::hypot(a, b): some value r with max(|a|,|b|) <= r <= |a| + |b| (true of the exact function; its rounding is not decided) */
static int HYPOT(int a, int b) { int r = nondet_int(); int aa = a < 0 ? -a : a, ab = b < 0 ? -b : b; __CPROVER_assume(r >= aa && r >= ab && r <= aa + ab); return r; }
#define R7(x) ((x) >= -7 && (x) <= 7)
#define ABS_(x) ((x) < 0 ? -(x) : (x))
"""
SSI_RULES = [
    Rule(r"c\.origin_([uv])\(\)", r"c->origin_\1_", "*", note="accessor"),
    Rule(r"c\.radius_sq\(\)", "c->radius_sq_", "*", note="accessor"),
    Rule(r"ipow<2>\(([^()]*)\)", r"((\1) * (\1))", "*", note="ipow<2>(x) == x*x"),
    Rule(r"std::hypot\(", "HYPOT(", "*", note="std::hypot -> bounded nondeterministic value (max(|a|,|b|) <= r <= |a|+|b|)"),
    Rule(r"return CylCentered<T>::from_radius_sq\(c->radius_sq_\);", "{ g_simplified = 1; return; }", "*", note="returns the centred cylinder (same radius): recorded"),
    Rule(r"return \{\};", "{ g_simplified = 0; return; }", "*", note="no simplification"),
    Rule(r"(?<![\w.>])tol_\b", "self->tol_", "*", note="data member"),
]


def build_simplify_cyl(ctx):
    pc = ctx.func(SSI, r"^auto SurfaceSimplifier::operator\(\)\(CylAligned<T> const& c\) const", SSI_RULES, name="SurfaceSimplifier::operator()(CylAligned<T>) (host)")
    return (HDR + SSI_MODEL + """
void SSI_cyl(SurfaceSimplifier const* self, CylAligned const* c)
__CPROVER_requires(self != 0 && c != 0 && R7(c->origin_u_) && R7(c->origin_v_) && self->tol_ > 0 && self->tol_ <= 7)
__CPROVER_assigns(g_simplified)
/* snapped onto the axis only if the axis is within the tolerance in BOTH transverse directions */
__CPROVER_ensures(g_simplified ==> (ABS_(c->origin_u_) < self->tol_ && ABS_(c->origin_v_) < self->tol_))
/* and an exactly centred cylinder written as CylAligned is always recognised */
__CPROVER_ensures((c->origin_u_ == 0 && c->origin_v_ == 0) ==> g_simplified)
{""" + pc.body + """}
void h_ssi(void)
{
    SurfaceSimplifier s; CylAligned c;
    SSI_cyl(&s, &c);
    VERIF_CANARY();
}
""")


UNITS += [
    Unit("c12_simplify_cyl", build_simplify_cyl, "h_ssi", enforce="SSI_cyl", timeout=300, backend=["sat", "kissat", "cvc5"], defines=["VERIF_REAL_BITS=8"],
         must_have=[r"SSI_cyl.postcondition"], checks=["--bounds-check", "--pointer-check"],
         assumptions=["exact small-integer abstraction (offsets, tolerance in [-7,7]); a necessary condition of sense preservation, not the tolerance formula itself"],
         note="SurfaceSimplifier::operator()(CylAligned<T>) (host): a cylinder is replaced by the centred one only when both transverse offsets are below the tolerance; a centred one is always recognised"),
]


# ---------------------------------------------------------------------------
# calc_sense: the sense is the sign of the surface function
# ---------------------------------------------------------------------------
OTY = "src/orange/OrangeTypes.hh"
SENSE_MODEL = """
/* exact small-integer abstraction (VERIF_REAL_BITS = 8): every input in [-2, 2]; the surface functions have degree <= 2 in every variable, so agreement of two polynomials
   on 5 values per variable is agreement everywhere; all intermediate values stay within 8 bits (|f| <= 2*4*3 + 2*2*3 + 2*3 + 2 < 127) */
typedef struct { real_type v[3]; } Real3;
enum { SENSE_inside = -1, SENSE_on = 0, SENSE_outside = 1 };     /* SignedSense (bound) */
#define R2(x) ((x) >= -2 && (x) <= 2)
#define POS_OK (R2(pos->v[0]) && R2(pos->v[1]) && R2(pos->v[2]))
#define SIGN_OF(f) ((f) > 0 ? SENSE_outside : ((f) < 0 ? SENSE_inside : SENSE_on))
static int dot3(Real3 a, Real3 b) { return a.v[0] * b.v[0] + a.v[1] * b.v[1] + a.v[2] * b.v[2]; }     /* dot_product (ArrayUtils.hh): sum of the three products */
"""
SENSE_RULES = [r for r in NORMAL_RULES] + [
    Rule(r"\btpos\b(?!\{)", "tpos", "*", note="(local)"),
    Rule(r"ipow<2>\(([^()]*)\)", r"((\1) * (\1))", "*", note="ipow<2>(x) == x*x"),
    Rule(r"dot_product\(pos, pos\)", "dot3(*pos, *pos)", "*", note="dot_product"),
    Rule(r"dot_product\(normal_, pos\)", "dot3(self->normal_, *pos)", "*", note="dot_product"),
    Rule(r"dot_product\(pos, normal_\)", "dot3(*pos, self->normal_)", "*", note="dot_product"),
    Rule(r"dot_product\(", "dot3(", "*", note="dot_product"),
    Rule(r"(?<![\w.>])(radius_sq_|position_|d_)\b", r"self->\1", "*", note="data members"),
    Rule(r"self->normal_", "self->normal_", "*", note="(member)"),
    Rule(r"(?<![\w.>])normal_\b", "self->normal_", "*", note="data member"),
]
X0, X1, X2 = "pos->v[0]", "pos->v[1]", "pos->v[2]"
SENSES = {
    "cone": ("ConeAligned.hh", r"CELER_FUNCTION SignedSense ConeAligned<T>::calc_sense\(Real3 const& pos\) const", "Real3 origin_; real_type tsq_;", True,
             "R2(self->origin_.v[0]) && R2(self->origin_.v[1]) && R2(self->origin_.v[2]) && R2(self->tsq_)",
             "(" + " + ".join("(T_AX == %d ? -self->tsq_ : 1) * (pos->v[%d] - self->origin_.v[%d]) * (pos->v[%d] - self->origin_.v[%d])" % (k, k, k, k, k) for k in range(3)) + ")"),
    "cyl": ("CylAligned.hh", r"CELER_FUNCTION SignedSense CylAligned<T>::calc_sense\(Real3 const& pos\) const", "real_type origin_u_, origin_v_, radius_sq_;", True,
            "R2(self->origin_u_) && R2(self->origin_v_) && R2(self->radius_sq_)",
            "((pos->v[U_AX] - self->origin_u_) * (pos->v[U_AX] - self->origin_u_) + (pos->v[V_AX] - self->origin_v_) * (pos->v[V_AX] - self->origin_v_) - self->radius_sq_)"),
    "ccyl": ("CylCentered.hh", r"CELER_FUNCTION SignedSense CylCentered<T>::calc_sense\(Real3 const& pos\) const", "real_type radius_sq_;", True, "R2(self->radius_sq_)",
             "(pos->v[U_AX] * pos->v[U_AX] + pos->v[V_AX] * pos->v[V_AX] - self->radius_sq_)"),
    "sphere": ("Sphere.hh", r"CELER_FUNCTION SignedSense Sphere::calc_sense\(Real3 const& pos\) const", "Real3 origin_; real_type radius_sq_;", False,
               "R2(self->origin_.v[0]) && R2(self->origin_.v[1]) && R2(self->origin_.v[2]) && R2(self->radius_sq_)",
               "(" + " + ".join("(pos->v[%d] - self->origin_.v[%d]) * (pos->v[%d] - self->origin_.v[%d])" % (k, k, k, k) for k in range(3)) + " - self->radius_sq_)"),
    "csphere": ("SphereCentered.hh", r"CELER_FUNCTION SignedSense SphereCentered::calc_sense\(Real3 const& pos\) const", "real_type radius_sq_;", False, "R2(self->radius_sq_)",
                "(%s * %s + %s * %s + %s * %s - self->radius_sq_)" % (X0, X0, X1, X1, X2, X2)),
    "sq": ("SimpleQuadric.hh", r"CELER_FUNCTION SignedSense SimpleQuadric::calc_sense\(Real3 const& pos\) const", "real_type a_, b_, c_, d_, e_, f_, g_;", False,
           "R2(self->a_) && R2(self->b_) && R2(self->c_) && R2(self->d_) && R2(self->e_) && R2(self->f_) && R2(self->g_)",
           "(self->a_ * %s * %s + self->b_ * %s * %s + self->c_ * %s * %s + self->d_ * %s + self->e_ * %s + self->f_ * %s + self->g_)" % (X0, X0, X1, X1, X2, X2, X0, X1, X2)),
    "gq": ("GeneralQuadric.hh", r"CELER_FUNCTION SignedSense GeneralQuadric::calc_sense\(Real3 const& pos\) const", "real_type a_, b_, c_, d_, e_, f_, g_, h_, i_, j_;", False,
           "R2(self->a_) && R2(self->b_) && R2(self->c_) && R2(self->d_) && R2(self->e_) && R2(self->f_) && R2(self->g_) && R2(self->h_) && R2(self->i_) && R2(self->j_)",
           "(self->a_ * %s * %s + self->b_ * %s * %s + self->c_ * %s * %s + self->d_ * %s * %s + self->e_ * %s * %s + self->f_ * %s * %s + self->g_ * %s + self->h_ * %s + self->i_ * %s + self->j_)" % (X0, X0, X1, X1, X2, X2, X0, X1, X1, X2, X2, X0, X0, X1, X2)),
    "plane_aligned": ("PlaneAligned.hh", r"CELER_FUNCTION SignedSense PlaneAligned<T>::calc_sense\(Real3 const& pos\) const", "real_type position_;", True, "R2(self->position_)",
                      "(pos->v[T_AX] - self->position_)"),
    "plane": ("Plane.hh", r"CELER_FUNCTION SignedSense Plane::calc_sense\(Real3 const& pos\) const", "Real3 normal_; real_type d_;", False,
              "R2(self->normal_.v[0]) && R2(self->normal_.v[1]) && R2(self->normal_.v[2]) && R2(self->d_)",
              "(self->normal_.v[0] * %s + self->normal_.v[1] * %s + self->normal_.v[2] * %s - self->d_)" % (X0, X1, X2)),
}


def real_to_sense_text(ctx):
    pc = ctx.func(OTY, r"^real_to_sense\(real_type quadric\)", [Rule(r"\(SignedSense\)", "(int)", "*", note="enum cast"), Rule(r"static_cast<SignedSense>\(", "(int)(", "*", note="enum cast")], name="real_to_sense")
    return "static int real_to_sense(int quadric)\n{" + pc.body + "}\n"


def build_sense(kind, axis=None):
    fname, loc, fields, templ, req, f = SENSES[kind]

    def build(ctx):
        pc = ctx.func(SURF_DIR + fname, loc, SENSE_RULES, name=fname[:-3] + "::calc_sense" + ("<%s>" % "xyz"[axis] if templ else ""))
        ax = ""
        if templ:
            ax = axes_defs(ctx, SURF_DIR + fname, axis) if kind != "plane_aligned" else "#define T_AX %d\n" % axis
        return (HDR + SENSE_MODEL + ax + real_to_sense_text(ctx) + "typedef struct { " + fields + " } Surf;\n"
                "int SURF_calc_sense(Surf const* self, Real3 const* pos)\n"
                "__CPROVER_requires(self != 0 && pos != 0 && POS_OK && " + req + ")\n__CPROVER_assigns()\n"
                "/* the sense is the sign of the surface function of the class documentation, evaluated at pos */\n"
                "__CPROVER_ensures(__CPROVER_return_value == SIGN_OF(" + f + "))\n"
                "{" + pc.body + "}\nvoid h_sns(void)\n{\n    Surf s; Real3 p;\n    SURF_calc_sense(&s, &p);\n    VERIF_CANARY();\n}\n")
    return build


def build_real_to_sense(ctx):
    return (HDR + "#define real_type double\n" if False else HDR) + """
enum { SENSE_inside = -1, SENSE_on = 0, SENSE_outside = 1 };
""" + real_to_sense_text(ctx).replace("static int real_to_sense(int quadric)", "int real_to_sense(double quadric)\n__CPROVER_requires(1)\n__CPROVER_assigns()\n/* sign of a REAL (double) value: positive -> outside, negative -> inside, zero (either sign) -> on; NaN counts as outside */\n__CPROVER_ensures(__CPROVER_return_value == (quadric > 0 ? SENSE_outside : (quadric < 0 ? SENSE_inside : (quadric == 0 ? SENSE_on : SENSE_outside))))") + """
void h_rts(void)
{
    double q;
    real_to_sense(q);
    VERIF_CANARY();
}
"""


UNITS.append(Unit("c12_real_to_sense", build_real_to_sense, "h_rts", enforce="real_to_sense", timeout=120, must_have=[r"real_to_sense.postcondition"],
                  note="real_to_sense(double): +1 / -1 / 0 for positive / negative / zero, for every double (NaN -> outside)"))
for _k, _spec in SENSES.items():
    for _ax in ((0, 1, 2) if _spec[3] else (None,)):
        _name = "c12_sense_%s%s" % (_k, "" if _ax is None else "_" + "xyz"[_ax])
        UNITS.append(Unit(_name, build_sense(_k, _ax), "h_sns", enforce="SURF_calc_sense", timeout=900, backend=["sat", "kissat", "cvc5"], defines=["VERIF_REAL_BITS=8"], unwind=5,
                          must_have=[r"SURF_calc_sense.postcondition"], checks=["--bounds-check", "--pointer-check", "--signed-overflow-check"],
                          assumptions=["exact small-integer abstraction of real_type (complete for these degree <= 2 polynomial identities; floating-point rounding of the surface function near zero not covered)"],
                          note=_spec[0][:-3] + "::calc_sense" + ("<%s>" % "xyz"[_ax] if _ax is not None else "") + ": the sense is the sign of the class's surface function at the position (real_to_sense of exactly that polynomial)"))


# ---------------------------------------------------------------------------
# QuadricPlaneConverter (host, header): a flat quadric becomes the plane with the SAME zero set
# ---------------------------------------------------------------------------
QPC = "src/orange/surf/detail/QuadricPlaneConverter.hh"
QPC_MODEL = """
typedef struct { real_type v[3]; } Real3;
typedef struct { Real3 second_, first_; real_type zeroth_; } SimpleQuadric;
typedef struct { Real3 normal_; real_type d_; } Plane;
real_type __CPROVER_uninterpreted_norm3(real_type, real_type, real_type);
real_type __CPROVER_uninterpreted_recip(real_type);
real_type __CPROVER_uninterpreted_mulc(real_type, real_type);
real_type __CPROVER_uninterpreted_unit3c(real_type, real_type, real_type, int);
#define NORM3(a) __CPROVER_uninterpreted_norm3((a).v[0], (a).v[1], (a).v[2])                      /* celeritas::norm: value uninterpreted */
#define RECIP(x) __CPROVER_uninterpreted_recip(x)                                                  /* 1 / x: value uninterpreted */
static real_type MULC(real_type a, real_type b) { return a <= b ? __CPROVER_uninterpreted_mulc(a, b) : __CPROVER_uninterpreted_mulc(b, a); }   /* product: uninterpreted, commutative */
static Real3 UNIT3(Real3 a) { Real3 r = {{__CPROVER_uninterpreted_unit3c(a.v[0], a.v[1], a.v[2], 0), __CPROVER_uninterpreted_unit3c(a.v[0], a.v[1], a.v[2], 1), __CPROVER_uninterpreted_unit3c(a.v[0], a.v[1], a.v[2], 2)}}; return r; }
static void SCALE3(Real3* a, real_type s) { a->v[0] = MULC(a->v[0], s); a->v[1] = MULC(a->v[1], s); a->v[2] = MULC(a->v[2], s); }
#define EQV(a, b) ((a) == (b) || (__CPROVER_isnand(a) && __CPROVER_isnand(b)))
"""
QPC_RULES = [
    Rule(r"CELER_EXPECT\(\s*!?std::all_of\([^;]*;", "", "*", flags=16, note="tolerance preconditions on the coefficients (std::all_of over soft_zero_) dropped: stated in the contract"),
    Rule(r"make_array\(sq\.first\(\)\)", "sq->first_", "*", note="Span -> Array copy of the linear coefficients"),
    Rule(r"\bmake_unit_vector\(", "UNIT3(", "*", note="make_unit_vector -> uninterpreted components"),
    Rule(r"auto n = ", "Real3 n = ", 1, note="auto -> Real3"),
    Rule(r"1 / (?:celeritas::)?norm\((\w+)\)", r"RECIP(NORM3(\1))", "*", note="1 / norm(v) -> uninterpreted functions"),
    Rule(r"\bn \*= (\w+);", r"SCALE3(&n, \1);", "*", note="Array *= scalar (ArrayOperators.hh): componentwise product"),
    Rule(r"-sq\.zeroth\(\) \* (\w+)", r"MULC(-sq->zeroth_, \1)", "*", note="product -> uninterpreted commutative"),
    Rule(r"-sq\.zeroth\(\) / (?:celeritas::)?norm\((\w+)\)", r"MULC(-sq->zeroth_, RECIP(NORM3(\1)))", "*", note="x / y treated as x * (1/y)"),
    Rule(r"return Plane\{n, d\};", "{ Plane r_ = {n, d}; return r_; }", 1, note="brace-constructed return value"),
]


def build_quadric_plane(ctx):
    pc = ctx.func(QPC, r"^Plane QuadricPlaneConverter::operator\(\)\(SimpleQuadric const& sq\) const", QPC_RULES, name="QuadricPlaneConverter::operator() (host)")
    return (HDR + QPC_MODEL + """
#define S_ (RECIP(NORM3(sq->first_)))       /* the ONE scale factor: 1 / |first| of the quadric's own linear coefficients */
Plane QPC_call(SimpleQuadric const* sq)
__CPROVER_requires(__CPROVER_r_ok(sq, sizeof(*sq)))
__CPROVER_assigns()
/* first . x + zeroth = 0 and n . x - d = 0 have the same zero set and orientation iff (n, -d) = s (first, zeroth) with ONE factor s > 0:
   every normal component AND the displacement are scaled by the same 1 / |first| */
__CPROVER_ensures((EQV(__CPROVER_return_value.normal_.v[0], MULC(sq->first_.v[0], S_)) && EQV(__CPROVER_return_value.normal_.v[1], MULC(sq->first_.v[1], S_)) && EQV(__CPROVER_return_value.normal_.v[2], MULC(sq->first_.v[2], S_)))
               || (EQV(__CPROVER_return_value.normal_.v[0], UNIT3(sq->first_).v[0]) && EQV(__CPROVER_return_value.normal_.v[1], UNIT3(sq->first_).v[1]) && EQV(__CPROVER_return_value.normal_.v[2], UNIT3(sq->first_).v[2])))   /* (make_unit_vector(first) is the same vector by definition) */
__CPROVER_ensures(EQV(__CPROVER_return_value.d_, MULC(-sq->zeroth_, S_)))
{""" + pc.body + """}
void h_qpc(void)
{
    SimpleQuadric q;
    QPC_call(&q);
    VERIF_CANARY();
}
""")


UNITS += [
    Unit("c12_quadric_plane", build_quadric_plane, "h_qpc", enforce="QPC_call", timeout=120, backend=["sat", "cvc5"], must_have=[r"QPC_call.postcondition"], checks=["--bounds-check", "--pointer-check"],
         assumptions=["norm, reciprocal, products uninterpreted (product commutative): the unit decides that the normal and the displacement are scaled by the SAME factor 1/|first|, not its numeric accuracy",
                      "tolerance preconditions (second-order terms soft-zero, first-order not) are the caller's (SurfaceSimplifier)"],
         note="QuadricPlaneConverter::operator() (host): plane normal = first / |first| and displacement = -zeroth / |first| with one common factor, so the plane has the quadric's zero set and orientation"),
]


# ---------------------------------------------------------------------------
# PlaneAligned<T>::calc_intersections and Plane::calc_intersections: positive distance or none; none on the surface / parallel
# ---------------------------------------------------------------------------
PLA = "src/orange/surf/PlaneAligned.hh"
PLN = "src/orange/surf/Plane.hh"
PLANE_MODEL = """
#include <math.h>
typedef struct { real_type v[3]; } Real3;
typedef struct { real_type position_; } PlaneAligned;
typedef struct { Real3 normal_; real_type d_; } Plane;
enum { SS_off = 0, SS_on = 1 };
#define NO_INTERSECTION __builtin_inf()
#define TAXIS 1                          /* template parameter T bound to Axis::y (one instantiation) */
real_type __CPROVER_uninterpreted_dot(real_type, real_type, real_type, real_type, real_type, real_type);
#define DOT(a, b) __CPROVER_uninterpreted_dot((a).v[0], (a).v[1], (a).v[2], (b).v[0], (b).v[1], (b).v[2])     /* dot_product: value uninterpreted */
"""
PLANE_RULES = [
    Rule(r"dir\[to_int\(T\)\]", "dir.v[TAXIS]", "*", note="component along the plane's axis"),
    Rule(r"pos\[to_int\(T\)\]", "pos.v[TAXIS]", "*", note="component along the plane's axis"),
    Rule(r"dot_product\(normal_, (dir|pos)\)", r"DOT(self->normal_, \1)", "*", note="dot_product -> uninterpreted"),
    Rule(r"SurfaceState::(on|off)", r"SS_\1", "*", note="enum class value"),
    Rule(r"return \{([^{}]*)\};", r"return (\1);", "+", note="one-element Intersections array -> its element"),
    Rule(r"no_intersection\(\)", "NO_INTERSECTION", "*", note="no_intersection() == infinity"),
    Rule(r"(?<![\w.>])(position_|d_)\b", r"self->\1", "*", note="data member"),
]
PLANE_POST = """
/* every reported distance is strictly positive (or the no-intersection value), never NaN */
__CPROVER_ensures(__CPROVER_return_value > 0)
/* a track ON the surface, or moving parallel to it, never re-intersects it */
__CPROVER_ensures((on_surface == SS_on || NDIR == 0) ==> __CPROVER_return_value == NO_INTERSECTION)
/* otherwise the distance is (plane position - position along the normal) / (direction along the normal) whenever that is positive, else none */
__CPROVER_ensures((on_surface == SS_off && NDIR != 0) ==> __CPROVER_return_value == (((OFFSET) / (NDIR) > 0) ? (OFFSET) / (NDIR) : NO_INTERSECTION))
"""


def build_plane_aligned(ctx):
    pc = ctx.func(PLA, r"^PlaneAligned<T>::calc_intersections\(Real3 const& pos,", PLANE_RULES, name="PlaneAligned<T>::calc_intersections")
    return (HDR + PLANE_MODEL + """
#define NDIR (dir.v[TAXIS])
#define OFFSET (self->position_ - pos.v[TAXIS])
real_type PLA_isect(PlaneAligned const* self, Real3 pos, Real3 dir, int on_surface)
__CPROVER_requires(self != 0 && (on_surface == SS_off || on_surface == SS_on) && !__CPROVER_isnand(self->position_) && !__CPROVER_isnand(pos.v[TAXIS]) && !__CPROVER_isnand(dir.v[TAXIS]))
__CPROVER_assigns()""" + PLANE_POST + "{" + pc.body + """}
void h_pla(void) { PlaneAligned p; Real3 a, b; int s; PLA_isect(&p, a, b, s); VERIF_CANARY(); }
""")


def build_plane(ctx):
    pc = ctx.func(PLN, r"^Plane::calc_intersections\(Real3 const& pos,", PLANE_RULES, name="Plane::calc_intersections")
    return (HDR + PLANE_MODEL + """
#define NDIR (DOT(self->normal_, dir))
#define OFFSET (self->d_ - DOT(self->normal_, pos))
real_type PLN_isect(Plane const* self, Real3 pos, Real3 dir, int on_surface)
__CPROVER_requires(self != 0 && (on_surface == SS_off || on_surface == SS_on) && !__CPROVER_isnand(self->d_) && !__CPROVER_isnand(DOT(self->normal_, pos)) && !__CPROVER_isnand(DOT(self->normal_, dir)))
__CPROVER_assigns()""" + PLANE_POST + "{" + pc.body + """}
void h_pln(void) { Plane p; Real3 a, b; int s; PLN_isect(&p, a, b, s); VERIF_CANARY(); }
""")


UNITS += [
    Unit("c12_plane_aligned_isect", build_plane_aligned, "h_pla", enforce="PLA_isect", timeout=300, backend=["sat", "kissat", "cvc5"], must_have=[r"PLA_isect.postcondition"], checks=["--bounds-check", "--pointer-check"],
         assumptions=["template parameter T bound to Axis::y"],
         note="PlaneAligned<T>::calc_intersections: distance > 0 or none; none on the surface or for a parallel direction; otherwise (position - pos[T]) / dir[T] (IEEE division, bit-precise)"),
    Unit("c12_plane_isect", build_plane, "h_pln", enforce="PLN_isect", timeout=300, backend=["sat", "kissat", "cvc5"], must_have=[r"PLN_isect.postcondition"], checks=["--bounds-check", "--pointer-check"],
         assumptions=["dot_product uninterpreted (the unit decides which vectors are projected on the normal, not the accuracy)"],
         note="Plane::calc_intersections: distance > 0 or none; none on the surface or for a direction perpendicular to the normal; otherwise (d - n.pos) / (n.dir)"),
]


# ---------------------------------------------------------------------------
# Translation: transform_down is the inverse of transform_up (exact-integer abstraction of real_type); directions are untouched
# ---------------------------------------------------------------------------
TRL = "src/orange/transform/Translation.hh"
TRL_MODEL = """
typedef struct { real_type v[3]; } Real3;
typedef struct { Real3 tra_; } Translation;
static Real3 ADD3(Real3 a, Real3 b) { Real3 r = {{a.v[0] + b.v[0], a.v[1] + b.v[1], a.v[2] + b.v[2]}}; return r; }     /* Array operator+ (ArrayOperators.hh): componentwise */
static Real3 SUB3(Real3 a, Real3 b) { Real3 r = {{a.v[0] - b.v[0], a.v[1] - b.v[1], a.v[2] - b.v[2]}}; return r; }     /* Array operator- */
#define EQ3(a, b) ((a).v[0] == (b).v[0] && (a).v[1] == (b).v[1] && (a).v[2] == (b).v[2])
#define RNG3(a) ((a).v[0] > -(1l << 40) && (a).v[0] < (1l << 40) && (a).v[1] > -(1l << 40) && (a).v[1] < (1l << 40) && (a).v[2] > -(1l << 40) && (a).v[2] < (1l << 40))
"""
TRL_RULES = [
    Rule(r"return (\w+) \+ tra_;", r"return ADD3(\1, self->tra_);", (0, 1), note="Array operator+"),
    Rule(r"return (\w+) - tra_;", r"return SUB3(\1, self->tra_);", (0, 1), note="Array operator-"),
    Rule(r"return tra_ \+ (\w+);", r"return ADD3(self->tra_, \1);", (0, 1), note="Array operator+"),
    Rule(r"return tra_ - (\w+);", r"return SUB3(self->tra_, \1);", (0, 1), note="Array operator-"),
]


def build_translation(ctx):
    up = ctx.func(TRL, r"^CELER_FORCEINLINE_FUNCTION Real3 Translation::transform_up\(Real3 const& pos\) const", TRL_RULES, name="Translation::transform_up")
    dn = ctx.func(TRL, r"^Translation::transform_down\(Real3 const& parent_pos\) const", TRL_RULES, name="Translation::transform_down")
    ru = ctx.func(TRL, r"^Translation::rotate_up\(Real3 const& d\) const", [], name="Translation::rotate_up")
    rd = ctx.func(TRL, r"^Translation::rotate_down\(Real3 const& d\) const", [], name="Translation::rotate_down")
    return (HDR + TRL_MODEL + """
static Real3 TRL_up(Translation const* self, Real3 pos)
{""" + up.body + """}
static Real3 TRL_down(Translation const* self, Real3 parent_pos)
{""" + dn.body + """}
static Real3 TRL_rotate_up(Translation const* self, Real3 d)
{""" + ru.body + """}
static Real3 TRL_rotate_down(Translation const* self, Real3 d)
{""" + rd.body + """}
void h_trl(void)
{
    Translation t; Real3 p, d;
    __CPROVER_assume(RNG3(t.tra_) && RNG3(p));
    Real3 u = TRL_up(&t, p);
    __CPROVER_assert(u.v[0] == p.v[0] + t.tra_.v[0] && u.v[1] == p.v[1] + t.tra_.v[1] && u.v[2] == p.v[2] + t.tra_.v[2], "translation.up_adds: daughter -> parent adds the translation");
    Real3 back = TRL_down(&t, u);
    __CPROVER_assert(EQ3(back, p), "translation.down_inverts_up: transform_down(transform_up(p)) == p");
    Real3 dn = TRL_down(&t, p);
    Real3 fwd = TRL_up(&t, dn);
    __CPROVER_assert(EQ3(fwd, p), "translation.up_inverts_down: transform_up(transform_down(p)) == p");
    Real3 r1 = TRL_rotate_up(&t, d), r2 = TRL_rotate_down(&t, d);
    __CPROVER_assert(EQ3(r1, d) && EQ3(r2, d), "translation.directions_untouched");
    VERIF_CANARY();
}
""")


UNITS += [
    Unit("c12_translation", build_translation, "h_trl", timeout=120, backend=["sat"], defines=["VERIF_REAL_AS_INT"],
         bounded="real_type abstracted to exact 64-bit integers (|values| < 2^40): the inverse property holds in exact arithmetic only (in IEEE arithmetic up to one rounding per component)",
         must_have=[r"translation.up_adds", r"translation.down_inverts_up", r"translation.up_inverts_down", r"translation.directions_untouched"], checks=["--bounds-check", "--pointer-check", "--signed-overflow-check"],
         note="Translation: transform_up adds the translation, transform_down is its inverse (both compositions), rotate_up / rotate_down leave directions untouched"),
]
