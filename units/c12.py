"""C12: surface primitives self-consistent; transforms preserve point sets (translation of quadrics; planes; solver signs)."""
from vkit.extract import Rule
from vkit.runner import Unit

STR = "src/orange/surf/detail/SurfaceTranslator.cc"
HDR = '#include "celer.h"\n'

SQ_MODEL = """
/* exact-integer abstraction of real_type for this unit (VERIF_REAL_AS_INT): the property is a polynomial identity, decided exactly;
   floating-point rounding of the coefficients is NOT covered. Ranges keep every product inside 64 bits. */
typedef struct { real_type v[3]; } Real3;
typedef struct { real_type second[3]; real_type first[3]; real_type zeroth; } SimpleQuadric;   /* a x^2 + b y^2 + c z^2 + d x + e y + f z + g */
typedef struct { Real3 tr_; } Translation;
typedef struct { Translation const* tr_; } SurfaceTranslator;
#define IPOW2(x) ((x) * (x))      /* ipow<2> */
static real_type sq_eval(SimpleQuadric const* s, real_type const* x)
{
    real_type r = s->zeroth;
    for (int i = 0; i < 3; ++i) r += s->second[i] * x[i] * x[i] + s->first[i] * x[i];
    return r;
}
"""
SQ_RULES = [
    Rule(r"auto const second = make_array\(other\.second\(\)\);", "real_type second[3] = {other->second[0], other->second[1], other->second[2]};", 1, note="make_array(Span) -> array copy"),
    Rule(r"auto first = make_array\(other\.first\(\)\);", "real_type first[3] = {other->first[0], other->first[1], other->first[2]};", 1, note="make_array(Span) -> array copy"),
    Rule(r"other\.zeroth\(\)", "other->zeroth", 1, note="accessor"),
    Rule(r"auto const& origin = tr_\.translation\(\);", "real_type const* origin = self->tr_->tr_.v;", 1, note="Translation::translation()"),
    Rule(r"for \(auto i = to_int\(Axis::x\); i < to_int\(Axis::size_\); \+\+i\)", "for (int i = 0; i < 3; ++i)", 1, note="Axis loop: to_int(Axis::x) == 0, to_int(Axis::size_) == 3 (bound)"),
    Rule(r"ipow<2>\(([^()]*)\)", r"IPOW2(\1)", "*", note="ipow<2>(x) == x*x"),
    Rule(r"other\.first\(\)\[i\]", "other->first[i]", "*", note="accessor"),
    Rule(r"return SimpleQuadric\{second, first, zeroth\};", "SimpleQuadric res_ = {{second[0], second[1], second[2]}, {first[0], first[1], first[2]}, zeroth}; return res_;", 1, note="aggregate construction"),
]


def build_translate_sq(ctx):
    pc = ctx.func(STR, r"^SimpleQuadric SurfaceTranslator::operator\(\)\(SimpleQuadric const& other\) const", SQ_RULES, name="SurfaceTranslator::operator()(SimpleQuadric)")
    return (HDR + SQ_MODEL + """
real_type g_x[3];     /* ghost: an arbitrary point of the original frame */
#define RNG(v) ((v) >= -1000 && (v) <= 1000)
SimpleQuadric STR_sq(SurfaceTranslator const* self, SimpleQuadric const* other)
__CPROVER_requires(self != 0 && self->tr_ != 0 && other != 0)
__CPROVER_requires(RNG(other->second[0]) && RNG(other->second[1]) && RNG(other->second[2]) && RNG(other->first[0]) && RNG(other->first[1]) && RNG(other->first[2]) && RNG(other->zeroth))
__CPROVER_requires(RNG(self->tr_->tr_.v[0]) && RNG(self->tr_->tr_.v[1]) && RNG(self->tr_->tr_.v[2]) && RNG(g_x[0]) && RNG(g_x[1]) && RNG(g_x[2]))
__CPROVER_assigns()
/* the translated surface takes at the translated point x + t exactly the value the original takes at x (so senses agree and the point sets correspond) */
__CPROVER_ensures(__CPROVER_return_value.zeroth
                  + __CPROVER_return_value.second[0] * (g_x[0] + self->tr_->tr_.v[0]) * (g_x[0] + self->tr_->tr_.v[0]) + __CPROVER_return_value.first[0] * (g_x[0] + self->tr_->tr_.v[0])
                  + __CPROVER_return_value.second[1] * (g_x[1] + self->tr_->tr_.v[1]) * (g_x[1] + self->tr_->tr_.v[1]) + __CPROVER_return_value.first[1] * (g_x[1] + self->tr_->tr_.v[1])
                  + __CPROVER_return_value.second[2] * (g_x[2] + self->tr_->tr_.v[2]) * (g_x[2] + self->tr_->tr_.v[2]) + __CPROVER_return_value.first[2] * (g_x[2] + self->tr_->tr_.v[2])
                  == other->zeroth + other->second[0] * g_x[0] * g_x[0] + other->first[0] * g_x[0] + other->second[1] * g_x[1] * g_x[1] + other->first[1] * g_x[1] + other->second[2] * g_x[2] * g_x[2] + other->first[2] * g_x[2])
{""" + pc.body + """}
void h_tsq(void)
{
    Translation t; SurfaceTranslator s = {&t}; SimpleQuadric q; real_type x0, x1, x2;
    g_x[0] = x0; g_x[1] = x1; g_x[2] = x2;
    STR_sq(&s, &q);
    VERIF_CANARY();
}
""")


def _tsq_argv(inputs, fl):
    return [["translate_sq_battery"]]


REPLAY_C12 = {"src": "replay/c12.cc", "argv": _tsq_argv}

UNITS = [
    Unit("c12_translate_sq", build_translate_sq, "h_tsq", enforce="STR_sq", unwind=5, timeout=900, backend=["sat", "z3", "cvc5"], defines=["VERIF_REAL_AS_INT"],
         bounded="real_type abstracted to exact integers, coefficients/translation/point in [-1000, 1000] (polynomial identity; floating-point rounding not covered)",
         must_have=[r"STR_sq.postcondition"], checks=["--bounds-check", "--pointer-check", "--signed-overflow-check"], replay=REPLAY_C12,
         note="SurfaceTranslator(SimpleQuadric): f'(x + t) == f(x) for every point x, every simple quadric and every translation (exact arithmetic)"),
]
