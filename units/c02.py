"""C02: every primary and secondary is transported exactly once (index core + executors)."""
from vkit.extract import Rule, LoopContracts
from vkit.runner import Unit

UT = "src/celeritas/track/detail/Utils.hh"
LA = "src/celeritas/track/detail/LocateAliveExecutor.hh"
PS = "src/celeritas/track/detail/ProcessSecondariesExecutor.hh"
AT = "src/corecel/math/Atomics.hh"

HDR = '#include "celer.h"\n'

ID_TYPES = """
typedef size_type ThreadId;      /* OpaqueId<struct Thread_, size_type>: value, invalid = all ones; .get() asserts validity */
typedef size_type TrackSlotId;
#define INVALID_ID ((size_type)-1)
static size_type ID_get(size_type id) { __CPROVER_assert(id != INVALID_ID, "celer_expect: OpaqueId::get() on a valid id"); return id; }
"""
UT_RULES = [
    Rule(r"\btid\.get\(\)", "ID_get(tid)", "*", note="OpaqueId::get() -> validity assertion + value"),
    Rule(r"\btid\.unchecked_get\(\)", "tid", "*", note="OpaqueId::unchecked_get()"),
    Rule(r"CELER_EXPECT\(tid\);", "CELER_EXPECT(tid != INVALID_ID);", "*", note="OpaqueId::operator bool"),
]


def piece_index_before(ctx):
    return ctx.func(UT, r"CELER_FORCEINLINE_FUNCTION size_type index_before\(size_type size, ThreadId tid\)", UT_RULES, name="detail::index_before")


def piece_index_after(ctx):
    return ctx.func(UT, r"CELER_FORCEINLINE_FUNCTION size_type index_after\(size_type size, ThreadId tid\)", UT_RULES, name="detail::index_after")


def piece_index_partitioned(ctx):
    return ctx.func(UT, r"CELER_FORCEINLINE_FUNCTION size_type index_partitioned\(size_type num_new_tracks,", UT_RULES, name="detail::index_partitioned")


IB_CONTRACT = """
size_type index_before(size_type size, ThreadId tid)
__CPROVER_requires(tid != INVALID_ID && tid + 1 <= size)   /* own CELER_EXPECT (tid.get() needs a valid id) */
__CPROVER_assigns()
__CPROVER_ensures(__CPROVER_return_value < size && __CPROVER_return_value == size - 1 - tid)   /* counts down from the back: in range, injective in tid */
"""


def build_index_before(ctx):
    pc = piece_index_before(ctx)
    return (HDR + ID_TYPES + IB_CONTRACT + "{" + pc.body + "}\n" + """
void h_ib(void)
{
    size_type size; ThreadId tid;
    index_before(size, tid);
    VERIF_CANARY();
}
""")


def build_index_after(ctx):
    pc = piece_index_after(ctx)
    return (HDR + ID_TYPES + """
size_type index_after(size_type size, ThreadId tid)
__CPROVER_requires(tid != INVALID_ID)   /* own CELER_EXPECT */
__CPROVER_requires((unsigned __int128)size + tid <= (unsigned __int128)(size_type)-1)   /* stated range: no wrap */
__CPROVER_assigns()
__CPROVER_ensures(__CPROVER_return_value >= size && __CPROVER_return_value == size + tid)
{""" + pc.body + """}
void h_ia(void)
{
    size_type size; ThreadId tid;
    index_after(size, tid);
    VERIF_CANARY();
}
""")


def build_index_partitioned(ctx):
    pc = piece_index_partitioned(ctx)
    return (HDR + ID_TYPES + IB_CONTRACT + ";\n" + """
size_type index_partitioned(size_type num_new_tracks, size_type num_vacancies, bool get_from_front, ThreadId tid)
__CPROVER_requires(tid != INVALID_ID && tid < num_new_tracks && num_new_tracks <= num_vacancies)   /* own CELER_EXPECTs */
__CPROVER_assigns()
__CPROVER_ensures(__CPROVER_return_value < num_vacancies)
__CPROVER_ensures(get_from_front ? __CPROVER_return_value == num_new_tracks - 1 - tid : __CPROVER_return_value == num_vacancies - 1 - tid)
{""" + pc.body + """}
void h_ip(void)
{
    size_type nn, nv; unsigned gr; bool gf = (gr != 0); ThreadId tid;
    index_partitioned(nn, nv, gf, tid);
    VERIF_CANARY();
}
""")


def build_partition_distinct(ctx):
    """Lemma over index_partitioned's contract: with the initializers of the step partitioned
    (threads < c neutral... i.e. flag true exactly for tid < c, as partition_initializers + back-to-front
    indexing produce), two different threads never get the same vacancy index."""
    pc = piece_index_partitioned(ctx)
    pb = piece_index_before(ctx)
    return (HDR + ID_TYPES + "size_type index_before(size_type size, ThreadId tid)\n{" + pb.body + "}\n"
            + "size_type index_partitioned(size_type num_new_tracks, size_type num_vacancies, bool get_from_front, ThreadId tid)\n{" + pc.body + "}\n" + """
void h_pd(void)
{
    size_type nn, nv, c; ThreadId t1, t2;
    __CPROVER_assume(nn <= nv && t1 < nn && t2 < nn && t1 != t2 && c <= nn);
    /* partition_initializers = std::stable_partition(indices, IsNeutralStencil): the c neutral initializers come first in
       `indices` (assumed contract of the std algorithm); thread t reads position index_before(nn, t) (InitTracksExecutor::get_idx),
       so its initializer is neutral iff that position is < c */
    bool f1 = index_before(nn, t1) < c, f2 = index_before(nn, t2) < c;
    size_type v1 = index_partitioned(nn, nv, f1, t1), v2 = index_partitioned(nn, nv, f2, t2);
    __CPROVER_assert(v1 < nv && v2 < nv, "lemma.partition_range: vacancy indices in range");
    /* neutral threads take vacancies [0, c), charged ones [nv-nn+c, nv): never the same slot */
    __CPROVER_assert(v1 != v2, "lemma.partition_distinct: two threads never initialise the same vacancy");
    VERIF_CANARY();
}
""")


UNITS = [
    Unit("c02_index_before", build_index_before, "h_ib", enforce="index_before", timeout=60, must_have=[r"index_before.postcondition", r"celer_expect"],
         checks=["--bounds-check", "--pointer-check", "--unsigned-overflow-check"], note="index_before: in range, == size-1-tid"),
    Unit("c02_index_after", build_index_after, "h_ia", enforce="index_after", timeout=60, must_have=[r"index_after.postcondition"],
         checks=["--bounds-check", "--pointer-check", "--unsigned-overflow-check"], assumptions=["size + tid does not wrap (stated precondition)"], note="index_after"),
    Unit("c02_index_partitioned", build_index_partitioned, "h_ip", enforce="index_partitioned", replace=["index_before"], timeout=60,
         must_have=[r"index_partitioned.postcondition", r"index_before.precondition"], checks=["--bounds-check", "--pointer-check", "--unsigned-overflow-check"],
         note="index_partitioned: in range; front/back selection as documented; callee precondition holds at both call sites"),
    Unit("c02_partition_distinct", build_partition_distinct, "h_pd", timeout=120, must_have=[r"lemma.partition_distinct", r"lemma.partition_range"],
         checks=["--bounds-check", "--pointer-check"], note="lemma: charge-partitioned vacancy indices of distinct threads are distinct"),
]


# ---------------------------------------------------------------------------
# LocateAliveExecutor
# ---------------------------------------------------------------------------
from vkit.extract import IIFE  # noqa: E402

EXEC_MODEL = """
#include <stdlib.h>
enum { TS_inactive = 0, TS_initializing = 1, TS_alive = 2, TS_errored = 3, TS_killed = 4 };   /* TrackStatus, bound in bindings.cc */
enum { TO_none = 0, TO_init_charge = 1 };                                                       /* TrackOrder::none, ::init_charge (bound) */
typedef struct { size_type particle_id; real_type energy; real_type direction[3]; } Secondary;
typedef struct { Secondary* ptr; size_type size; } SpanSecondary;
typedef struct { int* status; SpanSecondary* secondaries; size_type size_;
                 struct { TrackSlotId* vacancies; size_type* secondary_counts; } init; } CoreStateData;   /* the members this kernel touches */
typedef struct { struct { int track_order; } init; } CoreParamsData;
typedef struct { CoreParamsData const* params; CoreStateData* state; } Executor;
typedef struct { CoreStateData* st; TrackSlotId tid; } SimTrackView;
typedef struct { CoreStateData* st; TrackSlotId tid; } PhysicsStepView;
/* view accessors used here: plain reads of the slot's entry */
static int STV_status(SimTrackView const* v) { return v->st->status[v->tid]; }
static SpanSecondary PSV_secondaries(PhysicsStepView const* v) { return v->st->secondaries[v->tid]; }
#define NSLOT_MAX 64
#define NSEC_MAX 1024
size_type g_k; TrackSlotId g_old_vac; size_type g_old_cnt;   /* ghost: witness slot and its entries before the call (frame) */
size_type g_valid;                                            /* ghost: number of valid secondaries seen by the loop */
"""

LA_RULES = [
    Rule(r"state->size\(\)", "self->state->size_", 1, note="CoreStateData::size()"),
    Rule(r"size_type num_secondaries\{0\};", "size_type num_secondaries = 0; g_valid = 0;", 1, note="brace init; ghost init"),
    Rule(r"SimTrackView sim\(params->sim, state->sim, tid\);", "SimTrackView sim = {self->state, tid};", 1, note="view construction (constructor EXPECT tid < size is the executor's own EXPECT)"),
    Rule(r"PhysicsStepView phys\(params->physics, state->physics, tid\);", "PhysicsStepView phys = {self->state, tid};", 1, note="view construction"),
    Rule(r"for \(auto const& secondary : phys\.secondaries\(\)\)\s*\{", "SpanSecondary sp_ = PSV_secondaries(&phys);\n        for (size_type si_ = 0; si_ < sp_.size; ++si_)\n        {\n            Secondary const* secondary = &sp_.ptr[si_];", 1, note="range-for over a Span -> index loop"),
    Rule(r"if \(secondary\)", "if (secondary->particle_id != INVALID_ID)", 1, note="Secondary::operator bool = valid particle id"),
    Rule(r"\+\+num_secondaries;", "++num_secondaries; ++g_valid;", 1, note="ghost count"),
    Rule(r"sim\.status\(\)", "STV_status(&sim)", "+", note="view member call"),
    Rule(r"TrackStatus::(\w+)", r"TS_\1", "+", note="enum class value (bound)"),
    Rule(r"TrackOrder::(\w+)", r"TO_\1", "+", note="enum class value (bound)"),
    Rule(r"params->init\.track_order", "self->params->init.track_order", 1, note="executor data member"),
    Rule(r"\boccupied\(\)", "INVALID_ID /* occupied() == TrackSlotId{} */", "+", note="detail::occupied() returns TrackSlotId{} (checked on the extracted text)"),
    Rule(r"state->init\.(vacancies|secondary_counts)\[tid\]", r"self->state->init.\1[tid]", 2, note="Collection[tid]; tid < size by the executor's EXPECT"),
    IIFE(["TrackSlotId"]),
    LoopContracts([
        "    __CPROVER_assigns(si_, num_secondaries, g_valid)\n"
        "    __CPROVER_loop_invariant(si_ <= sp_.size && num_secondaries == g_valid && g_valid <= si_)\n"
        "    __CPROVER_decreases(sp_.size - si_)\n"]),
]


def build_locate_alive(ctx):
    import re
    from vkit.extract import ExtractionDrift
    occ = ctx.func(UT, r"CELER_CONSTEXPR_FUNCTION TrackSlotId occupied\(\)", [], name="detail::occupied")
    if not re.search(r"return\s+TrackSlotId\{\};", occ.body):
        raise ExtractionDrift("occupied() is not `return TrackSlotId{};`")
    pc = ctx.func(LA, r"CELER_FUNCTION void LocateAliveExecutor::operator\(\)\(TrackSlotId tid\) const", LA_RULES, name="LocateAliveExecutor::operator()")
    return (HDR + ID_TYPES + EXEC_MODEL + """
#define ST (self->state)
#define IN_PLACE(self_, tid_, nvalid_) (ST->status[tid_] != TS_alive && (nvalid_) > 0 && (self_)->params->init.track_order != TO_init_charge)
void LA_call(Executor const* self, TrackSlotId tid)
__CPROVER_requires(self != 0 && self->params != 0 && self->state != 0 && ST->size_ >= 1 && ST->size_ <= NSLOT_MAX)
__CPROVER_requires(__CPROVER_r_ok(ST->status, ST->size_ * sizeof(int)) && __CPROVER_r_ok(ST->secondaries, ST->size_ * sizeof(SpanSecondary)))
__CPROVER_requires(__CPROVER_rw_ok(ST->init.vacancies, ST->size_ * sizeof(TrackSlotId)) && __CPROVER_rw_ok(ST->init.secondary_counts, ST->size_ * sizeof(size_type)))
__CPROVER_requires(tid < ST->size_)      /* own CELER_EXPECT */
__CPROVER_requires(ST->secondaries[tid].size <= NSEC_MAX && __CPROVER_r_ok(ST->secondaries[tid].ptr, ST->secondaries[tid].size * sizeof(Secondary)))
__CPROVER_requires(g_k < ST->size_ && g_old_vac == ST->init.vacancies[g_k] && g_old_cnt == ST->init.secondary_counts[g_k])
__CPROVER_assigns(ST->init.vacancies[tid], ST->init.secondary_counts[tid], g_valid)
/* the slot is either marked occupied or offered as a vacancy under its own index */
__CPROVER_ensures(ST->init.vacancies[tid] == INVALID_ID || ST->init.vacancies[tid] == tid)
/* occupied iff alive, or dying with a secondary that will take the slot over (never under charge-partitioned initialisation) */
__CPROVER_ensures((ST->init.vacancies[tid] == INVALID_ID) == (ST->status[tid] == TS_alive || IN_PLACE(self, tid, ST->status[tid] != TS_inactive ? g_valid : 0)))
/* an inactive slot never contributes secondaries, whatever stale data its span holds */
__CPROVER_ensures(ST->status[tid] == TS_inactive ==> (ST->init.secondary_counts[tid] == 0 && ST->init.vacancies[tid] == tid))
/* count = number of valid secondaries, minus the one initialised in place */
__CPROVER_ensures(ST->status[tid] != TS_inactive ==> ST->init.secondary_counts[tid] == g_valid - (IN_PLACE(self, tid, g_valid) ? 1 : 0))
/* frame: no other slot's entries are written */
__CPROVER_ensures(g_k != tid ==> (ST->init.vacancies[g_k] == g_old_vac && ST->init.secondary_counts[g_k] == g_old_cnt))
{""" + pc.body + """}
void h_la(void)
{
    size_type n, tid, k, ns; int order; __CPROVER_assume(n >= 1 && n <= NSLOT_MAX && k < n && ns <= NSEC_MAX);
    int* status = malloc(n * sizeof(int)); SpanSecondary* spans = malloc(n * sizeof(SpanSecondary));
    TrackSlotId* vac = malloc(n * sizeof(TrackSlotId)); size_type* cnt = malloc(n * sizeof(size_type));
    Secondary* secs = malloc(ns * sizeof(Secondary));
    __CPROVER_assume(status && spans && vac && cnt && secs);
    CoreParamsData p = {{order}}; CoreStateData s = {status, spans, n, {vac, cnt}};
    Executor ex = {&p, &s};
    if (tid < n) { spans[tid].ptr = secs; spans[tid].size = ns; __CPROVER_assume(status[tid] >= 0 && status[tid] <= 4); }
    g_k = k; g_old_vac = vac[k]; g_old_cnt = cnt[k];
    LA_call(&ex, tid);
    VERIF_CANARY();
}
""")


UNITS += [
    Unit("c02_locate_alive", build_locate_alive, "h_la", enforce="LA_call", loop_contracts=True, timeout=300, object_bits=10,
         must_have=[r"LA_call.postcondition", r"loop_invariant_step", r"celer_expect"], checks=["--bounds-check", "--pointer-check"],
         assumptions=["SimTrackView::status() and PhysicsStepView::secondaries() are plain reads of the slot's entries (view accessors stubbed)"],
         note="LocateAliveExecutor: vacancy entry in {occupied, tid}; occupied iff alive or in-place secondary; inactive slots count 0 regardless of stale spans; count = valid secondaries minus the in-place one; only this slot's entries written (any number of secondaries)"),
]
