"""C02: every primary and secondary is transported exactly once (index core + executors)."""
from vkit.extract import Rule, LoopContracts
from vkit.runner import Unit

UT = "src/celeritas/track/detail/Utils.hh"
LA = "src/celeritas/track/detail/LocateAliveExecutor.hh"
PS = "src/celeritas/track/detail/ProcessSecondariesExecutor.hh"
AT = "src/corecel/math/Atomics.hh"

HDR = '#include "celer.h"\n'

ID_TYPES = """
typedef size_type ThreadId;      /* OpaqueId<struct Thread_, size_type>: value, invalid = all ones; .get() asserts validity */
typedef size_type TrackSlotId;
#define INVALID_ID ((size_type)-1)
static size_type ID_get(size_type id) { __CPROVER_assert(id != INVALID_ID, "celer_expect: OpaqueId::get() on a valid id"); return id; }
"""
UT_RULES = [
    Rule(r"\btid\.get\(\)", "ID_get(tid)", "*", note="OpaqueId::get() -> validity assertion + value"),
    Rule(r"\btid\.unchecked_get\(\)", "tid", "*", note="OpaqueId::unchecked_get()"),
    Rule(r"CELER_EXPECT\(tid\);", "CELER_EXPECT(tid != INVALID_ID);", "*", note="OpaqueId::operator bool"),
]


def piece_index_before(ctx):
    return ctx.func(UT, r"CELER_FORCEINLINE_FUNCTION size_type index_before\(size_type size, ThreadId tid\)", UT_RULES, name="detail::index_before")


def piece_index_after(ctx):
    return ctx.func(UT, r"CELER_FORCEINLINE_FUNCTION size_type index_after\(size_type size, ThreadId tid\)", UT_RULES, name="detail::index_after")


def piece_index_partitioned(ctx):
    return ctx.func(UT, r"CELER_FORCEINLINE_FUNCTION size_type index_partitioned\(size_type num_new_tracks,", UT_RULES, name="detail::index_partitioned")


IB_CONTRACT = """
size_type index_before(size_type size, ThreadId tid)
__CPROVER_requires(tid != INVALID_ID && tid + 1 <= size)   /* own CELER_EXPECT (tid.get() needs a valid id) */
__CPROVER_assigns()
__CPROVER_ensures(__CPROVER_return_value < size && __CPROVER_return_value == size - 1 - tid)   /* counts down from the back: in range, injective in tid */
"""


def build_index_before(ctx):
    pc = piece_index_before(ctx)
    return (HDR + ID_TYPES + IB_CONTRACT + "{" + pc.body + "}\n" + """
void h_ib(void)
{
    size_type size; ThreadId tid;
    index_before(size, tid);
    VERIF_CANARY();
}
""")


def build_index_after(ctx):
    pc = piece_index_after(ctx)
    return (HDR + ID_TYPES + """
size_type index_after(size_type size, ThreadId tid)
__CPROVER_requires(tid != INVALID_ID)   /* own CELER_EXPECT */
__CPROVER_requires((unsigned __int128)size + tid <= (unsigned __int128)(size_type)-1)   /* stated range: no wrap */
__CPROVER_assigns()
__CPROVER_ensures(__CPROVER_return_value >= size && __CPROVER_return_value == size + tid)
{""" + pc.body + """}
void h_ia(void)
{
    size_type size; ThreadId tid;
    index_after(size, tid);
    VERIF_CANARY();
}
""")


def build_index_partitioned(ctx):
    pc = piece_index_partitioned(ctx)
    return (HDR + ID_TYPES + IB_CONTRACT + ";\n" + """
size_type index_partitioned(size_type num_new_tracks, size_type num_vacancies, bool get_from_front, ThreadId tid)
__CPROVER_requires(tid != INVALID_ID && tid < num_new_tracks && num_new_tracks <= num_vacancies)   /* own CELER_EXPECTs */
__CPROVER_assigns()
__CPROVER_ensures(__CPROVER_return_value < num_vacancies)
__CPROVER_ensures(get_from_front ? __CPROVER_return_value == num_new_tracks - 1 - tid : __CPROVER_return_value == num_vacancies - 1 - tid)
{""" + pc.body + """}
void h_ip(void)
{
    size_type nn, nv; unsigned gr; bool gf = (gr != 0); ThreadId tid;
    index_partitioned(nn, nv, gf, tid);
    VERIF_CANARY();
}
""")


def build_partition_distinct(ctx):
    """Lemma over index_partitioned's contract: with the initializers of the step partitioned
    (threads < c neutral... i.e. flag true exactly for tid < c, as partition_initializers + back-to-front
    indexing produce), two different threads never get the same vacancy index."""
    pc = piece_index_partitioned(ctx)
    pb = piece_index_before(ctx)
    return (HDR + ID_TYPES + "size_type index_before(size_type size, ThreadId tid)\n{" + pb.body + "}\n"
            + "size_type index_partitioned(size_type num_new_tracks, size_type num_vacancies, bool get_from_front, ThreadId tid)\n{" + pc.body + "}\n" + """
void h_pd(void)
{
    size_type nn, nv, c; ThreadId t1, t2;
    __CPROVER_assume(nn <= nv && t1 < nn && t2 < nn && t1 != t2 && c <= nn);
    /* partition_initializers = std::stable_partition(indices, IsNeutralStencil): the c neutral initializers come first in
       `indices` (assumed contract of the std algorithm); thread t reads position index_before(nn, t) (InitTracksExecutor::get_idx),
       so its initializer is neutral iff that position is < c */
    bool f1 = index_before(nn, t1) < c, f2 = index_before(nn, t2) < c;
    size_type v1 = index_partitioned(nn, nv, f1, t1), v2 = index_partitioned(nn, nv, f2, t2);
    __CPROVER_assert(v1 < nv && v2 < nv, "lemma.partition_range: vacancy indices in range");
    /* neutral threads take vacancies [0, c), charged ones [nv-nn+c, nv): never the same slot */
    __CPROVER_assert(v1 != v2, "lemma.partition_distinct: two threads never initialise the same vacancy");
    VERIF_CANARY();
}
""")


UNITS = [
    Unit("c02_index_before", build_index_before, "h_ib", enforce="index_before", timeout=60, must_have=[r"index_before.postcondition", r"celer_expect"],
         checks=["--bounds-check", "--pointer-check", "--unsigned-overflow-check"], note="index_before: in range, == size-1-tid"),
    Unit("c02_index_after", build_index_after, "h_ia", enforce="index_after", timeout=60, must_have=[r"index_after.postcondition"],
         checks=["--bounds-check", "--pointer-check", "--unsigned-overflow-check"], assumptions=["size + tid does not wrap (stated precondition)"], note="index_after"),
    Unit("c02_index_partitioned", build_index_partitioned, "h_ip", enforce="index_partitioned", replace=["index_before"], timeout=60,
         must_have=[r"index_partitioned.postcondition", r"index_before.precondition"], checks=["--bounds-check", "--pointer-check", "--unsigned-overflow-check"],
         note="index_partitioned: in range; front/back selection as documented; callee precondition holds at both call sites"),
    Unit("c02_partition_distinct", build_partition_distinct, "h_pd", timeout=120, must_have=[r"lemma.partition_distinct", r"lemma.partition_range"],
         checks=["--bounds-check", "--pointer-check"], note="lemma: charge-partitioned vacancy indices of distinct threads are distinct"),
]


# ---------------------------------------------------------------------------
# LocateAliveExecutor
# ---------------------------------------------------------------------------
from vkit.extract import IIFE  # noqa: E402

EXEC_MODEL = """
#include <stdlib.h>
enum { TS_inactive = 0, TS_initializing = 1, TS_alive = 2, TS_errored = 3, TS_killed = 4 };   /* TrackStatus, bound in bindings.cc */
enum { TO_none = 0, TO_init_charge = 1 };                                                       /* TrackOrder::none, ::init_charge (bound) */
typedef struct { size_type particle_id; real_type energy; real_type direction[3]; } Secondary;
typedef struct { Secondary* ptr; size_type size; } SpanSecondary;
typedef struct { int* status; SpanSecondary* secondaries; size_type size_;
                 struct { TrackSlotId* vacancies; size_type* secondary_counts; } init; } CoreStateData;   /* the members this kernel touches */
typedef struct { struct { int track_order; } init; } CoreParamsData;
typedef struct { CoreParamsData const* params; CoreStateData* state; } Executor;
typedef struct { CoreStateData* st; TrackSlotId tid; } SimTrackView;
typedef struct { CoreStateData* st; TrackSlotId tid; } PhysicsStepView;
/* view accessors used here: plain reads of the slot's entry */
static int STV_status(SimTrackView const* v) { return v->st->status[v->tid]; }
static SpanSecondary PSV_secondaries(PhysicsStepView const* v) { return v->st->secondaries[v->tid]; }
#define NSLOT_MAX 64
#define NSEC_MAX 1024
size_type g_k; TrackSlotId g_old_vac; size_type g_old_cnt;   /* ghost: witness slot and its entries before the call (frame) */
size_type g_valid;                                            /* ghost: number of valid secondaries seen by the loop */
"""

LA_RULES = [
    Rule(r"state->size\(\)", "self->state->size_", 1, note="CoreStateData::size()"),
    Rule(r"size_type num_secondaries\{0\};", "size_type num_secondaries = 0; g_valid = 0;", 1, note="brace init; ghost init"),
    Rule(r"SimTrackView sim\(params->sim, state->sim, tid\);", "SimTrackView sim = {self->state, tid};", 1, note="view construction (constructor EXPECT tid < size is the executor's own EXPECT)"),
    Rule(r"PhysicsStepView phys\(params->physics, state->physics, tid\);", "PhysicsStepView phys = {self->state, tid};", 1, note="view construction"),
    Rule(r"for \(auto const& secondary : phys\.secondaries\(\)\)\s*\{", "SpanSecondary sp_ = PSV_secondaries(&phys);\n        for (size_type si_ = 0; si_ < sp_.size; ++si_)\n        {\n            Secondary const* secondary = &sp_.ptr[si_];", 1, note="range-for over a Span -> index loop"),
    Rule(r"if \(secondary\)", "if (secondary->particle_id != INVALID_ID)", 1, note="Secondary::operator bool = valid particle id"),
    Rule(r"\+\+num_secondaries;", "++num_secondaries; ++g_valid;", 1, note="ghost count"),
    Rule(r"sim\.status\(\)", "STV_status(&sim)", "+", note="view member call"),
    Rule(r"TrackStatus::(\w+)", r"TS_\1", "+", note="enum class value (bound)"),
    Rule(r"TrackOrder::(\w+)", r"TO_\1", "+", note="enum class value (bound)"),
    Rule(r"params->init\.track_order", "self->params->init.track_order", 1, note="executor data member"),
    Rule(r"\boccupied\(\)", "INVALID_ID /* occupied() == TrackSlotId{} */", "+", note="detail::occupied() returns TrackSlotId{} (checked on the extracted text)"),
    Rule(r"state->init\.(vacancies|secondary_counts)\[tid\]", r"self->state->init.\1[tid]", 2, note="Collection[tid]; tid < size by the executor's EXPECT"),
    IIFE(["TrackSlotId"]),
    LoopContracts([
        "    __CPROVER_assigns(si_, num_secondaries, g_valid)\n"
        "    __CPROVER_loop_invariant(si_ <= sp_.size && num_secondaries == g_valid && g_valid <= si_)\n"
        "    __CPROVER_decreases(sp_.size - si_)\n"]),
]


def build_locate_alive(ctx):
    import re
    from vkit.extract import ExtractionDrift
    occ = ctx.func(UT, r"CELER_CONSTEXPR_FUNCTION TrackSlotId occupied\(\)", [], name="detail::occupied")
    if not re.search(r"return\s+TrackSlotId\{\};", occ.body):
        raise ExtractionDrift("occupied() is not `return TrackSlotId{};`")
    pc = ctx.func(LA, r"CELER_FUNCTION void LocateAliveExecutor::operator\(\)\(TrackSlotId tid\) const", LA_RULES, name="LocateAliveExecutor::operator()")
    return (HDR + ID_TYPES + EXEC_MODEL + """
#define ST (self->state)
#define IN_PLACE(self_, tid_, nvalid_) (ST->status[tid_] != TS_alive && (nvalid_) > 0 && (self_)->params->init.track_order != TO_init_charge)
void LA_call(Executor const* self, TrackSlotId tid)
__CPROVER_requires(self != 0 && self->params != 0 && self->state != 0 && ST->size_ >= 1 && ST->size_ <= NSLOT_MAX)
__CPROVER_requires(__CPROVER_r_ok(ST->status, ST->size_ * sizeof(int)) && __CPROVER_r_ok(ST->secondaries, ST->size_ * sizeof(SpanSecondary)))
__CPROVER_requires(__CPROVER_rw_ok(ST->init.vacancies, ST->size_ * sizeof(TrackSlotId)) && __CPROVER_rw_ok(ST->init.secondary_counts, ST->size_ * sizeof(size_type)))
__CPROVER_requires(tid < ST->size_)      /* own CELER_EXPECT */
__CPROVER_requires(ST->secondaries[tid].size <= NSEC_MAX && __CPROVER_r_ok(ST->secondaries[tid].ptr, ST->secondaries[tid].size * sizeof(Secondary)))
__CPROVER_requires(g_k < ST->size_ && g_old_vac == ST->init.vacancies[g_k] && g_old_cnt == ST->init.secondary_counts[g_k])
__CPROVER_assigns(ST->init.vacancies[tid], ST->init.secondary_counts[tid], g_valid)
/* the slot is either marked occupied or offered as a vacancy under its own index */
__CPROVER_ensures(ST->init.vacancies[tid] == INVALID_ID || ST->init.vacancies[tid] == tid)
/* occupied iff alive, or dying with a secondary that will take the slot over (never under charge-partitioned initialisation) */
__CPROVER_ensures((ST->init.vacancies[tid] == INVALID_ID) == (ST->status[tid] == TS_alive || IN_PLACE(self, tid, ST->status[tid] != TS_inactive ? g_valid : 0)))
/* an inactive slot never contributes secondaries, whatever stale data its span holds */
__CPROVER_ensures(ST->status[tid] == TS_inactive ==> (ST->init.secondary_counts[tid] == 0 && ST->init.vacancies[tid] == tid))
/* count = number of valid secondaries, minus the one initialised in place */
__CPROVER_ensures(ST->status[tid] != TS_inactive ==> ST->init.secondary_counts[tid] == g_valid - (IN_PLACE(self, tid, g_valid) ? 1 : 0))
/* frame: no other slot's entries are written */
__CPROVER_ensures(g_k != tid ==> (ST->init.vacancies[g_k] == g_old_vac && ST->init.secondary_counts[g_k] == g_old_cnt))
{""" + pc.body + """}
void h_la(void)
{
    size_type n, tid, k, ns; int order; __CPROVER_assume(n >= 1 && n <= NSLOT_MAX && k < n && ns <= NSEC_MAX);
    int* status = malloc(n * sizeof(int)); SpanSecondary* spans = malloc(n * sizeof(SpanSecondary));
    TrackSlotId* vac = malloc(n * sizeof(TrackSlotId)); size_type* cnt = malloc(n * sizeof(size_type));
    Secondary* secs = malloc(ns * sizeof(Secondary));
    __CPROVER_assume(status && spans && vac && cnt && secs);
    CoreParamsData p = {{order}}; CoreStateData s = {status, spans, n, {vac, cnt}};
    Executor ex = {&p, &s};
    if (tid < n) { spans[tid].ptr = secs; spans[tid].size = ns; __CPROVER_assume(status[tid] >= 0 && status[tid] <= 4); }
    g_k = k; g_old_vac = vac[k]; g_old_cnt = cnt[k];
    LA_call(&ex, tid);
    VERIF_CANARY();
}
""")


UNITS += [
    Unit("c02_locate_alive", build_locate_alive, "h_la", enforce="LA_call", loop_contracts=True, timeout=300, object_bits=10,
         must_have=[r"LA_call.postcondition", r"loop_invariant_step", r"celer_expect"], checks=["--bounds-check", "--pointer-check"],
         assumptions=["SimTrackView::status() and PhysicsStepView::secondaries() are plain reads of the slot's entries (view accessors stubbed)"],
         note="LocateAliveExecutor: vacancy entry in {occupied, tid}; occupied iff alive or in-place secondary; inactive slots count 0 regardless of stale spans; count = valid secondaries minus the in-place one; only this slot's entries written (any number of secondaries)"),
]


# ---------------------------------------------------------------------------
# ProcessSecondariesExecutor
# ---------------------------------------------------------------------------
from vkit.extract import StripPP  # noqa: E402

PSE_MODEL = """
#include <stdlib.h>
enum { TS_inactive = 0, TS_initializing = 1, TS_alive = 2, TS_errored = 3, TS_killed = 4 };
enum { TO_none = 0, TO_init_charge = 1 };
typedef struct { real_type v[1]; } Real3;     /* positions / directions abstracted to one component (values irrelevant for the bookkeeping) */
typedef struct { size_type particle_id; real_type energy; Real3 direction; } Secondary;
typedef struct { Secondary* ptr; size_type size; } SpanSecondary;
typedef struct { size_type track_id, parent_id, event_id; real_type time; } SimInit;
typedef struct { Real3 pos; Real3 dir; } GeoInit;
typedef struct { size_type particle_id; real_type energy; } ParticleInit;
typedef struct { SimInit sim; GeoInit geo; ParticleInit particle; } TrackInitializer;
typedef struct { size_type num_initializers, num_vacancies, num_secondaries; } CoreStateCounters;
typedef struct { TrackInitializer* initializers; size_type capacity; size_type* secondary_counts; TrackSlotId* parents; size_type parents_size; size_type* track_counters; size_type num_events; } TrackInitStateData;
typedef struct { int* status; size_type* track_id; size_type* event_id; real_type* time; SpanSecondary* secondaries; size_type size_; TrackInitStateData init; } CoreStateData;
typedef struct { struct { int track_order; } init; } CoreParamsData;
typedef struct { CoreParamsData const* params; CoreStateData* state; CoreStateCounters counters; } Executor;
typedef struct { CoreStateData* st; TrackSlotId tid; } SimTrackView;
static int STV_status(SimTrackView const* v) { return v->st->status[v->tid]; }
static size_type STV_track_id(SimTrackView const* v) { return v->st->track_id[v->tid]; }
static size_type STV_event_id(SimTrackView const* v) { return v->st->event_id[v->tid]; }
static real_type STV_time(SimTrackView const* v) { return v->st->time[v->tid]; }
/* ---- ghost ---- */
size_type g_writes;                 /* number of initializers stored by this call */
size_type g_first;                  /* index of the first stored initializer */
size_type g_ids;                    /* number of track ids drawn from the event counter */
size_type g_inplace;                /* 1 if a secondary was initialised in the parent's slot */
size_type g_k; size_type g_oldk;    /* witness initializer index and its track id before (frame) */
size_type g_vp[18];                 /* ghost: g_vp[k] = number of valid secondaries among the first k (precondition witness, used by instance) */
size_type g_nsec;
/* make_track_id (enforced in c02_make_track_id): returns the event's counter and increments it */
size_type make_track_id(TrackInitStateData* data, size_type event)
__CPROVER_requires(data != 0 && event < data->num_events)
__CPROVER_assigns(data->track_counters[event], g_ids)
__CPROVER_ensures(__CPROVER_return_value == __CPROVER_old(data->track_counters[event]) && data->track_counters[event] == __CPROVER_old(data->track_counters[event]) + 1 && g_ids == __CPROVER_old(g_ids) + 1)
;
/* in-place initialisation of the first secondary in the dying parent's slot: sim = ti.sim; geo = ...; particle = ...; phys = {} */
void INPLACE_init(Executor const* self, TrackSlotId tid, TrackInitializer const* ti)
__CPROVER_requires(self != 0 && ti != 0 && tid < self->state->size_)
__CPROVER_assigns(self->state->status[tid], self->state->track_id[tid], g_inplace)
__CPROVER_ensures(self->state->status[tid] == TS_initializing && self->state->track_id[tid] == ti->sim.track_id && g_inplace == __CPROVER_old(g_inplace) + 1)
;
"""

PSE_RULES = [
    StripPP(r"!CELER_DEVICE_COMPILE", keep_else=False, fires="*", note="host logging block dropped"),
    Rule(r"state->size\(\)", "self->state->size_", 1, note="CoreStateData::size()"),
    Rule(r"SimTrackView sim\(params->sim, state->sim, tid\);", "SimTrackView sim = {self->state, tid}; g_st0 = self->state->status[tid]; g_writes = 0; g_ids = 0; g_inplace = 0; g_first = INVALID_ID; /* ghost init */", 1, note="view construction; ghost init"),
    Rule(r"auto& data = state->init;", "TrackInitStateData* data = &self->state->init;", 1, note="reference -> pointer"),
    Rule(r"\bdata\.", "data->", "*", note="reference -> pointer"),
    Rule(r"\bcounters\.", "self->counters.", "*", note="executor data member"),
    Rule(r"bool initialized = false;", "bool initialized = 0;", 1, note="bool literal"),
    Rule(r"TrackId const parent_id\{sim\.track_id\(\)\};", "size_type const parent_id = STV_track_id(&sim);", 1, note="OpaqueId copy"),
    Rule(r"PhysicsStepView const phys_step\(params->physics, state->physics, tid\);", "SpanSecondary sp_ = self->state->secondaries[tid];", 1, note="view -> the span it returns"),
    Rule(r"for \(auto const& secondary : phys_step\.secondaries\(\)\)\s*\{", "for (size_type si_ = 0; si_ < sp_.size; ++si_)\n    {\n        Secondary const* secondary = &sp_.ptr[si_];\n"
         "        /* ghost: instance at element si_ of the precondition `g_vp counts the valid secondaries` */\n"
         "        __CPROVER_assume(g_vp[si_ + 1] == g_vp[si_] + (secondary->particle_id != INVALID_ID ? 1 : 0) && g_vp[si_ + 1] <= g_vp[sp_.size]);", 1, note="range-for over a Span -> index loop; ghost instance"),
    Rule(r"if \(secondary\)", "if (secondary->particle_id != INVALID_ID)", 1, note="Secondary::operator bool"),
    Rule(r"CELER_ASSERT\(secondary\.energy > zero_quantity\(\)\s*&& is_soft_unit_vector\(secondary\.direction\)\);", "/* NOT PROMOTED: CELER_ASSERT(secondary.energy > 0 && unit direction) -- physics of the interactor (C04) */", 1, note="in-body assert not promoted"),
    Rule(r"GeoTrackView geo\(params->geometry, state->geometry, tid\);", "", 1, note="geometry view dropped (position abstracted)"),
    Rule(r"CELER_ASSERT\(!geo\.is_on_boundary\(\)\);", "/* NOT PROMOTED: CELER_ASSERT(!geo.is_on_boundary()) -- geometry state */", 1, note="in-body assert not promoted"),
    Rule(r"TrackInitializer ti;", "TrackInitializer ti = {{INVALID_ID, INVALID_ID, INVALID_ID, 0}, {{{0}}, {{0}}}, {INVALID_ID, 0}};", 1, note="default member initializers"),
    Rule(r"make_track_id\(params->init, data, sim\.event_id\(\)\)", "make_track_id(data, STV_event_id(&sim))", 1, note="call"),
    Rule(r"sim\.(event_id|time|status)\(\)", r"STV_\1(&sim)", "*", note="view read"),
    Rule(r"ti\.geo\.pos = geo\.pos\(\);", "/* ti.geo.pos = geo.pos(): position abstracted */", 1, note="geometry read dropped"),
    Rule(r"ti\.geo\.dir = secondary\.direction;", "ti.geo.dir = secondary->direction;", 1, note="reference -> pointer"),
    Rule(r"secondary\.(particle_id|energy)", r"secondary->\1", "*", note="reference -> pointer"),
    Rule(r"CELER_ASSERT\(ti\);", "CELER_ASSERT(ti.sim.track_id != INVALID_ID && ti.particle.particle_id != INVALID_ID);", 1, note="TrackInitializer::operator bool (particle and sim valid)"),
    Rule(r"TrackStatus::(\w+)", r"TS_\1", "*", note="enum"),
    Rule(r"TrackOrder::(\w+)", r"TO_\1", "*", note="enum"),
    Rule(r"params->init\.track_order", "self->params->init.track_order", "*", note="executor data member"),
    Rule(r"ParticleTrackView particle\(\s*params->particles, state->particles, tid\);\s*PhysicsTrackView phys\(\s*params->physics, state->physics, \{\}, \{\}, tid\);", "", 1, flags=16, note="view constructions dropped (in-place initialisation stubbed)"),
    Rule(r"sim = ti\.sim;\s*geo = GeoTrackView::DetailedInitializer\{geo, ti\.geo\.dir\};\s*particle = ti\.particle;\s*phys = \{\};", "INPLACE_init(self, tid, &ti);", 1, flags=16, note="four view assignments -> one stub (sim/geo/particle/phys re-initialised in place)"),
    Rule(r"initialized = true;", "initialized = 1;", 1, note="bool literal"),
    Rule(r"data->initializers\[ItemId<TrackInitializer>\{\s*self->counters\.num_initializers - offset\}\]\s*= ti;",
         "{ size_type wi_ = self->counters.num_initializers - offset; __CPROVER_assert(wi_ < data->capacity, \"celer_expect: Collection::operator[] i < size (initializers)\");"
         " __CPROVER_assert(g_writes == 0 ? 1 : wi_ == g_first + g_writes, \"ghost.consecutive: initializers are stored at consecutive indices\"); if (g_writes == 0) g_first = wi_; ++g_writes; data->initializers[wi_] = ti; }", 1, note="Collection[ItemId] store -> bounds assertion + ghost write record"),
    Rule(r"data->parents\.size\(\)", "data->parents_size", "*", note="Collection::size()"),
    Rule(r"data->parents\[TrackSlotId\(data->parents_size - offset\)\]\s*= tid;", "{ __CPROVER_assert(data->parents_size - offset < data->parents_size, \"celer_expect: Collection::operator[] i < size (parents)\"); data->parents[data->parents_size - offset] = tid; }", 1, note="Collection[TrackSlotId] store"),
    Rule(r"sim\.status\(TS_inactive\);", "self->state->status[tid] = TS_inactive;", 1, note="view setter"),
    LoopContracts([
        "    __CPROVER_assigns(si_, offset, initialized, g_writes, g_first, g_ids, g_inplace, self->state->status[tid], self->state->track_id[tid], __CPROVER_object_whole(data->initializers), __CPROVER_object_whole(data->parents), __CPROVER_object_whole(data->track_counters))\n"
        "    __CPROVER_loop_invariant(si_ <= sp_.size && g_vp[si_] <= g_vp[sp_.size] && g_inplace == (initialized ? 1 : 0) && g_inplace <= 1 && g_writes <= 16 && g_vp[si_] <= 16 && g_off0 <= 1000000)\n"
        "    __CPROVER_loop_invariant(g_ids == g_vp[si_] && g_writes + g_inplace == g_vp[si_] && offset + g_writes == g_off0)\n"
        "    __CPROVER_loop_invariant(data->track_counters[self->state->event_id[tid]] == g_tc0 + g_ids && g_ids <= 16)\n"
        "    __CPROVER_loop_invariant(g_writes > 0 ==> g_first == self->counters.num_initializers - g_off0)\n"
        "    /* loop-constant fact from the precondition, restated on the entry status g_st0: the slot's own count fits behind its prefix */\n"
        "    __CPROVER_loop_invariant(g_off0 <= self->counters.num_secondaries && g_off0 + ((g_st0 != TS_alive && self->params->init.track_order != TO_init_charge && g_vp[sp_.size] > 0) ? 1 : 0) >= g_vp[sp_.size])\n"
        "    __CPROVER_loop_invariant((initialized || g_st0 == TS_alive || self->params->init.track_order == TO_init_charge) ? 1 : g_vp[si_] == 0)\n"
        "    __CPROVER_loop_invariant(g_k < data->capacity && !(g_writes > 0 && g_k >= g_first && g_k < g_first + g_writes) ==> data->initializers[g_k].sim.track_id == g_oldk)\n"
        "    __CPROVER_loop_invariant(initialized ? self->state->status[tid] == TS_initializing : self->state->status[tid] == g_st0)\n"
        "    __CPROVER_loop_invariant(initialized ? (g_st0 != TS_alive && self->params->init.track_order != TO_init_charge && g_vp[si_] > 0) : 1)\n"
        "    __CPROVER_decreases(sp_.size - si_)\n"]),
]


def build_process_secondaries(ctx):
    pc = ctx.func(PS, r"^ProcessSecondariesExecutor::operator\(\)\(TrackSlotId tid\) const", PSE_RULES, name="ProcessSecondariesExecutor::operator()")
    body = pc.body.replace("size_type offset = self->counters.num_secondaries - data->secondary_counts[tid];", "size_type offset = self->counters.num_secondaries - data->secondary_counts[tid]; g_off0 = offset; g_tc0 = data->track_counters[self->state->event_id[tid]]; /* ghost */")
    return (HDR + ID_TYPES + PSE_MODEL + """
size_type g_off0; int g_st0; size_type g_tc0;
#define ST (self->state)
#define NVALID (g_vp[ST->secondaries[tid].size])
#define WILL_INPLACE (ST->status[tid] != TS_alive && self->params->init.track_order != TO_init_charge && NVALID > 0)
#define NSTORE (NVALID - (WILL_INPLACE ? 1 : 0))
void PSE_call(Executor const* self, TrackSlotId tid)
__CPROVER_requires(self != 0 && self->params != 0 && ST != 0 && ST->size_ >= 1 && ST->size_ <= 4 && tid < ST->size_)      /* own CELER_EXPECT */
__CPROVER_requires(__CPROVER_rw_ok(ST->status, ST->size_ * sizeof(int)) && __CPROVER_rw_ok(ST->track_id, ST->size_ * sizeof(size_type)) && __CPROVER_r_ok(ST->event_id, ST->size_ * sizeof(size_type)) && __CPROVER_r_ok(ST->time, ST->size_ * sizeof(real_type)))
__CPROVER_requires(__CPROVER_r_ok(ST->secondaries, ST->size_ * sizeof(SpanSecondary)) && ST->secondaries[tid].size <= 16 && __CPROVER_r_ok(ST->secondaries[tid].ptr, ST->secondaries[tid].size * sizeof(Secondary)))
__CPROVER_requires(ST->init.capacity >= 1 && ST->init.capacity <= 16 && __CPROVER_rw_ok(ST->init.initializers, ST->init.capacity * sizeof(TrackInitializer)) && __CPROVER_r_ok(ST->init.secondary_counts, ST->size_ * sizeof(size_type)))
__CPROVER_requires(ST->init.parents_size == ST->size_ && __CPROVER_rw_ok(ST->init.parents, ST->size_ * sizeof(TrackSlotId)) && ST->init.num_events >= 1 && ST->init.num_events <= 2 && __CPROVER_rw_ok(ST->init.track_counters, ST->init.num_events * sizeof(size_type)))
__CPROVER_requires(ST->status[tid] >= 0 && ST->status[tid] <= 4 && ST->status[tid] != TS_initializing && ST->track_id[tid] != INVALID_ID && ST->event_id[tid] < ST->init.num_events && ST->init.track_counters[ST->event_id[tid]] < 1000000)
/* what LocateAlive + exclusive_scan established: secondary_counts[tid] is the prefix sum of the counts of the slots before tid, and this slot's own count
   (valid secondaries minus the one initialised in place, c02_locate_alive) fits behind it; capacity was validated (c16_efs_step) */
__CPROVER_requires(g_vp[0] == 0 && (ST->status[tid] != TS_inactive ==> (unsigned __int128)ST->init.secondary_counts[tid] + NSTORE <= self->counters.num_secondaries))
__CPROVER_requires(self->counters.num_secondaries <= self->counters.num_initializers && self->counters.num_initializers <= ST->init.capacity && g_vp[ST->secondaries[tid].size] <= 16)
__CPROVER_requires(g_k < ST->init.capacity && g_oldk == ST->init.initializers[g_k].sim.track_id)
__CPROVER_assigns(g_writes, g_first, g_ids, g_inplace, g_off0, g_st0, g_tc0, ST->status[tid], ST->track_id[tid], __CPROVER_object_whole(ST->init.initializers), __CPROVER_object_whole(ST->init.parents), __CPROVER_object_whole(ST->init.track_counters))
/* an inactive slot creates nothing from its stale data */
__CPROVER_ensures(g_st0 == TS_inactive ==> (g_writes == 0 && g_ids == 0 && g_inplace == 0))
/* every valid secondary gets exactly one event-unique id and becomes exactly one track: either stored as an initializer or initialised in the parent's slot */
__CPROVER_ensures(g_st0 != TS_inactive ==> (g_ids == NVALID && g_writes + g_inplace == NVALID && g_inplace == (WILL_INPLACE_OLD ? 1 : 0)))
/* the stored initializers occupy exactly this slot's private range [num_initializers - (num_secondaries - prefix), ... + count), inside the buffer; nothing else is overwritten */
__CPROVER_ensures(g_writes > 0 ==> (g_first == self->counters.num_initializers - (self->counters.num_secondaries - ST->init.secondary_counts[tid]) && g_first + g_writes <= ST->init.capacity))
__CPROVER_ensures(!(g_writes > 0 && g_k >= g_first && g_k < g_first + g_writes) ==> ST->init.initializers[g_k].sim.track_id == g_oldk)
/* the slot is never left in the killed state (its own CELER_ENSURE): it holds the in-place secondary, stays alive, or becomes inactive */
__CPROVER_ensures(ST->status[tid] != TS_killed)
{""" + body + """}
void h_pse(void)
{
    size_type n, tid, k, ns, cap, nev; int order; __CPROVER_assume(n >= 1 && n <= 4 && ns <= 16 && cap >= 1 && cap <= 16 && nev >= 1 && nev <= 2);
    CoreParamsData p = {{order}};
    CoreStateData s = {malloc(n * sizeof(int)), malloc(n * sizeof(size_type)), malloc(n * sizeof(size_type)), malloc(n * sizeof(real_type)), malloc(n * sizeof(SpanSecondary)), n,
                       {malloc(cap * sizeof(TrackInitializer)), cap, malloc(n * sizeof(size_type)), malloc(n * sizeof(TrackSlotId)), n, malloc(nev * sizeof(size_type)), nev}};
    Secondary* secs = malloc(ns * sizeof(Secondary));
    __CPROVER_assume(s.status && s.track_id && s.event_id && s.time && s.secondaries && s.init.initializers && s.init.secondary_counts && s.init.parents && s.init.track_counters && secs);
    Executor ex = {&p, &s, {0, 0, 0}}; size_type a, b, c; ex.counters.num_initializers = a; ex.counters.num_vacancies = b; ex.counters.num_secondaries = c;
    if (tid < n) { s.secondaries[tid].ptr = secs; s.secondaries[tid].size = ns; }
    g_k = k; if (k < cap) g_oldk = s.init.initializers[k].sim.track_id;
    PSE_call(&ex, tid);
    VERIF_CANARY();
}
""").replace("WILL_INPLACE_OLD", "(g_st0 != TS_alive && self->params->init.track_order != TO_init_charge && NVALID > 0)")


UNITS += [
    Unit("c02_process_secondaries", build_process_secondaries, "h_pse", enforce="PSE_call", replace=["make_track_id", "INPLACE_init"], loop_contracts=True, timeout=1200, object_bits=12, backend=["sat", "cvc5"],
         must_have=[r"PSE_call.postcondition", r"loop_invariant_step", r"celer_assert", r"celer_ensure", r"ghost.consecutive", r"make_track_id.precondition"], checks=["--bounds-check", "--pointer-check"],
         assumptions=["valid-secondary prefix counts (g_vp) used through per-element instances; positions/directions abstracted; in-place re-initialisation of the parent's slot (sim/geo/particle/phys assignments) stubbed; atomics sequential",
                      "NOT PROMOTED: CELER_ASSERT(secondary.energy > 0 && unit direction), CELER_ASSERT(!geo.is_on_boundary())"],
         note="ProcessSecondariesExecutor: every valid secondary gets one id and becomes exactly one track (stored or in place); stores go to consecutive indices of the slot's private range inside the buffer and nothing else is overwritten; inactive slots create nothing; the slot is never left killed"),
]


def build_make_track_id(ctx):
    from units.c16 import atomic_add
    pc = ctx.func(UT, r"^make_track_id\(NativeCRef<TrackInitParamsData> const&,", [
        Rule(r"state\.track_counters\.size\(\)", "state->num_events", 1, note="Collection::size()"),
        Rule(r"auto result\s*=\s*atomic_add\(&state\.track_counters\[event\], TrackId::size_type\{1\}\);", "size_type result = atomic_add(&state->track_counters[event], (size_type)1);", 1, note="Collection[event] address (event < size by the EXPECT above); TrackId::size_type{1}"),
        Rule(r"return TrackId\{result\};", "return result;", 1, note="OpaqueId construction"),
    ], name="detail::make_track_id")
    return (HDR + ID_TYPES + "#include <stdlib.h>\ntypedef struct { size_type* track_counters; size_type num_events; } TrackInitStateData;\n" + atomic_add(ctx) + """
size_type g_e; size_type g_olde;     /* ghost: another event's counter (frame) */
size_type make_track_id(TrackInitStateData* state, size_type event)
__CPROVER_requires(state != 0 && state->num_events >= 1 && state->num_events <= 64 && __CPROVER_rw_ok(state->track_counters, state->num_events * sizeof(size_type)))
__CPROVER_requires(event < state->num_events)      /* own CELER_EXPECT */
__CPROVER_requires(g_e < state->num_events && g_olde == state->track_counters[g_e])
__CPROVER_assigns(state->track_counters[event])
/* returns the event's next id and advances that event's counter by one: ids handed out for one event are consecutive, hence unique; other events untouched */
__CPROVER_ensures(__CPROVER_return_value == __CPROVER_old(state->track_counters[event]) && state->track_counters[event] == __CPROVER_old(state->track_counters[event]) + 1)
__CPROVER_ensures(g_e != event ==> state->track_counters[g_e] == g_olde)
{""" + pc.body + """}
void h_mti(void)
{
    size_type n, ev, e2; __CPROVER_assume(n >= 1 && n <= 64);
    size_type* c = malloc(n * sizeof(size_type)); __CPROVER_assume(c != 0);
    TrackInitStateData s = {c, n}; g_e = e2; if (e2 < n) g_olde = c[e2];
    make_track_id(&s, ev);
    VERIF_CANARY();
}
""")


UNITS += [
    Unit("c02_make_track_id", build_make_track_id, "h_mti", enforce="make_track_id", timeout=120, must_have=[r"make_track_id.postcondition", r"celer_expect"], checks=["--bounds-check", "--pointer-check"],
         assumptions=["atomic_add treated as sequential read-modify-write"],
         note="make_track_id: returns the event's counter and increments it (consecutive, hence unique ids per event); other events' counters untouched"),
]


# ---------------------------------------------------------------------------
# InitTracksExecutor: which initializer, which vacancy, which parent (index slice of operator())
# ---------------------------------------------------------------------------
from vkit.extract import IIFE, NamedLambda  # noqa: E402

ITE = "src/celeritas/track/detail/InitTracksExecutor.hh"
ITE_MODEL = """
enum { TO_none = 0, TO_init_charge = 1 };      /* TrackOrder: only `== TrackOrder::init_charge` is tested */
typedef struct { size_type num_initializers, num_vacancies, num_secondaries; } CoreStateCounters;
typedef struct { int track_order; size_type num_new_tracks; CoreStateCounters counters; size_type initializers_size, vacancies_size, parents_size, indices_size; } InitTracksExecutor;
bool g_neutral;                    /* IsNeutral{params}(init): any answer */
size_type g_indices_val;           /* ghost: the value read from data.indices (a position among the new tracks' initializers: < num_new_tracks, assumed contract of partition_initializers) */
size_type g_init_idx, g_vac_idx, g_parent_idx, g_indices_idx;   /* ghost: the positions read */
bool g_parent_read;
static size_type DATA_indices(InitTracksExecutor const* self, size_type i) { __CPROVER_assert(i < self->indices_size, "celer_expect: Collection::operator[] indices i < size"); g_indices_idx = i; return g_indices_val; }
static size_type DATA_initializers(InitTracksExecutor const* self, size_type i) { __CPROVER_assert(i < self->initializers_size, "celer_expect: Collection::operator[] initializers i < size"); g_init_idx = i; return i; }
static size_type DATA_vacancies(InitTracksExecutor const* self, size_type i) { __CPROVER_assert(i < self->vacancies_size, "celer_expect: Collection::operator[] vacancies i < size"); g_vac_idx = i; return i; }
static size_type DATA_parents(InitTracksExecutor const* self, size_type i) { __CPROVER_assert(i < self->parents_size, "celer_expect: Collection::operator[] parents i < size"); g_parent_idx = i; g_parent_read = 1; return i; }
"""
ITE_RULES = [
    Rule(r"auto const& data = state->init;", "", 1, note="state reference"),
    Rule(r"params->init\.track_order == TrackOrder::init_charge", "self->track_order == TO_init_charge", "+", note="enum class value (bound)"),
    Rule(r"data\.indices\[TrackSlotId\(", "DATA_indices(self, (", "*", note="Collection[TrackSlotId(i)] -> bounds assertion + ghost record"),
    Rule(r"TrackInitializer const& init = data\.initializers\[ItemId<TrackInitializer>\(", "size_type init = DATA_initializers(self, (", 1, note="Collection[ItemId(i)] -> bounds assertion + ghost record (the initializer itself is outside this slice)"),
    Rule(r"CoreTrackView vacancy\{\s*\*params, \*state, ", "size_type vacancy = (", 1, note="view construction -> the slot it is bound to"),
    Rule(r"\}\(\)\};", "}());", 1, note="end of the view construction"),
    Rule(r"data\.vacancies\[TrackSlotId\(", "DATA_vacancies(self, (", "*", note="Collection[TrackSlotId(i)] -> bounds assertion + ghost record"),
    Rule(r"data\.parents\[TrackSlotId\(", "DATA_parents(self, (", "*", note="Collection[TrackSlotId(i)] -> bounds assertion + ghost record"),
    Rule(r"\)\]", "))", "*", note="closing of the lowered subscripts"),
    Rule(r"IsNeutral\{params\}\(init\)", "g_neutral", "*", note="charge predicate of the initializer: any answer"),
    Rule(r"data\.parents\.size\(\)", "self->parents_size", "*", note="Collection::size()"),
    Rule(r"return TrackSlotId\{\};", "return INVALID_ID;", "*", note="default OpaqueId = invalid"),
    Rule(r"auto parent_id = ", "size_type parent_id = ", (0, 1), note="auto"),
    IIFE(["size_type", "size_type"]),
    NamedLambda("get_idx", "size_type"),
    Rule(r"(?<![\w.>])counters\.", "self->counters.", "*", note="member"),
    Rule(r"(?<![\w.>])num_new_tracks\b", "self->num_new_tracks", "*", note="member"),
] + UT_RULES


def build_init_tracks_indices(ctx):
    s1 = ctx.span(ITE, r"CELER_EXPECT\(tid < num_new_tracks\);", r"\}\(\)\};", [], name="InitTracksExecutor::operator() [initializer and vacancy selection]")
    s2 = ctx.span(ITE, r"auto parent_id = \[&\] \{", r"\}\(\);", [], name="InitTracksExecutor::operator() [parent selection]")
    from vkit.extract import strip_comments
    text = strip_comments(s1.body) + "\n" + strip_comments(s2.body)
    rep = []
    for r in ITE_RULES:
        text = r.apply(text, rep, "InitTracksExecutor::operator() [index slice]")
    ctx.report.extend(rep)
    pb, pp = piece_index_before(ctx), piece_index_partitioned(ctx)
    return (HDR + ID_TYPES + ITE_MODEL + IB_CONTRACT + ";\n"
            + "/* index_after: not used by the current text; its contract (c02_index_after) is available so that a call is decided, not undefined */\n"
            "size_type index_after(size_type size, ThreadId tid)\n__CPROVER_requires(tid != INVALID_ID && (unsigned __int128)size + tid <= (unsigned __int128)(size_type)-1)\n__CPROVER_assigns()\n"
            "__CPROVER_ensures(__CPROVER_return_value >= size && __CPROVER_return_value == size + tid)\n;\n"
            + "size_type index_partitioned(size_type num_new_tracks, size_type num_vacancies, bool get_from_front, ThreadId tid)\n"
            "__CPROVER_requires(tid != INVALID_ID && tid < num_new_tracks && num_new_tracks <= num_vacancies)\n__CPROVER_assigns()\n"
            "__CPROVER_ensures(__CPROVER_return_value < num_vacancies && __CPROVER_return_value == (get_from_front ? num_new_tracks - 1 - tid : num_vacancies - 1 - tid))\n;\n" + """
void ITE_indices(InitTracksExecutor const* self, ThreadId tid)
__CPROVER_requires(self != 0 && tid != INVALID_ID && tid < self->num_new_tracks)    /* own CELER_EXPECT */
/* what extend_from_* / the step's bookkeeping establish (assumed here): the new tracks' initializers, vacancies and parents exist */
__CPROVER_requires(self->num_new_tracks <= self->counters.num_initializers && self->counters.num_initializers <= self->initializers_size
                   && self->num_new_tracks <= self->counters.num_vacancies && self->counters.num_vacancies <= self->vacancies_size
                   && self->num_new_tracks <= self->parents_size && self->num_new_tracks <= self->indices_size && self->counters.num_secondaries <= self->parents_size)
__CPROVER_requires(g_indices_val < self->num_new_tracks && !g_parent_read)
__CPROVER_requires(self->initializers_size <= (size_type)1 << 40 && self->parents_size <= (size_type)1 << 40)
__CPROVER_assigns(g_init_idx, g_vac_idx, g_parent_idx, g_indices_idx, g_parent_read)
/* unsorted: thread t takes the t-th initializer, vacancy and parent counted from the BACK (injective in t) */
__CPROVER_ensures(self->track_order != TO_init_charge ==> (g_init_idx == self->counters.num_initializers - 1 - tid && g_vac_idx == self->counters.num_vacancies - 1 - tid))
__CPROVER_ensures((self->track_order != TO_init_charge && tid < self->counters.num_secondaries) ==> (g_parent_read && g_parent_idx == self->parents_size - 1 - tid))
/* sorted by charge: the initializer / parent position comes from the partitioned index array, entry counted from the back; the vacancy from index_partitioned */
__CPROVER_ensures(self->track_order == TO_init_charge ==> (g_indices_idx == self->num_new_tracks - 1 - tid && g_init_idx == g_indices_val + self->counters.num_initializers - self->num_new_tracks
                   && g_vac_idx == (g_neutral ? self->num_new_tracks - 1 - tid : self->counters.num_vacancies - 1 - tid)))
__CPROVER_ensures((self->track_order == TO_init_charge && tid < self->counters.num_secondaries) ==> (g_parent_read && g_parent_idx == g_indices_val + self->parents_size - self->num_new_tracks))
/* a primary (no parent) never reads the parent array */
__CPROVER_ensures(!(tid < self->counters.num_secondaries) ==> !g_parent_read)
{
""" + text + """
}
void h_ite(void)
{
    InitTracksExecutor e; ThreadId tid; unsigned r; g_neutral = (r != 0);
    ITE_indices(&e, tid);
    VERIF_CANARY();
}
""")


UNITS += [
    Unit("c02_init_tracks_indices", build_init_tracks_indices, "h_ite", enforce="ITE_indices", replace=["index_before", "index_partitioned", "index_after"], timeout=300, backend=["sat", "kissat", "cvc5"],
         must_have=[r"ITE_indices.postcondition", r"celer_expect", r"index_before.precondition", r"index_partitioned.precondition"], checks=["--bounds-check", "--pointer-check", "--unsigned-overflow-check"],
         assumptions=["the values in data.indices are positions among the step's new initializers (< num_new_tracks; produced by partition_initializers)", "counters describe the filled parts of the arrays (established by the extend_from_* actions, C16/C02 units)"],
         note="InitTracksExecutor::operator() index slice (two spans of the real text): every read of initializers / vacancies / parents / indices is in bounds and at the position that makes the assignment thread -> initializer/vacancy/parent injective (counted from the back; via the partitioned index array when sorting by charge); primaries never read the parent array; callee preconditions hold"),
]


# ---------------------------------------------------------------------------
# InitializeTracksAction::step_impl<M> (host): how many tracks start, which index table the kernel reads, counters afterwards
# ---------------------------------------------------------------------------
ITA = "src/celeritas/track/InitializeTracksAction.cc"
ITA_MODEL = """
typedef struct { size_type num_initializers, num_vacancies, num_secondaries, num_alive, num_active, num_generated, num_pending; } CoreStateCounters;
typedef struct { CoreStateCounters counters; size_type size_; bool warming_up_; } CoreState;
enum { TO_none = 0, TO_init_charge = 5 };
typedef struct { int track_order; } CoreParams;
/* ghost: what init.indices[0 .. count) holds.  STALE: whatever an earlier step left (a permutation of [0, earlier count), NOT of [0, count));
   IDENTITY: 0, 1, 2, ... (fill_sequence);  PARTITIONED: a permutation of [0, count), neutral first (stable_partition of the identity) */
enum { IX_STALE = 0, IX_IDENTITY = 1, IX_PARTITIONED = 2 };
int g_indices; size_type g_part_count, g_launch_count; int g_launches, g_parents_cleared;
void ITA_fill_sequence(CoreState* st) __CPROVER_requires(st != 0) __CPROVER_assigns(g_indices) __CPROVER_ensures(g_indices == IX_IDENTITY);
/* partition_initializers(params, init, counters, count, stream): std::stable_partition of indices[0, count) by the charge of initializer
   [num_initializers - count + index]: the entries must be a permutation of [0, count) -- otherwise an index reaches outside the new initializers */
void ITA_partition_initializers(CoreParams const* p, CoreState* st, size_type count)
__CPROVER_requires(st != 0 && g_indices == IX_IDENTITY && count <= st->counters.num_initializers)
__CPROVER_assigns(g_indices, g_part_count) __CPROVER_ensures(g_indices == IX_PARTITIONED && g_part_count == count);
/* kernel launch: InitTracksExecutor for thread ids [0, num_new_tracks) (units c02_init_tracks_indices, c17_launch_core): with charge ordering it reads
   indices[tid], which must be the partitioned permutation of exactly this many entries */
void ITA_launch(CoreParams const* p, CoreState* st, size_type num_new_tracks)
__CPROVER_requires(st != 0 && num_new_tracks <= st->counters.num_initializers && num_new_tracks <= st->counters.num_vacancies)
__CPROVER_requires(p->track_order != TO_init_charge || (g_indices == IX_PARTITIONED && g_part_count == num_new_tracks))
__CPROVER_assigns(g_launches, g_launch_count) __CPROVER_ensures(g_launches == __CPROVER_old(g_launches) + 1 && g_launch_count == num_new_tracks);
void ITA_clear_parents(CoreState* st) __CPROVER_requires(st != 0) __CPROVER_assigns(g_parents_cleared) __CPROVER_ensures(g_parents_cleared == 1);
static size_type MIN(size_type a, size_type b) { return b < a ? b : a; }
"""
ITA_RULES = [
    Rule(r"auto& counters = core_state\.counters\(\);", "CoreStateCounters* counters_ = &core_state->counters;", 1, note="reference -> pointer"),
    Rule(r"\bcounters\.", "counters_->", "+", note="reference -> pointer"),
    Rule(r"std::min\(", "MIN(", "*", note="std::min<size_type>"),
    Rule(r"core_state\.warming_up\(\)", "core_state->warming_up_", "*", note="CoreState::warming_up()"),
    Rule(r"core_params\.init\(\)->track_order\(\) == TrackOrder::init_charge", "core_params->track_order == TO_init_charge", "*", note="TrackInitParams::track_order()"),
    Rule(r"fill_sequence\(&core_state\.ref\(\)\.init\.indices,\s*core_state\.stream_id\(\)\);", "ITA_fill_sequence(core_state);", "*", note="fill_sequence(indices) -> ghost state IDENTITY"),
    Rule(r"partition_initializers\(core_params,\s*core_state\.ref\(\)\.init,\s*counters,\s*(\w+),\s*core_state\.stream_id\(\)\);", r"ITA_partition_initializers(core_params, core_state, \1);", "*", note="partition_initializers -> stub (std::stable_partition, assumed contract)"),
    Rule(r"this->step_impl\(core_params, core_state, (\w+)\);", r"ITA_launch(core_params, core_state, \1);", "*", note="kernel launch -> stub"),
    Rule(r"fill\(TrackSlotId\{\}, &core_state\.ref\(\)\.init\.parents\);", "ITA_clear_parents(core_state);", "*", note="fill(parents) -> ghost"),
    Rule(r"core_state\.size\(\)", "core_state->size_", "*", note="CoreState::size()"),
]


def build_init_tracks_step(ctx):
    pc = ctx.func(ITA, r"^void InitializeTracksAction::step_impl\(CoreParams const& core_params,\s*CoreState<M>& core_state\) const", ITA_RULES, name="InitializeTracksAction::step_impl<M>")
    return (HDR + ITA_MODEL + """
void ITA_step_impl(CoreParams const* core_params, CoreState* core_state)
__CPROVER_requires(core_params != 0 && core_state != 0 && g_launches == 0 && g_indices == IX_STALE && g_parents_cleared == 0)
__CPROVER_requires(core_state->counters.num_vacancies <= core_state->size_)         /* invariant between steps */
__CPROVER_assigns(g_indices, g_part_count, g_launches, g_launch_count, g_parents_cleared, core_state->counters)
/* as many tracks start as there are both initializers and vacant slots; the kernel is launched once, for exactly that many threads (or not at all when there is nothing to do) */
__CPROVER_ensures(g_launches <= 1 && (g_launches == 1 ==> g_launch_count == MIN(__CPROVER_old(core_state->counters.num_vacancies), __CPROVER_old(core_state->counters.num_initializers))))
__CPROVER_ensures(MIN(__CPROVER_old(core_state->counters.num_vacancies), __CPROVER_old(core_state->counters.num_initializers)) > 0 ==> g_launches == 1)
/* counters afterwards: the started tracks leave the queue and occupy vacancies; active = slots in use */
__CPROVER_ensures(core_state->counters.num_initializers == __CPROVER_old(core_state->counters.num_initializers) - MIN(__CPROVER_old(core_state->counters.num_vacancies), __CPROVER_old(core_state->counters.num_initializers)))
__CPROVER_ensures(core_state->counters.num_vacancies == __CPROVER_old(core_state->counters.num_vacancies) - MIN(__CPROVER_old(core_state->counters.num_vacancies), __CPROVER_old(core_state->counters.num_initializers)))
__CPROVER_ensures(core_state->counters.num_active == core_state->size_ - core_state->counters.num_vacancies)
/* with charge ordering the stale parent ids are cleared after the launch */
__CPROVER_ensures((g_launches == 1 && core_params->track_order == TO_init_charge) ==> g_parents_cleared == 1)
{""" + pc.body + """}
void h_ita(void)
{
    CoreParams p; CoreState s; unsigned w; s.warming_up_ = (w != 0);
    ITA_step_impl(&p, &s);
    VERIF_CANARY();
}
""")


UNITS += [
    Unit("c02_init_tracks_step", build_init_tracks_step, "h_ita", enforce="ITA_step_impl", replace=["ITA_fill_sequence", "ITA_partition_initializers", "ITA_launch", "ITA_clear_parents"], timeout=120,
         must_have=[r"ITA_step_impl.postcondition", r"ITA_launch.precondition", r"ITA_partition_initializers.precondition"], checks=["--bounds-check", "--pointer-check", "--unsigned-overflow-check"],
         assumptions=["std::stable_partition (partition_initializers) and fill_sequence by assumed contracts; the index table is a ghost state (stale / identity / partitioned)", "kernel launch replaced by its contract (c02_init_tracks_indices, c17_launch_core)"],
         note="InitializeTracksAction::step_impl (host): min(vacancies, initializers) tracks are started by one launch; with charge ordering the index table is re-filled and partitioned for exactly that count before the kernel reads it; counters afterwards (queue, vacancies, active)"),
]


# ---------------------------------------------------------------------------
# ProcessPrimariesExecutor: every primary becomes exactly one initializer with a fresh track id of its own event and no parent
# ---------------------------------------------------------------------------
PPE = "src/celeritas/track/detail/ProcessPrimariesExecutor.hh"
PPE_MODEL = """
#define NP 8          /* primaries / initializer slots in this unit's harness (the executor handles one thread id; frame checked on a witness slot) */
#define NEV 8
typedef struct { size_type particle_id; real_type energy, position, direction, time; size_type event_id; } Primary;            /* Real3 members abstracted to one component */
typedef struct { struct { size_type track_id, parent_id, event_id; real_type time; } sim; struct { real_type pos, dir; } geo; struct { size_type particle_id; real_type energy; } particle; } TrackInitializer;
typedef struct { size_type num_initializers; } CoreStateCounters;
typedef struct { TrackInitializer initializers[2 * NP]; size_type capacity; size_type track_counters[NEV]; } InitState;
typedef struct { InitState* init; CoreStateCounters counters; Primary const* primaries; size_type nprimaries; } ProcessPrimariesExecutor;
size_type g_w; TrackInitializer g_oldw; size_type g_old_counter;
/* make_track_id (contract enforced in c02_make_track_id): the event's next id; that event's counter advances by one */
static size_type MAKE_track_id(ProcessPrimariesExecutor const* self, size_type event)
{
    __CPROVER_assert(event < NEV, "celer_expect: make_track_id event < track_counters.size()");
    size_type r = self->init->track_counters[event]; self->init->track_counters[event] = r + 1; return r;
}
#define SAME(a, b) ((a) == (b) || (__CPROVER_isnand(a) && __CPROVER_isnand(b)))
"""
PPE_RULES = UT_RULES + [
    Rule(r"\b(?:TrackId|ThreadId|EventId|ParticleId)\{([^{}]+)\}", r"((size_type)(\1))", "*", note="OpaqueId construction from a value"),
    Rule(r"primaries\.size\(\)", "self->nprimaries", "+", note="Span::size()"),
    Rule(r"counters\.num_initializers", "self->counters.num_initializers", "+", note="data member"),
    Rule(r"ItemId<TrackInitializer> idx\{\s*([^{};]*)\};", r"size_type idx = (\1);", 1, flags=16, note="ItemId construction -> integer"),
    Rule(r"TrackInitializer& ti = state->init\.initializers\[idx\];", 'TrackInitializer* ti_ = (__CPROVER_assert(idx < self->init->capacity, "celer_expect: Collection::operator[] i < size (initializers)"), &self->init->initializers[idx]);', 1, note="Collection[idx] reference -> pointer, bounds asserted"),
    Rule(r"Primary const& primary = primaries\[tid\];", "Primary const primary = self->primaries[tid];", 1, note="Span[tid] const reference -> copy"),
    Rule(r"\bti\.", "ti_->", "+", note="reference -> pointer"),
    Rule(r"make_track_id\(params->init, state->init, primary\.event_id\)", "MAKE_track_id(self, primary.event_id)", 1, note="make_track_id -> its contract"),
    Rule(r"TrackId\{\}", "INVALID_ID", "*", note="default OpaqueId = invalid"),
]


def build_process_primaries(ctx):
    ia = piece_index_after(ctx)
    pc = ctx.func(PPE, r"^CELER_FUNCTION void ProcessPrimariesExecutor::operator\(\)\(ThreadId tid\) const", PPE_RULES, name="ProcessPrimariesExecutor::operator()")
    return (HDR + ID_TYPES + PPE_MODEL + """
static size_type index_after(size_type size, ThreadId tid)      /* real body (contract: c02_index_after) */
{""" + ia.body + """}
#define IDX (self->counters.num_initializers - self->nprimaries + tid)
void PPE_call(ProcessPrimariesExecutor const* self, ThreadId tid)
__CPROVER_requires(__CPROVER_r_ok(self, sizeof(*self)) && __CPROVER_rw_ok(self->init, sizeof(InitState)) && self->nprimaries >= 1 && self->nprimaries <= NP && __CPROVER_r_ok(self->primaries, self->nprimaries * sizeof(Primary)))
__CPROVER_requires(tid != INVALID_ID && tid < self->nprimaries)                                             /* own CELER_EXPECT */
/* the primaries have been queued: counters.num_initializers already includes them (ExtendFromPrimariesAction::insert_impl) and fits the buffer (capacity check: c16_efp_insert) */
__CPROVER_requires(self->nprimaries <= self->counters.num_initializers && self->counters.num_initializers <= self->init->capacity && self->init->capacity <= 2 * NP)
__CPROVER_requires(self->primaries[tid].event_id < NEV && g_w < 2 * NP && g_w != IDX)
__CPROVER_requires(self->init->track_counters[self->primaries[tid].event_id] < ((size_type)1 << 63))      /* stated range: an event's track counter does not wrap */
__CPROVER_requires(g_old_counter == self->init->track_counters[self->primaries[tid].event_id] && g_oldw.sim.track_id == self->init->initializers[g_w].sim.track_id && g_oldw.particle.particle_id == self->init->initializers[g_w].particle.particle_id)
__CPROVER_assigns(__CPROVER_object_whole(self->init))
/* primary `tid` becomes the initializer at its own position among the newly queued ones (injective in tid: c02_index_after), inside the buffer */
__CPROVER_ensures(IDX < self->init->capacity)
/* ... with the primary's particle, energy, position, direction, time and event; a FRESH track id of that event (the counter advances by one); no parent */
__CPROVER_ensures(self->init->initializers[IDX].particle.particle_id == self->primaries[tid].particle_id && SAME(self->init->initializers[IDX].particle.energy, self->primaries[tid].energy)
   && SAME(self->init->initializers[IDX].geo.pos, self->primaries[tid].position) && SAME(self->init->initializers[IDX].geo.dir, self->primaries[tid].direction) && SAME(self->init->initializers[IDX].sim.time, self->primaries[tid].time)
   && self->init->initializers[IDX].sim.event_id == self->primaries[tid].event_id)
__CPROVER_ensures(self->init->initializers[IDX].sim.track_id == g_old_counter && self->init->track_counters[self->primaries[tid].event_id] == g_old_counter + 1 && self->init->initializers[IDX].sim.parent_id == INVALID_ID)
/* frame: no other initializer is written */
__CPROVER_ensures(self->init->initializers[g_w].sim.track_id == g_oldw.sim.track_id && self->init->initializers[g_w].particle.particle_id == g_oldw.particle.particle_id && self->init->capacity == __CPROVER_old(self->init->capacity))
{""" + pc.body + """}
void h_ppe(void)
{
    InitState st; Primary pr[NP]; ProcessPrimariesExecutor ex; ex.init = &st; ex.primaries = pr; ThreadId tid;
    PPE_call(&ex, tid);
    VERIF_CANARY();
}
""")


UNITS += [
    Unit("c02_process_primaries", build_process_primaries, "h_ppe", enforce="PPE_call", timeout=120, backend=["sat", "cvc5"], object_bits=10,
         must_have=[r"PPE_call.postcondition", r"celer_expect"], checks=["--bounds-check", "--pointer-check", "--unsigned-overflow-check"],
         assumptions=["make_track_id by the contract enforced in c02_make_track_id (atomics sequential)", "Real3 members abstracted to one component; at most 8 primaries / 16 initializer slots in the harness (the function has no loop)"],
         note="ProcessPrimariesExecutor::operator(): primary tid becomes exactly the initializer at num_initializers - n + tid (inside the buffer) with its own particle / energy / position / direction / time / event, a fresh track id of that event and NO parent; no other initializer is written"),
]
