"""C02: every primary and secondary is transported exactly once (index core + executors)."""
from vkit.extract import Rule, LoopContracts
from vkit.runner import Unit

UT = "src/celeritas/track/detail/Utils.hh"
LA = "src/celeritas/track/detail/LocateAliveExecutor.hh"
PS = "src/celeritas/track/detail/ProcessSecondariesExecutor.hh"
AT = "src/corecel/math/Atomics.hh"

HDR = '#include "celer.h"\n'

ID_TYPES = """
typedef size_type ThreadId;      /* OpaqueId<struct Thread_, size_type>: value, invalid = all ones; .get() asserts validity */
typedef size_type TrackSlotId;
#define INVALID_ID ((size_type)-1)
static size_type ID_get(size_type id) { __CPROVER_assert(id != INVALID_ID, "celer_expect: OpaqueId::get() on a valid id"); return id; }
"""
UT_RULES = [
    Rule(r"\btid\.get\(\)", "ID_get(tid)", "*", note="OpaqueId::get() -> validity assertion + value"),
    Rule(r"\btid\.unchecked_get\(\)", "tid", "*", note="OpaqueId::unchecked_get()"),
    Rule(r"CELER_EXPECT\(tid\);", "CELER_EXPECT(tid != INVALID_ID);", "*", note="OpaqueId::operator bool"),
]


def piece_index_before(ctx):
    return ctx.func(UT, r"CELER_FORCEINLINE_FUNCTION size_type index_before\(size_type size, ThreadId tid\)", UT_RULES, name="detail::index_before")


def piece_index_after(ctx):
    return ctx.func(UT, r"CELER_FORCEINLINE_FUNCTION size_type index_after\(size_type size, ThreadId tid\)", UT_RULES, name="detail::index_after")


def piece_index_partitioned(ctx):
    return ctx.func(UT, r"CELER_FORCEINLINE_FUNCTION size_type index_partitioned\(size_type num_new_tracks,", UT_RULES, name="detail::index_partitioned")


IB_CONTRACT = """
size_type index_before(size_type size, ThreadId tid)
__CPROVER_requires(tid != INVALID_ID && tid + 1 <= size)   /* own CELER_EXPECT (tid.get() needs a valid id) */
__CPROVER_assigns()
__CPROVER_ensures(__CPROVER_return_value < size && __CPROVER_return_value == size - 1 - tid)   /* counts down from the back: in range, injective in tid */
"""


def build_index_before(ctx):
    pc = piece_index_before(ctx)
    return (HDR + ID_TYPES + IB_CONTRACT + "{" + pc.body + "}\n" + """
void h_ib(void)
{
    size_type size; ThreadId tid;
    index_before(size, tid);
    VERIF_CANARY();
}
""")


def build_index_after(ctx):
    pc = piece_index_after(ctx)
    return (HDR + ID_TYPES + """
size_type index_after(size_type size, ThreadId tid)
__CPROVER_requires(tid != INVALID_ID)   /* own CELER_EXPECT */
__CPROVER_requires((unsigned __int128)size + tid <= (unsigned __int128)(size_type)-1)   /* stated range: no wrap */
__CPROVER_assigns()
__CPROVER_ensures(__CPROVER_return_value >= size && __CPROVER_return_value == size + tid)
{""" + pc.body + """}
void h_ia(void)
{
    size_type size; ThreadId tid;
    index_after(size, tid);
    VERIF_CANARY();
}
""")


def build_index_partitioned(ctx):
    pc = piece_index_partitioned(ctx)
    return (HDR + ID_TYPES + IB_CONTRACT + ";\n" + """
size_type index_partitioned(size_type num_new_tracks, size_type num_vacancies, bool get_from_front, ThreadId tid)
__CPROVER_requires(tid != INVALID_ID && tid < num_new_tracks && num_new_tracks <= num_vacancies)   /* own CELER_EXPECTs */
__CPROVER_assigns()
__CPROVER_ensures(__CPROVER_return_value < num_vacancies)
__CPROVER_ensures(get_from_front ? __CPROVER_return_value == num_new_tracks - 1 - tid : __CPROVER_return_value == num_vacancies - 1 - tid)
{""" + pc.body + """}
void h_ip(void)
{
    size_type nn, nv; unsigned gr; bool gf = (gr != 0); ThreadId tid;
    index_partitioned(nn, nv, gf, tid);
    VERIF_CANARY();
}
""")


def build_partition_distinct(ctx):
    """Lemma over index_partitioned's contract: with the initializers of the step partitioned
    (threads < c neutral... i.e. flag true exactly for tid < c, as partition_initializers + back-to-front
    indexing produce), two different threads never get the same vacancy index."""
    pc = piece_index_partitioned(ctx)
    pb = piece_index_before(ctx)
    return (HDR + ID_TYPES + "size_type index_before(size_type size, ThreadId tid)\n{" + pb.body + "}\n"
            + "size_type index_partitioned(size_type num_new_tracks, size_type num_vacancies, bool get_from_front, ThreadId tid)\n{" + pc.body + "}\n" + """
void h_pd(void)
{
    size_type nn, nv, c; ThreadId t1, t2;
    __CPROVER_assume(nn <= nv && t1 < nn && t2 < nn && t1 != t2 && c <= nn);
    /* partition_initializers = std::stable_partition(indices, IsNeutralStencil): the c neutral initializers come first in
       `indices` (assumed contract of the std algorithm); thread t reads position index_before(nn, t) (InitTracksExecutor::get_idx),
       so its initializer is neutral iff that position is < c */
    bool f1 = index_before(nn, t1) < c, f2 = index_before(nn, t2) < c;
    size_type v1 = index_partitioned(nn, nv, f1, t1), v2 = index_partitioned(nn, nv, f2, t2);
    __CPROVER_assert(v1 < nv && v2 < nv, "lemma.partition_range: vacancy indices in range");
    /* neutral threads take vacancies [0, c), charged ones [nv-nn+c, nv): never the same slot */
    __CPROVER_assert(v1 != v2, "lemma.partition_distinct: two threads never initialise the same vacancy");
    VERIF_CANARY();
}
""")


UNITS = [
    Unit("c02_index_before", build_index_before, "h_ib", enforce="index_before", timeout=60, must_have=[r"index_before.postcondition", r"celer_expect"],
         checks=["--bounds-check", "--pointer-check", "--unsigned-overflow-check"], note="index_before: in range, == size-1-tid"),
    Unit("c02_index_after", build_index_after, "h_ia", enforce="index_after", timeout=60, must_have=[r"index_after.postcondition"],
         checks=["--bounds-check", "--pointer-check", "--unsigned-overflow-check"], assumptions=["size + tid does not wrap (stated precondition)"], note="index_after"),
    Unit("c02_index_partitioned", build_index_partitioned, "h_ip", enforce="index_partitioned", replace=["index_before"], timeout=60,
         must_have=[r"index_partitioned.postcondition", r"index_before.precondition"], checks=["--bounds-check", "--pointer-check", "--unsigned-overflow-check"],
         note="index_partitioned: in range; front/back selection as documented; callee precondition holds at both call sites"),
    Unit("c02_partition_distinct", build_partition_distinct, "h_pd", timeout=120, must_have=[r"lemma.partition_distinct", r"lemma.partition_range"],
         checks=["--bounds-check", "--pointer-check"], note="lemma: charge-partitioned vacancy indices of distinct threads are distinct"),
]
