"""C01: transport conserves energy (per-call ledgers on the deposit paths)."""
from vkit.extract import Rule, LoopContracts
from vkit.runner import Unit

PTV = "src/celeritas/phys/ParticleTrackView.hh"
PSV = "src/celeritas/phys/PhysicsStepView.hh"
ELA = "src/celeritas/global/alongstep/detail/ElossApplier.hh"
MEL = "src/celeritas/global/alongstep/detail/MeanELoss.hh"
TCE = "src/celeritas/phys/detail/TrackingCutExecutor.hh"
PSU = "src/celeritas/phys/PhysicsStepUtils.hh"

HDR = '#include "celer.h"\n'
VHDR = '#include "views.h"\n'

# ---- generic Quantity / view lowering rules --------------------------------
Q_RULES = [
    Rule(r"zero_quantity\(\)", "0", "*", note="Quantity: zero_quantity() -> 0 (units are compile-time only)"),
    Rule(r"\.value\(\)", "", "*", note="Quantity::value() -> the real_type itself"),
    Rule(r"\b(?:units::MevEnergy|Energy)\{([^{}]*)\}", r"(\1)", "*", note="Quantity construction -> value"),
]


def view_rules(varmap, track="track"):
    """member calls on view variables -> prefixed C functions taking &var"""
    rules = [
        Rule(r"auto (?:const )?(\w+) = %s\.make_(\w+)_view\(\);" % track, r"VIEW_\2 \1 = CTV_make_\2_view(%s);" % track, "*", note="auto view = track.make_X_view() -> typed view handle"),
        Rule(r"%s\.make_(\w+)_view\(\)\.(\w+)\(\)" % track, r"VIEWFN_\1_\2(%s)" % track, "*", note="temporary view member call"),
        Rule(r"\b%s\.(\w+)\(\)" % track, r"CTV_\1(%s)" % track, "*", note="CoreTrackView member call"),
    ]
    for var, pfx in varmap.items():
        rules.append(Rule(r"\b%s\.(\w+)\(\)" % var, r"%s_\1(&%s)" % (pfx, var), "*", note="view member call (no args)"))
        rules.append(Rule(r"\b%s\.(\w+)\(" % var, r"%s_\1_set(&%s, " % (pfx, var), "*", note="view member call (setter overload)"))
    return rules


VIEW_TYPEDEFS = """
typedef ParticleTrackView VIEW_particle; typedef SimTrackView VIEW_sim; typedef PhysicsStepView VIEW_physics_step; typedef PhysicsTrackView VIEW_physics;
"""

# ---- real-layout leaf views (member functions verified against the real text) ----
REAL_LAYOUT = """
typedef struct { real_type* ptr; size_type size; } RealItems;   /* StateCollection<real_type, reference, native> */
static real_type* coll_at(RealItems const* c, size_type i) { __CPROVER_assert(i < c->size, "celer_expect: Collection::operator[] i < size"); return &c->ptr[i]; }
#define COLL(c, i) (*coll_at(&(c), (i)))
typedef struct { size_type* ptr; size_type size; } IdItems;   /* ParticleId = OpaqueId<Particle_, size_type> */
typedef struct { RealItems particle_energy; IdItems particle_id; } ParticleStateRef;
typedef struct { ParticleStateRef const* states_; size_type track_slot_; } ParticleTrackViewR;
#define PTVR_OK(v) ((v) != 0 && (v)->states_ != 0 && (v)->track_slot_ < (v)->states_->particle_energy.size && (v)->states_->particle_energy.size <= 1024 && __CPROVER_rw_ok((v)->states_->particle_energy.ptr, (v)->states_->particle_energy.size * sizeof(real_type)) && FINITE((v)->states_->particle_energy.ptr[(v)->track_slot_]))
#define PTVR_E(v) ((v)->states_->particle_energy.ptr[(v)->track_slot_])
#define FINITE(x) (!__CPROVER_isnand(x) && !__CPROVER_isinfd(x))
static size_type PTVR_particle_id(ParticleTrackViewR const* self) { __CPROVER_assert(self->track_slot_ < self->states_->particle_id.size, "celer_expect: Collection::operator[] i < size"); return self->states_->particle_id.ptr[self->track_slot_]; }
size_type g_k; real_type g_old;   /* ghost: witness slot and its energy before the call (frame) */
"""
PTVR_RULES = Q_RULES + [
    Rule(r"states_\.(\w+)\[track_slot_\]", r"COLL(self->states_->\1, self->track_slot_)", "*", note="Collection[track_slot_] of a const& member"),
    Rule(r"this->energy\(\)", "PTVR_energy(self)", "*", note="member call"),
    Rule(r"CELER_EXPECT\(this->particle_id\(\)\);", "CELER_EXPECT(PTVR_particle_id(self) != (size_type)-1);", (0, 1), note="OpaqueId::operator bool"),
]
PTVR_HARNESS = """
void h_ptv(void)
{
    size_type n, slot, k; real_type x; __CPROVER_assume(n >= 1 && n <= 1024 && k < n);
    real_type* e = malloc(n * sizeof(real_type)); __CPROVER_assume(e != 0);
    size_type* ids = malloc(n * sizeof(size_type)); __CPROVER_assume(ids != 0);
    ParticleStateRef st = {{e, n}, {ids, n}}; ParticleTrackViewR v = {&st, slot};
    g_k = k; g_old = e[k];
    %s
    VERIF_CANARY();
}
"""


def ptvr_energy_fn(ctx):
    pc = ctx.func(PTV, r"CELER_FUNCTION auto ParticleTrackView::energy\(\) const -> Energy", PTVR_RULES, name="ParticleTrackView::energy()")
    return "real_type PTVR_energy(ParticleTrackViewR const* self)\n", pc.body


def build_ptv_energy_get(ctx):
    sig, body = ptvr_energy_fn(ctx)
    return (HDR + "#include <stdlib.h>\n" + REAL_LAYOUT + sig + "__CPROVER_requires(PTVR_OK(self))\n__CPROVER_assigns()\n__CPROVER_ensures(__CPROVER_return_value == PTVR_E(self))\n{" + body + "}\n"
            + PTVR_HARNESS % "PTVR_energy(&v);")


def build_ptv_subtract(ctx):
    sig, body = ptvr_energy_fn(ctx)
    pc = ctx.func(PTV, r"CELER_FUNCTION void ParticleTrackView::subtract_energy\(Energy eloss\)", PTVR_RULES, name="ParticleTrackView::subtract_energy")
    return (HDR + "#include <stdlib.h>\n" + REAL_LAYOUT + "static " + sig + "{" + body + "}\n" + """
void PTVR_subtract_energy(ParticleTrackViewR* self, real_type eloss)
__CPROVER_requires(PTVR_OK(self) && g_k < self->states_->particle_energy.size && g_old == self->states_->particle_energy.ptr[g_k])
__CPROVER_requires(eloss >= 0 && eloss <= PTVR_E(self))    /* own CELER_EXPECTs (energy finite by the view invariant) */
__CPROVER_assigns(PTVR_E(self))
__CPROVER_ensures(PTVR_E(self) == __CPROVER_old(PTVR_E(self)) - eloss)
__CPROVER_ensures(PTVR_E(self) >= 0 && PTVR_E(self) <= __CPROVER_old(PTVR_E(self)))   /* energy never increases, never negative */
__CPROVER_ensures(g_k != self->track_slot_ ==> self->states_->particle_energy.ptr[g_k] == g_old)   /* other slots untouched */
{""" + pc.body + "}\n" + PTVR_HARNESS % "PTVR_subtract_energy(&v, x);")


def build_ptv_energy_set(ctx):
    pc = ctx.func(PTV, r"^void ParticleTrackView::energy\(Energy quantity\)", PTVR_RULES, name="ParticleTrackView::energy(Energy)")
    return (HDR + "#include <stdlib.h>\n" + REAL_LAYOUT + """
void PTVR_energy_set(ParticleTrackViewR* self, real_type quantity)
__CPROVER_requires(PTVR_OK(self) && g_k < self->states_->particle_energy.size && g_old == self->states_->particle_energy.ptr[g_k])
__CPROVER_requires(quantity >= 0 && self->states_->particle_id.size == self->states_->particle_energy.size && __CPROVER_r_ok(self->states_->particle_id.ptr, self->states_->particle_id.size * sizeof(size_type)) && self->states_->particle_id.ptr[self->track_slot_] != (size_type)-1)    /* own CELER_EXPECTs: valid particle, E >= 0 */
__CPROVER_assigns(PTVR_E(self))
__CPROVER_ensures(PTVR_E(self) == quantity)
__CPROVER_ensures(g_k != self->track_slot_ ==> self->states_->particle_energy.ptr[g_k] == g_old)
{""" + pc.body + "}\n" + PTVR_HARNESS % "PTVR_energy_set(&v, x);")


def build_ptv_is_stopped(ctx):
    sig, body = ptvr_energy_fn(ctx)
    pc = ctx.func(PTV, r"CELER_FUNCTION bool ParticleTrackView::is_stopped\(\) const", PTVR_RULES, name="ParticleTrackView::is_stopped")
    return (HDR + "#include <stdlib.h>\n" + REAL_LAYOUT + "static " + sig + "{" + body + "}\n" + """
bool PTVR_is_stopped(ParticleTrackViewR const* self)
__CPROVER_requires(PTVR_OK(self))
__CPROVER_assigns()
__CPROVER_ensures(__CPROVER_return_value == (PTVR_E(self) == 0))
{""" + pc.body + "}\n" + PTVR_HARNESS % "PTVR_is_stopped(&v);")


PSV_LAYOUT = """
typedef struct { real_type energy_deposition; real_type other_[8]; } PhysicsTrackState;   /* only the member used here is named */
typedef struct { PhysicsTrackState* ptr; size_type size; } PhysStateItems;
typedef struct { PhysStateItems state; } PhysicsStateRef;
typedef struct { PhysicsStateRef const* states_; size_type track_slot_; } PhysicsStepViewR;
static PhysicsTrackState* PSVR_state(PhysicsStepViewR const* self) { __CPROVER_assert(self->track_slot_ < self->states_->state.size, "celer_expect: Collection::operator[] i < size"); return &self->states_->state.ptr[self->track_slot_]; }
#define PSVR_OK(v) ((v) != 0 && (v)->states_ != 0 && (v)->track_slot_ < (v)->states_->state.size && (v)->states_->state.size <= 256 && __CPROVER_rw_ok((v)->states_->state.ptr, (v)->states_->state.size * sizeof(PhysicsTrackState)) && !__CPROVER_isnand((v)->states_->state.ptr[(v)->track_slot_].energy_deposition) && !__CPROVER_isinfd((v)->states_->state.ptr[(v)->track_slot_].energy_deposition))
#define PSVR_D(v) ((v)->states_->state.ptr[(v)->track_slot_].energy_deposition)
size_type g_k; real_type g_old;
"""
PSVR_RULES = Q_RULES + [Rule(r"this->state\(\)\.", "PSVR_state(self)->", "*", note="state() returns states_.state[track_slot_]")]
PSVR_HARNESS = """
void h_psv(void)
{
    size_type n, slot, k; real_type x; __CPROVER_assume(n >= 1 && n <= 256 && k < n);
    PhysicsTrackState* e = malloc(n * sizeof(PhysicsTrackState)); __CPROVER_assume(e != 0);
    PhysicsStateRef st = {{e, n}}; PhysicsStepViewR v = {&st, slot};
    g_k = k; g_old = e[k].energy_deposition;
    %s
    VERIF_CANARY();
}
"""


def build_psv_deposit(ctx):
    st = ctx.func(PSV, r"CELER_FUNCTION PhysicsTrackState& PhysicsStepView::state\(\)", [], name="PhysicsStepView::state()")
    import re
    from vkit.extract import ExtractionDrift
    if not re.search(r"return\s+states_\.state\[track_slot_\];", st.body):
        raise ExtractionDrift("PhysicsStepView::state() is not `return states_.state[track_slot_];`")
    pc = ctx.func(PSV, r"CELER_FUNCTION void PhysicsStepView::deposit_energy\(Energy energy\)", PSVR_RULES, name="PhysicsStepView::deposit_energy")
    return (HDR + "#include <stdlib.h>\n" + PSV_LAYOUT + """
void PSVR_deposit_energy(PhysicsStepViewR* self, real_type energy)
__CPROVER_requires(PSVR_OK(self) && g_k < self->states_->state.size && g_old == self->states_->state.ptr[g_k].energy_deposition)
__CPROVER_requires(energy >= 0 && !__CPROVER_isinfd(energy))     /* own CELER_EXPECT; finite */
__CPROVER_assigns(PSVR_D(self))
__CPROVER_ensures(PSVR_D(self) == __CPROVER_old(PSVR_D(self)) + energy)
__CPROVER_ensures(g_k != self->track_slot_ ==> self->states_->state.ptr[g_k].energy_deposition == g_old)
{""" + pc.body + "}\n" + PSVR_HARNESS % "PSVR_deposit_energy(&v, x);")


def build_psv_reset(ctx):
    pc = ctx.func(PSV, r"CELER_FUNCTION void PhysicsStepView::reset_energy_deposition\(\)", PSVR_RULES, name="PhysicsStepView::reset_energy_deposition")
    return (HDR + "#include <stdlib.h>\n" + PSV_LAYOUT + """
void PSVR_reset(PhysicsStepViewR* self)
__CPROVER_requires(PSVR_OK(self) && g_k < self->states_->state.size && g_old == self->states_->state.ptr[g_k].energy_deposition)
__CPROVER_assigns(PSVR_D(self))
__CPROVER_ensures(PSVR_D(self) == 0)
__CPROVER_ensures(g_k != self->track_slot_ ==> self->states_->state.ptr[g_k].energy_deposition == g_old)
{""" + pc.body + "}\n" + PSVR_HARNESS % "PSVR_reset(&v);")


LEAF_CHECKS = ["--bounds-check", "--pointer-check"]
UNITS = [
    Unit("c01_ptv_energy_get", build_ptv_energy_get, "h_ptv", enforce="PTVR_energy", timeout=120, must_have=[r"PTVR_energy.postcondition", r"celer_expect"], checks=LEAF_CHECKS, note="ParticleTrackView::energy()"),
    Unit("c01_ptv_subtract_energy", build_ptv_subtract, "h_ptv", enforce="PTVR_subtract_energy", timeout=120, must_have=[r"PTVR_subtract_energy.postcondition", r"celer_expect"], checks=LEAF_CHECKS,
         note="ParticleTrackView::subtract_energy: E' == E - d exactly, 0 <= E' <= E, only this slot written"),
    Unit("c01_ptv_energy_set", build_ptv_energy_set, "h_ptv", enforce="PTVR_energy_set", timeout=120, must_have=[r"PTVR_energy_set.postcondition", r"celer_expect"], checks=LEAF_CHECKS, note="ParticleTrackView::energy(Energy)"),
    Unit("c01_ptv_is_stopped", build_ptv_is_stopped, "h_ptv", enforce="PTVR_is_stopped", timeout=120, must_have=[r"PTVR_is_stopped.postcondition"], checks=LEAF_CHECKS, note="ParticleTrackView::is_stopped"),
    Unit("c01_psv_deposit_energy", build_psv_deposit, "h_psv", enforce="PSVR_deposit_energy", timeout=120, must_have=[r"PSVR_deposit_energy.postcondition", r"celer_expect"], checks=LEAF_CHECKS,
         note="PhysicsStepView::deposit_energy: dep' == dep + e exactly, only this slot written"),
    Unit("c01_psv_reset", build_psv_reset, "h_psv", enforce="PSVR_reset", timeout=120, must_have=[r"PSVR_reset.postcondition"], checks=LEAF_CHECKS, note="PhysicsStepView::reset_energy_deposition"),
]
