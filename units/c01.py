"""C01: transport conserves energy (per-call ledgers on the deposit paths)."""
from vkit.extract import Rule, LoopContracts
from vkit.runner import Unit

PTV = "src/celeritas/phys/ParticleTrackView.hh"
PSV = "src/celeritas/phys/PhysicsStepView.hh"
ELA = "src/celeritas/global/alongstep/detail/ElossApplier.hh"
MEL = "src/celeritas/global/alongstep/detail/MeanELoss.hh"
TCE = "src/celeritas/phys/detail/TrackingCutExecutor.hh"
PSU = "src/celeritas/phys/PhysicsStepUtils.hh"

HDR = '#include "celer.h"\n'
VHDR = '#include "views.h"\n'

# ---- generic Quantity / view lowering rules --------------------------------
Q_RULES = [
    Rule(r"zero_quantity\(\)", "0", "*", note="Quantity: zero_quantity() -> 0 (units are compile-time only)"),
    Rule(r"\.value\(\)", "", "*", note="Quantity::value() -> the real_type itself"),
    Rule(r"\b(?:units::MevEnergy|Energy)\{([^{}]*)\}", r"(\1)", "*", note="Quantity construction -> value"),
]


def view_rules(varmap, track="track"):
    """member calls on view variables -> prefixed C functions taking &var"""
    rules = [
        Rule(r"auto (?:const )?(\w+) = %s\.make_(\w+)_view\(\);" % track, r"VIEW_\2 \1 = CTV_make_\2_view(%s);" % track, "*", note="auto view = track.make_X_view() -> typed view handle"),
        Rule(r"%s\.make_(\w+)_view\(\)\.(\w+)\(\)" % track, r"VIEWFN_\1_\2(%s)" % track, "*", note="temporary view member call"),
        Rule(r"\b%s\.(\w+)\(\)" % track, r"CTV_\1(%s)" % track, "*", note="CoreTrackView member call"),
    ]
    for var, pfx in varmap.items():
        rules.append(Rule(r"\b%s\.(\w+)\(\)" % var, r"%s_\1(&%s)" % (pfx, var), "*", note="view member call (no args)"))
        rules.append(Rule(r"\b%s\.(\w+)\(" % var, r"%s_\1_set(&%s, " % (pfx, var), "*", note="view member call (setter overload)"))
    return rules


VIEW_TYPEDEFS = """
typedef ParticleTrackView VIEW_particle; typedef SimTrackView VIEW_sim; typedef PhysicsStepView VIEW_physics_step; typedef PhysicsTrackView VIEW_physics;
"""

# ---- real-layout leaf views (member functions verified against the real text) ----
REAL_LAYOUT = """
typedef struct { real_type* ptr; size_type size; } RealItems;   /* StateCollection<real_type, reference, native> */
static real_type* coll_at(RealItems const* c, size_type i) { __CPROVER_assert(i < c->size, "celer_expect: Collection::operator[] i < size"); return &c->ptr[i]; }
#define COLL(c, i) (*coll_at(&(c), (i)))
typedef struct { size_type* ptr; size_type size; } IdItems;   /* ParticleId = OpaqueId<Particle_, size_type> */
typedef struct { RealItems particle_energy; IdItems particle_id; } ParticleStateRef;
typedef struct { ParticleStateRef const* states_; size_type track_slot_; } ParticleTrackViewR;
#define PTVR_OK(v) ((v) != 0 && (v)->states_ != 0 && (v)->track_slot_ < (v)->states_->particle_energy.size && (v)->states_->particle_energy.size <= 1024 && __CPROVER_rw_ok((v)->states_->particle_energy.ptr, (v)->states_->particle_energy.size * sizeof(real_type)) && FINITE((v)->states_->particle_energy.ptr[(v)->track_slot_]))
#define PTVR_E(v) ((v)->states_->particle_energy.ptr[(v)->track_slot_])
#define FINITE(x) (!__CPROVER_isnand(x) && !__CPROVER_isinfd(x))
static size_type PTVR_particle_id(ParticleTrackViewR const* self) { __CPROVER_assert(self->track_slot_ < self->states_->particle_id.size, "celer_expect: Collection::operator[] i < size"); return self->states_->particle_id.ptr[self->track_slot_]; }
size_type g_k; real_type g_old;   /* ghost: witness slot and its energy before the call (frame) */
"""
PTVR_RULES = Q_RULES + [
    Rule(r"states_\.(\w+)\[track_slot_\]", r"COLL(self->states_->\1, self->track_slot_)", "*", note="Collection[track_slot_] of a const& member"),
    Rule(r"this->energy\(\)", "PTVR_energy(self)", "*", note="member call"),
    Rule(r"CELER_EXPECT\(this->particle_id\(\)\);", "CELER_EXPECT(PTVR_particle_id(self) != (size_type)-1);", (0, 1), note="OpaqueId::operator bool"),
]
PTVR_HARNESS = """
void h_ptv(void)
{
    size_type n, slot, k; real_type x; __CPROVER_assume(n >= 1 && n <= 1024 && k < n);
    real_type* e = malloc(n * sizeof(real_type)); __CPROVER_assume(e != 0);
    size_type* ids = malloc(n * sizeof(size_type)); __CPROVER_assume(ids != 0);
    ParticleStateRef st = {{e, n}, {ids, n}}; ParticleTrackViewR v = {&st, slot};
    g_k = k; g_old = e[k];
    %s
    VERIF_CANARY();
}
"""


def ptvr_energy_fn(ctx):
    pc = ctx.func(PTV, r"CELER_FUNCTION auto ParticleTrackView::energy\(\) const -> Energy", PTVR_RULES, name="ParticleTrackView::energy()")
    return "real_type PTVR_energy(ParticleTrackViewR const* self)\n", pc.body


def build_ptv_energy_get(ctx):
    sig, body = ptvr_energy_fn(ctx)
    return (HDR + "#include <stdlib.h>\n" + REAL_LAYOUT + sig + "__CPROVER_requires(PTVR_OK(self))\n__CPROVER_assigns()\n__CPROVER_ensures(__CPROVER_return_value == PTVR_E(self))\n{" + body + "}\n"
            + PTVR_HARNESS % "PTVR_energy(&v);")


def build_ptv_subtract(ctx):
    sig, body = ptvr_energy_fn(ctx)
    pc = ctx.func(PTV, r"CELER_FUNCTION void ParticleTrackView::subtract_energy\(Energy eloss\)", PTVR_RULES, name="ParticleTrackView::subtract_energy")
    return (HDR + "#include <stdlib.h>\n" + REAL_LAYOUT + "static " + sig + "{" + body + "}\n" + """
void PTVR_subtract_energy(ParticleTrackViewR* self, real_type eloss)
__CPROVER_requires(PTVR_OK(self) && g_k < self->states_->particle_energy.size && g_old == self->states_->particle_energy.ptr[g_k])
__CPROVER_requires(eloss >= 0 && eloss <= PTVR_E(self))    /* own CELER_EXPECTs (energy finite by the view invariant) */
__CPROVER_assigns(PTVR_E(self))
__CPROVER_ensures(PTVR_E(self) == __CPROVER_old(PTVR_E(self)) - eloss)
__CPROVER_ensures(PTVR_E(self) >= 0 && PTVR_E(self) <= __CPROVER_old(PTVR_E(self)))   /* energy never increases, never negative */
__CPROVER_ensures(g_k != self->track_slot_ ==> self->states_->particle_energy.ptr[g_k] == g_old)   /* other slots untouched */
{""" + pc.body + "}\n" + PTVR_HARNESS % "PTVR_subtract_energy(&v, x);")


def build_ptv_energy_set(ctx):
    pc = ctx.func(PTV, r"^void ParticleTrackView::energy\(Energy quantity\)", PTVR_RULES, name="ParticleTrackView::energy(Energy)")
    return (HDR + "#include <stdlib.h>\n" + REAL_LAYOUT + """
void PTVR_energy_set(ParticleTrackViewR* self, real_type quantity)
__CPROVER_requires(PTVR_OK(self) && g_k < self->states_->particle_energy.size && g_old == self->states_->particle_energy.ptr[g_k])
__CPROVER_requires(quantity >= 0 && self->states_->particle_id.size == self->states_->particle_energy.size && __CPROVER_r_ok(self->states_->particle_id.ptr, self->states_->particle_id.size * sizeof(size_type)) && self->states_->particle_id.ptr[self->track_slot_] != (size_type)-1)    /* own CELER_EXPECTs: valid particle, E >= 0 */
__CPROVER_assigns(PTVR_E(self))
__CPROVER_ensures(PTVR_E(self) == quantity)
__CPROVER_ensures(g_k != self->track_slot_ ==> self->states_->particle_energy.ptr[g_k] == g_old)
{""" + pc.body + "}\n" + PTVR_HARNESS % "PTVR_energy_set(&v, x);")


def build_ptv_is_stopped(ctx):
    sig, body = ptvr_energy_fn(ctx)
    pc = ctx.func(PTV, r"CELER_FUNCTION bool ParticleTrackView::is_stopped\(\) const", PTVR_RULES, name="ParticleTrackView::is_stopped")
    return (HDR + "#include <stdlib.h>\n" + REAL_LAYOUT + "static " + sig + "{" + body + "}\n" + """
bool PTVR_is_stopped(ParticleTrackViewR const* self)
__CPROVER_requires(PTVR_OK(self))
__CPROVER_assigns()
__CPROVER_ensures(__CPROVER_return_value == (PTVR_E(self) == 0))
{""" + pc.body + "}\n" + PTVR_HARNESS % "PTVR_is_stopped(&v);")


PSV_LAYOUT = """
typedef struct { real_type energy_deposition; real_type other_[8]; } PhysicsTrackState;   /* only the member used here is named */
typedef struct { PhysicsTrackState* ptr; size_type size; } PhysStateItems;
typedef struct { PhysStateItems state; } PhysicsStateRef;
typedef struct { PhysicsStateRef const* states_; size_type track_slot_; } PhysicsStepViewR;
static PhysicsTrackState* PSVR_state(PhysicsStepViewR const* self) { __CPROVER_assert(self->track_slot_ < self->states_->state.size, "celer_expect: Collection::operator[] i < size"); return &self->states_->state.ptr[self->track_slot_]; }
#define PSVR_OK(v) ((v) != 0 && (v)->states_ != 0 && (v)->track_slot_ < (v)->states_->state.size && (v)->states_->state.size <= 256 && __CPROVER_rw_ok((v)->states_->state.ptr, (v)->states_->state.size * sizeof(PhysicsTrackState)) && !__CPROVER_isnand((v)->states_->state.ptr[(v)->track_slot_].energy_deposition) && !__CPROVER_isinfd((v)->states_->state.ptr[(v)->track_slot_].energy_deposition))
#define PSVR_D(v) ((v)->states_->state.ptr[(v)->track_slot_].energy_deposition)
size_type g_k; real_type g_old;
"""
PSVR_RULES = Q_RULES + [Rule(r"this->state\(\)\.", "PSVR_state(self)->", "*", note="state() returns states_.state[track_slot_]")]
PSVR_HARNESS = """
void h_psv(void)
{
    size_type n, slot, k; real_type x; __CPROVER_assume(n >= 1 && n <= 256 && k < n);
    PhysicsTrackState* e = malloc(n * sizeof(PhysicsTrackState)); __CPROVER_assume(e != 0);
    PhysicsStateRef st = {{e, n}}; PhysicsStepViewR v = {&st, slot};
    g_k = k; g_old = e[k].energy_deposition;
    %s
    VERIF_CANARY();
}
"""


def build_psv_deposit(ctx):
    st = ctx.func(PSV, r"CELER_FUNCTION PhysicsTrackState& PhysicsStepView::state\(\)", [], name="PhysicsStepView::state()")
    import re
    from vkit.extract import ExtractionDrift
    if not re.search(r"return\s+states_\.state\[track_slot_\];", st.body):
        raise ExtractionDrift("PhysicsStepView::state() is not `return states_.state[track_slot_];`")
    pc = ctx.func(PSV, r"CELER_FUNCTION void PhysicsStepView::deposit_energy\(Energy energy\)", PSVR_RULES, name="PhysicsStepView::deposit_energy")
    return (HDR + "#include <stdlib.h>\n" + PSV_LAYOUT + """
void PSVR_deposit_energy(PhysicsStepViewR* self, real_type energy)
__CPROVER_requires(PSVR_OK(self) && g_k < self->states_->state.size && g_old == self->states_->state.ptr[g_k].energy_deposition)
__CPROVER_requires(energy >= 0 && !__CPROVER_isinfd(energy))     /* own CELER_EXPECT; finite */
__CPROVER_assigns(PSVR_D(self))
__CPROVER_ensures(PSVR_D(self) == __CPROVER_old(PSVR_D(self)) + energy)
__CPROVER_ensures(g_k != self->track_slot_ ==> self->states_->state.ptr[g_k].energy_deposition == g_old)
{""" + pc.body + "}\n" + PSVR_HARNESS % "PSVR_deposit_energy(&v, x);")


def build_psv_reset(ctx):
    pc = ctx.func(PSV, r"CELER_FUNCTION void PhysicsStepView::reset_energy_deposition\(\)", PSVR_RULES, name="PhysicsStepView::reset_energy_deposition")
    return (HDR + "#include <stdlib.h>\n" + PSV_LAYOUT + """
void PSVR_reset(PhysicsStepViewR* self)
__CPROVER_requires(PSVR_OK(self) && g_k < self->states_->state.size && g_old == self->states_->state.ptr[g_k].energy_deposition)
__CPROVER_assigns(PSVR_D(self))
__CPROVER_ensures(PSVR_D(self) == 0)
__CPROVER_ensures(g_k != self->track_slot_ ==> self->states_->state.ptr[g_k].energy_deposition == g_old)
{""" + pc.body + "}\n" + PSVR_HARNESS % "PSVR_reset(&v);")


LEAF_CHECKS = ["--bounds-check", "--pointer-check"]
UNITS = [
    Unit("c01_ptv_energy_get", build_ptv_energy_get, "h_ptv", enforce="PTVR_energy", timeout=120, must_have=[r"PTVR_energy.postcondition", r"celer_expect"], checks=LEAF_CHECKS, note="ParticleTrackView::energy()"),
    Unit("c01_ptv_subtract_energy", build_ptv_subtract, "h_ptv", enforce="PTVR_subtract_energy", timeout=900, backend=["sat", "cvc5"], must_have=[r"PTVR_subtract_energy.postcondition", r"celer_expect"], checks=LEAF_CHECKS,
         note="ParticleTrackView::subtract_energy: E' == E - d exactly, 0 <= E' <= E, only this slot written"),
    Unit("c01_ptv_energy_set", build_ptv_energy_set, "h_ptv", enforce="PTVR_energy_set", timeout=120, must_have=[r"PTVR_energy_set.postcondition", r"celer_expect"], checks=LEAF_CHECKS, note="ParticleTrackView::energy(Energy)"),
    Unit("c01_ptv_is_stopped", build_ptv_is_stopped, "h_ptv", enforce="PTVR_is_stopped", timeout=120, must_have=[r"PTVR_is_stopped.postcondition"], checks=LEAF_CHECKS, note="ParticleTrackView::is_stopped"),
    Unit("c01_psv_deposit_energy", build_psv_deposit, "h_psv", enforce="PSVR_deposit_energy", timeout=900, backend=["sat", "cvc5"], must_have=[r"PSVR_deposit_energy.postcondition", r"celer_expect"], checks=LEAF_CHECKS,
         note="PhysicsStepView::deposit_energy: dep' == dep + e exactly, only this slot written"),
    Unit("c01_psv_reset", build_psv_reset, "h_psv", enforce="PSVR_reset", timeout=120, must_have=[r"PSVR_reset.postcondition"], checks=LEAF_CHECKS, note="PhysicsStepView::reset_energy_deposition"),
]


# ---------------------------------------------------------------------------
# ElossApplier<EH>::operator()
# ---------------------------------------------------------------------------
EH_STUB = """
real_type g_d; unsigned g_calls;   /* ghost: the amount the energy-loss helper returned; number of calls */
bool EH_is_applicable(CoreTrackView const* track)      /* any answer, no side effect */
__CPROVER_requires(VIEW_OK(track))
__CPROVER_assigns()
__CPROVER_ensures(1)
;
/* contract of the helper EH = what MeanELoss::calc_eloss / FluctELoss::calc_eloss guarantee (their own CELER_ENSUREs and cut rule):
 *   0 <= loss <= E;  loss == E only if the cut applied or the step is range-limited;  with the cut: all of it, or the rest stays above the cut */
real_type EH_calc_eloss(CoreTrackView const* track, real_type step, bool apply_cut)
__CPROVER_requires(VIEW_OK(track) && step > 0)
__CPROVER_assigns(g_d, g_calls)
__CPROVER_ensures(__CPROVER_return_value >= 0 && __CPROVER_return_value <= track->t->energy)
/* (NOT part of this contract: "loss == E only with the cut or the range action" -- MeanELoss guarantees it only when a range-limited step still carries the range action,
   and a boundary lying exactly at the end of the range replaces that action: the applier below must cope with a particle that stops on a boundary step) */
__CPROVER_ensures(apply_cut ==> (__CPROVER_return_value == track->t->energy || track->t->energy - __CPROVER_return_value > track->t->lowest_electron_energy))
__CPROVER_ensures(g_d == __CPROVER_return_value && g_calls == __CPROVER_old(g_calls) + 1)
;
"""

ELA_RULES = [
    Rule(r"CELER_ASSERT\(apply_cut \|\| deposited != particle\.energy\(\)\);", "/* NOT PROMOTED: CELER_ASSERT(apply_cut || deposited != particle.energy()) -- same corner: full loss on a boundary step */", (0, 1),
         note="in-body assert not promoted (does not follow from the helpers' enforced contracts; see EH_calc_eloss)"),
    Rule(r"CELER_ASSERT\(post_step_action != track\.boundary_action\(\)\);", "/* NOT PROMOTED: CELER_ASSERT(post_step_action != track.boundary_action()) -- a boundary exactly at the end of a range-limited step stops the particle on a boundary step */", (0, 1),
         note="in-body assert not promoted (does not follow from the helpers' enforced contracts; see EH_calc_eloss)"),
] + Q_RULES + [
    Rule(r"auto particle = track\.make_particle_view\(\);", "ParticleTrackView particle = CTV_make_particle_view(track);", 1, note="typed view handle"),
    Rule(r"auto sim = track\.make_sim_view\(\);", "SimTrackView sim = CTV_make_sim_view(track);", 1, note="typed view handle"),
    Rule(r"auto step = sim\.step_length\(\);", "real_type step = STV_step_length(&sim);", 1, note="auto -> real_type"),
    Rule(r"auto post_step_action = sim\.post_step_action\(\);", "ActionId post_step_action = STV_post_step_action(&sim);", 1, note="auto -> ActionId"),
    Rule(r"auto deposited = eloss\.calc_eloss\(track, step, apply_cut\);", "real_type deposited = EH_calc_eloss(track, step, apply_cut);", 1, note="EH member call -> stub with contract"),
    Rule(r"eloss\.is_applicable\(track\)", "EH_is_applicable(track)", 1, note="EH member call -> stub"),
    Rule(r"auto step = track\.make_physics_step_view\(\);", "PhysicsStepView step = CTV_make_physics_step_view(track);", 1, note="typed view handle (inner scope shadows the step length, as in the original)"),
    Rule(r"auto const phys = track\.make_physics_view\(\);", "PhysicsTrackView const phys = CTV_make_physics_view(track);", 1, note="typed view handle"),
    Rule(r"track\.make_physics_view\(\)\.scalars\(\)\.lowest_electron_energy", "track->t->lowest_electron_energy", "*", note="temporary view: scalars().lowest_electron_energy"),
    Rule(r"phys\.scalars\(\)\.(range_action|discrete_action)\(\)", r"track->t->\1", "*", note="scalars().X_action()"),
    Rule(r"step\.deposit_energy\(", "PSV_deposit_energy(&step, ", "*", note="view member call"),
    Rule(r"particle\.subtract_energy\(", "PTV_subtract_energy(&particle, ", "*", note="view member call"),
    Rule(r"particle\.(energy|is_stopped)\(\)", r"PTV_\1(&particle)", "*", note="view member call"),
    Rule(r"phys\.has_at_rest\(\)", "PHV_has_at_rest(&phys)", "*", note="view member call"),
    Rule(r"sim\.status\(TrackStatus::killed\);", "STV_status_set(&sim, TS_killed);", "*", note="view setter"),
    Rule(r"sim\.post_step_action\(([^()]+)\);", r"STV_post_step_action_set(&sim, \1);", "*", note="view setter"),
    Rule(r"track\.(boundary_action|tracking_cut_action|propagation_limit_action)\(\)", r"CTV_\1(track)", "*", note="CoreTrackView member"),
]


def build_eloss_applier(ctx):
    pc = ctx.func(ELA, r"CELER_FUNCTION void ElossApplier<EH>::operator\(\)\(CoreTrackView const& track\)", ELA_RULES, name="ElossApplier<EH>::operator()")
    return (VHDR + EH_STUB + """
#define T0(f) __CPROVER_old(track->t->f)
void ELA_call(CoreTrackView const* track)
__CPROVER_requires(VIEW_OK(track) && g_calls == 0)
/* state invariants of a track inside the along-step kernel */
__CPROVER_requires(track->t->energy >= 0 && !__CPROVER_isinfd(track->t->energy) && track->t->energy_deposition >= 0 && !__CPROVER_isinfd(track->t->energy_deposition))
__CPROVER_requires(track->t->step_length > 0 && track->t->lowest_electron_energy >= 0)
__CPROVER_requires(track->t->status >= 0 && track->t->status < 5 && track->t->status != TS_killed)
__CPROVER_requires(track->t->range_action != INVALID_ID && track->t->discrete_action != INVALID_ID && track->t->boundary_action != INVALID_ID)
__CPROVER_requires(track->t->boundary_action != track->t->range_action)   /* distinct actions have distinct ids (ActionRegistry) */
__CPROVER_assigns(track->t->energy, track->t->energy_deposition, track->t->status, track->t->post_step_action, g_d, g_calls)
/* LEDGER: either nothing moved, or exactly the helper's amount d left the particle and was deposited, once */
__CPROVER_ensures((g_calls == 0 || g_d == 0)
                      ? (track->t->energy == T0(energy) && track->t->energy_deposition == T0(energy_deposition))
                      : (g_calls == 1 && track->t->energy == T0(energy) - g_d && track->t->energy_deposition == T0(energy_deposition) + g_d))
/* kinetic energy never increases and never goes negative */
__CPROVER_ensures(track->t->energy >= 0 && track->t->energy <= T0(energy))
/* a particle that stops during this step is killed with the range action, or forced into a discrete (at-rest) interaction */
__CPROVER_ensures((g_calls == 1 && track->t->energy == 0) ==> (track->t->has_at_rest ? (track->t->post_step_action == track->t->discrete_action && track->t->status == T0(status))
                                                                                         : (track->t->post_step_action == track->t->range_action && track->t->status == TS_killed)))
__CPROVER_ensures(!(g_calls == 1 && track->t->energy == 0) ==> (track->t->status == T0(status) && track->t->post_step_action == T0(post_step_action)))
{""" + pc.body + """}
void h_ela(void)
{
    Track t; CoreTrackView v = {&t};
    unsigned r1, r2; t.antiparticle = (r1 != 0); t.has_at_rest = (r2 != 0);
    ELA_call(&v);
    VERIF_CANARY();
}
""")


# ---------------------------------------------------------------------------
# TrackingCutExecutor::operator()
# ---------------------------------------------------------------------------
TCE_RULES = Q_RULES + [
    Rule(r"using Energy = ParticleTrackView::Energy;", "", 1, note="type alias dropped"),
    Rule(r"#if !CELER_DEVICE_COMPILE.*?#endif", "", 1, flags=16, note="host logging block dropped (no effect on state)"),
    Rule(r"auto particle = track\.make_particle_view\(\);", "ParticleTrackView particle = CTV_make_particle_view(track);", 1, note="typed view handle"),
    Rule(r"auto sim = track\.make_sim_view\(\);", "SimTrackView sim = CTV_make_sim_view(track);", 1, note="typed view handle"),
    Rule(r"auto deposited = ", "real_type deposited = ", "*", note="auto -> real_type"),
    Rule(r"value_as<[\w:]+>\(", "(", "*", note="value_as<Q>(q) -> the real_type itself"),
    Rule(r"particle\.total_energy\(\)", "PTV_total_energy(&particle)", "*", note="view member call (body: energy() + mass())"),
    Rule(r"track\.make_physics_step_view\(\)\.deposit_energy\(", "{ PhysicsStepView psv_ = CTV_make_physics_step_view(track); PSV_deposit_energy(&psv_, ", "*", note="temporary view member call"),
    Rule(r"(PSV_deposit_energy\(&psv_, [^;]*\));", r"\1; }", 1, note="close temporary scope"),
    Rule(r"particle\.subtract_energy\(particle\.energy\(\)\);", "PTV_subtract_energy(&particle, PTV_energy(&particle));", "*", note="view member calls"),
    Rule(r"particle\.(is_antiparticle|mass|energy)\(\)", r"PTV_\1(&particle)", "*", note="view member call"),
    Rule(r"sim\.status\(TrackStatus::killed\);", "STV_status_set(&sim, TS_killed);", "*", note="view setter"),
]


def build_tracking_cut(ctx):
    pc = ctx.func(TCE, r"^TrackingCutExecutor::operator\(\)\(celeritas::CoreTrackView& track\)", TCE_RULES, name="TrackingCutExecutor::operator()")
    return (VHDR + """
static real_type PTV_total_energy(ParticleTrackView const* self) { return self->t->energy + self->t->mass; }   /* ParticleTrackView::total_energy(): energy() + mass() */
#define T0(f) __CPROVER_old(track->t->f)
void TCE_call(CoreTrackView* track)
__CPROVER_requires(VIEW_OK(track))
__CPROVER_requires(track->t->energy >= 0 && !__CPROVER_isinfd(track->t->energy) && track->t->mass >= 0 && !__CPROVER_isinfd(track->t->mass))
__CPROVER_requires(track->t->energy_deposition >= 0 && !__CPROVER_isinfd(track->t->energy_deposition))
__CPROVER_assigns(track->t->energy, track->t->energy_deposition, track->t->status)
/* everything the particle still carries is deposited locally, plus 2mc^2 when an antiparticle (positron) is destroyed */
__CPROVER_ensures(track->t->energy_deposition == T0(energy_deposition) + (T0(antiparticle) ? T0(energy) + 2 * T0(mass) : T0(energy)))
__CPROVER_ensures(track->t->energy == 0 && track->t->status == TS_killed)
{""" + pc.body + """}
void h_tce(void)
{
    Track t; CoreTrackView v = {&t};
    unsigned r1; t.antiparticle = (r1 != 0);
    __CPROVER_assume(t.status >= 0 && t.status < 5);
    TCE_call(&v);
    VERIF_CANARY();
}
""")


UNITS += [
    Unit("c01_eloss_applier", build_eloss_applier, "h_ela", enforce="ELA_call", backend=["sat", "cvc5"], replace=["EH_is_applicable", "EH_calc_eloss", "PSV_deposit_energy", "PTV_subtract_energy", "STV_status_set", "STV_post_step_action_set"], timeout=300,
         must_have=[r"ELA_call.postcondition", r"celer_assert", r"PTV_subtract_energy.precondition", r"PSV_deposit_energy.precondition", r"EH_calc_eloss.precondition"],
         checks=["--bounds-check", "--pointer-check"],
         assumptions=["energy-loss helper EH satisfies the stated contract (for MeanELoss it is enforced in c01_mean_eloss; FluctELoss sampler not verified)",
                      "boundary action id != range action id (distinct registered actions)",
                      "NOT PROMOTED: the applier's two debug asserts 'a boundary step never loses all energy' -- they rest on 'a range-limited step carries the range action', which a boundary lying exactly at the end of the range breaks; the helper contract used here does not assume it, and the postconditions (stopped => killed / at-rest) are proved without it"],
         note="ElossApplier: what leaves the particle is exactly what is deposited (same machine value d), once; 0 <= E' <= E; callee preconditions and the three in-body CELER_ASSERTs hold; stopped => killed/range or discrete at-rest"),
    Unit("c01_tracking_cut", build_tracking_cut, "h_tce", enforce="TCE_call", backend=["sat", "cvc5"], replace=["PSV_deposit_energy", "PTV_subtract_energy", "STV_status_set"], timeout=300,
         must_have=[r"TCE_call.postcondition", r"PTV_subtract_energy.precondition", r"PSV_deposit_energy.precondition"], checks=["--bounds-check", "--pointer-check"],
         assumptions=["host logging block dropped"],
         note="TrackingCutExecutor: deposits E (+2mc^2 for antiparticles), E' == 0, killed"),
]


# ---------------------------------------------------------------------------
# calc_mean_energy_loss and MeanELoss::calc_eloss
# ---------------------------------------------------------------------------
CALC_STUBS = """
/* assumed contracts on the physics tables (the calculators themselves: index safety under C14; values are data) */
size_type PHV_value_grid(PhysicsTrackView const* self, int vgt, size_type ppid)     /* a grid exists for every process that has continuous loss */
__CPROVER_requires(VIEW_OK(self) && ppid != INVALID_ID)
__CPROVER_assigns()
__CPROVER_ensures(__CPROVER_return_value != INVALID_ID)
;
real_type ELC_call(size_type grid_id, real_type energy)     /* EnergyLossCalculator: dE/dx >= 0, finite */
__CPROVER_requires(grid_id != INVALID_ID && energy >= 0)
__CPROVER_assigns()
__CPROVER_ensures(__CPROVER_return_value >= 0 && !__CPROVER_isinfd(__CPROVER_return_value) && !__CPROVER_isnand(__CPROVER_return_value))
;
real_type g_E;   /* ghost: pre-step energy, for the inverse-range stub's contract */
real_type IRC_call(size_type grid_id, real_type range)      /* InverseRangeCalculator: energy with the given remaining range, in [0, E]; positive for positive range */
__CPROVER_requires(grid_id != INVALID_ID && range >= 0)
__CPROVER_assigns()
__CPROVER_ensures(__CPROVER_return_value >= 0 && __CPROVER_return_value <= g_E && (range > 0 ==> (__CPROVER_return_value > 0 && g_E - __CPROVER_return_value < g_E)))
;
enum { VGT_macro_xs = 0, VGT_energy_loss = 1, VGT_range = 2 };   /* ValueGridType (bound) */
/* IEEE-754 facts about correctly rounded multiplication, assumed (no installed solver decides 53-bit FP products; checked for
 * binary32 in unit c01_fmul_lemmas_f32): rounding is monotone, so  x >= 0, 0 < l <= 1  =>  0 <= x*l <= x,  and  a > 0, b >= 0  =>  a*b >= 0 */
real_type g_thresh, g_lin;   /* ghost: the last linear-loss threshold (limit * E) and the last linear estimate (step * dE/dx) formed */
real_type FMUL_frac(real_type x, real_type l)
__CPROVER_requires(x >= 0 && l > 0 && l <= 1)
__CPROVER_assigns(g_thresh)
__CPROVER_ensures(__CPROVER_return_value >= 0 && __CPROVER_return_value <= x && g_thresh == __CPROVER_return_value)
;
real_type FMUL_nonneg(real_type a, real_type b)
__CPROVER_requires(a > 0 && b >= 0)
__CPROVER_assigns(g_lin)
__CPROVER_ensures(__CPROVER_return_value >= 0 && g_lin == __CPROVER_return_value)
;
"""

CMEL_RULES = Q_RULES + [
    Rule(r"using Energy = ParticleTrackView::Energy;", "typedef real_type Energy;", 1, note="Quantity alias -> real_type"),
    Rule(r"using VGT = ValueGridType;", "", 1, note="enum alias dropped"),
    Rule(r"static_assert\(.*?\);", "", 1, flags=16, note="static_assert on units dropped"),
    Rule(r"VGT::(\w+)", r"VGT_\1", "*", note="enum class value (bound)"),
    Rule(r"auto ppid = physics\.eloss_ppid\(\);", "size_type ppid = PHV_eloss_ppid(physics);", 1, note="auto -> id"),
    Rule(r"CELER_EXPECT\(physics\.eloss_ppid\(\)\);", "CELER_EXPECT(PHV_eloss_ppid(physics) != INVALID_ID);", 1, note="OpaqueId::operator bool"),
    Rule(r"Energy const pre_step_energy = particle\.energy\(\);", "Energy const pre_step_energy = PTV_energy(particle); g_E = pre_step_energy;", 1, note="view call; ghost"),
    Rule(r"auto grid_id = physics\.value_grid\(([^;]*)\);", r"size_type grid_id = PHV_value_grid(physics, \1);", "*", note="view call"),
    Rule(r"CELER_ASSERT\(grid_id\);", "CELER_ASSERT(grid_id != INVALID_ID);", "*", note="OpaqueId::operator bool"),
    Rule(r"auto calc_eloss_rate\s*=\s*physics\.make_calculator<EnergyLossCalculator>\(grid_id\);", "size_type calc_eloss_rate = grid_id;", 1, note="calculator object -> its grid id (functor call lowered below)"),
    Rule(r"step \* calc_eloss_rate\(pre_step_energy\)", "FMUL_nonneg(step, ELC_call(calc_eloss_rate, pre_step_energy))", 1, note="functor call -> stub; FP product -> assumed IEEE lemma (a>0,b>=0 => a*b>=0)"),
    Rule(r"auto calc_energy\s*=\s*physics\.make_calculator<InverseRangeCalculator>\(grid_id\);", "size_type calc_energy = grid_id;", 1, note="calculator object -> its grid id"),
    Rule(r"calc_energy\(([^()]*)\)", r"IRC_call(calc_energy, \1)", "*", note="functor call -> stub"),
    Rule(r"(\w+) \* physics\.scalars\(\)\.linear_loss_limit", r"FMUL_frac(\1, physics->t->linear_loss_limit)", "*", note="FP product -> assumed IEEE lemma (0 <= x*l <= x for 0<l<=1)"),
    Rule(r"physics\.dedx_range\(\)", "PHV_dedx_range(physics)", "*", note="view call"),
    Rule(r"Energy eloss;", "Energy eloss = 0;", (0, 1), note="Quantity default = 0"),
]


def piece_cmel(ctx):
    return ctx.func(PSU, r"^calc_mean_energy_loss\(ParticleTrackView const& particle,", CMEL_RULES, name="calc_mean_energy_loss")


CMEL_SIG = """
real_type calc_mean_energy_loss(ParticleTrackView const* particle, PhysicsTrackView const* physics, real_type step)
__CPROVER_requires(%s)
__CPROVER_requires(step > 0 && physics->t->eloss_ppid != INVALID_ID)      /* own CELER_EXPECTs */
/* state: finite non-negative energy; 0 < linear_loss_limit <= 1 (validated by PhysicsParams); the step does not exceed the range (pre-step limit) */
__CPROVER_requires(particle->t->energy >= 0 && !__CPROVER_isinfd(particle->t->energy) && physics->t->linear_loss_limit > 0 && physics->t->linear_loss_limit <= 1)
__CPROVER_requires(!__CPROVER_isinfd(step) && physics->t->dedx_range >= step && !__CPROVER_isinfd(physics->t->dedx_range))
__CPROVER_assigns(g_E, g_thresh, g_lin)
/* non-negative, never more than the particle has */
__CPROVER_ensures(__CPROVER_return_value >= 0 && __CPROVER_return_value <= particle->t->energy)
/* a range-limited step loses everything, exactly, unless the linear estimate is below the linear-loss limit (then it is below E) */
__CPROVER_ensures((step == physics->t->dedx_range && __CPROVER_return_value != particle->t->energy) ==> __CPROVER_return_value < particle->t->energy)
__CPROVER_ensures((__CPROVER_return_value == particle->t->energy && particle->t->energy > 0) ==> step == physics->t->dedx_range)
/* ... and when the linear estimate step*dE/dx reaches the linear-loss threshold limit*E, a range-limited step loses exactly E */
__CPROVER_ensures((step == physics->t->dedx_range && g_lin >= g_thresh) ==> __CPROVER_return_value == particle->t->energy)
"""


def build_cmel(ctx):
    pc = piece_cmel(ctx)
    return (VHDR + CALC_STUBS + CMEL_SIG % "VIEW_OK(particle) && VIEW_OK(physics) && particle->t == physics->t" + "{" + pc.body + """}
void h_cmel(void)
{
    Track t; ParticleTrackView p = {&t}; PhysicsTrackView ph = {&t}; real_type step;
    calc_mean_energy_loss(&p, &ph, step);
    VERIF_CANARY();
}
""")


MEL_RULES = Q_RULES + [
    Rule(r"auto particle = track\.make_particle_view\(\);", "ParticleTrackView particle = CTV_make_particle_view(track);", 1, note="typed view handle"),
    Rule(r"auto phys = track\.make_physics_view\(\);", "PhysicsTrackView phys = CTV_make_physics_view(track);", 1, note="typed view handle"),
    Rule(r"particle\.energy\(\)", "PTV_energy(&particle)", "*", note="view call"),
    Rule(r"phys\.scalars\(\)\.lowest_electron_energy", "track->t->lowest_electron_energy", "*", note="scalars().lowest_electron_energy"),
    Rule(r"phys\.scalars\(\)\.range_action\(\)", "track->t->range_action", "*", note="scalars().range_action()"),
    Rule(r"Energy eloss = calc_mean_energy_loss\(particle, phys, step\);", "real_type eloss = calc_mean_energy_loss(&particle, &phys, step);", 1, note="const& args -> pointers"),
    Rule(r"track\.make_sim_view\(\)\.post_step_action\(\)", "track->t->post_step_action", "*", note="temporary view: sim.post_step_action()"),
]


def build_mean_eloss(ctx):
    pc = ctx.func(MEL, r"CELER_FUNCTION auto MeanELoss::calc_eloss\(CoreTrackView const& track,", MEL_RULES, name="MeanELoss::calc_eloss")
    return (VHDR + CALC_STUBS.split("/* assumed contracts")[0] + "real_type g_E, g_thresh, g_lin;\n" + CMEL_SIG % "VIEW_OK(particle) && VIEW_OK(physics)" + ";\n" + """
real_type g_d; unsigned g_calls;
real_type MEL_calc_eloss(CoreTrackView const* track, real_type step, bool apply_cut)
__CPROVER_requires(VIEW_OK(track) && step > 0)     /* own CELER_EXPECT */
__CPROVER_requires(track->t->eloss_ppid != INVALID_ID)   /* is_applicable() */
__CPROVER_requires(track->t->energy > 0 && !__CPROVER_isinfd(track->t->energy) && track->t->lowest_electron_energy >= 0 && track->t->linear_loss_limit > 0 && track->t->linear_loss_limit <= 1)
__CPROVER_requires(!__CPROVER_isinfd(step) && track->t->dedx_range >= step && !__CPROVER_isinfd(track->t->dedx_range))
/* history: a step that equals the range was limited by the range limiter, which records the range action (calc_physics_step_limit) */
__CPROVER_requires(step == track->t->dedx_range ==> track->t->post_step_action == track->t->range_action)
__CPROVER_assigns(g_E, g_thresh, g_lin)
/* exactly the contract the ElossApplier relies on (EH_calc_eloss in unit c01_eloss_applier) */
__CPROVER_ensures(__CPROVER_return_value >= 0 && __CPROVER_return_value <= track->t->energy)
__CPROVER_ensures(__CPROVER_return_value == track->t->energy ==> (apply_cut || track->t->post_step_action == track->t->range_action))
__CPROVER_ensures(apply_cut ==> (__CPROVER_return_value == track->t->energy || track->t->energy - __CPROVER_return_value > track->t->lowest_electron_energy))
{""" + pc.body + """}
void h_mel(void)
{
    Track t; CoreTrackView v = {&t}; real_type step; unsigned r; bool cut = (r != 0);
    MEL_calc_eloss(&v, step, cut);
    VERIF_CANARY();
}
""")


UNITS += [
    Unit("c01_calc_mean_energy_loss", build_cmel, "h_cmel", enforce="calc_mean_energy_loss", replace=["PHV_value_grid", "ELC_call", "IRC_call", "FMUL_frac", "FMUL_nonneg"], timeout=300, backend=["sat", "cvc5"],
         must_have=[r"calc_mean_energy_loss.postcondition", r"celer_assert", r"ELC_call.precondition", r"IRC_call.precondition"], checks=["--bounds-check", "--pointer-check"],
         assumptions=["table calculators satisfy: dE/dx >= 0 finite; inverse range in [0, E], positive and not negligible against E (E - e < E in double) for positive remaining range (assumed on the data; for arbitrary tables rounding can make E - e == E, which would break MeanELoss's own CELER_ENSURE)", "0 < linear_loss_limit <= 1; step <= range (pre-step limit)", "two monotonicity lemmas of IEEE multiplication (0<=x*l<=x for 0<l<=1; a*b>=0) are assumed, not discharged"],
         note="calc_mean_energy_loss: 0 <= loss <= E; step == range => loss == E exactly (or linear branch); the in-body CELER_ASSERT(range > step) and grid-id asserts hold"),
    Unit("c01_mean_eloss", build_mean_eloss, "h_mel", enforce="MEL_calc_eloss", replace=["calc_mean_energy_loss"], timeout=300, backend=["sat", "cvc5"],
         must_have=[r"MEL_calc_eloss.postcondition", r"celer_ensure", r"calc_mean_energy_loss.precondition"], checks=["--bounds-check", "--pointer-check"],
         assumptions=["a step equal to the range carries the range action (set by calc_physics_step_limit; history-dependent precondition)"],
         note="MeanELoss::calc_eloss satisfies the helper contract used by ElossApplier (loss <= E, cut rule), its own CELER_ENSUREs hold"),
]


# ---------------------------------------------------------------------------
# InteractionApplierBaseImpl<F>::operator()
# ---------------------------------------------------------------------------
IAP = "src/celeritas/phys/InteractionApplier.hh"

IAP_MODEL = """
#include <stdlib.h>
enum { IA_scattered = 0, IA_absorbed = 1, IA_unchanged = 2, IA_failed = 3 };   /* Interaction::Action (bound) */
typedef struct { size_type particle_id; real_type energy; real_type direction[3]; } Secondary;
typedef struct { Secondary* ptr; size_type size; } SpanSecondary;
typedef struct { real_type energy; real_type direction[3]; SpanSecondary secondaries; real_type energy_deposition; int action; } Interaction;
#define NPART 8
#define NSECMAX 16
bool g_anti[NPART]; real_type g_mass[NPART];      /* ghost particle table: ParticleView(pid).is_antiparticle(), .mass() */
bool g_cut[NSECMAX];                               /* ghost: CutoffView::apply's answer for secondary k (any predicate) */
bool g_apply_post;                                 /* CutoffView::apply_post_interaction() */
real_type g_sum;                                   /* ghost: the specified deposition, accumulated in lock-step */
size_type g_k; Secondary g_old;                    /* ghost witness secondary and its value before the call */
Interaction g_result;                              /* ghost: what the interactor returned */
size_type g_nsec; Secondary* g_secs;
/* F: the model's interactor; any result satisfying Interaction's invariants */
Interaction F_sample_interaction(CoreTrackView const* track)
__CPROVER_requires(VIEW_OK(track))
__CPROVER_assigns(g_result)
__CPROVER_ensures(__CPROVER_return_value.action >= 0 && __CPROVER_return_value.action <= 3)
__CPROVER_ensures(__CPROVER_return_value.energy >= 0 && !__CPROVER_isinfd(__CPROVER_return_value.energy) && __CPROVER_return_value.energy_deposition >= 0 && !__CPROVER_isinfd(__CPROVER_return_value.energy_deposition) && __CPROVER_return_value.energy_deposition < (1l << 40))
__CPROVER_ensures(__CPROVER_return_value.secondaries.ptr == g_secs && __CPROVER_return_value.secondaries.size == g_nsec)
__CPROVER_ensures(g_result.action == __CPROVER_return_value.action && g_result.energy == __CPROVER_return_value.energy && g_result.energy_deposition == __CPROVER_return_value.energy_deposition)
;
typedef struct { CoreTrackView const* track; } CutoffView;
typedef struct { size_type pid; } ParticleView;
typedef struct { Track* t; } GeoTrackView;
static CutoffView CTV_make_cutoff_view(CoreTrackView const* track) { CutoffView c = {track}; return c; }
static bool CUT_apply_post_interaction(CutoffView const* c) { return g_apply_post; }
static bool CUT_apply(CutoffView const* c, Secondary const* s) { return g_cut[s - g_secs]; }
static bool PV_is_antiparticle(ParticleView const* p) { __CPROVER_assert(p->pid < NPART, "celer_expect: valid particle id"); return g_anti[p->pid]; }
static real_type PV_mass(ParticleView const* p) { __CPROVER_assert(p->pid < NPART, "celer_expect: valid particle id"); return g_mass[p->pid]; }
/* sim.step_limit(sl): contract enforced in c05_stv_step_limit */
bool STV_step_limit(SimTrackView* self, real_type step, ActionId action)
__CPROVER_requires(VIEW_OK(self) && step >= 0)
__CPROVER_assigns(self->t->step_length, self->t->post_step_action)
__CPROVER_ensures(self->t->step_length == (step < __CPROVER_old(self->t->step_length) ? step : __CPROVER_old(self->t->step_length)))
__CPROVER_ensures(self->t->post_step_action == (step < __CPROVER_old(self->t->step_length) ? action : __CPROVER_old(self->t->post_step_action)))
;
void GEO_set_dir(GeoTrackView* g, real_type const* dir) __CPROVER_requires(g != 0) __CPROVER_assigns() __CPROVER_ensures(1);   /* geometry state is outside this ledger */
void PSV_secondaries_set(PhysicsStepView* self, SpanSecondary s) __CPROVER_requires(VIEW_OK(self)) __CPROVER_assigns() __CPROVER_ensures(1);
"""

IAP_GHOST_STEP = ("            /* ghost lock-step: the SPECIFIED deposition adds a cut secondary's kinetic energy, plus 2mc^2 iff THAT SECONDARY is an antiparticle */\n"
                  "            if (g_cut[si_]) { g_sum += secondary->energy; if (g_anti[secondary->particle_id]) g_sum += 2 * g_mass[secondary->particle_id]; }")

IAP_RULES = Q_RULES + [
    Rule(r"Interaction result = this->sample_interaction\(track\);", "Interaction result = F_sample_interaction(track);", 1, note="F functor -> stub"),
    Rule(r"auto sim = track\.make_sim_view\(\);", "SimTrackView sim = CTV_make_sim_view(track);", 1, note="typed view handle"),
    Rule(r"Interaction::Action::(\w+)", r"IA_\1", "*", note="enum class value (bound)"),
    Rule(r"auto phys = track\.make_physics_view\(\);", "PhysicsTrackView phys = CTV_make_physics_view(track);", 1, note="typed view handle"),
    Rule(r"sim\.step_limit\(\{0, phys\.scalars\(\)\.failure_action\(\)\}\);", "STV_step_limit(&sim, 0, track->t->failure_action);", 1, note="StepLimit{0, failure_action} aggregate -> two arguments"),
    Rule(r"!result\.changed\(\)", "!(result.action < IA_unchanged)", 1, note="Interaction::changed(): action < unchanged"),
    Rule(r"auto particle = track\.make_particle_view\(\);", "ParticleTrackView particle = CTV_make_particle_view(track);", 1, note="typed view handle"),
    Rule(r"particle\.energy\(result\.energy\);", "PTV_energy_set(&particle, result.energy);", "*", note="view setter"),
    Rule(r"auto geo = track\.make_geo_view\(\);", "GeoTrackView geo = {track->t};", 1, note="typed view handle"),
    Rule(r"geo\.set_dir\(result\.direction\);", "GEO_set_dir(&geo, result.direction);", "*", note="view call -> stub"),
    Rule(r"sim\.status\(TrackStatus::killed\);", "STV_status_set(&sim, TS_killed);", "*", note="view setter"),
    Rule(r"real_type deposition = result\.energy_deposition;", "real_type deposition = result.energy_deposition; g_sum = g_result.energy_deposition; /* ghost */", 1, note="ghost init"),
    Rule(r"auto cutoff = track\.make_cutoff_view\(\);", "CutoffView cutoff = CTV_make_cutoff_view(track);", 1, note="typed view handle"),
    Rule(r"cutoff\.apply_post_interaction\(\)", "CUT_apply_post_interaction(&cutoff)", 1, note="view call"),
    Rule(r"for \(auto\s*(&?)\s*secondary : result\.secondaries\)\s*\{",
         lambda m: ("for (size_type si_ = 0; si_ < result.secondaries.size; ++si_)\n        {\n            "
                    + ("Secondary* secondary = &result.secondaries.ptr[si_];" if m.group(1) else "Secondary sec_copy_ = result.secondaries.ptr[si_]; Secondary* secondary = &sec_copy_;   /* loop variable declared BY VALUE: a copy of the element */")
                    + "\n" + "IAP_PER_ELEMENT" + IAP_GHOST_STEP), 1,
         note="range-for over a Span -> index loop (element by reference -> pointer into the span; by value -> a copy); ghost injected"),
    Rule(r"cutoff\.apply\(secondary\)", "g_cut[si_] /* CutoffView::apply(secondary): any predicate of the secondary, tabulated per element */", 1, note="view call -> ghost predicate table"),
    Rule(r"secondary\.energy", "secondary->energy", "*", note="reference -> pointer"),
    Rule(r"auto sec_par = track\.make_particle_view\(secondary\.particle_id\);", "ParticleView sec_par = {secondary->particle_id};", (0, 1), note="ParticleView for the secondary's id"),
    Rule(r"sec_par\.(is_antiparticle|mass)\(\)", r"PV_\1(&sec_par)", "*", note="ParticleView call"),
    Rule(r"particle\.(is_antiparticle|mass)\(\)", r"PTV_\1(&particle)", "*", note="view call"),
    Rule(r"secondary = \{\};", "secondary->particle_id = INVALID_ID; secondary->energy = 0; secondary->direction[0] = 0; secondary->direction[1] = 0; secondary->direction[2] = 0;", 1, note="Secondary{} : invalid id, zero energy, zero direction"),
    Rule(r"auto phys = track\.make_physics_step_view\(\);", "PhysicsStepView physs = CTV_make_physics_step_view(track);", 1, note="typed view handle (renamed: differently-typed name in the same C scope)"),
    Rule(r"phys\.deposit_energy\(", "PSV_deposit_energy(&physs, ", 1, note="view call"),
    Rule(r"phys\.secondaries\(result\.secondaries\);", "PSV_secondaries_set(&physs, result.secondaries);", 1, note="view call"),
]


def build_interaction_applier(ctx):
    pc = ctx.func(IAP, r"^InteractionApplierBaseImpl<F>::operator\(\)\(celeritas::CoreTrackView const& track\)", IAP_RULES, name="InteractionApplierBaseImpl<F>::operator()")
    cut = '            __CPROVER_assert(deposition == g_sum, "ghost.lockstep: deposition so far equals the specified sum"); __CPROVER_assume(deposition == g_sum); /* cut: checked, then used */\n'
    body = pc.body.replace("IAP_PER_ELEMENT", cut)
    body = body.replace("PhysicsStepView physs =", cut + "    PhysicsStepView physs =")
    return (VHDR + IAP_MODEL + """
#define T0(f) __CPROVER_old(track->t->f)
void IAP_call(CoreTrackView const* track)
__CPROVER_requires(VIEW_OK(track) && g_nsec <= NSECMAX && __CPROVER_rw_ok(g_secs, g_nsec * sizeof(Secondary)))
__CPROVER_requires(track->t->energy >= 0 && track->t->energy_deposition >= 0 && !__CPROVER_isinfd(track->t->energy_deposition) && track->t->step_length >= 0 && track->t->status >= 0 && track->t->status < 5)
__CPROVER_requires(g_k < g_nsec ==> (g_old.particle_id == g_secs[g_k].particle_id && g_old.energy == g_secs[g_k].energy))
__CPROVER_assigns(track->t->energy, track->t->status, track->t->energy_deposition, track->t->step_length, track->t->post_step_action, g_result, g_sum, __CPROVER_object_whole(g_secs))
/* allocation failure: NOTHING of the physics changes -- energy, status, deposition and the secondaries stay as they were; a zero step with the failure action is requested */
__CPROVER_ensures(g_result.action == IA_failed ==> (track->t->energy == T0(energy) && track->t->status == T0(status) && track->t->energy_deposition == T0(energy_deposition)
      && track->t->step_length == 0 && (T0(step_length) > 0 ==> track->t->post_step_action == track->t->failure_action)
      && (g_k < g_nsec ==> (g_secs[g_k].particle_id == g_old.particle_id && g_secs[g_k].energy == g_old.energy))))
__CPROVER_ensures(g_result.action == IA_unchanged ==> (track->t->energy == T0(energy) && track->t->status == T0(status) && track->t->energy_deposition == T0(energy_deposition)))
/* scattered or absorbed: the particle takes the interaction's energy; killed iff absorbed */
__CPROVER_ensures(g_result.action < IA_unchanged ==> (track->t->energy == g_result.energy && track->t->status == (g_result.action == IA_absorbed ? TS_killed : T0(status))))
/* LEDGER: the deposition grows by the interaction's local deposit plus, for every secondary below the cut, its kinetic energy and 2mc^2 if THAT secondary is an antiparticle */
__CPROVER_ensures(g_result.action < IA_unchanged ==> track->t->energy_deposition == T0(energy_deposition) + g_sum)
__CPROVER_ensures((g_result.action < IA_unchanged && !g_apply_post) ==> g_sum == g_result.energy_deposition)
/* cut secondaries are cleared, the others are passed on unchanged */
__CPROVER_ensures((g_result.action < IA_unchanged && g_k < g_nsec) ==> ((g_apply_post && g_cut[g_k]) ? (g_secs[g_k].particle_id == INVALID_ID && g_secs[g_k].energy == 0)
                                                                                                       : (g_secs[g_k].particle_id == g_old.particle_id && g_secs[g_k].energy == g_old.energy)))
{""" + body + """}
#ifndef NSEC
#define NSEC NSECMAX
#endif
void h_iap(void)
{
    Track t; CoreTrackView v = {&t}; size_type n, k; unsigned r;
    __CPROVER_assume(n <= NSEC);
    Secondary s[NSEC + 1];
    g_secs = s; g_nsec = n; g_k = k; g_apply_post = (r != 0);
    for (unsigned i = 0; i < NPART; ++i) { unsigned a; g_anti[i] = (a != 0); __CPROVER_assume(g_mass[i] >= 0 && !__CPROVER_isinfd(g_mass[i]) && g_mass[i] < (1l << 40)); }
    for (unsigned i = 0; i < NSEC; ++i) { unsigned c; g_cut[i] = (c != 0); if (i < n) __CPROVER_assume(s[i].particle_id < NPART && s[i].energy >= 0 && !__CPROVER_isinfd(s[i].energy) && s[i].energy < (1l << 40)); }
    if (k < n) g_old = s[k];
    __CPROVER_assume(t.energy_deposition < (1l << 40));
    IAP_call(&v);
    VERIF_CANARY();
}
""")


def _iap_unit(nsec, tier, timeout):
    return Unit("c01_interaction_applier_n%d" % nsec, build_interaction_applier, "h_iap", enforce="IAP_call", unwind=NPART_UNWIND, object_bits=10, defines=["NSEC=%d" % nsec, "VERIF_REAL_AS_INT"], tier=tier,
                bounded="at most %d secondaries per interaction (loop unwound); real_type abstracted to exact 64-bit integers for this unit (no rounding; overflow excluded by range assumptions)" % nsec,
                replace=["F_sample_interaction", "STV_step_limit", "PTV_energy_set", "GEO_set_dir", "STV_status_set", "PSV_deposit_energy", "PSV_secondaries_set"], timeout=timeout, backend=["sat"],
                must_have=[r"IAP_call.postcondition", r"unwinding assertion", r"PSV_deposit_energy.precondition", r"PTV_energy_set.precondition", r"STV_step_limit.precondition"], checks=["--bounds-check", "--pointer-check"],
                assumptions=["interactor F returns any Interaction with energy, deposition >= 0 finite; CutoffView::apply is any predicate on the secondary (ghost table); particle table (antiparticle flag, mass >= 0) arbitrary",
                             "per-secondary validity (valid particle id, finite non-negative energy) (harness)"],
                note="InteractionApplier: failure leaves energy/status/deposition/secondaries untouched and requests a zero step with the failure action; otherwise E' = result.energy, killed iff absorbed, deposition += local deposit + sum over sub-cut secondaries of (kinetic energy + 2mc^2 iff the SECONDARY is an antiparticle) in lock-step; cut secondaries cleared, others untouched")


NPART_UNWIND = 18
UNITS += [_iap_unit(8, "quick", 900), _iap_unit(16, "thorough", 7200)]


# ---------------------------------------------------------------------------
# FluctELoss::calc_eloss (energy loss with fluctuations): the same helper contract the ElossApplier relies on
# ---------------------------------------------------------------------------
FLU = "src/celeritas/global/alongstep/detail/FluctELoss.hh"
FLU_RULES = Q_RULES + [
    Rule(r"auto particle = track\.make_particle_view\(\);", "ParticleTrackView particle = CTV_make_particle_view(track);", 1, note="typed view handle"),
    Rule(r"auto phys = track\.make_physics_view\(\);", "PhysicsTrackView phys = CTV_make_physics_view(track);", 1, note="typed view handle"),
    Rule(r"particle\.energy\(\)", "PTV_energy(&particle)", "*", note="view call"),
    Rule(r"phys\.scalars\(\)\.lowest_electron_energy", "track->t->lowest_electron_energy", "*", note="scalars().lowest_electron_energy"),
    Rule(r"phys\.scalars\(\)\.range_action\(\)", "track->t->range_action", "*", note="scalars().range_action()"),
    Rule(r"auto eloss = calc_mean_energy_loss\(particle, phys, step\);", "real_type eloss = calc_mean_energy_loss(&particle, &phys, step); g_mean = eloss;", 1, note="const& args -> pointers; ghost: the mean loss"),
    Rule(r"CELER_EXPECT\(eloss > 0\);", "/* NOT PROMOTED: CELER_EXPECT(eloss > 0) -- a zero mean loss needs dE/dx == 0 (table data) */", (0, 1), note="in-body EXPECT on table data not promoted"),
    Rule(r"auto cutoffs = track\.make_cutoff_view\(\);", "", (0, 1), note="view only forwarded to the helper"),
    Rule(r"auto material = track\.make_material_view\(\);", "", (0, 1), note="view only forwarded to the helper"),
    Rule(r"EnergyLossHelper loss_helper\(\s*fluct_params_, cutoffs, material, particle, eloss, step\);", "", (0, 1), flags=16, note="helper object (stores the mean loss; its model choice is any)"),
    Rule(r"auto rng = track\.make_rng_engine\(\);", "", (0, 1), note="RNG handle"),
    Rule(r"switch \(loss_helper\.model\(\)\)\s*\{.*?#undef ASU_SAMPLE_ELOSS\s*\}", "eloss = FLU_sample(track);   /* switch over the fluctuation model: none / gamma / gaussian / urban distribution sample */", (0, 1), flags=16,
         note="model dispatch + distribution sampling -> stub returning ANY non-negative value (distribution shape not decided)"),
    Rule(r"loss_helper\.mean_loss\(\)", "g_mean", "*", note="EnergyLossHelper::mean_loss(): the mean loss it was constructed with"),
    Rule(r"track\.make_sim_view\(\)\.post_step_action\(\)", "track->t->post_step_action", "*", note="temporary view: sim.post_step_action()"),
]


def build_fluct_eloss(ctx):
    pc = ctx.func(FLU, r"CELER_FUNCTION auto FluctELoss::calc_eloss\(CoreTrackView const& track,", FLU_RULES, name="FluctELoss::calc_eloss")
    return (VHDR + CALC_STUBS.split("/* assumed contracts")[0] + "real_type g_E, g_thresh, g_lin;\n" + CMEL_SIG % "VIEW_OK(particle) && VIEW_OK(physics)" + ";\n" + """
real_type g_mean;     /* ghost: the mean loss handed to the EnergyLossHelper */
/* a sample of the energy-loss distribution chosen by the helper: ANY non-negative number (possibly far above the particle's energy) */
real_type FLU_sample(CoreTrackView const* track) __CPROVER_assigns() __CPROVER_ensures(__CPROVER_return_value >= 0);
real_type FLU_calc_eloss(CoreTrackView const* track, real_type step, bool apply_cut)
__CPROVER_requires(VIEW_OK(track) && step > 0)     /* own CELER_EXPECT */
__CPROVER_requires(track->t->eloss_ppid != INVALID_ID)   /* is_applicable() */
__CPROVER_requires(track->t->energy > 0 && !__CPROVER_isinfd(track->t->energy) && track->t->lowest_electron_energy >= 0 && track->t->linear_loss_limit > 0 && track->t->linear_loss_limit <= 1)
__CPROVER_requires(!__CPROVER_isinfd(step) && track->t->dedx_range >= step && !__CPROVER_isinfd(track->t->dedx_range))
__CPROVER_requires(step == track->t->dedx_range ==> track->t->post_step_action == track->t->range_action)
__CPROVER_assigns(g_E, g_thresh, g_lin, g_mean)
/* exactly the contract the ElossApplier relies on (EH_calc_eloss in unit c01_eloss_applier), for ANY value the fluctuation sampler returns */
__CPROVER_ensures(__CPROVER_return_value >= 0 && __CPROVER_return_value <= track->t->energy)
__CPROVER_ensures(__CPROVER_return_value == track->t->energy ==> (apply_cut || track->t->post_step_action == track->t->range_action))
__CPROVER_ensures(apply_cut ==> (__CPROVER_return_value == track->t->energy || track->t->energy - __CPROVER_return_value > track->t->lowest_electron_energy))
{""" + pc.body + """}
void h_flu(void)
{
    Track t; CoreTrackView v = {&t}; real_type step; unsigned r; bool cut = (r != 0);
    FLU_calc_eloss(&v, step, cut);
    VERIF_CANARY();
}
""")


UNITS += [
    Unit("c01_fluct_eloss", build_fluct_eloss, "h_flu", enforce="FLU_calc_eloss", replace=["calc_mean_energy_loss", "FLU_sample"], timeout=300, backend=["sat", "cvc5"],
         must_have=[r"FLU_calc_eloss.postcondition", r"celer_assert", r"celer_ensure", r"calc_mean_energy_loss.precondition"], checks=["--bounds-check", "--pointer-check"],
         assumptions=["calc_mean_energy_loss by its contract (c01_calc_mean_energy_loss)", "the fluctuation sampler returns any non-negative value (distribution shape not decided)", "NOT PROMOTED: CELER_EXPECT(eloss > 0) on the mean loss (table data)"],
         note="FluctELoss::calc_eloss: for ANY sampled loss the returned loss is in [0, E]; == E only when cutting or on a range-limited step; with the cut, either everything or a remainder above the tracking threshold; in-body ASSERT/ENSURE hold"),
]


# ---------------------------------------------------------------------------
# CutoffView::get / energy / apply: which secondaries are below the production cut
# ---------------------------------------------------------------------------
CUT = "src/celeritas/phys/CutoffView.hh"
CUT_MODEL = """
#define INVALID_ID ((size_type)-1)
typedef struct { real_type energy, range; } ParticleCutoff;
typedef struct { size_type gamma, electron, positron; } CutoffIds;
typedef struct { ParticleCutoff const* cutoffs; size_type cutoffs_size; size_type const* id_to_index; size_type id_to_index_size; size_type num_particles, num_materials; bool apply_post_interaction; CutoffIds ids; } CutoffData;
typedef struct { CutoffData const* params_; size_type material_; } CutoffView;
typedef struct { size_type particle_id; real_type energy; } Secondary;      /* the two members apply() reads */
#define CUT_EXT 32ul         /* stated bound of this unit: at most 32 particle types with cutoffs x 32 materials (the index product is decided by SAT for small extents only) */
/* CutoffParamsData::operator bool + the view constructor's EXPECTs */
#define CUT_OK(v) (__CPROVER_r_ok(v, sizeof(CutoffView)) && __CPROVER_r_ok((v)->params_, sizeof(CutoffData)) && (v)->params_->num_particles >= 1 && (v)->params_->num_particles <= CUT_EXT && (v)->params_->num_materials >= 1 && (v)->params_->num_materials <= CUT_EXT \\
    && (v)->params_->cutoffs_size == (v)->params_->num_particles * (v)->params_->num_materials && (v)->params_->id_to_index_size >= 1 && (v)->params_->id_to_index_size <= 64 && (v)->material_ < (v)->params_->num_materials \\
    && __CPROVER_r_ok((v)->params_->cutoffs, (v)->params_->cutoffs_size * sizeof(ParticleCutoff)) && __CPROVER_r_ok((v)->params_->id_to_index, (v)->params_->id_to_index_size * sizeof(size_type)))
#define HAS_CUT(v, p) ((p) < (v)->params_->id_to_index_size && (v)->params_->id_to_index[p] < (v)->params_->num_particles)
#define CUT_OF(v, p) ((v)->params_->cutoffs[(v)->params_->num_materials * (v)->params_->id_to_index[p] + (v)->material_])
"""
CUT_RULES = [
    Rule(r"params_\.id_to_index\.size\(\)", "self->params_->id_to_index_size", "*", note="Collection::size()"),
    Rule(r"params_\.cutoffs\.size\(\)", "self->params_->cutoffs_size", "*", note="Collection::size()"),
    Rule(r"CutoffId id\{([^{}]*)\};", r"size_type id = (\1);", (0, 1), flags=16, note="OpaqueId construction -> integer"),
    Rule(r"material_\.get\(\)", "self->material_", "*", note="OpaqueId::get()"),
    Rule(r"\bparams_\.", "self->params_->", "*", note="const& member -> pointer"),
    Rule(r"this->get\(particle\)", "CUT_get(self, particle)", "*", note="member call (real body)"),
    Rule(r"this->energy\(secondary\.particle_id\)", "CUT_energy(self, secondary->particle_id)", "*", note="member call (real body)"),
    Rule(r"\bsecondary\.", "secondary->", "*", note="const& parameter -> pointer"),
]


def build_cutoff_view(ctx):
    g = ctx.func(CUT, r"^CELER_FUNCTION ParticleCutoff CutoffView::get\(ParticleId particle\) const", CUT_RULES, name="CutoffView::get")
    e = ctx.func(CUT, r"^CELER_FUNCTION auto CutoffView::energy\(ParticleId particle\) const -> Energy", CUT_RULES, name="CutoffView::energy")
    a = ctx.func(CUT, r"^CELER_FUNCTION bool CutoffView::apply\(Secondary const& secondary\) const", CUT_RULES, name="CutoffView::apply")
    return (HDR + "#include <stdlib.h>\n" + CUT_MODEL + """
typedef size_type ParticleId;
ParticleCutoff CUT_get(CutoffView const* self, ParticleId particle)
__CPROVER_requires(CUT_OK(self) && HAS_CUT(self, particle))        /* own CELER_EXPECTs */
__CPROVER_assigns()
/* the entry of THIS particle type in THIS material (row-major: particle-major), read inside the table (own CELER_ENSURE) */
__CPROVER_ensures(__CPROVER_return_value.energy == CUT_OF(self, particle).energy || __CPROVER_isnand(CUT_OF(self, particle).energy))
{""" + g.body + """}
static real_type CUT_energy(CutoffView const* self, ParticleId particle)
{""" + e.body + """}
bool CUT_apply(CutoffView const* self, Secondary const* secondary)
__CPROVER_requires(CUT_OK(self) && __CPROVER_r_ok(secondary, sizeof(*secondary)))
/* photons, electrons and positrons have production cuts */
__CPROVER_requires(HAS_CUT(self, self->params_->ids.gamma) && HAS_CUT(self, self->params_->ids.electron) && HAS_CUT(self, self->params_->ids.positron))
__CPROVER_assigns()
/* a secondary is below the production cut iff it is a gamma / e- / e+ AND its energy is below the cut of ITS OWN type in this material; any other particle is never cut (and the table is not consulted for it) */
__CPROVER_ensures(__CPROVER_return_value == ((secondary->particle_id == self->params_->ids.gamma || secondary->particle_id == self->params_->ids.electron || secondary->particle_id == self->params_->ids.positron)
                                              ? (secondary->energy < CUT_OF(self, secondary->particle_id).energy) : 0))
{""" + a.body + """}
static void mk(CutoffView* v, CutoffData* d)
{
    size_type np, nm, ni; __CPROVER_assume(np >= 1 && np <= CUT_EXT && nm >= 1 && nm <= CUT_EXT && ni >= 1 && ni <= 64);
    d->num_particles = np; d->num_materials = nm; d->cutoffs_size = np * nm; d->id_to_index_size = ni;
    d->cutoffs = malloc(np * nm * sizeof(ParticleCutoff)); d->id_to_index = malloc(ni * sizeof(size_type)); __CPROVER_assume(d->cutoffs != 0 && d->id_to_index != 0);
    v->params_ = d;
}
void h_cut_get(void) { CutoffView v; CutoffData d; mk(&v, &d); ParticleId p; CUT_get(&v, p); VERIF_CANARY(); }
void h_cut_apply(void) { CutoffView v; CutoffData d; mk(&v, &d); Secondary s; CUT_apply(&v, &s); VERIF_CANARY(); }
""")


UNITS += [
    Unit("c01_cutoff_get", build_cutoff_view, "h_cut_get", enforce="CUT_get", timeout=300, backend=["sat", "kissat", "cvc5"], bounded="at most 32 particle types x 32 materials",
         must_have=[r"CUT_get.postcondition", r"celer_expect", r"celer_ensure"], checks=["--bounds-check", "--pointer-check", "--unsigned-overflow-check"],
         note="CutoffView::get: reads the cutoff of the given particle type in the view's material, inside the table (its own CELER_ENSURE)"),
    Unit("c01_cutoff_apply", build_cutoff_view, "h_cut_apply", enforce="CUT_apply", timeout=300, backend=["sat", "kissat", "cvc5"], bounded="at most 32 particle types x 32 materials",
         must_have=[r"CUT_apply.postcondition", r"celer_expect"], checks=["--bounds-check", "--pointer-check", "--unsigned-overflow-check"],
         note="CutoffView::apply: true exactly for a gamma / electron / positron whose energy is below the production cut of its own type in this material; other particles never (table not consulted)"),
]
