"""C11: reported safety distance is conservative (flag table + aggregation over faces)."""
from vkit.extract import Rule, LoopContracts
from vkit.runner import Unit

SUT = "src/orange/univ/SimpleUnitTracker.hh"
HDR = '#include "celer.h"\n'

SURF = {
    "PlaneAligned": ("src/orange/surf/PlaneAligned.hh", None), "Plane": ("src/orange/surf/Plane.hh", None),
    "SphereCentered": ("src/orange/surf/SphereCentered.hh", None), "Sphere": ("src/orange/surf/Sphere.hh", None),
    "CylCentered": ("src/orange/surf/CylCentered.hh", None), "CylAligned": ("src/orange/surf/CylAligned.hh", None),
    "ConeAligned": ("src/orange/surf/ConeAligned.hh", 0), "SimpleQuadric": ("src/orange/surf/SimpleQuadric.hh", 0),
    "GeneralQuadric": ("src/orange/surf/GeneralQuadric.hh", 0), "Involute": ("src/orange/surf/Involute.hh", 0),
}


def build_flag_table(ctx):
    fns = []
    asserts = []
    for name, (path, must) in SURF.items():
        pc = ctx.func(path, r"static CELER_CONSTEXPR_FUNCTION bool simple_safety\(\)", [], name=name + "::simple_safety")
        fns.append("static bool %s_simple_safety(void)\n{%s}\n" % (name, pc.body))
        if must is not None:
            asserts.append('    __CPROVER_assert(%s_simple_safety() == %d, "safety.flag.%s: the distance along the normal is NOT the distance to this surface type, so it must not claim simple safety (its safety is then reported as 0)");' % (name, must, name))
        else:
            asserts.append('    __CPROVER_assert(%s_simple_safety() == 0 || %s_simple_safety() == 1, "safety.flag.%s: flag is a constant (either value is conservative for planes, spheres and cylinders)");' % (name, name, name))
    return HDR + "".join(fns) + "void h_flags(void)\n{\n" + "\n".join(asserts) + "\n    VERIF_CANARY();\n}\n"


SAFETY_MODEL = """
#include <math.h>
#include <stdlib.h>
#define INVALID_ID ((size_type)-1)
typedef struct { real_type v[3]; } Real3;
typedef struct { size_type const* ptr; size_type size; } SpanFaces;        /* LdgSpan<LocalSurfaceId const> */
typedef struct { bool simple_safety_; SpanFaces faces_; } VolumeView;      /* the two members this function reads */
typedef struct { VolumeView const* vols; size_type nvol; } SimpleUnitTracker;
static VolumeView TRK_make_local_volume(SimpleUnitTracker const* self, size_type volid) { __CPROVER_assert(volid < self->nvol, "celer_expect: make_local_volume(volid): volid < num_volumes"); return self->vols[volid]; }
size_type g_w; real_type g_wval;      /* ghost: a witness face index of the volume and the per-surface safety computed for it */
real_type g_vals[64];                /* ghost: per-face safety (CalcSafetyDistance result), any non-negative numbers */
/* visit_surface(calc_safety, surface): per-surface safety >= 0 and not NaN (CalcSafetyDistance; sphere/cylinder distances use sqrt: assumed) */
real_type VISIT_calc_safety(Real3 const* pos, size_type surface, size_type k)
__CPROVER_requires(surface != INVALID_ID && k < 64)
__CPROVER_assigns()
__CPROVER_ensures(__CPROVER_return_value == g_vals[k] && __CPROVER_return_value >= 0)
;
static real_type celer_min(real_type a, real_type b) { return fmin(a, b); }
static real_type celer_max(real_type a, real_type b) { return fmax(a, b); }   /* celeritas::min<floating> == std::fmin (extracted and checked in c14_msc_*) */
"""
SAF_RULES = [
    Rule(r"CELER_EXPECT\(volid\);", "CELER_EXPECT(volid != INVALID_ID);", 1, note="OpaqueId::operator bool"),
    Rule(r"VolumeView vol = this->make_local_volume\(volid\);", "VolumeView vol = TRK_make_local_volume(self, volid);", 1, note="member call"),
    Rule(r"vol\.simple_safety\(\)", "vol.simple_safety_", 1, note="VolumeView accessor (flag computed by UnitInserter)"),
    Rule(r"numeric_limits<real_type>::infinity\(\)", "__builtin_inf()", 1, note="numeric_limits::infinity"),
    Rule(r"LocalSurfaceVisitor visit_surface\(params_, unit_record_\.surfaces\);", "", 1, note="visitor construction dropped (dispatch on the surface type is stubbed)"),
    Rule(r"CalcSafetyDistance calc_safety\{pos\};", "", 1, note="functor construction dropped"),
    Rule(r"for \(LocalSurfaceId surface : vol\.faces\(\)\)\s*\{", "for (size_type fi_ = 0; fi_ < vol.faces_.size; ++fi_)\n    {\n        size_type surface = vol.faces_.ptr[fi_];", 1, note="range-for over a Span -> index loop"),
    Rule(r"visit_surface\(calc_safety, surface\)", "VISIT_calc_safety(pos, surface, fi_)", 1, note="surface visitor -> stub"),
    Rule(r"celeritas::min\(|(?<![\w_])min\(", "celer_min(", "*", note="celeritas::min"),
    Rule(r"celeritas::max\(|(?<![\w_])max\(", "celer_max(", "*", note="celeritas::max"),
    LoopContracts([
        "    __CPROVER_assigns(fi_, result)\n"
        "    __CPROVER_loop_invariant(fi_ <= vol.faces_.size && result >= 0)\n"
        "    __CPROVER_loop_invariant(g_w < fi_ ==> result <= g_vals[g_w])\n"
        "    __CPROVER_decreases(vol.faces_.size - fi_)\n"]),
]


def build_safety(ctx):
    pc = ctx.func(SUT, r"CELER_FUNCTION real_type SimpleUnitTracker::safety\(Real3 const& pos,", SAF_RULES, name="SimpleUnitTracker::safety")
    return (HDR + SAFETY_MODEL + """
real_type TRK_safety(SimpleUnitTracker const* self, Real3 const* pos, size_type volid)
__CPROVER_requires(self != 0 && pos != 0 && self->nvol >= 1 && self->nvol <= 16 && __CPROVER_r_ok(self->vols, self->nvol * sizeof(VolumeView)))
__CPROVER_requires(volid != INVALID_ID && volid < self->nvol)      /* own CELER_EXPECT; a valid local volume */
__CPROVER_requires(self->vols[volid].faces_.size <= 64 && __CPROVER_r_ok(self->vols[volid].faces_.ptr, self->vols[volid].faces_.size * sizeof(size_type)))
__CPROVER_requires(g_w < 64 && (g_w < self->vols[volid].faces_.size ==> self->vols[volid].faces_.ptr[g_w] != INVALID_ID))
__CPROVER_assigns()
/* non-negative, never more than any face's own safety (witness face arbitrary), and exactly 0 for volumes without simple safety */
__CPROVER_ensures(__CPROVER_return_value >= 0)
__CPROVER_ensures((self->vols[volid].simple_safety_ && g_w < self->vols[volid].faces_.size) ==> __CPROVER_return_value <= g_vals[g_w])
__CPROVER_ensures(!self->vols[volid].simple_safety_ ==> __CPROVER_return_value == 0)
{""" + pc.body + """}
void h_saf(void)
{
    size_type nv, nf, vid, w; __CPROVER_assume(nv >= 1 && nv <= 16 && nf <= 64);
    VolumeView* vols = malloc(nv * sizeof(VolumeView)); size_type* faces = malloc(nf * sizeof(size_type)); __CPROVER_assume(vols != 0 && faces != 0);
    SimpleUnitTracker t = {vols, nv}; Real3 pos;
    if (vid < nv) { vols[vid].faces_.ptr = faces; vols[vid].faces_.size = nf; unsigned r; vols[vid].simple_safety_ = (r != 0); }
    for (unsigned i = 0; i < 64; ++i) { __CPROVER_assume(g_vals[i] >= 0); if (i < nf) __CPROVER_assume(faces[i] != INVALID_ID); }
    g_w = w;
    TRK_safety(&t, &pos, vid);
    VERIF_CANARY();
}
""")


UNITS = [
    Unit("c11_flag_table", build_flag_table, "h_flags", timeout=60, must_have=[r"safety.flag.ConeAligned", r"safety.flag.GeneralQuadric"], checks=["--bounds-check"],
         note="simple_safety() of every surface type: cones, simple/general quadrics and involutes must report false"),
    Unit("c11_unit_safety", build_safety, "h_saf", enforce="TRK_safety", replace=["VISIT_calc_safety"], loop_contracts=True, unwind=66, timeout=300, object_bits=10, backend=["sat", "cvc5"],
         must_have=[r"TRK_safety.postcondition", r"loop_invariant_step", r"celer_ensure", r"VISIT_calc_safety.precondition"], checks=["--bounds-check", "--pointer-check"],
         assumptions=["per-surface safety (CalcSafetyDistance) >= 0 and not NaN (sqrt inside; assumed)", "faces of a volume are valid surface ids"],
         note="SimpleUnitTracker::safety: >= 0, <= every face's own safety, == 0 for volumes without the simple-safety flag (any number of faces)"),
]
