"""C11: reported safety distance is conservative (flag table + aggregation over faces)."""
from vkit.extract import Rule, LoopContracts
from vkit.runner import Unit

SUT = "src/orange/univ/SimpleUnitTracker.hh"
HDR = '#include "celer.h"\n'

SURF = {
    "PlaneAligned": ("src/orange/surf/PlaneAligned.hh", None), "Plane": ("src/orange/surf/Plane.hh", None),
    "SphereCentered": ("src/orange/surf/SphereCentered.hh", None), "Sphere": ("src/orange/surf/Sphere.hh", None),
    "CylCentered": ("src/orange/surf/CylCentered.hh", None), "CylAligned": ("src/orange/surf/CylAligned.hh", None),
    "ConeAligned": ("src/orange/surf/ConeAligned.hh", 0), "SimpleQuadric": ("src/orange/surf/SimpleQuadric.hh", 0),
    "GeneralQuadric": ("src/orange/surf/GeneralQuadric.hh", 0), "Involute": ("src/orange/surf/Involute.hh", 0),
}


def build_flag_table(ctx):
    fns = []
    asserts = []
    for name, (path, must) in SURF.items():
        pc = ctx.func(path, r"static CELER_CONSTEXPR_FUNCTION bool simple_safety\(\)", [], name=name + "::simple_safety")
        fns.append("static bool %s_simple_safety(void)\n{%s}\n" % (name, pc.body))
        if must is not None:
            asserts.append('    __CPROVER_assert(%s_simple_safety() == %d, "safety.flag.%s: the distance along the normal is NOT the distance to this surface type, so it must not claim simple safety (its safety is then reported as 0)");' % (name, must, name))
        else:
            asserts.append('    __CPROVER_assert(%s_simple_safety() == 0 || %s_simple_safety() == 1, "safety.flag.%s: flag is a constant (either value is conservative for planes, spheres and cylinders)");' % (name, name, name))
    return HDR + "".join(fns) + "void h_flags(void)\n{\n" + "\n".join(asserts) + "\n    VERIF_CANARY();\n}\n"


SAFETY_MODEL = """
#include <math.h>
#include <stdlib.h>
#define INVALID_ID ((size_type)-1)
typedef struct { real_type v[3]; } Real3;
typedef struct { size_type const* ptr; size_type size; } SpanFaces;        /* LdgSpan<LocalSurfaceId const> */
typedef struct { bool simple_safety_; SpanFaces faces_; } VolumeView;      /* the two members this function reads */
typedef struct { VolumeView const* vols; size_type nvol; } SimpleUnitTracker;
static VolumeView TRK_make_local_volume(SimpleUnitTracker const* self, size_type volid) { __CPROVER_assert(volid < self->nvol, "celer_expect: make_local_volume(volid): volid < num_volumes"); return self->vols[volid]; }
size_type g_w; real_type g_wval;      /* ghost: a witness face index of the volume and the per-surface safety computed for it */
real_type g_vals[64];                /* ghost: per-face safety (CalcSafetyDistance result), any non-negative numbers */
/* visit_surface(calc_safety, surface): per-surface safety >= 0 and not NaN (CalcSafetyDistance; sphere/cylinder distances use sqrt: assumed) */
real_type VISIT_calc_safety(Real3 const* pos, size_type surface, size_type k)
__CPROVER_requires(surface != INVALID_ID && k < 64)
__CPROVER_assigns()
__CPROVER_ensures(__CPROVER_return_value == g_vals[k] && __CPROVER_return_value >= 0)
;
static real_type celer_min(real_type a, real_type b) { return fmin(a, b); }
static real_type celer_max(real_type a, real_type b) { return fmax(a, b); }   /* celeritas::min<floating> == std::fmin (extracted and checked in c14_msc_*) */
"""
SAF_RULES = [
    Rule(r"CELER_EXPECT\(volid\);", "CELER_EXPECT(volid != INVALID_ID);", 1, note="OpaqueId::operator bool"),
    Rule(r"VolumeView vol = this->make_local_volume\(volid\);", "VolumeView vol = TRK_make_local_volume(self, volid);", 1, note="member call"),
    Rule(r"vol\.simple_safety\(\)", "vol.simple_safety_", 1, note="VolumeView accessor (flag computed by UnitInserter)"),
    Rule(r"numeric_limits<real_type>::infinity\(\)", "__builtin_inf()", 1, note="numeric_limits::infinity"),
    Rule(r"LocalSurfaceVisitor visit_surface\(params_, unit_record_\.surfaces\);", "", 1, note="visitor construction dropped (dispatch on the surface type is stubbed)"),
    Rule(r"CalcSafetyDistance calc_safety\{pos\};", "", 1, note="functor construction dropped"),
    Rule(r"for \(LocalSurfaceId surface : vol\.faces\(\)\)\s*\{", "for (size_type fi_ = 0; fi_ < vol.faces_.size; ++fi_)\n    {\n        size_type surface = vol.faces_.ptr[fi_];", 1, note="range-for over a Span -> index loop"),
    Rule(r"visit_surface\(calc_safety, surface\)", "VISIT_calc_safety(pos, surface, fi_)", 1, note="surface visitor -> stub"),
    Rule(r"celeritas::min\(|(?<![\w_])min\(", "celer_min(", "*", note="celeritas::min"),
    Rule(r"celeritas::max\(|(?<![\w_])max\(", "celer_max(", "*", note="celeritas::max"),
    LoopContracts([
        "    __CPROVER_assigns(fi_, result)\n"
        "    __CPROVER_loop_invariant(fi_ <= vol.faces_.size && result >= 0)\n"
        "    __CPROVER_loop_invariant(g_w < fi_ ==> result <= g_vals[g_w])\n"
        "    __CPROVER_decreases(vol.faces_.size - fi_)\n"]),
]


def build_safety(ctx):
    pc = ctx.func(SUT, r"CELER_FUNCTION real_type SimpleUnitTracker::safety\(Real3 const& pos,", SAF_RULES, name="SimpleUnitTracker::safety")
    return (HDR + SAFETY_MODEL + """
real_type TRK_safety(SimpleUnitTracker const* self, Real3 const* pos, size_type volid)
__CPROVER_requires(self != 0 && pos != 0 && self->nvol >= 1 && self->nvol <= 16 && __CPROVER_r_ok(self->vols, self->nvol * sizeof(VolumeView)))
__CPROVER_requires(volid != INVALID_ID && volid < self->nvol)      /* own CELER_EXPECT; a valid local volume */
__CPROVER_requires(self->vols[volid].faces_.size <= 64 && __CPROVER_r_ok(self->vols[volid].faces_.ptr, self->vols[volid].faces_.size * sizeof(size_type)))
__CPROVER_requires(g_w < 64 && (g_w < self->vols[volid].faces_.size ==> self->vols[volid].faces_.ptr[g_w] != INVALID_ID))
__CPROVER_assigns()
/* non-negative, never more than any face's own safety (witness face arbitrary), and exactly 0 for volumes without simple safety */
__CPROVER_ensures(__CPROVER_return_value >= 0)
__CPROVER_ensures((self->vols[volid].simple_safety_ && g_w < self->vols[volid].faces_.size) ==> __CPROVER_return_value <= g_vals[g_w])
__CPROVER_ensures(!self->vols[volid].simple_safety_ ==> __CPROVER_return_value == 0)
{""" + pc.body + """}
void h_saf(void)
{
    size_type nv, nf, vid, w; __CPROVER_assume(nv >= 1 && nv <= 16 && nf <= 64);
    VolumeView* vols = malloc(nv * sizeof(VolumeView)); size_type* faces = malloc(nf * sizeof(size_type)); __CPROVER_assume(vols != 0 && faces != 0);
    SimpleUnitTracker t = {vols, nv}; Real3 pos;
    if (vid < nv) { vols[vid].faces_.ptr = faces; vols[vid].faces_.size = nf; unsigned r; vols[vid].simple_safety_ = (r != 0); }
    for (unsigned i = 0; i < 64; ++i) { __CPROVER_assume(g_vals[i] >= 0); if (i < nf) __CPROVER_assume(faces[i] != INVALID_ID); }
    g_w = w;
    TRK_safety(&t, &pos, vid);
    VERIF_CANARY();
}
""")


UNITS = [
    Unit("c11_flag_table", build_flag_table, "h_flags", timeout=60, must_have=[r"safety.flag.ConeAligned", r"safety.flag.GeneralQuadric"], checks=["--bounds-check"],
         note="simple_safety() of every surface type: cones, simple/general quadrics and involutes must report false"),
    Unit("c11_unit_safety", build_safety, "h_saf", enforce="TRK_safety", replace=["VISIT_calc_safety"], loop_contracts=True, unwind=66, timeout=300, object_bits=10, backend=["sat", "cvc5"],
         must_have=[r"TRK_safety.postcondition", r"loop_invariant_step", r"celer_ensure", r"VISIT_calc_safety.precondition"], checks=["--bounds-check", "--pointer-check"],
         assumptions=["per-surface safety (CalcSafetyDistance) >= 0 and not NaN (sqrt inside; assumed)", "faces of a volume are valid surface ids"],
         note="SimpleUnitTracker::safety: >= 0, <= every face's own safety, == 0 for volumes without the simple-safety flag (any number of faces)"),
]


# ---------------------------------------------------------------------------
# OrangeTrackView::find_safety: minimum over ALL nesting levels
# ---------------------------------------------------------------------------
OTV = "src/orange/OrangeTrackView.hh"
FS_MODEL = """
#include <math.h>
#define NLEV 16
typedef struct { size_type level_; bool on_boundary_; } OrangeTrackView;    /* this->level(), this->is_on_boundary() */
typedef size_type LSA;                                                       /* LevelStateAccessor -> the level it designates */
real_type g_sd[NLEV];      /* ghost: the safety the tracker of each level's universe reports at that level's local position (any non-negative value; SimpleUnitTracker::safety is under contract in c11_unit_safety) */
size_type g_w;             /* ghost witness level */
static LSA OTV_make_lsa(OrangeTrackView const* self, size_type lev) { __CPROVER_assert(lev <= self->level_, "celer_expect: make_lsa(level) level <= current level"); return lev; }
static real_type LEVEL_safety(OrangeTrackView const* self, LSA lsa) { __CPROVER_assert(lsa < NLEV, "level index within the state's depth"); return g_sd[lsa]; }
enum { UT_simple = 0, UT_rect_array = 1 };                                    /* UniverseType */
int g_utype[NLEV];         /* ghost: the type of the universe entered at each level (any) */
static int UNIV_type(OrangeTrackView const* self, LSA lsa) { __CPROVER_assert(lsa < NLEV, "level index within the state's depth"); return g_utype[lsa]; }
static real_type celer_min(real_type a, real_type b) { return fmin(a, b); }   /* celeritas::min<floating> == std::fmin (extracted and checked in c14_msc_*) */
#define SD_OK(i) (g_sd[i] >= 0)
#define ALL_SD_OK (SD_OK(0) && SD_OK(1) && SD_OK(2) && SD_OK(3) && SD_OK(4) && SD_OK(5) && SD_OK(6) && SD_OK(7) && SD_OK(8) && SD_OK(9) && SD_OK(10) && SD_OK(11) && SD_OK(12) && SD_OK(13) && SD_OK(14) && SD_OK(15))
"""
# the "safety of one level through its universe's tracker" idiom, wherever it occurs in the two functions
FS_RULES = [
    Rule(r"CELER_EXPECT\(!this->is_on_boundary\(\)\);", "CELER_EXPECT(!self->on_boundary_);", "*", note="view accessor"),
    Rule(r"TrackerVisitor visit_tracker\{params_\};", "", "*", note="visitor construction dropped (dispatch on the tracker type is stubbed)"),
    Rule(r"numeric_limits<real_type>::infinity\(\)", "__builtin_inf()", "*", note="numeric_limits::infinity"),
    Rule(r"for \(auto lev : range\(LevelId\{([^{}]*)\}\)\)", r"for (size_type lev = 0; lev < (\1); ++lev)", "*", note="range-for over LevelId range -> counting loop"),
    Rule(r"this->level\(\)", "self->level_", "*", note="view accessor"),
    Rule(r"auto lsa = this->make_lsa\(lev\);", "LSA lsa = OTV_make_lsa(self, lev);", "*", note="level accessor"),
    Rule(r"auto lsa = this->make_lsa\(\);", "LSA lsa = OTV_make_lsa(self, self->level_);", "*", note="level accessor of the deepest level"),
    Rule(r"(?:visit_tracker|TrackerVisitor\{params_\})\(\s*\[&lsa\]\(auto&& t\) \{ return t\.safety\(lsa\.pos\(\), lsa\.vol\(\)\); \},\s*lsa\.universe\(\)\)", "LEVEL_safety(self, lsa)", "*",
         note="tracker visitor computing the level's safety -> stub (any non-negative value per level)"),
    Rule(r"params_\.universe_types\[lsa\.universe\(\)\]", "UNIV_type(self, lsa)", "*", note="universe type of the level (ghost table: any type)"),
    Rule(r"UniverseType::(\w+)", r"UT_\1", "*", note="enum class value"),
    Rule(r"auto sd = ", "real_type sd = ", "*", note="auto"),
    Rule(r"celeritas::min\(", "celer_min(", "*", note="celeritas::min"),
    Rule(r"this->find_safety\(\)", "FS_call(self)", "*", note="member call"),
]
FS_LOOP = LoopContracts([
    "    __CPROVER_assigns(lev, min_safety_dist)\n"
    "    __CPROVER_loop_invariant(lev <= self->level_ + 1 && min_safety_dist >= 0)\n"
    "    __CPROVER_loop_invariant(g_w < lev ==> min_safety_dist <= g_sd[g_w])\n"
    "    __CPROVER_decreases(self->level_ + 1 - lev)\n"])
FS_CONTRACT = """
__CPROVER_requires(self != 0 && self->level_ < NLEV && g_w < NLEV && ALL_SD_OK)
__CPROVER_requires(!self->on_boundary_)       /* own CELER_EXPECT */
__CPROVER_assigns()
/* non-negative and not larger than the safety of ANY level from the root down to the current one */
__CPROVER_ensures(__CPROVER_return_value >= 0 && (g_w <= self->level_ ==> __CPROVER_return_value <= g_sd[g_w]))
"""


def build_find_safety(ctx):
    pc = ctx.func(OTV, r"^CELER_FUNCTION real_type OrangeTrackView::find_safety\(\)", FS_RULES + [FS_LOOP], name="OrangeTrackView::find_safety()")
    return (HDR + FS_MODEL + "real_type FS_call(OrangeTrackView const* self)" + FS_CONTRACT + "{" + pc.body + """}
void h_fs(void)
{
    OrangeTrackView v;
    FS_call(&v);
    VERIF_CANARY();
}
""")


def build_find_safety_max(ctx):
    pc = ctx.func(OTV, r"^CELER_FUNCTION real_type OrangeTrackView::find_safety\(real_type", FS_RULES, name="OrangeTrackView::find_safety(real_type)")
    import re
    m = re.search(r"find_safety\(real_type\s*(\w*)\)", pc.head)
    pname = (m.group(1) if m and m.group(1) else "max_safety_unused_")
    return (HDR + FS_MODEL + "real_type FS_call(OrangeTrackView const* self)" + FS_CONTRACT + ";\n"
            + "real_type FS_max(OrangeTrackView const* self, real_type " + pname + ")"
            + FS_CONTRACT.replace("__CPROVER_requires(!self->on_boundary_)", "__CPROVER_requires(!self->on_boundary_ && " + pname + " > 0)")
            + "{" + pc.body + """}
void h_fsm(void)
{
    OrangeTrackView v; real_type m;
    FS_max(&v, m);
    VERIF_CANARY();
}
""")


UNITS += [
    Unit("c11_find_safety", build_find_safety, "h_fs", enforce="FS_call", loop_contracts=True, timeout=300, backend=["sat", "cvc5", "z3"],
         must_have=[r"FS_call.postcondition", r"loop_invariant_step", r"celer_expect"], checks=["--bounds-check", "--pointer-check"],
         assumptions=["each level's tracker reports a non-negative safety (SimpleUnitTracker::safety under contract in c11_unit_safety; RectArrayTracker not)"],
         note="OrangeTrackView::find_safety(): for any nesting depth (loop contract) the result is >= 0 and <= the safety of EVERY level from the root to the current one"),
    Unit("c11_find_safety_max", build_find_safety_max, "h_fsm", enforce="FS_max", replace=["FS_call"], timeout=300, backend=["sat", "cvc5", "z3"],
         must_have=[r"FS_max.postcondition"], checks=["--bounds-check", "--pointer-check"],
         assumptions=["find_safety() by its contract (c11_find_safety)"],
         note="OrangeTrackView::find_safety(max): same guarantee as find_safety() (never larger than any level's safety), whatever use is made of the search radius"),
]


# ---------------------------------------------------------------------------
# CalcSafetyDistance (per-surface safety) and RectArrayTracker::safety
# ---------------------------------------------------------------------------
SFN = "src/orange/univ/detail/SurfaceFunctors.hh"
CSD_MODEL = """
#include <math.h>
typedef struct { real_type v[3]; } Real3;
typedef struct { real_type v[2]; } Intersections;          /* up to two intersections (planes: one; modelled with two slots, the second +inf) */
enum { SENSE_inside = -1, SENSE_on = 0, SENSE_outside = 1 };      /* SignedSense */
enum { SS_off = 0, SS_on = 1 };
typedef struct { Real3 pos; } CalcSafetyDistance;
bool g_softunit;               /* is_soft_unit_vector(normal) (any answer) */
bool g_simple;                 /* S::simple_safety() of the visited surface type (either value; the per-type table is checked in c11_flag_table) */
Real3 g_normal; int g_sense; Intersections g_isect;     /* ghost: what the surface returns (any normal incl. NaN; any sense; distances > 0 or +inf by the QuadraticSolver contracts, C12) */
static Real3 SURF_calc_normal(Real3 const* pos) { return g_normal; }
static int SURF_calc_sense(Real3 const* pos) { return g_sense; }
static Intersections SURF_calc_intersections(Real3 const* pos, Real3 dir, int on) { return g_isect; }
static real_type const* MIN_element2(real_type const* b, real_type const* e) { return (b[1] < b[0]) ? b + 1 : b; }   /* celeritas::min_element over two values (contract: c18_min_element_d) */
"""
CSD_RULES = [
    Rule(r"!S::simple_safety\(\)", "!g_simple", "*", note="surface type's flag -> ghost (table checked in c11_flag_table)"),
    Rule(r"if constexpr", "if", "*", note="if constexpr -> if"),
    Rule(r"numeric_limits<real_type>::infinity\(\)", "__builtin_inf()", "*", note="numeric_limits::infinity"),
    Rule(r"Real3 dir = surf\.calc_normal\(this->pos\);", "Real3 dir = SURF_calc_normal(&self->pos);", "*", note="surface call -> ghost"),
    Rule(r"std::isnan\(dir\[0\]\)", "__CPROVER_isnand(dir.v[0])", "*", note="std::isnan"),
    Rule(r"CELER_ASSERT\(is_soft_unit_vector\(dir\)\);", "/* NOT PROMOTED: CELER_ASSERT(is_soft_unit_vector(dir)) -- normalisation accuracy */", "*", note="in-body assert not promoted (numeric)"),
    Rule(r"is_soft_unit_vector\(dir\)", "g_softunit", "*", note="is_soft_unit_vector(normal): tolerance predicate -> ghost (any answer for a non-NaN normal: stored normals may be unit only to single precision)"),
    Rule(r"auto sense = surf\.calc_sense\(this->pos\);", "int sense = SURF_calc_sense(&self->pos);", "*", note="surface call -> ghost"),
    Rule(r"SignedSense::(\w+)", r"SENSE_\1", "*", note="enum class value (bound)"),
    Rule(r"for \(real_type& d : dir\)\s*\{\s*d \*= -1;\s*\}", "for (int k_ = 0; k_ < 3; ++k_) { dir.v[k_] *= -1; }", "*", note="range-for over the array by reference"),
    Rule(r"auto intersect\s*=\s*surf\.calc_intersections\(this->pos, dir, SurfaceState::off\);", "Intersections intersect = SURF_calc_intersections(&self->pos, dir, SS_off);", "*", note="surface call -> ghost"),
    Rule(r"celeritas::min_element\(intersect\.begin\(\), intersect\.end\(\)\)", "MIN_element2(intersect.v, intersect.v + 2)", "*", note="min_element over the intersections"),
]


def build_calc_safety_distance(ctx):
    pc = ctx.func(SFN, r"CELER_FUNCTION real_type operator\(\)\(S const& surf\)(?=\s*\{\s*if (?:constexpr )?\(!S::simple_safety\(\)\))", CSD_RULES, name="CalcSafetyDistance::operator()<S>")
    return (HDR + CSD_MODEL + """
real_type CSD_call(CalcSafetyDistance const* self)
__CPROVER_requires(self != 0 && g_isect.v[0] > 0 && g_isect.v[1] > 0 && (g_sense == SENSE_inside || g_sense == SENSE_on || g_sense == SENSE_outside))
__CPROVER_assigns()
/* conservative: a surface type whose along-normal distance is NOT the distance to the surface contributes 0; every contribution is non-negative */
__CPROVER_ensures(!g_simple ==> __CPROVER_return_value == 0)
__CPROVER_ensures(__CPROVER_return_value >= 0)
/* a point on the surface has zero safety */
__CPROVER_ensures((g_simple && !__CPROVER_isnand(g_normal.v[0]) && g_sense == SENSE_on) ==> __CPROVER_return_value == 0)
/* off the surface the safety IS the nearest crossing along the normal whenever the normal is a number: "no limit" (+inf) is reserved for the degenerate NaN normal
   (centre of a sphere), it is not returned because a tolerance test on the normal's length fails */
__CPROVER_ensures((g_simple && !__CPROVER_isnand(g_normal.v[0]) && g_sense != SENSE_on) ==> __CPROVER_return_value == (g_isect.v[1] < g_isect.v[0] ? g_isect.v[1] : g_isect.v[0]))
{""" + pc.body + """}
void h_csd(void)
{
    CalcSafetyDistance c; unsigned r, r2; g_simple = (r != 0); g_softunit = (r2 != 0);
    CSD_call(&c);
    VERIF_CANARY();
}
""")


RAT = "src/orange/univ/RectArrayTracker.hh"
RAT_MODEL = """
#include <math.h>
typedef struct { real_type v[3]; } Real3;
typedef struct { size_type v[3]; } Coords;
/* record_.dims, num_volumes(), and -- of the three plane grids -- the two planes per axis that bound the cell of the volume (lo = grid[ax][coords[ax]], hi = grid[ax][coords[ax] + 1]);
   reads of any other grid point return an arbitrary value */
typedef struct { size_type dims[3]; real_type lo[3], hi[3]; size_type nvol; } RectArrayTracker;
Coords g_coords;      /* ghost: VolumeInverseIndexer(dims)(volid): any coordinates with coords[ax] < dims[ax] (index arithmetic: not this unit) */
unsigned g_wax; bool g_wi;   /* ghost witness: axis and lower/upper plane of the cell */
real_type nondet_real(void);
static real_type GRID_at(RectArrayTracker const* self, int ax, size_type i)
{
    __CPROVER_assert(i <= self->dims[ax], "celer_expect: NonuniformGrid::operator[] i < size (size = dims + 1)");
    return i == g_coords.v[ax] ? self->lo[ax] : (i == g_coords.v[ax] + 1 ? self->hi[ax] : nondet_real());
}
static real_type celer_min(real_type a, real_type b) { return fmin(a, b); }
"""
RAT_RULES = [
    Rule(r"CELER_EXPECT\(volid && volid\.get\(\) < this->num_volumes\(\)\);", "CELER_EXPECT(volid != (size_type)-1 && volid < self->nvol);", "*", note="OpaqueId validity"),
    Rule(r"VolumeInverseIndexer to_coords\(record_\.dims\);", "", "*", note="indexer object"),
    Rule(r"auto coords = to_coords\(volid\.unchecked_get\(\)\);", "Coords coords = g_coords;   /* VolumeInverseIndexer(record_.dims)(volid) */", "*", note="inverse indexer -> ghost coordinates"),
    Rule(r"numeric_limits<real_type>::infinity\(\)", "__builtin_inf()", "*", note="numeric_limits::infinity"),
    Rule(r"for \(auto ax : range\(Axis::size_\)\)", "for (int ax = 0; ax < 3; ++ax)", "*", note="range over the three axes (bound)"),
    Rule(r"auto grid = this->make_grid\(ax\);", "", "*", note="grid view of axis ax"),
    Rule(r"for \(auto i : range\(2\)\)", "for (int i = 0; i < 2; ++i)", "*", note="range(2)"),
    Rule(r"auto target_coord = coords\[to_int\(ax\)\] \+ i;", "size_type target_coord = coords.v[ax] + i;", "*", note="auto"),
    Rule(r"coords\[to_int\(ax\)\]", "coords.v[ax]", "*", note="Array::operator[]"),
    Rule(r"real_type target = grid\[target_coord\];", "real_type target = GRID_at(self, ax, target_coord);", "*", note="grid point (bounds asserted)"),
    Rule(r"\bgrid\[([^\[\]]*)\]", r"GRID_at(self, ax, \1)", "*", note="grid point (bounds asserted)"),
    Rule(r"pos\[to_int\(ax\)\]", "pos->v[ax]", "*", note="Array::operator[]"),
    Rule(r"std::fabs\(", "fabs(", "*", note="std::fabs"),
    Rule(r"(?<![\w_])min\(", "celer_min(", "*", note="celeritas::min"),
]


def build_rect_safety(ctx):
    pc = ctx.func(RAT, r"^CELER_FUNCTION real_type RectArrayTracker::safety\(Real3 const& pos,", RAT_RULES, name="RectArrayTracker::safety")
    return (HDR + RAT_MODEL + """
#define GOK(ax) (self->dims[ax] >= 1 && g_coords.v[ax] < self->dims[ax])
#define FINP(x) (!__CPROVER_isnand(x) && !__CPROVER_isinfd(x))
#define ABSD(x) ((x) < 0 ? -(x) : (x))
#define WAX (g_wax < 3 ? g_wax : 0)
real_type RAT_safety(RectArrayTracker const* self, Real3 const* pos, size_type volid)
__CPROVER_requires(self != 0 && pos != 0 && volid != (size_type)-1 && volid < self->nvol && GOK(0) && GOK(1) && GOK(2) && g_wax < 3 && FINP(pos->v[0]) && FINP(pos->v[1]) && FINP(pos->v[2]))
/* the planes of the cell: not NaN; at least one plane of the cell is finite and of ordinary magnitude (the outermost planes may be +-inf) */
__CPROVER_requires(!__CPROVER_isnand(self->lo[0]) && !__CPROVER_isnand(self->hi[0]) && !__CPROVER_isnand(self->lo[1]) && !__CPROVER_isnand(self->hi[1]) && !__CPROVER_isnand(self->lo[2]) && !__CPROVER_isnand(self->hi[2])
                   && ABSD(self->lo[0]) <= 1e300 && ABSD(pos->v[0]) <= 1e300)
__CPROVER_assigns()
/* the reported safety is never negative -- also for a point that floating-point roundoff left on the far side of a cell wall -- and never exceeds the distance to any of the six planes of the cell */
__CPROVER_ensures(__CPROVER_return_value >= 0)
__CPROVER_ensures(__CPROVER_return_value <= __CPROVER_fabs(pos->v[0] - self->lo[0]) && __CPROVER_return_value <= __CPROVER_fabs(pos->v[0] - self->hi[0]))
__CPROVER_ensures(__CPROVER_return_value <= __CPROVER_fabs(pos->v[1] - self->lo[1]) && __CPROVER_return_value <= __CPROVER_fabs(pos->v[1] - self->hi[1]))
__CPROVER_ensures(__CPROVER_return_value <= __CPROVER_fabs(pos->v[2] - self->lo[2]) && __CPROVER_return_value <= __CPROVER_fabs(pos->v[2] - self->hi[2]))
{""" + pc.body + """}
void h_rat(void)
{
    RectArrayTracker t; Real3 p; size_type v;
    RAT_safety(&t, &p, v);
    VERIF_CANARY();
}
""")


UNITS += [
    Unit("c11_calc_safety_distance", build_calc_safety_distance, "h_csd", enforce="CSD_call", timeout=300, unwind=5, backend=["sat", "cvc5"],
         must_have=[r"CSD_call.postcondition"], checks=["--bounds-check", "--pointer-check"],
         assumptions=["intersection distances > 0 or +inf (QuadraticSolver units of C12; plane intersections not under contract)", "NOT PROMOTED: is_soft_unit_vector(dir)", "that the along-normal intersection IS the distance to a simple surface is geometric (not decided)"],
         note="CalcSafetyDistance::operator()<S>: a non-simple surface type contributes exactly 0; every contribution is >= 0; zero on the surface"),
    Unit("c11_rect_array_safety", build_rect_safety, "h_rat", enforce="RAT_safety", timeout=600, unwind=5, object_bits=10, backend=["sat", "kissat", "cvc5"],
         must_have=[r"RAT_safety.postcondition", r"celer_ensure", r"celer_expect"], checks=["--bounds-check", "--pointer-check"],
         assumptions=["VolumeInverseIndexer returns coordinates inside the array (index arithmetic not in this unit)", "only the two planes per axis that bound the cell are modelled"],
         note="RectArrayTracker::safety: >= 0 for EVERY position (also one roundoff left beyond a cell wall) and <= the distance to each of the cell's six planes; all grid reads in range; its CELER_ENSURE holds"),
]
