"""C13: RNG skip-ahead equals sequential generation; streams never overlap."""
from vkit.extract import Rule, LoopContracts
from vkit.runner import Unit

ENG = "src/celeritas/random/XorwowRngEngine.hh"
PAR = "src/celeritas/random/XorwowRngParams.cc"

HDR = '#include "xorwow.h"\n'

# member lowering for XorwowRngEngine bodies
def member_rules(extra=()):
    return [
        Rule(r"\bstate_->", "self->state_->", "*", note="data member -> self->"),
        Rule(r"\bparams_\.num_words\(\)", "VERIF_NUM_WORDS", "*", note="constexpr static accessor (bound in bindings.cc)"),
        Rule(r"\bparams_\.num_bits\(\)", "VERIF_NUM_BITS", "*", note="constexpr static accessor (bound in bindings.cc)"),
        Rule(r"\bparams_\.", "self->params_->", "*", note="data member reference -> self->ptr"),
    ] + list(extra)


NEXT_RULES = member_rules(
    [
        Rule(r"auto& s = self->state_->xorstate;", "uint_t* s = self->state_->xorstate.d;", 1, note="auto& to Array -> pointer to its storage"),
        Rule(r"auto const t =", "uint_t const t =", 1, note="auto -> uint_t (bound)"),
    ]
)


def piece_next(ctx):
    return ctx.func(ENG, r"CELER_FUNCTION void XorwowRngEngine::next\(\)", NEXT_RULES, name="XorwowRngEngine::next")


def build_next(ctx):
    pc = piece_next(ctx)
    return (
        HDR
        + """
void XE_next(XorwowRngEngine* self)
__CPROVER_requires(__CPROVER_is_fresh(self, sizeof(*self)) && __CPROVER_is_fresh(self->state_, sizeof(XorwowState)))
__CPROVER_assigns(self->state_->xorstate)
__CPROVER_ensures(st_eq(self->state_->xorstate, spec_T(__CPROVER_old(self->state_->xorstate))))
{"""
        + pc.body
        + """}
void h_next(void)
{
    XorwowRngEngine* e;
    XE_next(e);
    VERIF_CANARY();
}
"""
    )


def build_additive(ctx):
    # lemma L-add over the spec function: T is additive (xor-linear)
    return (
        HDR
        + """
void h_additive(void)
{
    XorState5 a, b, ab;
    for (int k = 0; k < 5; ++k) ab.d[k] = a.d[k] ^ b.d[k];
    XorState5 ta = spec_T(a), tb = spec_T(b), tab = spec_T(ab);
    for (int k = 0; k < 5; ++k) __CPROVER_assert(tab.d[k] == (ta.d[k] ^ tb.d[k]), "lemma.additive: T(a^b) == T(a)^T(b)");
    /* T is injective on the basis of zero kernel: T(a)==0 => a==0 */
    __CPROVER_assert(!(ta.d[0]==0&&ta.d[1]==0&&ta.d[2]==0&&ta.d[3]==0&&ta.d[4]==0) || (a.d[0]==0&&a.d[1]==0&&a.d[2]==0&&a.d[3]==0&&a.d[4]==0), "lemma.kernel: T(a)==0 ==> a==0 (T invertible)");
    VERIF_CANARY();
}
"""
    )


CALL_RULES = member_rules([Rule(r"this->next\(\);", "XE_next(self);", 1, note="member call")])


def build_call(ctx):
    pc = ctx.func(ENG, r"CELER_FUNCTION auto XorwowRngEngine::operator\(\)\(\) -> result_type", CALL_RULES, name="XorwowRngEngine::operator()")
    return (
        HDR
        + """
void XE_next(XorwowRngEngine* self)
__CPROVER_requires(__CPROVER_is_fresh(self, sizeof(*self)) && __CPROVER_is_fresh(self->state_, sizeof(XorwowState)))
__CPROVER_assigns(self->state_->xorstate)
__CPROVER_ensures(st_eq(self->state_->xorstate, spec_T(__CPROVER_old(self->state_->xorstate))))
;
uint_t XE_call(XorwowRngEngine* self)
__CPROVER_requires(__CPROVER_is_fresh(self, sizeof(*self)) && __CPROVER_is_fresh(self->state_, sizeof(XorwowState)))
__CPROVER_assigns(self->state_->xorstate, self->state_->weylstate)
__CPROVER_ensures(st_eq(self->state_->xorstate, spec_T(__CPROVER_old(self->state_->xorstate))))
__CPROVER_ensures(self->state_->weylstate == (uint_t)(__CPROVER_old(self->state_->weylstate) + 362437u))
__CPROVER_ensures(__CPROVER_return_value == (uint_t)(self->state_->weylstate + self->state_->xorstate.d[4]))
{"""
        + pc.body.replace("self->state_->xorstate[4]", "self->state_->xorstate.d[4]")
        + """}
void h_call(void)
{
    XorwowRngEngine* e;
    XE_call(e);
    VERIF_CANARY();
}
"""
    )


JUMP_POLY_RULES = member_rules(
    [
        Rule(r"Array<uint_t, 5> s = \{0\};", "XorState5 s = {{0, 0, 0, 0, 0}};\n    g_x = self->state_->xorstate; g_acc = s; /* ghost init */", 1, note="Array<uint_t,5> local -> struct; ghost init injected"),
        Rule(r"for \(size_type i : range\(VERIF_NUM_WORDS\)\)",
             "for (size_type i = 0; i < VERIF_NUM_WORDS; ++i)\n"
             "    __CPROVER_assigns(i, s, self->state_->xorstate, g_x, g_acc)\n"
             "    __CPROVER_loop_invariant(i <= VERIF_NUM_WORDS && ST_EQ(self->state_->xorstate, g_x) && ST_EQ(s, g_acc))\n"
             "    __CPROVER_decreases(VERIF_NUM_WORDS - i)\n", 1, note="range-for -> index loop; loop contract 1 injected"),
        Rule(r"for \(size_type j : range\(VERIF_NUM_BITS\)\)",
             "for (size_type j = 0; j < VERIF_NUM_BITS; ++j)\n"
             "    __CPROVER_assigns(j, s, self->state_->xorstate, g_x, g_acc)\n"
             "    __CPROVER_loop_invariant(j <= VERIF_NUM_BITS && ST_EQ(self->state_->xorstate, g_x) && ST_EQ(s, g_acc))\n"
             "    __CPROVER_decreases(VERIF_NUM_BITS - j)\n", 1, note="range-for -> index loop; loop contract 2 injected"),
        Rule(r"for \(size_type k : range\(VERIF_NUM_WORDS\)\)", "for (size_type k = 0; k < VERIF_NUM_WORDS; ++k)", 1, note="range-for -> index loop (constant 5, unwound)"),
        Rule(r"\bjump_poly\[i\]", "jump_poly->d[i]", 1, note="Array const& param -> pointer"),
        Rule(r"\bs\[k\]", "s.d[k]", 1, note="Array subscript"),
        Rule(r"self->state_->xorstate\[k\]", "self->state_->xorstate.d[k]", 1, note="Array subscript"),
        Rule(r"this->next\(\);", "XE_next(self); spec_poly_step(&g_acc, &g_x, jump_poly, i, j); /* ghost lock-step */", 1, note="member call; ghost step injected"),
    ]
)


def piece_jump_poly(ctx):
    return ctx.func(ENG, r"CELER_FUNCTION void XorwowRngEngine::jump\(JumpPoly const& jump_poly\)", JUMP_POLY_RULES, name="XorwowRngEngine::jump(JumpPoly)")


# XE_next's contract (enforced in unit c13_next): assigns(xorstate), xorstate == spec_T(old)
NEXT_CONTRACT_DECL = """
void XE_next(XorwowRngEngine* self)
__CPROVER_requires(self != 0 && self->state_ != 0)
__CPROVER_assigns(self->state_->xorstate)
__CPROVER_ensures(st_eq(self->state_->xorstate, spec_T(__CPROVER_old(self->state_->xorstate))))
;
"""


def build_jump_poly(ctx):
    pc = piece_jump_poly(ctx)
    return (
        HDR
        + NEXT_CONTRACT_DECL
        + """
XorState5 g_x, g_acc; /* ghost: the spec computation run in lock-step */
void XE_jump_poly(XorwowRngEngine* self, JumpPoly const* jump_poly)
__CPROVER_requires(__CPROVER_is_fresh(self, sizeof(*self)) && __CPROVER_is_fresh(self->state_, sizeof(XorwowState)) && __CPROVER_is_fresh(jump_poly, sizeof(JumpPoly)))
__CPROVER_assigns(self->state_->xorstate, g_x, g_acc)
__CPROVER_ensures(st_eq(self->state_->xorstate, g_acc))
{"""
        + pc.body
        + """}
void h_jump_poly(void)
{
    XorwowRngEngine* e;
    JumpPoly const* p;
    XE_jump_poly(e, p);
    VERIF_CANARY();
}
"""
    )


TABLE_RULES_J = [
    Rule(r"static ArrayJumpPoly const jump = \{", "static const ArrayJumpPoly TAB_jump = {", 1, note="table definition -> C aggregate (same initializer text)"),
]
TABLE_RULES_S = [
    Rule(r"static ArrayJumpPoly const jump_subsequence = \{", "static const ArrayJumpPoly TAB_jump_subsequence = {", 1, note="table definition -> C aggregate (same initializer text)"),
]


def tables(ctx):
    j = ctx.span(PAR, r"static ArrayJumpPoly const jump = \{", r"\}\}\};", TABLE_RULES_J, name="XorwowRngParams::get_jump_poly table")
    s = ctx.span(PAR, r"static ArrayJumpPoly const jump_subsequence = \{", r"\}\}\};", TABLE_RULES_S, name="XorwowRngParams::get_jump_subsequence_poly table")
    return j.body + "\n" + s.body + "\n"


ROW_COMMON = """
/* g(T)x as the fold of spec_poly_step (the same step the lock-step ghost of
 * unit c13_jump_poly uses; XE_jump_poly's contract says xorstate' == this) */
static XorState5 poly_apply(XorState5 x, JumpPoly const* p)
{
    XorState5 acc = {{0, 0, 0, 0, 0}};
    for (unsigned w = 0; w < 5; ++w)
        for (unsigned b = 0; b < 32; ++b)
            spec_poly_step(&acc, &x, p, w, b);
    return acc;
}
static XorState5 onehot(void)
{
    unsigned w, b;
    __CPROVER_assume(w < 5 && b < 32);
    XorState5 e = {{0, 0, 0, 0, 0}};
    e.d[w] = 1u << b;
    return e;
}
"""


def build_row(kind, i):
    def build(ctx):
        src = HDR + tables(ctx) + ROW_COMMON
        if kind == "P" and i == 0:
            body = "XorState5 lhs = poly_apply(e, &TAB_jump.d[0]); XorState5 rhs = spec_T(e);"
        elif kind == "P":
            body = "XorState5 lhs = poly_apply(e, &TAB_jump.d[%d]); XorState5 rhs = e; for (int r = 0; r < 4; ++r) rhs = poly_apply(rhs, &TAB_jump.d[%d]);" % (i, i - 1)
        elif kind == "S" and i == 0:
            body = "XorState5 lhs = poly_apply(e, &TAB_jump_subsequence.d[0]); XorState5 rhs = e; for (int r = 0; r < 32; ++r) rhs = poly_apply(rhs, &TAB_jump.d[31]);"
        else:
            body = "XorState5 lhs = poly_apply(e, &TAB_jump_subsequence.d[%d]); XorState5 rhs = e; for (int r = 0; r < 4; ++r) rhs = poly_apply(rhs, &TAB_jump_subsequence.d[%d]);" % (i, i - 1)
        src += "void h_row(void)\n{\n    XorState5 e = onehot();\n    " + body + "\n"
        src += '    __CPROVER_assert(ST_EQ(lhs, rhs), "lemma.row_%s%d: table row equals the required power of T on every basis vector");\n    VERIF_CANARY();\n}\n' % (kind, i)
        return src
    return build


def row_unit(kind, i, tier):
    t = 900 if (kind == "S" and i == 0) else 300
    return Unit("c13_row_%s%02d" % (kind, i), build_row(kind, i), "h_row", unwind=34, timeout=t, tier=tier,
                must_have=[r"lemma.row_%s%d" % (kind, i)], checks=["--no-standard-checks"], replay=REPLAY_SKIP if kind == "P" else REPLAY_SUB,
                assumptions=["symbolic one-hot state (160 basis vectors); extension to all 2^160 states by xor-linearity (lemma c13_additive + paper lemma L-lin)"],
                note="jump table row lemma")


# ---------------------------------------------------------------------------
# jump(count, table): base-4 digit decomposition, ghost exponent
# ---------------------------------------------------------------------------
GHOST_EXP = """
typedef unsigned __int128 u128;
u128 g_exp;                      /* ghost: total power of the table's base step applied so far */
ArrayJumpPoly const* g_table;    /* ghost: the table the polynomials must come from */
#define G_IDX(p) ((size_t)__CPROVER_POINTER_OFFSET(p) / sizeof(JumpPoly))
/* contract of jump(JumpPoly) *as used with a table row*: by unit c13_jump_poly the
 * state becomes g(T)x for g = row idx, and by the row lemmas c13_row_* (+ L-lin)
 * that is T^(base * 4^idx) x; recorded in the ghost exponent. */
void XE_jump_poly(XorwowRngEngine* self, JumpPoly const* jump_poly)
__CPROVER_requires(self != 0 && self->state_ != 0)
__CPROVER_requires(__CPROVER_same_object(jump_poly, g_table) && __CPROVER_POINTER_OFFSET(jump_poly) % sizeof(JumpPoly) == 0 && G_IDX(jump_poly) < 32)
__CPROVER_assigns(self->state_->xorstate, g_exp)
__CPROVER_ensures(g_exp == __CPROVER_old(g_exp) + ((u128)1 << (2 * G_IDX(jump_poly))))
;
"""

JUMP_COUNT_RULES = member_rules(
    [
        Rule(r"\A", "\n    ull_int const g_count0 = count; u128 const g_exp0 = g_exp; g_table = jump_poly_arr; /* ghost: entry values, table in use */", 1, note="ghost entry snapshot injected"),
        LoopContracts([
             "    __CPROVER_assigns(count, jump_idx, self->state_->xorstate, g_exp)\n"
             "    __CPROVER_loop_invariant(jump_idx <= 32 && (jump_idx < 32 ? count == (g_count0 >> (2 * jump_idx)) : count == 0))\n"
             "    __CPROVER_loop_invariant(g_exp == g_exp0 + (jump_idx < 32 ? (g_count0 & ((1ull << (2 * jump_idx)) - 1)) : g_count0))\n"
             "    __CPROVER_decreases(count)\n",
             "    __CPROVER_assigns(i, self->state_->xorstate, g_exp)\n"
             "    __CPROVER_loop_invariant(i <= num_jump && jump_idx < 32)\n"
             "    __CPROVER_loop_invariant(g_exp == g_exp0 + (g_count0 & ((1ull << (2 * jump_idx)) - 1)) + (u128)i * ((u128)1 << (2 * jump_idx)))\n"
             "    __CPROVER_decreases(num_jump - i)\n"]),
        Rule(r"jump_poly_arr\.size\(\)", "32u", 1, note="Array<JumpPoly,32>::size() (bound in bindings.cc)"),
        Rule(r"this->jump\(jump_poly_arr\[([^\[\]]*)\]\);", r"XE_jump_poly(self, &jump_poly_arr->d[\1]);", "*", note="member call with Array element reference"),
    ]
)


JUMP_COUNT_RULES_UNWOUND = [r for r in JUMP_COUNT_RULES if not isinstance(r, LoopContracts)] + [
    Rule(r"for \((\w+) (\w+) : (\w+)\)", r"for (size_t rf_ = 0; rf_ < sizeof(\3) / sizeof(\3[0]); ++rf_) for (\1 \2 = \3[rf_], *once_ = &\2; once_; once_ = 0)", "*",
         note="range-for over a built-in array, by value -> index loop + single-iteration loop declaring the element copy"),
]


def build_jump_count_unwound(ctx):
    """Same function, NO contracts and no loop contracts: a plain harness over ALL 64-bit counts with the loops unwound to the operand width (<= 32 base-4 digits,
    <= 3 jumps per digit).  With unwinding assertions on this is a complete proof, and it does not depend on how the loops are structured."""
    pc = ctx.func(ENG, r"XorwowRngEngine::jump\(ull_int count, ArrayJumpPoly const& jump_poly_arr\)", JUMP_COUNT_RULES_UNWOUND, name="XorwowRngEngine::jump(count, table)")
    return (HDR + """
typedef unsigned __int128 u128;
u128 g_exp;                      /* ghost: total power of the table's base step applied so far */
ArrayJumpPoly const* g_table;
/* jump(JumpPoly) as used with a table row (c13_jump_poly + row lemmas): T^(base * 4^idx); here: record the exponent, check the row comes from the table */
static void XE_jump_poly(XorwowRngEngine* self, JumpPoly const* jump_poly)
{
    __CPROVER_assert(__CPROVER_same_object(jump_poly, g_table) && __CPROVER_POINTER_OFFSET(jump_poly) % sizeof(JumpPoly) == 0 && (size_t)__CPROVER_POINTER_OFFSET(jump_poly) / sizeof(JumpPoly) < 32, "XE_jump_poly.precondition: polynomial is row idx < 32 of the table");
    g_exp += (u128)1 << (2 * ((size_t)__CPROVER_POINTER_OFFSET(jump_poly) / sizeof(JumpPoly)));
}
static void XE_jump_count(XorwowRngEngine* self, ull_int count, ArrayJumpPoly const* jump_poly_arr)
{""" + pc.body + """}
void h_jump_count(void)
{
    XorwowState st; XorwowRngEngine e; e.state_ = &st; ArrayJumpPoly tab; ull_int count;
    g_exp = 0;
    XE_jump_count(&e, count, &tab);
    __CPROVER_assert(g_exp == count, "jump_count.exponent: the polynomials applied amount to exactly `count` base steps");
    VERIF_CANARY();
}
""")


def piece_jump_count(ctx):
    return ctx.func(ENG, r"XorwowRngEngine::jump\(ull_int count, ArrayJumpPoly const& jump_poly_arr\)", JUMP_COUNT_RULES, name="XorwowRngEngine::jump(count, table)")


def build_jump_count(ctx):
    pc = piece_jump_count(ctx)
    return (
        HDR
        + GHOST_EXP
        + """
void XE_jump_count(XorwowRngEngine* self, ull_int count, ArrayJumpPoly const* jump_poly_arr)
__CPROVER_requires(__CPROVER_is_fresh(self, sizeof(*self)) && __CPROVER_is_fresh(self->state_, sizeof(XorwowState)) && __CPROVER_is_fresh(jump_poly_arr, sizeof(ArrayJumpPoly)))
__CPROVER_requires(g_exp <= ((u128)1 << 100))
__CPROVER_assigns(self->state_->xorstate, g_exp, g_table)
__CPROVER_ensures(g_exp == __CPROVER_old(g_exp) + count && g_table == jump_poly_arr)
{"""
        + pc.body
        + """}
void h_jump_count(void)
{
    XorwowRngEngine* e;
    ull_int count;
    ArrayJumpPoly const* tab;
    XE_jump_count(e, count, tab);
    VERIF_CANARY();
}
"""
    )


# ---------------------------------------------------------------------------
# discard / discard_subsequence / operator=(Initializer) / constructor
# ---------------------------------------------------------------------------
JUMP_COUNT_CONTRACT = """
typedef unsigned __int128 u128;
u128 g_exp;                      /* ghost: power of the base step of g_table applied by the last jump(count, table) calls */
ArrayJumpPoly const* g_table;    /* ghost: table used by the last jump(count, table) */
/* contract of jump(count, table), enforced in unit c13_jump_count */
void XE_jump_count(XorwowRngEngine* self, ull_int count, ArrayJumpPoly const* jump_poly_arr)
__CPROVER_requires(self != 0 && self->state_ != 0 && jump_poly_arr != 0)
__CPROVER_requires(g_exp <= ((u128)1 << 100))
__CPROVER_assigns(self->state_->xorstate, g_exp, g_table)
__CPROVER_ensures(g_exp == __CPROVER_old(g_exp) + count && g_table == jump_poly_arr)
;
"""

DISCARD_RULES = member_rules([
    Rule(r"this->jump\(count, self->params_->jump\);", "XE_jump_count(self, count, &self->params_->jump);", 1, note="member call, Array reference -> pointer"),
])
DISCARD_SUB_RULES = member_rules([
    Rule(r"this->jump\(count, self->params_->jump_subsequence\);", "XE_jump_count(self, count, &self->params_->jump_subsequence);", 1, note="member call, Array reference -> pointer"),
])

DISCARD_SIG = """
void XE_discard(XorwowRngEngine* self, ull_int count)
__CPROVER_requires(%s)
__CPROVER_requires(g_exp <= ((u128)1 << 90))
__CPROVER_assigns(self->state_->xorstate, self->state_->weylstate, g_exp, g_table)
/* xor part: T^count (ghost exponent in units of the single-step table) */
__CPROVER_ensures(g_exp == __CPROVER_old(g_exp) + count && g_table == &self->params_->jump)
/* Weyl part: equals `count` repetitions of  d += 362437 (mod 2^32) */
__CPROVER_ensures(self->state_->weylstate == (uint_t)(((u128)__CPROVER_old(self->state_->weylstate) + (u128)count * 362437u) & 0xffffffffu))
"""
DISCARD_SUB_SIG = """
void XE_discard_subsequence(XorwowRngEngine* self, ull_int count)
__CPROVER_requires(%s)
__CPROVER_requires(g_exp <= ((u128)1 << 90))
__CPROVER_assigns(self->state_->xorstate, g_exp, g_table)
/* T^(count * 2^67): ghost exponent in units of the subsequence table; Weyl value untouched (frame) */
__CPROVER_ensures(g_exp == __CPROVER_old(g_exp) + count && g_table == &self->params_->jump_subsequence)
"""
FRESH_ENGINE = "__CPROVER_is_fresh(self, sizeof(*self)) && __CPROVER_is_fresh(self->state_, sizeof(XorwowState)) && __CPROVER_is_fresh(self->params_, sizeof(XorwowRngParamsData))"
VALID_ENGINE = "self != 0 && self->state_ != 0 && self->params_ != 0"


def build_discard(ctx):
    pc = ctx.func(ENG, r"CELER_FUNCTION void XorwowRngEngine::discard\(ull_int count\)", DISCARD_RULES, name="XorwowRngEngine::discard")
    return (HDR + JUMP_COUNT_CONTRACT + DISCARD_SIG % FRESH_ENGINE + "{" + pc.body + """}
void h_discard(void)
{
    XorwowRngEngine* e; ull_int count;
    XE_discard(e, count);
    VERIF_CANARY();
}
""")


def build_discard_sub(ctx):
    pc = ctx.func(ENG, r"CELER_FUNCTION void XorwowRngEngine::discard_subsequence\(ull_int count\)", DISCARD_SUB_RULES, name="XorwowRngEngine::discard_subsequence")
    return (HDR + JUMP_COUNT_CONTRACT + DISCARD_SUB_SIG % FRESH_ENGINE + "{" + pc.body + """}
void h_discard_sub(void)
{
    XorwowRngEngine* e; ull_int count;
    XE_discard_subsequence(e, count);
    VERIF_CANARY();
}
""")


SPLITMIX_SPEC = """
/* SplitMix64 reference (Steele, Lea, Flood 2014; prng.di.unimi.it/splitmix64.c) */
static inline uint64_t spec_splitmix_out(uint64_t s)   /* output for state value s (already incremented) */
{
    uint64_t z = s;
    z = (z ^ (z >> 30)) * 0xbf58476d1ce4e5b9ull;
    z = (z ^ (z >> 27)) * 0x94d049bb133111ebull;
    return z ^ (z >> 31);
}
#define SM_GAMMA 0x9e3779b97f4a7c15ull
typedef struct { uint64_t state; } SplitMix64;
"""

SPLITMIX_RULES = [
    Rule(r"\(state \+=", "(self->state +=", 1, note="data member -> self->"),
]


def build_splitmix(ctx):
    pc = ctx.func(ENG, r"CELER_FUNCTION std::uint64_t XorwowRngEngine::SplitMix64::operator\(\)\(\)", SPLITMIX_RULES, name="XorwowRngEngine::SplitMix64::operator()")
    return (HDR + SPLITMIX_SPEC + """
uint64_t SM_call(SplitMix64* self)
__CPROVER_requires(__CPROVER_is_fresh(self, sizeof(*self)))
__CPROVER_assigns(self->state)
__CPROVER_ensures(self->state == __CPROVER_old(self->state) + SM_GAMMA)
__CPROVER_ensures(__CPROVER_return_value == spec_splitmix_out(self->state))
{""" + pc.body + """}
void h_splitmix(void)
{
    SplitMix64* r;
    SM_call(r);
    VERIF_CANARY();
}
""")


INIT_RULES = member_rules([
    Rule(r"auto& s = self->state_->xorstate;", "uint_t* s = self->state_->xorstate.d;", 1, note="auto& to Array -> pointer to its storage"),
    Rule(r"SplitMix64 rng\{init\.seed\[0\]\};", "SplitMix64 rng = {init->seed.d[0]};", 1, note="aggregate init; const& param -> pointer"),
    Rule(r"\brng\(\)", "(g_ret[g_n] = SM_call(&rng), g_st[g_n] = rng.state, g_ret[g_n++])", (1, 7), note="functor call -> function call; ghost record of each SplitMix64 output and state"),
    Rule(r"this->discard_subsequence\(init\.subsequence\);",
         "g_seeded = *self->state_; g_order = 1; { u128 g_e = g_exp; XE_discard_subsequence(self, init->subsequence);"
         " __CPROVER_assert(g_order == 1 && g_table == &self->params_->jump_subsequence && g_exp - g_e == init->subsequence, \"ghost.subsequence: state advanced by exactly init.subsequence subsequences, right after seeding\"); g_order = 2; }", 1,
         note="member call; ghost snapshot + ghost assertion injected"),
    Rule(r"this->discard\(init\.offset\);",
         "{ u128 g_e = g_exp; XE_discard(self, init->offset);"
         " __CPROVER_assert(g_order == 2 && g_table == &self->params_->jump && g_exp - g_e == init->offset, \"ghost.offset: then advanced by exactly init.offset draws\"); g_order = 3; }", 1,
         note="member call; ghost assertion injected"),
    Rule(r"return \*this;", "return self;", 1, note="*this -> self"),
])


def build_init(ctx):
    pc = ctx.func(ENG, r"XorwowRngEngine::operator=\(Initializer_t const& init\)", INIT_RULES, name="XorwowRngEngine::operator=(Initializer)")
    return (HDR + JUMP_COUNT_CONTRACT.split("/* contract of jump")[0] + SPLITMIX_SPEC + """
XorwowState g_seeded; int g_order; /* ghost: state right after seeding; call order */
uint64_t g_ret[8], g_st[8]; unsigned g_n; /* ghost: k-th SplitMix64 output and generator state */
uint64_t SM_call(SplitMix64* self)
__CPROVER_requires(self != 0)
__CPROVER_assigns(self->state)
__CPROVER_ensures(self->state == __CPROVER_old(self->state) + SM_GAMMA)
__CPROVER_ensures(__CPROVER_return_value == spec_splitmix_out(self->state))
;
""" + (DISCARD_SIG % VALID_ENGINE) + ";\n" + (DISCARD_SUB_SIG % VALID_ENGINE) + ";\n" + """
XorwowRngEngine* XE_assign_init(XorwowRngEngine* self, XorwowRngInitializer const* init)
__CPROVER_requires(""" + FRESH_ENGINE + """ && __CPROVER_is_fresh(init, sizeof(*init)))
__CPROVER_requires(g_exp == 0 && g_n == 0)
__CPROVER_assigns(self->state_->xorstate, self->state_->weylstate, g_exp, g_table, g_seeded, g_order, g_n, __CPROVER_object_whole(g_ret), __CPROVER_object_whole(g_st))
/* seeding depends on seed[0] only: the six words are the 32-bit halves of the first three outputs
 * (g_ret[k], each == spec_splitmix_out(g_st[k]) by SM_call's contract) of a SplitMix64 seeded with seed[0] */
__CPROVER_ensures(g_n == 3 && g_st[0] == (uint64_t)init->seed.d[0] + SM_GAMMA && g_st[1] == (uint64_t)init->seed.d[0] + 2 * SM_GAMMA && g_st[2] == (uint64_t)init->seed.d[0] + 3 * SM_GAMMA)
__CPROVER_ensures(g_seeded.xorstate.d[0] == (uint_t)g_ret[0] && g_seeded.xorstate.d[1] == (uint_t)(g_ret[0] >> 32))
__CPROVER_ensures(g_seeded.xorstate.d[2] == (uint_t)g_ret[1] && g_seeded.xorstate.d[3] == (uint_t)(g_ret[1] >> 32))
__CPROVER_ensures(g_seeded.xorstate.d[4] == (uint_t)g_ret[2] && g_seeded.weylstate == (uint_t)(g_ret[2] >> 32))
/* then subsequence, then offset, each exactly once (ghost assertions in the body), in that order */
__CPROVER_ensures(g_order == 3 && g_exp == (u128)init->subsequence + init->offset)
__CPROVER_ensures(__CPROVER_return_value == self)
{""" + pc.body + """}
void h_init(void)
{
    XorwowRngEngine* e; XorwowRngInitializer const* init;
    XE_assign_init(e, init);
    VERIF_CANARY();
}
""")


# ---------------------------------------------------------------------------
# constructor, reseed_rng, canonical reals
# ---------------------------------------------------------------------------
STATE_REF = """
typedef struct { XorwowState* ptr; size_type size; } StateItems;   /* StateCollection<XorwowState, reference, native>: {pointer,size} view; operator[] asserts i < size */
typedef struct { StateItems state; } XorwowRngStateRef;             /* NativeRef<XorwowRngStateData> */
"""
CTOR_RULES = [
    Rule(r"\bstate\.state\.size\(\)", "state->state.size", 1, note="Collection::size()"),
    Rule(r"state_ = &state\.state\[tid\];", "__CPROVER_assert(tid < state->state.size, \"celer_expect: Collection::operator[] i < size\"); self->state_ = &state->state.ptr[tid];", 1, note="Collection::operator[] -> bounds assertion + pointer index; member -> self->"),
]


def piece_ctor(ctx):
    pc = ctx.func(ENG, r"XorwowRngEngine::XorwowRngEngine\(ParamsRef const& params,\s*StateRef const& state,\s*TrackSlotId tid\)", CTOR_RULES, name="XorwowRngEngine::XorwowRngEngine")
    import re as _re
    from vkit.extract import ExtractionDrift
    if not _re.search(r":\s*params_\(params\)\s*$", pc.head):
        raise ExtractionDrift("constructor initializer list is not ': params_(params)': " + pc.head[-60:])
    return pc


CTOR_SIG = """
void XE_ctor(XorwowRngEngine* self, XorwowRngParamsData const* params, XorwowRngStateRef const* state, size_type tid)
__CPROVER_requires(%s)
__CPROVER_requires(tid < state->state.size)
__CPROVER_assigns(self->params_, self->state_)
__CPROVER_ensures(self->params_ == params && self->state_ == &state->state.ptr[tid])
"""


def build_ctor(ctx):
    pc = piece_ctor(ctx)
    return (HDR + STATE_REF + CTOR_SIG % "__CPROVER_is_fresh(self, sizeof(*self)) && __CPROVER_is_fresh(state, sizeof(*state)) && state->state.size <= 4096 && __CPROVER_is_fresh(state->state.ptr, sizeof(XorwowState) * state->state.size)"
            + "{\n    self->params_ = params; /* member initializer list ': params_(params)' (checked on the extracted header) */" + pc.body + """}
void h_ctor(void)
{
    XorwowRngEngine* e; XorwowRngParamsData const* p; XorwowRngStateRef const* st; size_type tid;
    XE_ctor(e, p, st, tid);
    VERIF_CANARY();
}
""")


RESEED = "src/celeritas/random/RngReseed.cc"
RESEED_RULES = [
    Rule(r"static_assert\([^;]*;", "", 1, note="static_assert dropped (re-asserted in bindings.cc)"),
    Rule(r"CELER_EXPECT\(event_id\);", "CELER_EXPECT(event_id != (ull_int)-1);", 1, note="OpaqueId::operator bool -> != invalid"),
    Rule(r"state\.size\(\)", "state->state.size", 1, note="XorwowRngStateData::size() == state.size()"),
    Rule(r"#\s*if CELERITAS_OPENMP == CELERITAS_OPENMP_TRACK\s*#\s*pragma omp parallel for\s*#\s*endif", "", 1, note="OpenMP pragma dropped: iterations are treated sequentially (CELERITAS_OPENMP is 'event' in this build, so the pragma is compiled out)"),
    Rule(r"TrackSlotId::size_type i", "size_type i", 1, note="OpaqueId size_type"),
    Rule(r"RngEngine::Initializer_t init;", "XorwowRngInitializer init = {{{0}}, 0, 0}; /* default member initializers, bound in bindings.cc */", 1, note="default-initialised aggregate"),
    Rule(r"init\.seed = params\.seed;", "init.seed = params->seed;", 1, note="const& -> pointer"),
    Rule(r"event_id\.unchecked_get\(\)", "event_id", 1, note="OpaqueId value"),
    Rule(r"RngEngine engine\(params, state, TrackSlotId\{i\}\);", "XorwowRngEngine engine; XE_ctor(&engine, params, state, i);", 1, note="constructor call"),
    Rule(r"engine = init;", "XE_assign_init(&engine, &init);", 1, note="operator=(Initializer)"),
    LoopContracts([
        "    __CPROVER_assigns(i, g_cnt, g_sub, g_off, g_seed, __CPROVER_object_whole(state->state.ptr))\n"
        "    __CPROVER_loop_invariant(i <= size && size == state->state.size)\n"
        "    __CPROVER_loop_invariant(g_cnt == ((ull_int)g_w < i ? 1 : 0))\n"
        "    __CPROVER_loop_invariant((ull_int)g_w < i ==> (g_sub == event_id * size + g_w && g_off == 0 && g_seed == params->seed.d[0]))\n"
        "    __CPROVER_decreases(size - i)\n"]),
]


def build_reseed(ctx):
    pc = ctx.func(RESEED, r"void reseed_rng\(HostCRef<RngParamsData> const& params,", RESEED_RULES, name="reseed_rng (host)")
    return (HDR + STATE_REF + """
size_type g_w;            /* ghost witness slot (arbitrary): what happened to slot g_w */
unsigned g_cnt; ull_int g_sub, g_off; unsigned g_seed;   /* ghost: number of initialisations of slot g_w and their arguments */
#define G_SLOT(e, st) ((size_type)((e)->state_ - (st)->state.ptr))
XorwowRngStateRef const* g_state;
""" + (CTOR_SIG % "self != 0 && state != 0") + ";\n" + """
/* contract of operator=(Initializer) (unit c13_init) seen from the caller: the slot's state becomes
 * a function of (seed[0], subsequence, offset); recorded for the witness slot */
XorwowRngEngine* XE_assign_init(XorwowRngEngine* self, XorwowRngInitializer const* init)
__CPROVER_requires(self != 0 && init != 0 && self->state_ != 0 && __CPROVER_same_object(self->state_, g_state->state.ptr))
__CPROVER_assigns(*self->state_, g_cnt, g_sub, g_off, g_seed)
__CPROVER_ensures(G_SLOT(self, g_state) == g_w ? (g_cnt == __CPROVER_old(g_cnt) + 1 && g_sub == init->subsequence && g_off == init->offset && g_seed == init->seed.d[0])
                                               : (g_cnt == __CPROVER_old(g_cnt) && g_sub == __CPROVER_old(g_sub) && g_off == __CPROVER_old(g_off) && g_seed == __CPROVER_old(g_seed)))
;
void reseed_rng(XorwowRngParamsData const* params, XorwowRngStateRef const* state, ull_int event_id)
__CPROVER_requires(__CPROVER_is_fresh(params, sizeof(*params)) && __CPROVER_is_fresh(state, sizeof(*state)) && state->state.size >= 1 && state->state.size <= 4096 && __CPROVER_is_fresh(state->state.ptr, sizeof(XorwowState) * state->state.size))
__CPROVER_requires(event_id != (ull_int)-1)
__CPROVER_requires(g_state == state && g_w < state->state.size && g_cnt == 0)
__CPROVER_assigns(__CPROVER_object_whole(state->state.ptr), g_cnt, g_sub, g_off, g_seed)
/* every slot (witness g_w arbitrary) is initialised exactly once with (params.seed, event*slots + slot, 0) */
__CPROVER_ensures(g_cnt == 1 && g_seed == params->seed.d[0] && g_off == 0)
/* (64-bit arithmetic as in the code; that the map (event, slot) -> event*slots+slot is injective when it does not wrap is elementary and listed as a paper lemma) */
__CPROVER_ensures(g_sub == event_id * state->state.size + g_w)
{""" + pc.body + """}
void h_reseed(void)
{
    XorwowRngParamsData const* p; XorwowRngStateRef const* st; ull_int ev;
    reseed_rng(p, st, ev);
    VERIF_CANARY();
}
""")


CANON = "src/celeritas/random/detail/GenerateCanonical32.hh"
CANON_RULES = [
    Rule(r"static_assert\([^;]*;", "", "+", note="static_assert dropped (re-asserted in bindings.cc)"),
    Rule(r"\brng\(\)", "rng_call(rng)", "+", note="generator call -> stub with ghost draw counter"),
]
RNG_STUB = """
unsigned g_draws;          /* ghost: number of 32-bit draws consumed */
unsigned g_u[4];           /* ghost: the values drawn */
typedef struct Gen Gen;
unsigned int rng_call(Gen* rng)
__CPROVER_requires(g_draws < 4)
__CPROVER_assigns(g_draws)
__CPROVER_ensures(g_draws == __CPROVER_old(g_draws) + 1 && __CPROVER_return_value == g_u[__CPROVER_old(g_draws)])
;
"""


def build_canon_double(ctx):
    pc = ctx.func(CANON, r"CELER_FUNCTION double GenerateCanonical32<double>::operator\(\)\(Generator& rng\)", CANON_RULES, name="GenerateCanonical32<double>::operator()")
    return (HDR + RNG_STUB + """
double canon_double(Gen* rng)
__CPROVER_requires(g_draws == 0)
__CPROVER_assigns(g_draws)
__CPROVER_ensures(__CPROVER_return_value >= 0.0 && __CPROVER_return_value < 1.0)
__CPROVER_ensures(g_draws == 2)
/* exactly ((u0 << 21) ^ u1) * 2^-53, a 53-bit integer scaled: no rounding */
__CPROVER_ensures(__CPROVER_return_value * 9007199254740992.0 == (double)((((ull_int)g_u[0]) << 21) ^ (ull_int)g_u[1]))
{""" + pc.body + """}
void h_canon_double(void)
{
    Gen* g; unsigned u0, u1; g_u[0] = u0; g_u[1] = u1;
    canon_double(g);
    VERIF_CANARY();
}
""")


def build_canon_float(ctx):
    pc = ctx.func(CANON, r"CELER_FUNCTION float GenerateCanonical32<float>::operator\(\)\(Generator& rng\)", CANON_RULES, name="GenerateCanonical32<float>::operator()")
    return (HDR + RNG_STUB + """
float canon_float(Gen* rng)
__CPROVER_requires(g_draws == 0)
__CPROVER_assigns(g_draws)
__CPROVER_ensures(__CPROVER_return_value >= 0.0f && __CPROVER_return_value < 1.0f)
__CPROVER_ensures(g_draws == 1)
{""" + pc.body + """}
void h_canon_float(void)
{
    Gen* g; unsigned u0; g_u[0] = u0;
    canon_float(g);
    VERIF_CANARY();
}
""")


def _skip_argv(mode):
    def f(inputs, fl):
        runs = []
        if "count" in inputs:
            c = inputs["count"].rstrip("ul")
            runs.append([mode, "0x12345678", "0x9abcdef0", "0xdeadbeef", "0x0badcafe", "0x31415926", "99", c])
            runs.append([mode, "1", "0", "0", "0", "0", "0", c])
        runs.append(["battery"])
        return runs
    return f


REPLAY_SKIP = {"src": "replay/c13.cc", "argv": _skip_argv("discard")}
REPLAY_SUB = {"src": "replay/c13.cc", "argv": _skip_argv("subseq")}
REPLAY_CF = {"src": "replay/c13.cc", "argv": lambda inputs, fl: ["canon_float", inputs.get("u0", "0xffffffff").rstrip("u")]}
REPLAY_CD = {"src": "replay/c13.cc", "argv": lambda inputs, fl: ["canon_double", inputs.get("u0", "0").rstrip("u"), inputs.get("u1", "0").rstrip("u")]}

UNITS = [
    Unit("c13_next", build_next, "h_next", enforce="XE_next", timeout=120, must_have=[r"postcondition"],
         checks=["--bounds-check", "--pointer-check", "--conversion-check"],
         replay=REPLAY_SKIP, note="next() == Marsaglia xorwow step T; frame: xorstate only"),
    Unit("c13_additive", build_additive, "h_additive", unwind=6, timeout=120, must_have=[r"lemma.additive", r"lemma.kernel"],
         checks=["--bounds-check"], note="spec T is xor-linear and has trivial kernel"),
    Unit("c13_call", build_call, "h_call", enforce="XE_call", replace=["XE_next"], timeout=120, must_have=[r"postcondition"],
         checks=["--bounds-check", "--pointer-check", "--conversion-check"],
         replay=REPLAY_SKIP, note="operator(): one T step, weyl += 362437, return weyl + v"),
    Unit("c13_jump_poly", build_jump_poly, "h_jump_poly", enforce="XE_jump_poly", replace=["XE_next"], loop_contracts=True, pre_unwindset=["XE_jump_poly.0:6"], timeout=300, object_bits=12,
         must_have=[r"XE_jump_poly.postcondition", r"loop_invariant_step", r"loop_invariant_base", r"loop_decreases", r"XE_jump_poly.unwind"],
         checks=["--bounds-check", "--pointer-check", "--no-signed-overflow-check"],
         assumptions=["signed-overflow/undefined-shift checks off for this unit: `1 << j` with j==31 is well defined in C++14 and later (the code's language) but not in C"],
         replay=REPLAY_SKIP, note="jump(poly) == g(T)x; loops are constant-bounded (5x32x5): full unwinding + unwinding assertions is complete, not a bounded stand-in"),
    Unit("c13_jump_count", build_jump_count, "h_jump_count", enforce="XE_jump_count", replace=["XE_jump_poly"], loop_contracts=True, timeout=300,
         must_have=[r"XE_jump_count.postcondition", r"loop_invariant_step", r"loop_decreases", r"celer_assert", r"XE_jump_poly.precondition"],
         checks=["--bounds-check", "--pointer-check"],
         replay=REPLAY_SKIP, note="jump(count, table): sum of base-4 digits times 4^idx equals count (ghost exponent), every polynomial comes from the table at idx < 32; unbounded loop-contract proof"),
    Unit("c13_jump_count_unwound", build_jump_count_unwound, "h_jump_count", unwind=34, timeout=1800, backend=["sat", "kissat"],
         must_have=[r"jump_count.exponent", r"unwinding assertion", r"celer_assert", r"XE_jump_poly.precondition"], checks=["--bounds-check", "--pointer-check"],
         replay=REPLAY_SKIP, note="jump(count, table), structure-independent variant: all loops unwound to the operand width (complete; unwinding assertions on), same contract as c13_jump_count"),
    Unit("c13_discard", build_discard, "h_discard", enforce="XE_discard", replace=["XE_jump_count"], timeout=300, backend="z3",
         must_have=[r"XE_discard.postcondition", r"XE_jump_count.precondition"], checks=["--bounds-check", "--pointer-check"],
         replay=REPLAY_SKIP, note="discard(count): xor part advanced by count single steps (contract of jump(count,table) with the step table), Weyl value advanced by count*362437 mod 2^32 for every 64-bit count"),
    Unit("c13_discard_sub", build_discard_sub, "h_discard_sub", enforce="XE_discard_subsequence", replace=["XE_jump_count"], timeout=300,
         must_have=[r"XE_discard_subsequence.postcondition"], checks=["--bounds-check", "--pointer-check"],
         replay=REPLAY_SUB, note="discard_subsequence(count): jump(count, subsequence table); Weyl value and everything else unchanged"),
    Unit("c13_splitmix", build_splitmix, "h_splitmix", enforce="SM_call", timeout=300, backend="z3",
         must_have=[r"SM_call.postcondition"], checks=["--bounds-check", "--pointer-check"],
         note="SplitMix64 step equals the reference"),
    Unit("c13_init", build_init, "h_init", enforce="XE_assign_init", replace=["SM_call", "XE_discard", "XE_discard_subsequence"], timeout=300,
         must_have=[r"XE_assign_init.postcondition", r"ghost.subsequence", r"ghost.offset"], checks=["--bounds-check", "--pointer-check"],
         replay=REPLAY_SKIP, note="operator=(Initializer): state is a function of (seed[0], subsequence, offset) only: seed -> subsequence -> offset"),
    Unit("c13_ctor", build_ctor, "h_ctor", enforce="XE_ctor", timeout=120, must_have=[r"XE_ctor.postcondition", r"celer_expect"], checks=["--bounds-check", "--pointer-check"],
         note="engine constructor binds slot tid of the state collection"),
    Unit("c13_reseed", build_reseed, "h_reseed", enforce="reseed_rng", replace=["XE_ctor", "XE_assign_init"], loop_contracts=True, timeout=300, backend=["z3", "cvc5", "kissat"],
         must_have=[r"reseed_rng.postcondition", r"loop_invariant_step", r"XE_ctor.precondition"],
         checks=["--bounds-check", "--pointer-check"],
         assumptions=["event_id * slots + slot does not wrap 64 bits (not excluded by the code; injectivity of the stream index under that condition is a paper lemma)", "OpenMP-parallel iterations treated sequentially"],
         note="reseed_rng: every slot initialised exactly once with subsequence event*slots+slot, same seed, offset 0 (ghost witness slot)"),
    Unit("c13_canon_double", build_canon_double, "h_canon_double", enforce="canon_double", replace=["rng_call"], timeout=300,
         must_have=[r"canon_double.postcondition"], replay=REPLAY_CD, checks=["--bounds-check", "--pointer-check", "--float-overflow-check", "--nan-check"],
         note="GenerateCanonical32<double>: in [0,1), two draws, exact 53-bit value"),
    Unit("c13_canon_float", build_canon_float, "h_canon_float", enforce="canon_float", replace=["rng_call"], timeout=300,
         must_have=[r"canon_float.postcondition"], replay=REPLAY_CF, checks=["--bounds-check", "--pointer-check"],
         note="GenerateCanonical32<float>: in [0,1), one draw"),
] + [row_unit("P", i, "quick") for i in range(32)] + [row_unit("S", i, "quick") for i in range(32)]


# ---------------------------------------------------------------------------
# GenerateCanonical<XorwowRngEngine, RealType> (the specialisation every sampler goes through)
# ---------------------------------------------------------------------------
def build_canon_spec(T):
    def build(ctx):
        pc = ctx.func("src/celeritas/random/XorwowRngEngine.hh", r"CELER_FORCEINLINE_FUNCTION result_type operator\(\)\(XorwowRngEngine& rng\)", [
            Rule(r"GenerateCanonical32<RealType>\(\)\(rng\)", "GC32_%s(rng)" % T, "*", note="detail::GenerateCanonical32<RealType> with RealType bound -> contract (c13_canon_%s)" % T),
            Rule(r"GenerateCanonical32<(float|double)>\(\)\(rng\)", r"GC32_\1(rng)", "*", note="detail::GenerateCanonical32<T> -> contract (c13_canon_float / c13_canon_double)"),
        ], name="GenerateCanonical<XorwowRngEngine, %s>::operator()" % T)
        one = "1.0f" if T == "float" else "1.0"
        return ('#include "celer.h"\n' + """
typedef %s RealType; typedef RealType result_type; typedef struct XorwowRngEngine XorwowRngEngine;
unsigned g_draws;
/* detail::GenerateCanonical32<float/double>: values in [0, 1), one / two engine draws (contracts enforced in c13_canon_float / c13_canon_double) */
float GC32_float(XorwowRngEngine* rng) __CPROVER_assigns(g_draws) __CPROVER_ensures(__CPROVER_return_value >= 0.0f && __CPROVER_return_value < 1.0f && g_draws == __CPROVER_old(g_draws) + 1);
double GC32_double(XorwowRngEngine* rng) __CPROVER_assigns(g_draws) __CPROVER_ensures(__CPROVER_return_value >= 0.0 && __CPROVER_return_value < 1.0 && g_draws == __CPROVER_old(g_draws) + 2);
result_type GCX_call(XorwowRngEngine* rng)
__CPROVER_requires(g_draws == 0)
__CPROVER_assigns(g_draws)
/* canonical reals of the requested precision lie in [0, 1): never exactly 1 */
__CPROVER_ensures(__CPROVER_return_value >= 0 && __CPROVER_return_value < %s)
{""" % (T, one) + pc.body + """}
void h_gcx(void)
{
    XorwowRngEngine* e;
    GCX_call(e);
    VERIF_CANARY();
}
""")
    return build


UNITS += [
    Unit("c13_canon_spec_%s" % T, build_canon_spec(T), "h_gcx", enforce="GCX_call", replace=["GC32_float", "GC32_double"], timeout=120, backend=["sat", "cvc5"],
         must_have=[r"GCX_call.postcondition"], assumptions=["detail::GenerateCanonical32<T> by its contract (c13_canon_%s)" % T],
         note="GenerateCanonical<XorwowRngEngine, %s>::operator(): the value handed to every sampler lies in [0, 1)" % T)
    for T in ("float", "double")
]
