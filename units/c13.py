"""C13: RNG skip-ahead equals sequential generation; streams never overlap."""
from vkit.extract import Rule
from vkit.runner import Unit

ENG = "src/celeritas/random/XorwowRngEngine.hh"
PAR = "src/celeritas/random/XorwowRngParams.cc"

HDR = '#include "xorwow.h"\n'

# member lowering for XorwowRngEngine bodies
def member_rules(extra=()):
    return [
        Rule(r"\bstate_->", "self->state_->", "*", note="data member -> self->"),
        Rule(r"\bparams_\.num_words\(\)", "VERIF_NUM_WORDS", "*", note="constexpr static accessor (bound in bindings.cc)"),
        Rule(r"\bparams_\.num_bits\(\)", "VERIF_NUM_BITS", "*", note="constexpr static accessor (bound in bindings.cc)"),
        Rule(r"\bparams_\.", "self->params_->", "*", note="data member reference -> self->ptr"),
    ] + list(extra)


NEXT_RULES = member_rules(
    [
        Rule(r"auto& s = self->state_->xorstate;", "uint_t* s = self->state_->xorstate.d;", 1, note="auto& to Array -> pointer to its storage"),
        Rule(r"auto const t =", "uint_t const t =", 1, note="auto -> uint_t (bound)"),
    ]
)


def piece_next(ctx):
    return ctx.func(ENG, r"CELER_FUNCTION void XorwowRngEngine::next\(\)", NEXT_RULES, name="XorwowRngEngine::next")


def build_next(ctx):
    pc = piece_next(ctx)
    return (
        HDR
        + """
void XE_next(XorwowRngEngine* self)
__CPROVER_requires(__CPROVER_is_fresh(self, sizeof(*self)) && __CPROVER_is_fresh(self->state_, sizeof(XorwowState)))
__CPROVER_assigns(self->state_->xorstate)
__CPROVER_ensures(st_eq(self->state_->xorstate, spec_T(__CPROVER_old(self->state_->xorstate))))
{"""
        + pc.body
        + """}
void h_next(void)
{
    XorwowRngEngine* e;
    XE_next(e);
    VERIF_CANARY();
}
"""
    )


def build_additive(ctx):
    # lemma L-add over the spec function: T is additive (xor-linear)
    return (
        HDR
        + """
void h_additive(void)
{
    XorState5 a, b, ab;
    for (int k = 0; k < 5; ++k) ab.d[k] = a.d[k] ^ b.d[k];
    XorState5 ta = spec_T(a), tb = spec_T(b), tab = spec_T(ab);
    for (int k = 0; k < 5; ++k) __CPROVER_assert(tab.d[k] == (ta.d[k] ^ tb.d[k]), "lemma.additive: T(a^b) == T(a)^T(b)");
    /* T is injective on the basis of zero kernel: T(a)==0 => a==0 */
    __CPROVER_assert(!(ta.d[0]==0&&ta.d[1]==0&&ta.d[2]==0&&ta.d[3]==0&&ta.d[4]==0) || (a.d[0]==0&&a.d[1]==0&&a.d[2]==0&&a.d[3]==0&&a.d[4]==0), "lemma.kernel: T(a)==0 ==> a==0 (T invertible)");
    VERIF_CANARY();
}
"""
    )


CALL_RULES = member_rules([Rule(r"this->next\(\);", "XE_next(self);", 1, note="member call")])


def build_call(ctx):
    pc = ctx.func(ENG, r"CELER_FUNCTION auto XorwowRngEngine::operator\(\)\(\) -> result_type", CALL_RULES, name="XorwowRngEngine::operator()")
    return (
        HDR
        + """
void XE_next(XorwowRngEngine* self)
__CPROVER_requires(__CPROVER_is_fresh(self, sizeof(*self)) && __CPROVER_is_fresh(self->state_, sizeof(XorwowState)))
__CPROVER_assigns(self->state_->xorstate)
__CPROVER_ensures(st_eq(self->state_->xorstate, spec_T(__CPROVER_old(self->state_->xorstate))))
;
uint_t XE_call(XorwowRngEngine* self)
__CPROVER_requires(__CPROVER_is_fresh(self, sizeof(*self)) && __CPROVER_is_fresh(self->state_, sizeof(XorwowState)))
__CPROVER_assigns(self->state_->xorstate, self->state_->weylstate)
__CPROVER_ensures(st_eq(self->state_->xorstate, spec_T(__CPROVER_old(self->state_->xorstate))))
__CPROVER_ensures(self->state_->weylstate == (uint_t)(__CPROVER_old(self->state_->weylstate) + 362437u))
__CPROVER_ensures(__CPROVER_return_value == (uint_t)(self->state_->weylstate + self->state_->xorstate.d[4]))
{"""
        + pc.body.replace("self->state_->xorstate[4]", "self->state_->xorstate.d[4]")
        + """}
void h_call(void)
{
    XorwowRngEngine* e;
    XE_call(e);
    VERIF_CANARY();
}
"""
    )


JUMP_POLY_RULES = member_rules(
    [
        Rule(r"Array<uint_t, 5> s = \{0\};", "XorState5 s = {{0, 0, 0, 0, 0}};\n    g_x = self->state_->xorstate; g_acc = s; /* ghost init */", 1, note="Array<uint_t,5> local -> struct; ghost init injected"),
        Rule(r"for \(size_type i : range\(VERIF_NUM_WORDS\)\)",
             "for (size_type i = 0; i < VERIF_NUM_WORDS; ++i)\n"
             "    __CPROVER_assigns(i, s, self->state_->xorstate, g_x, g_acc)\n"
             "    __CPROVER_loop_invariant(i <= VERIF_NUM_WORDS && ST_EQ(self->state_->xorstate, g_x) && ST_EQ(s, g_acc))\n"
             "    __CPROVER_decreases(VERIF_NUM_WORDS - i)\n", 1, note="range-for -> index loop; loop contract 1 injected"),
        Rule(r"for \(size_type j : range\(VERIF_NUM_BITS\)\)",
             "for (size_type j = 0; j < VERIF_NUM_BITS; ++j)\n"
             "    __CPROVER_assigns(j, s, self->state_->xorstate, g_x, g_acc)\n"
             "    __CPROVER_loop_invariant(j <= VERIF_NUM_BITS && ST_EQ(self->state_->xorstate, g_x) && ST_EQ(s, g_acc))\n"
             "    __CPROVER_decreases(VERIF_NUM_BITS - j)\n", 1, note="range-for -> index loop; loop contract 2 injected"),
        Rule(r"for \(size_type k : range\(VERIF_NUM_WORDS\)\)", "for (size_type k = 0; k < VERIF_NUM_WORDS; ++k)", 1, note="range-for -> index loop (constant 5, unwound)"),
        Rule(r"\bjump_poly\[i\]", "jump_poly->d[i]", 1, note="Array const& param -> pointer"),
        Rule(r"\bs\[k\]", "s.d[k]", 1, note="Array subscript"),
        Rule(r"self->state_->xorstate\[k\]", "self->state_->xorstate.d[k]", 1, note="Array subscript"),
        Rule(r"this->next\(\);", "XE_next(self); spec_poly_step(&g_acc, &g_x, jump_poly, i, j); /* ghost lock-step */", 1, note="member call; ghost step injected"),
    ]
)


def piece_jump_poly(ctx):
    return ctx.func(ENG, r"CELER_FUNCTION void XorwowRngEngine::jump\(JumpPoly const& jump_poly\)", JUMP_POLY_RULES, name="XorwowRngEngine::jump(JumpPoly)")


# XE_next's contract (enforced in unit c13_next): assigns(xorstate), xorstate == spec_T(old)
NEXT_CONTRACT_DECL = """
void XE_next(XorwowRngEngine* self)
__CPROVER_requires(self != 0 && self->state_ != 0)
__CPROVER_assigns(self->state_->xorstate)
__CPROVER_ensures(st_eq(self->state_->xorstate, spec_T(__CPROVER_old(self->state_->xorstate))))
;
"""


def build_jump_poly(ctx):
    pc = piece_jump_poly(ctx)
    return (
        HDR
        + NEXT_CONTRACT_DECL
        + """
XorState5 g_x, g_acc; /* ghost: the spec computation run in lock-step */
void XE_jump_poly(XorwowRngEngine* self, JumpPoly const* jump_poly)
__CPROVER_requires(__CPROVER_is_fresh(self, sizeof(*self)) && __CPROVER_is_fresh(self->state_, sizeof(XorwowState)) && __CPROVER_is_fresh(jump_poly, sizeof(JumpPoly)))
__CPROVER_assigns(self->state_->xorstate, g_x, g_acc)
__CPROVER_ensures(st_eq(self->state_->xorstate, g_acc))
{"""
        + pc.body
        + """}
void h_jump_poly(void)
{
    XorwowRngEngine* e;
    JumpPoly const* p;
    XE_jump_poly(e, p);
    VERIF_CANARY();
}
"""
    )


TABLE_RULES_J = [
    Rule(r"static ArrayJumpPoly const jump = \{", "static const ArrayJumpPoly TAB_jump = {", 1, note="table definition -> C aggregate (same initializer text)"),
]
TABLE_RULES_S = [
    Rule(r"static ArrayJumpPoly const jump_subsequence = \{", "static const ArrayJumpPoly TAB_jump_subsequence = {", 1, note="table definition -> C aggregate (same initializer text)"),
]


def tables(ctx):
    j = ctx.span(PAR, r"static ArrayJumpPoly const jump = \{", r"\}\}\};", TABLE_RULES_J, name="XorwowRngParams::get_jump_poly table")
    s = ctx.span(PAR, r"static ArrayJumpPoly const jump_subsequence = \{", r"\}\}\};", TABLE_RULES_S, name="XorwowRngParams::get_jump_subsequence_poly table")
    return j.body + "\n" + s.body + "\n"


ROW_COMMON = """
/* g(T)x as the fold of spec_poly_step (the same step the lock-step ghost of
 * unit c13_jump_poly uses; XE_jump_poly's contract says xorstate' == this) */
static XorState5 poly_apply(XorState5 x, JumpPoly const* p)
{
    XorState5 acc = {{0, 0, 0, 0, 0}};
    for (unsigned w = 0; w < 5; ++w)
        for (unsigned b = 0; b < 32; ++b)
            spec_poly_step(&acc, &x, p, w, b);
    return acc;
}
static XorState5 onehot(void)
{
    unsigned w, b;
    __CPROVER_assume(w < 5 && b < 32);
    XorState5 e = {{0, 0, 0, 0, 0}};
    e.d[w] = 1u << b;
    return e;
}
"""


def build_row(kind, i):
    def build(ctx):
        src = HDR + tables(ctx) + ROW_COMMON
        if kind == "P" and i == 0:
            body = "XorState5 lhs = poly_apply(e, &TAB_jump.d[0]); XorState5 rhs = spec_T(e);"
        elif kind == "P":
            body = "XorState5 lhs = poly_apply(e, &TAB_jump.d[%d]); XorState5 rhs = e; for (int r = 0; r < 4; ++r) rhs = poly_apply(rhs, &TAB_jump.d[%d]);" % (i, i - 1)
        elif kind == "S" and i == 0:
            body = "XorState5 lhs = poly_apply(e, &TAB_jump_subsequence.d[0]); XorState5 rhs = e; for (int r = 0; r < 32; ++r) rhs = poly_apply(rhs, &TAB_jump.d[31]);"
        else:
            body = "XorState5 lhs = poly_apply(e, &TAB_jump_subsequence.d[%d]); XorState5 rhs = e; for (int r = 0; r < 4; ++r) rhs = poly_apply(rhs, &TAB_jump_subsequence.d[%d]);" % (i, i - 1)
        src += "void h_row(void)\n{\n    XorState5 e = onehot();\n    " + body + "\n"
        src += '    __CPROVER_assert(ST_EQ(lhs, rhs), "lemma.row_%s%d: table row equals the required power of T on every basis vector");\n    VERIF_CANARY();\n}\n' % (kind, i)
        return src
    return build


def row_unit(kind, i, tier):
    t = 900 if (kind == "S" and i == 0) else 300
    return Unit("c13_row_%s%02d" % (kind, i), build_row(kind, i), "h_row", unwind=34, timeout=t, tier=tier,
                must_have=[r"lemma.row_%s%d" % (kind, i)], checks=["--no-standard-checks"],
                assumptions=["symbolic one-hot state (160 basis vectors); extension to all 2^160 states by xor-linearity (lemma c13_additive + paper lemma L-lin)"],
                note="jump table row lemma")


UNITS = [
    Unit("c13_next", build_next, "h_next", enforce="XE_next", timeout=120, must_have=[r"postcondition"],
         checks=["--bounds-check", "--pointer-check", "--conversion-check"],
         note="next() == Marsaglia xorwow step T; frame: xorstate only"),
    Unit("c13_additive", build_additive, "h_additive", unwind=6, timeout=120, must_have=[r"lemma.additive", r"lemma.kernel"],
         checks=["--bounds-check"], note="spec T is xor-linear and has trivial kernel"),
    Unit("c13_call", build_call, "h_call", enforce="XE_call", replace=["XE_next"], timeout=120, must_have=[r"postcondition"],
         checks=["--bounds-check", "--pointer-check", "--conversion-check"],
         note="operator(): one T step, weyl += 362437, return weyl + v"),
    Unit("c13_jump_poly", build_jump_poly, "h_jump_poly", enforce="XE_jump_poly", replace=["XE_next"], loop_contracts=True, pre_unwindset=["XE_jump_poly.0:6"], timeout=300, object_bits=12,
         must_have=[r"XE_jump_poly.postcondition", r"loop_invariant_step", r"loop_invariant_base", r"loop_decreases", r"XE_jump_poly.unwind"],
         checks=["--bounds-check", "--pointer-check", "--no-signed-overflow-check"],
         assumptions=["signed-overflow/undefined-shift checks off for this unit: `1 << j` with j==31 is well defined in C++14 and later (the code's language) but not in C"],
         note="jump(poly) == g(T)x; loops are constant-bounded (5x32x5): full unwinding + unwinding assertions is complete, not a bounded stand-in"),
] + [row_unit("P", i, "quick") for i in range(32)] + [row_unit("S", i, "quick") for i in range(32)]
