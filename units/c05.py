"""C05: step history continuity and limits (per-call contracts)."""
from vkit.extract import Rule, LoopContracts, IIFE, StripPP
from vkit.runner import Unit
from units.c01 import Q_RULES, VHDR

STV = "src/celeritas/track/SimTrackView.hh"
TIU = "src/celeritas/global/alongstep/detail/TimeUpdater.hh"
TRU = "src/celeritas/global/alongstep/detail/TrackUpdater.hh"
PRA = "src/celeritas/global/alongstep/detail/PropagationApplier.hh"

HDR = '#include "celer.h"\n'

# ---- SimTrackView members on the real layout ---------------------------------
SIM_LAYOUT = """
#include <stdlib.h>
enum { TS_inactive = 0, TS_initializing = 1, TS_alive = 2, TS_errored = 3, TS_killed = 4, TS_size_ = 5 };   /* TrackStatus (bound) */
#define INVALID_ID ((size_type)-1)
typedef struct { real_type step; size_type action; } StepLimit;    /* { real_type step{inf}; ActionId action{}; } */
typedef struct { real_type* time; real_type* step_length; size_type* post_step_action; size_type* along_step_action; size_type* num_steps; signed char* status; size_type size_; } SimStateRef;
typedef struct { SimStateRef const* states_; size_type track_slot_; } SimTrackViewR;
/* Collection[track_slot_]: CELER_EXPECT(i < size) + index */
#define COLL(member, slot) (*(__CPROVER_assert((slot) < self->states_->size_, "celer_expect: Collection::operator[] i < size"), &self->states_->member[slot]))
#define SIM_OK(v) ((v) != 0 && (v)->states_ != 0 && (v)->states_->size_ >= 1 && (v)->states_->size_ <= 256 && (v)->track_slot_ < (v)->states_->size_ \\
    && __CPROVER_rw_ok((v)->states_->time, (v)->states_->size_ * sizeof(real_type)) && __CPROVER_rw_ok((v)->states_->step_length, (v)->states_->size_ * sizeof(real_type)) \\
    && __CPROVER_rw_ok((v)->states_->post_step_action, (v)->states_->size_ * sizeof(size_type)) && __CPROVER_rw_ok((v)->states_->along_step_action, (v)->states_->size_ * sizeof(size_type)) \\
    && __CPROVER_rw_ok((v)->states_->num_steps, (v)->states_->size_ * sizeof(size_type)) && __CPROVER_rw_ok((v)->states_->status, (v)->states_->size_))
#define S_(member) (self->states_->member[self->track_slot_])
"""
SIM_RULES = Q_RULES + [
    Rule(r"states_\.(\w+)\[track_slot_\]", r"COLL(\1, self->track_slot_)", "*", note="Collection[track_slot_] of the state reference"),
    Rule(r"numeric_limits<real_type>::infinity\(\)", "__builtin_inf()", "*", note="numeric_limits::infinity"),
    Rule(r"static_cast<bool>\(sl\.action\)|\(\(bool\)\(sl\.action\)\)", "(sl->action != INVALID_ID)", "*", note="OpaqueId::operator bool"),
    Rule(r"\bsl\.", "sl->", "*", note="const& parameter -> pointer"),
    Rule(r"CELER_ASSERT\(action\);", "CELER_ASSERT(action != INVALID_ID);", "*", note="OpaqueId::operator bool"),
    Rule(r"TrackStatus::(\w+)", r"TS_\1", "*", note="enum class value (bound)"),
]
SIM_HARNESS = """
void h_sim(void)
{
    size_type n, slot; __CPROVER_assume(n >= 1 && n <= 256);
    SimStateRef st = {malloc(n * sizeof(real_type)), malloc(n * sizeof(real_type)), malloc(n * sizeof(size_type)), malloc(n * sizeof(size_type)), malloc(n * sizeof(size_type)), malloc(n), n};
    __CPROVER_assume(st.time && st.step_length && st.post_step_action && st.along_step_action && st.num_steps && st.status);
    SimTrackViewR v = {&st, slot};
    %s
    VERIF_CANARY();
}
"""

SIM_OPS = {
    "step_limit": (r"CELER_FUNCTION bool SimTrackView::step_limit\(StepLimit const& sl\)", "bool STVR_step_limit(SimTrackViewR* self, StepLimit const* sl)",
                   "sl != 0 && sl->step >= 0 && !__CPROVER_isnand(S_(step_length))", "S_(step_length), S_(post_step_action)",
                   ["S_(step_length) == (sl->step < __CPROVER_old(S_(step_length)) ? sl->step : __CPROVER_old(S_(step_length)))   /* the limit can only shorten the step */",
                    "__CPROVER_return_value == (sl->step < __CPROVER_old(S_(step_length)))",
                    "S_(post_step_action) == (__CPROVER_return_value ? sl->action : __CPROVER_old(S_(post_step_action)))   /* action replaced iff strictly shorter */"],
                   "StepLimit sl; STVR_step_limit(&v, &sl);"),
    "reset_step_limit": (r"CELER_FUNCTION void SimTrackView::reset_step_limit\(StepLimit const& sl\)", "void STVR_reset_step_limit(SimTrackViewR* self, StepLimit const* sl)",
                         "sl != 0 && sl->step >= 0 && ((sl->action != INVALID_ID) != (sl->step == __builtin_inf()))", "S_(step_length), S_(post_step_action)",
                         ["S_(step_length) == sl->step && S_(post_step_action) == sl->action"],
                         "StepLimit sl; STVR_reset_step_limit(&v, &sl);"),
    "add_time": (r"CELER_FUNCTION void SimTrackView::add_time\(real_type delta\)", "void STVR_add_time(SimTrackViewR* self, real_type delta)",
                 "delta >= 0 && !__CPROVER_isnand(S_(time)) && !__CPROVER_isinfd(S_(time)) && !__CPROVER_isinfd(delta)", "S_(time)",
                 ["S_(time) == __CPROVER_old(S_(time)) + delta", "S_(time) >= __CPROVER_old(S_(time))   /* time never decreases */"],
                 "real_type d; STVR_add_time(&v, d);"),
    "increment_num_steps": (r"CELER_FORCEINLINE_FUNCTION void SimTrackView::increment_num_steps\(\)", "void STVR_increment_num_steps(SimTrackViewR* self)",
                            "1", "S_(num_steps)", ["S_(num_steps) == __CPROVER_old(S_(num_steps)) + 1"], "STVR_increment_num_steps(&v);"),
    "status_set": (r"CELER_FUNCTION void SimTrackView::status\(TrackStatus status\)", "void STVR_status_set(SimTrackViewR* self, int status)",
                   "status >= 0 && status < 5", "S_(status)", ["S_(status) == status"], "int s; STVR_status_set(&v, s);"),
    "post_step_action_set": (r"CELER_FUNCTION void SimTrackView::post_step_action\(ActionId action\)", "void STVR_post_step_action_set(SimTrackViewR* self, size_type action)",
                             "action != INVALID_ID", "S_(post_step_action)", ["S_(post_step_action) == action"], "size_type a; STVR_post_step_action_set(&v, a);"),
    "step_length_set": (r"CELER_FUNCTION void SimTrackView::step_length\(real_type length\)", "void STVR_step_length_set(SimTrackViewR* self, real_type length)",
                        "length > 0", "S_(step_length)", ["S_(step_length) == length"], "real_type l; STVR_step_length_set(&v, l);"),
}


def build_sim(name):
    def build(ctx):
        loc, sig, req, assigns, ens, call = SIM_OPS[name]
        pc = ctx.func(STV, loc, SIM_RULES, name="SimTrackView::" + name)
        return (HDR + SIM_LAYOUT + sig + "\n__CPROVER_requires(SIM_OK(self))\n__CPROVER_requires(%s)   /* own CELER_EXPECT/ASSERT + finiteness */\n" % req
                + "__CPROVER_assigns(%s)\n" % assigns + "".join("__CPROVER_ensures(%s)\n" % e.split("   /*")[0] for e in ens) + "{" + pc.body + "}\n" + SIM_HARNESS % call)
    return build


# ---- TimeUpdater / TrackUpdater / PropagationApplier on the view model --------
C05_STUBS = """
/* additional view members used by the along-step helpers */
real_type PTV_speed(ParticleTrackView const* self)      /* native_value_from(particle.speed()): beta*c >= 0, finite (assumed; sqrt inside) */
__CPROVER_requires(VIEW_OK(self))
__CPROVER_assigns()
__CPROVER_ensures(__CPROVER_return_value >= 0 && !__CPROVER_isinfd(__CPROVER_return_value))
;
/* add_time(d): own EXPECT d >= 0; time += d   [enforced: c05_stv_add_time] */
void STV_add_time(SimTrackView* self, real_type delta)
__CPROVER_requires(VIEW_OK(self) && delta >= 0)
__CPROVER_assigns(self->t->time)
__CPROVER_ensures(self->t->time == __CPROVER_old(self->t->time) + delta)
;
/* increment_num_steps   [enforced: c05_stv_increment_num_steps] */
void STV_increment_num_steps(SimTrackView* self)
__CPROVER_requires(VIEW_OK(self))
__CPROVER_assigns(self->t->num_steps)
__CPROVER_ensures(self->t->num_steps == __CPROVER_old(self->t->num_steps) + 1)
;
/* step_length(l): own EXPECT l > 0   [enforced: c05_stv_step_length_set] */
void STV_step_length_set(SimTrackView* self, real_type length)
__CPROVER_requires(VIEW_OK(self) && length > 0)
__CPROVER_assigns(self->t->step_length)
__CPROVER_ensures(self->t->step_length == length)
;
"""

TIU_RULES = Q_RULES + [
    Rule(r"auto sim = track\.make_sim_view\(\);", "SimTrackView sim = CTV_make_sim_view(track);", 1, note="typed view handle"),
    Rule(r"auto particle = track\.make_particle_view\(\);", "ParticleTrackView particle = CTV_make_particle_view(track);", 1, note="typed view handle"),
    Rule(r"native_value_from\(particle\.speed\(\)\)", "PTV_speed(&particle)", 1, note="Quantity -> native value; view call -> stub"),
    Rule(r"sim\.status\(\)", "STV_status(&sim)", "*", note="view call"),
    Rule(r"sim\.step_length\(\)", "STV_step_length(&sim)", "*", note="view call"),
    Rule(r"sim\.add_time\(", "STV_add_time(&sim, ", "*", note="view call"),
    Rule(r"TrackStatus::(\w+)", r"TS_\1", "*", note="enum class value (bound)"),
]


def build_time_updater(ctx):
    pc = ctx.func(TIU, r"CELER_FUNCTION void TimeUpdater::operator\(\)\(CoreTrackView const& track\)", TIU_RULES, name="TimeUpdater::operator()")
    return (VHDR + C05_STUBS + """
void TIU_call(CoreTrackView const* track)
__CPROVER_requires(VIEW_OK(track) && track->t->step_length >= 0 && !__CPROVER_isinfd(track->t->step_length) && track->t->time >= 0 && !__CPROVER_isinfd(track->t->time))
__CPROVER_assigns(track->t->time)
/* time never decreases; an errored track's clock is left alone */
__CPROVER_ensures(track->t->time >= __CPROVER_old(track->t->time))
__CPROVER_ensures(track->t->status == TS_errored ==> track->t->time == __CPROVER_old(track->t->time))
{""" + pc.body + """}
void h_tiu(void)
{
    Track t; CoreTrackView v = {&t};
    TIU_call(&v);
    VERIF_CANARY();
}
""")


TRU_RULES = Q_RULES + [
    Rule(r"auto sim = track\.make_sim_view\(\);", "SimTrackView sim = CTV_make_sim_view(track);", 1, note="typed view handle"),
    Rule(r"auto phys = track\.make_physics_view\(\);", "PhysicsTrackView phys = CTV_make_physics_view(track);", 1, note="typed view handle"),
    Rule(r"auto step = track\.make_physics_step_view\(\);", "PhysicsStepView step = CTV_make_physics_step_view(track);", 1, note="typed view handle"),
    Rule(r"track\.make_particle_view\(\)\.is_stopped\(\)", "(track->t->energy == 0)", "*", note="temporary view: is_stopped()"),
    Rule(r"CELER_ASSERT\(sim\.post_step_action\(\)\);", "CELER_ASSERT(STV_post_step_action(&sim) != INVALID_ID);", "*", note="OpaqueId::operator bool"),
    Rule(r"!CELERITAS_DEBUG", "1 /* !CELERITAS_DEBUG (bound: 0) */", "*", note="CELERITAS_DEBUG == 0 (bound in bindings.cc)"),
    Rule(r"CELER_ASSERT\(mfp > 0\);", "/* NOT PROMOTED: CELER_ASSERT(mfp > 0) -- see DESIGN.md (1-ulp corner of step*xs vs mfp) */", (0, 1), note="in-body assert not promoted (does not hold under the pre-step contract in floating point); listed in evidence"),
    Rule(r"phys\.scalars\(\)\.discrete_action\(\)", "track->t->discrete_action", "*", note="scalars().discrete_action()"),
    Rule(r"track\.tracking_cut_action\(\)", "CTV_tracking_cut_action(track)", "*", note="CoreTrackView member"),
    Rule(r"phys\.interaction_mfp\(\)", "track->t->interaction_mfp", "*", note="view read"),
    Rule(r"phys\.interaction_mfp\(mfp\);", "track->t->interaction_mfp = mfp; /* PhysicsTrackView::interaction_mfp(real_type) setter (own EXPECT mfp > 0 not promoted, see above) */", "*", note="view setter"),
    Rule(r"step\.macro_xs\(\)", "track->t->macro_xs", "*", note="view read"),
    Rule(r"sim\.status\(\)", "STV_status(&sim)", "*", note="view call"),
    Rule(r"sim\.step_length\(\)", "STV_step_length(&sim)", "*", note="view call"),
    Rule(r"sim\.post_step_action\(\)", "STV_post_step_action(&sim)", "*", note="view call"),
    Rule(r"sim\.increment_num_steps\(\);", "STV_increment_num_steps(&sim);", "*", note="view call"),
    Rule(r"TrackStatus::(\w+)", r"TS_\1", "*", note="enum class value (bound)"),
]


def build_track_updater(ctx):
    pc = ctx.func(TRU, r"CELER_FUNCTION void TrackUpdater::operator\(\)\(CoreTrackView const& track\)", TRU_RULES, name="TrackUpdater::operator()")
    return (VHDR + C05_STUBS + """
#define T0(f) __CPROVER_old(track->t->f)
void TRU_call(CoreTrackView const* track)
__CPROVER_requires(VIEW_OK(track))
__CPROVER_requires(track->t->status == TS_alive ==> ((track->t->step_length > 0 || track->t->energy == 0) && track->t->post_step_action != INVALID_ID))   /* state after the along-step helpers */
__CPROVER_assigns(track->t->interaction_mfp, track->t->num_steps)
/* steps are numbered consecutively: +1 unless the track errored inside the kernel */
__CPROVER_ensures(track->t->num_steps == T0(num_steps) + (track->t->status == TS_errored ? 0 : 1))
/* the remaining mean free path is reduced by step * cross-section exactly when the track is alive and the discrete interaction was NOT selected */
__CPROVER_ensures((track->t->status == TS_alive && track->t->post_step_action != track->t->discrete_action)
                      ? track->t->interaction_mfp == T0(interaction_mfp) - track->t->step_length * track->t->macro_xs
                      : track->t->interaction_mfp == T0(interaction_mfp))
{""" + pc.body + """}
void h_tru(void)
{
    Track t; CoreTrackView v = {&t};
    __CPROVER_assume(!__CPROVER_isnand(t.interaction_mfp) && !__CPROVER_isnand(t.step_length) && !__CPROVER_isnand(t.macro_xs) && !__CPROVER_isinfd(t.interaction_mfp) && !__CPROVER_isinfd(t.step_length) && !__CPROVER_isinfd(t.macro_xs));
    __CPROVER_assume(!__CPROVER_isinfd(t.step_length * t.macro_xs));
    TRU_call(&v);
    VERIF_CANARY();
}
""")


PRA_STUBS = """
typedef struct { real_type distance; bool boundary; bool looping; } Propagation;
typedef struct { CoreTrackView* track; } Propagator;
bool g_can_loop;   /* ghost: what tracks_can_loop() answers (false for the linear propagator, true in a field) */
Propagation g_p;   /* ghost: the propagation result */
static Propagator MP_make(CoreTrackView* track) { Propagator p = {track}; return p; }
/* contract of the propagator (LinearPropagator / FieldPropagator, property C08): travelled distance in (0, step]; flags as documented */
Propagation PROP_call(Propagator* self, real_type step)
__CPROVER_requires(self != 0 && step > 0)
__CPROVER_assigns(g_p)
__CPROVER_ensures(__CPROVER_return_value.distance > 0 && __CPROVER_return_value.distance <= step)
__CPROVER_ensures(g_p.distance == __CPROVER_return_value.distance && g_p.boundary == __CPROVER_return_value.boundary && g_p.looping == __CPROVER_return_value.looping)
__CPROVER_ensures(!(__CPROVER_return_value.boundary && __CPROVER_return_value.looping))
;
static bool PROP_tracks_can_loop(Propagator const* self) { return g_can_loop; }
void STV_update_looping(SimTrackView* self, bool is_looping)
__CPROVER_requires(VIEW_OK(self))
__CPROVER_assigns()
__CPROVER_ensures(1)
;
bool PTV_is_stable(ParticleTrackView const* self) __CPROVER_requires(VIEW_OK(self)) __CPROVER_assigns() __CPROVER_ensures(1);
bool STV_is_looping(SimTrackView* self, size_type pid, real_type energy) __CPROVER_requires(VIEW_OK(self)) __CPROVER_assigns() __CPROVER_ensures(1);
"""

PRA_RULES = [
    StripPP(r"CELERITAS_DEBUG", fires=2, note="`#if CELERITAS_DEBUG` blocks dropped (CELERITAS_DEBUG == 0, bound)"),
    StripPP(r"!CELER_DEVICE_COMPILE", keep_else=False, fires="*", note="host logging block dropped (no effect on state)"),
] + Q_RULES + [
    Rule(r"auto sim = track\.make_sim_view\(\);", "SimTrackView sim = CTV_make_sim_view(track);", 1, note="typed view handle"),
    Rule(r"track\.make_particle_view\(\)\.is_stopped\(\)", "(track->t->energy == 0)", "*", note="temporary view: is_stopped()"),
    Rule(r"track\.make_physics_view\(\)\.scalars\(\)\.discrete_action\(\)", "track->t->discrete_action", "*", note="temporary view"),
    Rule(r"track\.make_physics_view\(\)\.has_at_rest\(\)", "track->t->has_at_rest", "*", note="temporary view"),
    Rule(r"Propagation p;", "Propagation p = {0, 0, 0};", 1, note="default member initializers"),
    Rule(r"auto propagate = make_propagator\(track\);", "Propagator propagate = MP_make(track);", 1, note="MP functor -> stub"),
    Rule(r"p = propagate\(sim\.step_length\(\)\);", "p = PROP_call(&propagate, STV_step_length(&sim));", 1, note="propagator call -> stub with the C08 contract"),
    Rule(r"propagate\.tracks_can_loop\(\)", "PROP_tracks_can_loop(&propagate)", 1, note="member call"),
    Rule(r"auto particle = track\.make_particle_view\(\);", "ParticleTrackView particle = CTV_make_particle_view(track);", "*", note="typed view handle"),
    Rule(r"particle\.is_stable\(\)", "PTV_is_stable(&particle)", "*", note="view call -> stub"),
    Rule(r"sim\.is_looping\(particle\.particle_id\(\), particle\.energy\(\)\)", "STV_is_looping(&sim, 0, PTV_energy(&particle))", "*", note="view call -> stub (any answer)"),
    Rule(r"sim\.update_looping\(", "STV_update_looping(&sim, ", "*", note="view call -> stub"),
    Rule(r"sim\.step_length\(\)", "STV_step_length(&sim)", "*", note="view call"),
    Rule(r"sim\.post_step_action\(\)", "STV_post_step_action(&sim)", "*", note="view call"),
    Rule(r"sim\.step_length\(", "STV_step_length_set(&sim, ", "*", note="view setter"),
    Rule(r"sim\.post_step_action\(", "STV_post_step_action_set(&sim, ", "*", note="view setter"),
    Rule(r"track\.(boundary_action|propagation_limit_action|tracking_cut_action)\(\)", r"CTV_\1(track)", "*", note="CoreTrackView member"),
    IIFE(["ActionId"]),
]


def build_propagation_applier(ctx):
    pc = ctx.func(PRA, r"^PropagationApplierBaseImpl<MP>::operator\(\)\(CoreTrackView& track\)", PRA_RULES, name="PropagationApplierBaseImpl<MP>::operator()")
    return (VHDR + C05_STUBS + PRA_STUBS + """
#define T0(f) __CPROVER_old(track->t->f)
void PRA_call(CoreTrackView* track)
__CPROVER_requires(VIEW_OK(track) && track->t->step_length >= 0 && !__CPROVER_isnand(track->t->step_length))
/* state at the start of the along-step: a zero-length step only for a stopped particle about to interact at rest (pre-step) */
__CPROVER_requires(track->t->step_length == 0 ==> (track->t->energy == 0 && track->t->post_step_action == track->t->discrete_action && track->t->has_at_rest))
__CPROVER_requires(track->t->boundary_action != INVALID_ID && track->t->propagation_limit_action != INVALID_ID && track->t->tracking_cut_action != INVALID_ID)
__CPROVER_assigns(track->t->step_length, track->t->post_step_action, g_p)
/* the along-step may only shorten the physics step, never below zero; a zero step stays zero */
__CPROVER_ensures(track->t->step_length <= T0(step_length) && (T0(step_length) > 0 ? track->t->step_length > 0 : track->t->step_length == 0))
/* a shortened step carries a geometry/propagation action; an unshortened, non-boundary, non-looping step keeps the physics action */
__CPROVER_ensures(track->t->step_length < T0(step_length) ==> (track->t->post_step_action == track->t->boundary_action || track->t->post_step_action == track->t->propagation_limit_action || track->t->post_step_action == track->t->tracking_cut_action))
__CPROVER_ensures((T0(step_length) > 0 && g_p.boundary && !(g_can_loop && g_p.looping)) ==> (track->t->post_step_action == track->t->boundary_action && track->t->step_length == g_p.distance))
__CPROVER_ensures((T0(step_length) > 0 && !g_p.boundary && !(g_can_loop && g_p.looping) && g_p.distance == T0(step_length)) ==> track->t->post_step_action == T0(post_step_action))
__CPROVER_ensures(T0(step_length) == 0 ==> track->t->post_step_action == T0(post_step_action))
{""" + pc.body + """}
void h_pra(void)
{
    Track t; CoreTrackView v = {&t}; unsigned r; g_can_loop = (r != 0);
    unsigned r2; t.has_at_rest = (r2 != 0);
    PRA_call(&v);
    VERIF_CANARY();
}
""")


LEAF_CHECKS = ["--bounds-check", "--pointer-check"]
UNITS = [
    Unit("c05_stv_" + nm, build_sim(nm), "h_sim", enforce=SIM_OPS[nm][1].split("(")[0].split()[-1], timeout=120, backend=["sat", "cvc5"],
         must_have=[r"postcondition"], checks=LEAF_CHECKS, note="SimTrackView::%s on the real state layout" % nm)
    for nm in SIM_OPS
] + [
    Unit("c05_time_updater", build_time_updater, "h_tiu", enforce="TIU_call", replace=["PTV_speed", "STV_add_time"], timeout=300, backend=["sat", "cvc5"],
         must_have=[r"TIU_call.postcondition", r"celer_assert", r"STV_add_time.precondition"], checks=LEAF_CHECKS,
         assumptions=["ParticleTrackView::speed() >= 0 and finite (sqrt inside; assumed)"],
         note="TimeUpdater: t' >= t, add_time's precondition (delta >= 0) holds at the call site"),
    Unit("c05_track_updater", build_track_updater, "h_tru", enforce="TRU_call", replace=["STV_increment_num_steps"], timeout=300, backend=["sat", "cvc5"],
         must_have=[r"TRU_call.postcondition", r"celer_assert"], checks=LEAF_CHECKS,
         assumptions=["NOT PROMOTED: TrackUpdater's CELER_ASSERT(mfp > 0) (and interaction_mfp(mfp)'s EXPECT): step*xs < mfp does not follow in floating point from step < mfp/xs (1-ulp corner); stated, not proved"],
         note="TrackUpdater: step counter +1 iff not errored; remaining MFP reduced by step*xs exactly when alive and the discrete action is not selected"),
    Unit("c05_propagation_applier", build_propagation_applier, "h_pra", enforce="PRA_call",
         replace=["PROP_call", "STV_update_looping", "PTV_is_stable", "STV_is_looping", "STV_step_length_set", "STV_post_step_action_set"], timeout=300, backend=["sat", "cvc5"],
         must_have=[r"PRA_call.postcondition", r"celer_assert", r"STV_step_length_set.precondition", r"PROP_call.precondition"], checks=LEAF_CHECKS,
         assumptions=["propagator satisfies the C08 contract 0 < distance <= step (for the field propagator 'up to rounding' is NOT decided)", "`#if CELERITAS_DEBUG` blocks compiled out"],
         note="PropagationApplier: 0 < len' <= len; shortened => boundary/propagation-limit/tracking-cut action; boundary flag => boundary action with len' = distance; zero-length step untouched; in-body CELER_ASSERTs hold"),
]
