"""C05: step history continuity and limits (per-call contracts)."""
from vkit.extract import Rule, LoopContracts, IIFE, StripPP
from vkit.runner import Unit
from units.c01 import Q_RULES, VHDR

STV = "src/celeritas/track/SimTrackView.hh"
TIU = "src/celeritas/global/alongstep/detail/TimeUpdater.hh"
TRU = "src/celeritas/global/alongstep/detail/TrackUpdater.hh"
PRA = "src/celeritas/global/alongstep/detail/PropagationApplier.hh"

HDR = '#include "celer.h"\n'

# ---- SimTrackView members on the real layout ---------------------------------
SIM_LAYOUT = """
#include <stdlib.h>
enum { TS_inactive = 0, TS_initializing = 1, TS_alive = 2, TS_errored = 3, TS_killed = 4, TS_size_ = 5 };   /* TrackStatus (bound) */
#define INVALID_ID ((size_type)-1)
typedef struct { real_type step; size_type action; } StepLimit;    /* { real_type step{}; ActionId action{}; } */
typedef struct { real_type* time; real_type* step_length; size_type* post_step_action; size_type* along_step_action; size_type* num_steps; signed char* status; size_type size_; } SimStateRef;
typedef struct { SimStateRef const* states_; size_type track_slot_; } SimTrackViewR;
/* Collection[track_slot_]: CELER_EXPECT(i < size) + index */
#define COLL(member, slot) (*(__CPROVER_assert((slot) < self->states_->size_, "celer_expect: Collection::operator[] i < size"), &self->states_->member[slot]))
#define SIM_OK(v) ((v) != 0 && (v)->states_ != 0 && (v)->states_->size_ >= 1 && (v)->states_->size_ <= 256 && (v)->track_slot_ < (v)->states_->size_ \\
    && __CPROVER_rw_ok((v)->states_->time, (v)->states_->size_ * sizeof(real_type)) && __CPROVER_rw_ok((v)->states_->step_length, (v)->states_->size_ * sizeof(real_type)) \\
    && __CPROVER_rw_ok((v)->states_->post_step_action, (v)->states_->size_ * sizeof(size_type)) && __CPROVER_rw_ok((v)->states_->along_step_action, (v)->states_->size_ * sizeof(size_type)) \\
    && __CPROVER_rw_ok((v)->states_->num_steps, (v)->states_->size_ * sizeof(size_type)) && __CPROVER_rw_ok((v)->states_->status, (v)->states_->size_))
#define S_(member) (self->states_->member[self->track_slot_])
"""
SIM_RULES = Q_RULES + [
    Rule(r"StepLimit limit;", "StepLimit limit = {0, INVALID_ID};", (0, 1), note="default member initializers { step{}, action{} }"),
    Rule(r"limit\.action = \{\};", "limit.action = INVALID_ID;", (0, 1), note="default OpaqueId = invalid"),
    Rule(r"this->reset_step_limit\(limit\);", "STVR_reset_step_limit(self, &limit);", (0, 1), note="member call (body extracted below)"),
    Rule(r"this->along_step_action\(\{\}\);", "STVR_along_step_action_set(self, INVALID_ID);", (0, 1), note="member call (body extracted below)"),
    Rule(r"states_\.(\w+)\[track_slot_\]", r"COLL(\1, self->track_slot_)", "*", note="Collection[track_slot_] of the state reference"),
    Rule(r"numeric_limits<real_type>::infinity\(\)", "__builtin_inf()", "*", note="numeric_limits::infinity"),
    Rule(r"static_cast<bool>\(sl\.action\)|\(\(bool\)\(sl\.action\)\)", "(sl->action != INVALID_ID)", "*", note="OpaqueId::operator bool"),
    Rule(r"\bsl\.", "sl->", "*", note="const& parameter -> pointer"),
    Rule(r"CELER_ASSERT\(action\);", "CELER_ASSERT(action != INVALID_ID);", "*", note="OpaqueId::operator bool"),
    Rule(r"TrackStatus::(\w+)", r"TS_\1", "*", note="enum class value (bound)"),
]
SIM_HARNESS = """
void h_sim(void)
{
    size_type n, slot; __CPROVER_assume(n >= 1 && n <= 256);
    SimStateRef st = {malloc(n * sizeof(real_type)), malloc(n * sizeof(real_type)), malloc(n * sizeof(size_type)), malloc(n * sizeof(size_type)), malloc(n * sizeof(size_type)), malloc(n), n};
    __CPROVER_assume(st.time && st.step_length && st.post_step_action && st.along_step_action && st.num_steps && st.status);
    SimTrackViewR v = {&st, slot};
    %s
    VERIF_CANARY();
}
"""

SIM_OPS = {
    "step_limit": (r"CELER_FUNCTION bool SimTrackView::step_limit\(StepLimit const& sl\)", "bool STVR_step_limit(SimTrackViewR* self, StepLimit const* sl)",
                   "sl != 0 && sl->step >= 0 && !__CPROVER_isnand(S_(step_length))", "S_(step_length), S_(post_step_action)",
                   ["S_(step_length) == (sl->step < __CPROVER_old(S_(step_length)) ? sl->step : __CPROVER_old(S_(step_length)))   /* the limit can only shorten the step */",
                    "__CPROVER_return_value == (sl->step < __CPROVER_old(S_(step_length)))",
                    "S_(post_step_action) == (__CPROVER_return_value ? sl->action : __CPROVER_old(S_(post_step_action)))   /* action replaced iff strictly shorter */"],
                   "StepLimit sl; STVR_step_limit(&v, &sl);"),
    "reset_step_limit": (r"CELER_FUNCTION void SimTrackView::reset_step_limit\(StepLimit const& sl\)", "void STVR_reset_step_limit(SimTrackViewR* self, StepLimit const* sl)",
                         "sl != 0 && sl->step >= 0 && ((sl->action != INVALID_ID) != (sl->step == __builtin_inf()))", "S_(step_length), S_(post_step_action)",
                         ["S_(step_length) == sl->step && S_(post_step_action) == sl->action"],
                         "StepLimit sl; STVR_reset_step_limit(&v, &sl);"),
    "add_time": (r"CELER_FUNCTION void SimTrackView::add_time\(real_type delta\)", "void STVR_add_time(SimTrackViewR* self, real_type delta)",
                 "delta >= 0 && !__CPROVER_isnand(S_(time)) && !__CPROVER_isinfd(S_(time)) && !__CPROVER_isinfd(delta)", "S_(time)",
                 ["S_(time) == __CPROVER_old(S_(time)) + delta", "S_(time) >= __CPROVER_old(S_(time))   /* time never decreases */"],
                 "real_type d; STVR_add_time(&v, d);"),
    "increment_num_steps": (r"CELER_FORCEINLINE_FUNCTION void SimTrackView::increment_num_steps\(\)", "void STVR_increment_num_steps(SimTrackViewR* self)",
                            "1", "S_(num_steps)", ["S_(num_steps) == __CPROVER_old(S_(num_steps)) + 1"], "STVR_increment_num_steps(&v);"),
    "status_set": (r"CELER_FUNCTION void SimTrackView::status\(TrackStatus status\)", "void STVR_status_set(SimTrackViewR* self, int status)",
                   "status >= 0 && status < 5", "S_(status)", ["S_(status) == status"], "int s; STVR_status_set(&v, s);"),
    "post_step_action_set": (r"CELER_FUNCTION void SimTrackView::post_step_action\(ActionId action\)", "void STVR_post_step_action_set(SimTrackViewR* self, size_type action)",
                             "action != INVALID_ID", "S_(post_step_action)", ["S_(post_step_action) == action"], "size_type a; STVR_post_step_action_set(&v, a);"),
    "reset_step_limit0": (r"CELER_FUNCTION void SimTrackView::reset_step_limit\(\)", "void STVR_reset_step_limit0(SimTrackViewR* self)",
                          "1", "S_(step_length), S_(post_step_action), S_(along_step_action)",
                          ["S_(step_length) == __builtin_inf() && S_(post_step_action) == INVALID_ID && S_(along_step_action) == INVALID_ID   /* no limit, no action */"],
                          "STVR_reset_step_limit0(&v);"),
    "along_step_action_set": (r"CELER_FORCEINLINE_FUNCTION void SimTrackView::along_step_action\(ActionId action\)", "void STVR_along_step_action_set(SimTrackViewR* self, size_type action)",
                              "1", "S_(along_step_action)", ["S_(along_step_action) == action"], "size_type a; STVR_along_step_action_set(&v, a);"),
    "step_length_set": (r"CELER_FUNCTION void SimTrackView::step_length\(real_type length\)", "void STVR_step_length_set(SimTrackViewR* self, real_type length)",
                        "length > 0", "S_(step_length)", ["S_(step_length) == length"], "real_type l; STVR_step_length_set(&v, l);"),
}


def build_sim(name):
    def build(ctx):
        loc, sig, req, assigns, ens, call = SIM_OPS[name]
        pc = ctx.func(STV, loc, SIM_RULES, name="SimTrackView::" + name)
        pre = ""
        if name == "reset_step_limit0":
            # the two members it calls: their real bodies (not contracts), extracted the same way
            for dep in ("reset_step_limit", "along_step_action_set"):
                dl, dsig = SIM_OPS[dep][0], SIM_OPS[dep][1]
                dpc = ctx.func(STV, dl, SIM_RULES, name="SimTrackView::" + dep)
                pre += "static " + dsig + "\n{" + dpc.body + "}\n"
        return (HDR + SIM_LAYOUT + pre + sig + "\n__CPROVER_requires(SIM_OK(self))\n__CPROVER_requires(%s)   /* own CELER_EXPECT/ASSERT + finiteness */\n" % req
                + "__CPROVER_assigns(%s)\n" % assigns + "".join("__CPROVER_ensures(%s)\n" % e.split("   /*")[0] for e in ens) + "{" + pc.body + "}\n" + SIM_HARNESS % call)
    return build


# ---- SimTrackView::operator=(Initializer): a track slot is (re)initialised completely -------------------------------
SIM_INIT_LAYOUT = """
#include <stdlib.h>
enum { TS_inactive = 0, TS_initializing = 1, TS_alive = 2, TS_errored = 3, TS_killed = 4, TS_size_ = 5 };   /* TrackStatus (bound) */
#define INVALID_ID ((size_type)-1)
#define NS 8         /* slots of the state in this unit's harness (the function touches one slot; the frame is checked on a witness slot) */
typedef struct { size_type track_id, parent_id, event_id; real_type time; } SimTrackInitializer;
typedef struct { size_type track_ids[NS], parent_ids[NS], event_ids[NS], num_steps[NS], num_looping_steps[NS]; size_type nls_size;     /* num_looping_steps is EMPTY (size 0) when no looping threshold is configured */
                 real_type time[NS], step_length[NS]; size_type post_step_action[NS], along_step_action[NS]; signed char status[NS]; size_type size_; } SimStateRef;
typedef struct { SimStateRef* states_; size_type track_slot_; } SimTrackViewR;
#define COLL(member, slot) (*(__CPROVER_assert((slot) < self->states_->size_, "celer_expect: Collection::operator[] i < size"), &self->states_->member[slot]))
#define COLL_NLS(slot) (*(__CPROVER_assert((slot) < self->states_->nls_size, "celer_expect: Collection::operator[] i < size (num_looping_steps)"), &self->states_->num_looping_steps[slot]))
#define S_(member) (self->states_->member[self->track_slot_])
#define W_(member) (self->states_->member[g_w])
size_type g_w;     /* ghost: any OTHER slot */
"""
SIM_INIT_RULES = [
    Rule(r"states_\.num_looping_steps\.empty\(\)", "(self->states_->nls_size == 0)", "*", note="Collection::empty()"),
    Rule(r"states_\.num_looping_steps\[track_slot_\]", "COLL_NLS(self->track_slot_)", "*", note="Collection[track_slot_] (own size)"),
    Rule(r"states_\.(\w+)\[track_slot_\]", r"COLL(\1, self->track_slot_)", "+", note="Collection[track_slot_] of the state reference"),
    Rule(r"\bother\.", "other->", "+", note="const& parameter -> pointer"),
    Rule(r"TrackStatus::(\w+)", r"TS_\1", "*", note="enum class value (bound)"),
    Rule(r"(COLL\((?:step_length), self->track_slot_\)) = \{\};", r"\1 = 0;", "*", note="value-initialised real_type"),
    Rule(r"(COLL\((?:post_step_action|along_step_action), self->track_slot_\)) = \{\};", r"\1 = INVALID_ID;", "*", note="value-initialised OpaqueId = invalid"),
    Rule(r"return \*this;", "return;", 1, note="returns *this (chaining not modelled)"),
]


def build_sim_init(ctx):
    pc = ctx.func(STV, r"^CELER_FUNCTION SimTrackView& SimTrackView::operator=\(Initializer_t const& other\)", SIM_INIT_RULES, name="SimTrackView::operator=(Initializer)")
    return (HDR + SIM_INIT_LAYOUT + """
void STVR_init(SimTrackViewR* self, SimTrackInitializer const* other)
__CPROVER_requires(__CPROVER_r_ok(self, sizeof(*self)) && __CPROVER_rw_ok(self->states_, sizeof(SimStateRef)) && __CPROVER_r_ok(other, sizeof(*other)))
__CPROVER_requires(self->states_->size_ >= 1 && self->states_->size_ <= NS && self->track_slot_ < self->states_->size_ && g_w < NS && g_w != self->track_slot_)
__CPROVER_requires(self->states_->nls_size == 0 || self->states_->nls_size == self->states_->size_)      /* looping counters: absent or one per slot */
__CPROVER_assigns(__CPROVER_object_whole(self->states_))
/* identity and clock from the initializer */
__CPROVER_ensures(S_(track_ids) == other->track_id && S_(parent_ids) == other->parent_id && S_(event_ids) == other->event_id)
__CPROVER_ensures(S_(time) == other->time || (__CPROVER_isnand(S_(time)) && __CPROVER_isnand(other->time)))
/* a new track starts counting its steps at zero WHATEVER the slot held before and whether or not looping counters are configured */
__CPROVER_ensures(S_(num_steps) == 0)
__CPROVER_ensures(self->states_->nls_size != 0 ==> S_(num_looping_steps) == 0)
/* status initializing, no step limit / actions left over from the slot's previous track */
__CPROVER_ensures(S_(status) == TS_initializing && S_(step_length) == 0 && S_(post_step_action) == INVALID_ID && S_(along_step_action) == INVALID_ID)
/* frame: no other slot is touched, the state's shape is unchanged */
__CPROVER_ensures(self->states_->size_ == __CPROVER_old(self->states_->size_) && self->states_->nls_size == __CPROVER_old(self->states_->nls_size))
__CPROVER_ensures(W_(track_ids) == __CPROVER_old(W_(track_ids)) && W_(parent_ids) == __CPROVER_old(W_(parent_ids)) && W_(event_ids) == __CPROVER_old(W_(event_ids)) && W_(num_steps) == __CPROVER_old(W_(num_steps))
   && W_(num_looping_steps) == __CPROVER_old(W_(num_looping_steps)) && W_(status) == __CPROVER_old(W_(status)) && W_(post_step_action) == __CPROVER_old(W_(post_step_action)) && W_(along_step_action) == __CPROVER_old(W_(along_step_action)))
{""" + pc.body + """}
void h_sim_init(void)
{
    SimStateRef st; SimTrackViewR v; v.states_ = &st; SimTrackInitializer init;
    STVR_init(&v, &init);
    VERIF_CANARY();
}
""")


# ---- TimeUpdater / TrackUpdater / PropagationApplier on the view model --------
C05_STUBS = """
/* additional view members used by the along-step helpers */
real_type PTV_speed(ParticleTrackView const* self)      /* native_value_from(particle.speed()): beta*c >= 0, finite (assumed; sqrt inside) */
__CPROVER_requires(VIEW_OK(self))
__CPROVER_assigns()
__CPROVER_ensures(__CPROVER_return_value >= 0 && !__CPROVER_isinfd(__CPROVER_return_value))
;
/* add_time(d): own EXPECT d >= 0; time += d   [enforced: c05_stv_add_time] */
void STV_add_time(SimTrackView* self, real_type delta)
__CPROVER_requires(VIEW_OK(self) && delta >= 0)
__CPROVER_assigns(self->t->time)
__CPROVER_ensures(self->t->time == __CPROVER_old(self->t->time) + delta)
;
/* increment_num_steps   [enforced: c05_stv_increment_num_steps] */
void STV_increment_num_steps(SimTrackView* self)
__CPROVER_requires(VIEW_OK(self))
__CPROVER_assigns(self->t->num_steps)
__CPROVER_ensures(self->t->num_steps == __CPROVER_old(self->t->num_steps) + 1)
;
/* step_length(l): own EXPECT l > 0   [enforced: c05_stv_step_length_set] */
void STV_step_length_set(SimTrackView* self, real_type length)
__CPROVER_requires(VIEW_OK(self) && length > 0)
__CPROVER_assigns(self->t->step_length)
__CPROVER_ensures(self->t->step_length == length)
;
"""

TIU_RULES = Q_RULES + [
    Rule(r"auto sim = track\.make_sim_view\(\);", "SimTrackView sim = CTV_make_sim_view(track);", 1, note="typed view handle"),
    Rule(r"auto particle = track\.make_particle_view\(\);", "ParticleTrackView particle = CTV_make_particle_view(track);", 1, note="typed view handle"),
    Rule(r"native_value_from\(particle\.speed\(\)\)", "PTV_speed(&particle)", 1, note="Quantity -> native value; view call -> stub"),
    Rule(r"sim\.status\(\)", "STV_status(&sim)", "*", note="view call"),
    Rule(r"sim\.step_length\(\)", "STV_step_length(&sim)", "*", note="view call"),
    Rule(r"sim\.add_time\(", "STV_add_time(&sim, ", "*", note="view call"),
    Rule(r"TrackStatus::(\w+)", r"TS_\1", "*", note="enum class value (bound)"),
]


def build_time_updater(ctx):
    pc = ctx.func(TIU, r"CELER_FUNCTION void TimeUpdater::operator\(\)\(CoreTrackView const& track\)", TIU_RULES, name="TimeUpdater::operator()")
    return (VHDR + C05_STUBS + """
void TIU_call(CoreTrackView const* track)
__CPROVER_requires(VIEW_OK(track) && track->t->step_length >= 0 && !__CPROVER_isinfd(track->t->step_length) && track->t->time >= 0 && !__CPROVER_isinfd(track->t->time))
__CPROVER_assigns(track->t->time)
/* time never decreases; an errored track's clock is left alone */
__CPROVER_ensures(track->t->time >= __CPROVER_old(track->t->time))
__CPROVER_ensures(track->t->status == TS_errored ==> track->t->time == __CPROVER_old(track->t->time))
{""" + pc.body + """}
void h_tiu(void)
{
    Track t; CoreTrackView v = {&t};
    TIU_call(&v);
    VERIF_CANARY();
}
""")


TRU_RULES = Q_RULES + [
    Rule(r"auto sim = track\.make_sim_view\(\);", "SimTrackView sim = CTV_make_sim_view(track);", 1, note="typed view handle"),
    Rule(r"auto phys = track\.make_physics_view\(\);", "PhysicsTrackView phys = CTV_make_physics_view(track);", 1, note="typed view handle"),
    Rule(r"auto step = track\.make_physics_step_view\(\);", "PhysicsStepView step = CTV_make_physics_step_view(track);", 1, note="typed view handle"),
    Rule(r"track\.make_particle_view\(\)\.is_stopped\(\)", "(track->t->energy == 0)", "*", note="temporary view: is_stopped()"),
    Rule(r"CELER_ASSERT\(sim\.post_step_action\(\)\);", "CELER_ASSERT(STV_post_step_action(&sim) != INVALID_ID);", "*", note="OpaqueId::operator bool"),
    Rule(r"!CELERITAS_DEBUG", "1 /* !CELERITAS_DEBUG (bound: 0) */", "*", note="CELERITAS_DEBUG == 0 (bound in bindings.cc)"),
    Rule(r"CELER_ASSERT\(mfp > 0\);", "/* NOT PROMOTED: CELER_ASSERT(mfp > 0) -- see DESIGN.md (1-ulp corner of step*xs vs mfp) */", (0, 1), note="in-body assert not promoted (does not hold under the pre-step contract in floating point); listed in evidence"),
    Rule(r"phys\.scalars\(\)\.discrete_action\(\)", "track->t->discrete_action", "*", note="scalars().discrete_action()"),
    Rule(r"track\.tracking_cut_action\(\)", "CTV_tracking_cut_action(track)", "*", note="CoreTrackView member"),
    Rule(r"phys\.interaction_mfp\(\)", "track->t->interaction_mfp", "*", note="view read"),
    Rule(r"phys\.interaction_mfp\(mfp\);", "track->t->interaction_mfp = mfp; /* PhysicsTrackView::interaction_mfp(real_type) setter (own EXPECT mfp > 0 not promoted, see above) */", "*", note="view setter"),
    Rule(r"step\.macro_xs\(\)", "track->t->macro_xs", "*", note="view read"),
    Rule(r"sim\.status\(\)", "STV_status(&sim)", "*", note="view call"),
    Rule(r"sim\.step_length\(\)", "STV_step_length(&sim)", "*", note="view call"),
    Rule(r"sim\.post_step_action\(\)", "STV_post_step_action(&sim)", "*", note="view call"),
    Rule(r"sim\.increment_num_steps\(\);", "STV_increment_num_steps(&sim);", "*", note="view call"),
    Rule(r"TrackStatus::(\w+)", r"TS_\1", "*", note="enum class value (bound)"),
]


def build_track_updater(ctx):
    pc = ctx.func(TRU, r"CELER_FUNCTION void TrackUpdater::operator\(\)\(CoreTrackView const& track\)", TRU_RULES, name="TrackUpdater::operator()")
    return (VHDR + C05_STUBS + """
#define T0(f) __CPROVER_old(track->t->f)
void TRU_call(CoreTrackView const* track)
__CPROVER_requires(VIEW_OK(track))
__CPROVER_requires(track->t->status == TS_alive ==> ((track->t->step_length > 0 || track->t->energy == 0) && track->t->post_step_action != INVALID_ID))   /* state after the along-step helpers */
__CPROVER_assigns(track->t->interaction_mfp, track->t->num_steps)
/* steps are numbered consecutively: +1 unless the track errored inside the kernel */
__CPROVER_ensures(track->t->num_steps == T0(num_steps) + (track->t->status == TS_errored ? 0 : 1))
/* the remaining mean free path is reduced by step * cross-section exactly when the track is alive and the discrete interaction was NOT selected */
__CPROVER_ensures((track->t->status == TS_alive && track->t->post_step_action != track->t->discrete_action)
                      ? track->t->interaction_mfp == T0(interaction_mfp) - track->t->step_length * track->t->macro_xs
                      : track->t->interaction_mfp == T0(interaction_mfp))
{""" + pc.body + """}
void h_tru(void)
{
    Track t; CoreTrackView v = {&t};
    __CPROVER_assume(!__CPROVER_isnand(t.interaction_mfp) && !__CPROVER_isnand(t.step_length) && !__CPROVER_isnand(t.macro_xs) && !__CPROVER_isinfd(t.interaction_mfp) && !__CPROVER_isinfd(t.step_length) && !__CPROVER_isinfd(t.macro_xs));
    __CPROVER_assume(!__CPROVER_isinfd(t.step_length * t.macro_xs));
    TRU_call(&v);
    VERIF_CANARY();
}
""")


PRA_STUBS = """
typedef struct { real_type distance; bool boundary; bool looping; } Propagation;
typedef struct { CoreTrackView* track; } Propagator;
bool g_can_loop;   /* ghost: what tracks_can_loop() answers (false for the linear propagator, true in a field) */
Propagation g_p;   /* ghost: the propagation result */
static Propagator MP_make(CoreTrackView* track) { Propagator p = {track}; return p; }
/* contract of the propagator (LinearPropagator / FieldPropagator, property C08): travelled distance in (0, step]; flags as documented */
Propagation PROP_call(Propagator* self, real_type step)
__CPROVER_requires(self != 0 && step > 0)
__CPROVER_assigns(g_p)
__CPROVER_ensures(__CPROVER_return_value.distance > 0 && __CPROVER_return_value.distance <= step)
__CPROVER_ensures(g_p.distance == __CPROVER_return_value.distance && g_p.boundary == __CPROVER_return_value.boundary && g_p.looping == __CPROVER_return_value.looping)
__CPROVER_ensures(!(__CPROVER_return_value.boundary && __CPROVER_return_value.looping))
;
static bool PROP_tracks_can_loop(Propagator const* self) { return g_can_loop; }
void STV_update_looping(SimTrackView* self, bool is_looping)
__CPROVER_requires(VIEW_OK(self))
__CPROVER_assigns()
__CPROVER_ensures(1)
;
bool PTV_is_stable(ParticleTrackView const* self) __CPROVER_requires(VIEW_OK(self)) __CPROVER_assigns() __CPROVER_ensures(1);
bool STV_is_looping(SimTrackView* self, size_type pid, real_type energy) __CPROVER_requires(VIEW_OK(self)) __CPROVER_assigns() __CPROVER_ensures(1);
"""

PRA_RULES = [
    StripPP(r"CELERITAS_DEBUG", fires=2, note="`#if CELERITAS_DEBUG` blocks dropped (CELERITAS_DEBUG == 0, bound)"),
    StripPP(r"!CELER_DEVICE_COMPILE", keep_else=False, fires="*", note="host logging block dropped (no effect on state)"),
] + Q_RULES + [
    Rule(r"auto sim = track\.make_sim_view\(\);", "SimTrackView sim = CTV_make_sim_view(track);", 1, note="typed view handle"),
    Rule(r"track\.make_particle_view\(\)\.is_stopped\(\)", "(track->t->energy == 0)", "*", note="temporary view: is_stopped()"),
    Rule(r"track\.make_physics_view\(\)\.scalars\(\)\.discrete_action\(\)", "track->t->discrete_action", "*", note="temporary view"),
    Rule(r"track\.make_physics_view\(\)\.has_at_rest\(\)", "track->t->has_at_rest", "*", note="temporary view"),
    Rule(r"Propagation p;", "Propagation p = {0, 0, 0};", 1, note="default member initializers"),
    Rule(r"auto propagate = make_propagator\(track\);", "Propagator propagate = MP_make(track);", 1, note="MP functor -> stub"),
    Rule(r"p = propagate\(sim\.step_length\(\)\);", "p = PROP_call(&propagate, STV_step_length(&sim));", 1, note="propagator call -> stub with the C08 contract"),
    Rule(r"propagate\.tracks_can_loop\(\)", "PROP_tracks_can_loop(&propagate)", 1, note="member call"),
    Rule(r"auto particle = track\.make_particle_view\(\);", "ParticleTrackView particle = CTV_make_particle_view(track);", "*", note="typed view handle"),
    Rule(r"particle\.is_stable\(\)", "PTV_is_stable(&particle)", "*", note="view call -> stub"),
    Rule(r"sim\.is_looping\(particle\.particle_id\(\), particle\.energy\(\)\)", "STV_is_looping(&sim, 0, PTV_energy(&particle))", "*", note="view call -> stub (any answer)"),
    Rule(r"sim\.update_looping\(", "STV_update_looping(&sim, ", "*", note="view call -> stub"),
    Rule(r"sim\.step_length\(\)", "STV_step_length(&sim)", "*", note="view call"),
    Rule(r"sim\.post_step_action\(\)", "STV_post_step_action(&sim)", "*", note="view call"),
    Rule(r"sim\.step_length\(", "STV_step_length_set(&sim, ", "*", note="view setter"),
    Rule(r"sim\.post_step_action\(", "STV_post_step_action_set(&sim, ", "*", note="view setter"),
    Rule(r"track\.(boundary_action|propagation_limit_action|tracking_cut_action)\(\)", r"CTV_\1(track)", "*", note="CoreTrackView member"),
    IIFE(["ActionId"]),
]


def build_propagation_applier(ctx):
    pc = ctx.func(PRA, r"^PropagationApplierBaseImpl<MP>::operator\(\)\(CoreTrackView& track\)", PRA_RULES, name="PropagationApplierBaseImpl<MP>::operator()")
    return (VHDR + C05_STUBS + PRA_STUBS + """
#define T0(f) __CPROVER_old(track->t->f)
void PRA_call(CoreTrackView* track)
__CPROVER_requires(VIEW_OK(track) && track->t->step_length >= 0 && !__CPROVER_isnand(track->t->step_length))
/* state at the start of the along-step: a zero-length step only for a stopped particle about to interact at rest (pre-step) */
__CPROVER_requires(track->t->step_length == 0 ==> (track->t->energy == 0 && track->t->post_step_action == track->t->discrete_action && track->t->has_at_rest))
__CPROVER_requires(track->t->boundary_action != INVALID_ID && track->t->propagation_limit_action != INVALID_ID && track->t->tracking_cut_action != INVALID_ID)
__CPROVER_assigns(track->t->step_length, track->t->post_step_action, g_p)
/* the along-step may only shorten the physics step, never below zero; a zero step stays zero */
__CPROVER_ensures(track->t->step_length <= T0(step_length) && (T0(step_length) > 0 ? track->t->step_length > 0 : track->t->step_length == 0))
/* a shortened step carries a geometry/propagation action; an unshortened, non-boundary, non-looping step keeps the physics action */
__CPROVER_ensures(track->t->step_length < T0(step_length) ==> (track->t->post_step_action == track->t->boundary_action || track->t->post_step_action == track->t->propagation_limit_action || track->t->post_step_action == track->t->tracking_cut_action))
__CPROVER_ensures((T0(step_length) > 0 && g_p.boundary && !(g_can_loop && g_p.looping)) ==> (track->t->post_step_action == track->t->boundary_action && track->t->step_length == g_p.distance))
__CPROVER_ensures((T0(step_length) > 0 && !g_p.boundary && !(g_can_loop && g_p.looping) && g_p.distance == T0(step_length)) ==> track->t->post_step_action == T0(post_step_action))
__CPROVER_ensures(T0(step_length) == 0 ==> track->t->post_step_action == T0(post_step_action))
{""" + pc.body + """}
void h_pra(void)
{
    Track t; CoreTrackView v = {&t}; unsigned r; g_can_loop = (r != 0);
    unsigned r2; t.has_at_rest = (r2 != 0);
    PRA_call(&v);
    VERIF_CANARY();
}
""")


# ---- PreStepExecutor -------------------------------------------------------------
PRE = "src/celeritas/phys/detail/PreStepExecutor.hh"
PRE_STUBS = """
typedef struct { real_type step; ActionId action; } StepLimit;
size_type g_thread_id; ActionId g_neutral_action, g_user_action;   /* track.thread_id(), core_scalars().along_step_{neutral,user}_action */
unsigned g_cleared;          /* ghost: number of secondary-allocator clears */
unsigned g_draws;            /* ghost: RNG-consuming calls */
StepLimit g_limit;           /* ghost: what calc_physics_step_limit returned */
void SECALLOC_clear(void) __CPROVER_assigns(g_cleared) __CPROVER_ensures(g_cleared == __CPROVER_old(g_cleared) + 1);
/* reset_step_limit()   [enforced: c05_stv_reset_step_limit0] */
void STV_reset_step_limit0(SimTrackView* self)
__CPROVER_requires(VIEW_OK(self))
__CPROVER_assigns(self->t->step_length, self->t->post_step_action, self->t->along_step_action)
__CPROVER_ensures(self->t->step_length == __builtin_inf() && self->t->post_step_action == INVALID_ID && self->t->along_step_action == INVALID_ID)
;
/* reset_step_limit(sl): own EXPECTs   [enforced: c05_stv_reset_step_limit] */
void STV_reset_step_limit(SimTrackView* self, StepLimit sl)
__CPROVER_requires(VIEW_OK(self) && sl.step >= 0 && ((sl.action != INVALID_ID) != (sl.step == __builtin_inf())))
__CPROVER_assigns(self->t->step_length, self->t->post_step_action)
__CPROVER_ensures(self->t->step_length == sl.step && self->t->post_step_action == sl.action)
;
/* along_step_action(a)   [enforced: c05_stv_along_step_action_set] */
void STV_along_step_action_set(SimTrackView* self, ActionId action)
__CPROVER_requires(VIEW_OK(self))
__CPROVER_assigns(self->t->along_step_action)
__CPROVER_ensures(self->t->along_step_action == action)
;
/* reset_energy_deposition()   [enforced: c01_psv_reset] */
void PSV_reset_energy_deposition(PhysicsStepView* self) __CPROVER_requires(VIEW_OK(self)) __CPROVER_assigns(self->t->energy_deposition) __CPROVER_ensures(self->t->energy_deposition == 0);
bool g_sec_cleared;          /* ghost: the slot's secondaries span was reset to empty */
void PSV_secondaries_clear(PhysicsStepView* self) __CPROVER_requires(VIEW_OK(self)) __CPROVER_assigns(g_sec_cleared) __CPROVER_ensures(g_sec_cleared == 1);   /* step.secondaries({}) */
void PSV_element_clear(PhysicsStepView* self) __CPROVER_requires(VIEW_OK(self)) __CPROVER_assigns() __CPROVER_ensures(1);       /* outside this model */
static bool PHV_has_interaction_mfp(PhysicsTrackView const* self) { return self->t->interaction_mfp > 0; }   /* state().interaction_mfp > 0   [enforced: c05_phv_has_interaction_mfp] */
/* interaction_mfp(mfp): own EXPECT mfp > 0   [enforced: c05_phv_interaction_mfp_set] */
void PHV_interaction_mfp_set(PhysicsTrackView* self, real_type mfp)
__CPROVER_requires(VIEW_OK(self) && mfp > 0)
__CPROVER_assigns(self->t->interaction_mfp)
__CPROVER_ensures(self->t->interaction_mfp == mfp)
;
/* ExponentialDistribution: -log(u), u in [0,1): a value > 0 (possibly +inf); one draw (assumed) */
real_type EXP_sample(void) __CPROVER_assigns(g_draws) __CPROVER_ensures(__CPROVER_return_value > 0 && g_draws == __CPROVER_old(g_draws) + 1);
/* calc_physics_step_limit: requires a sampled MFP; returns a non-negative step with an action, or an infinite step without one (assumed here; see c05_calc_physics_step_limit) */
StepLimit CPSL_call(CoreTrackView const* track)
__CPROVER_requires(VIEW_OK(track) && track->t->interaction_mfp > 0)
__CPROVER_assigns(g_limit, track->t->macro_xs, track->t->dedx_range)
__CPROVER_ensures(__CPROVER_return_value.step >= 0 && ((__CPROVER_return_value.action != INVALID_ID) != (__CPROVER_return_value.step == __builtin_inf())))
__CPROVER_ensures(g_limit.step == __CPROVER_return_value.step && g_limit.action == __CPROVER_return_value.action)
;
"""
PRE_RULES = [
    StripPP(r"CELERITAS_DEBUG", fires=1, note="`#if CELERITAS_DEBUG` block dropped (CELERITAS_DEBUG == 0, bound)"),
] + Q_RULES + [
    Rule(r"track\.thread_id\(\) == ThreadId\{0\}", "g_thread_id == 0", 1, note="thread id"),
    Rule(r"auto alloc = track\.make_physics_step_view\(\)\.make_secondary_allocator\(\);", "", 1, note="allocator handle"),
    Rule(r"alloc\.clear\(\);", "SECALLOC_clear();", "*", note="StackAllocator::clear (contract enforced in c16_clear) -> stub counting the calls"),
    Rule(r"auto sim = track\.make_sim_view\(\);", "SimTrackView sim = CTV_make_sim_view(track);", 1, note="typed view handle"),
    Rule(r"auto step = track\.make_physics_step_view\(\);", "PhysicsStepView step = CTV_make_physics_step_view(track);", 1, note="typed view handle"),
    Rule(r"auto phys = track\.make_physics_view\(\);", "PhysicsTrackView phys = CTV_make_physics_view(track);", 1, note="typed view handle"),
    Rule(r"auto mat = track\.make_material_view\(\);", "", 1, note="material view only forwarded to calc_physics_step_limit"),
    Rule(r"auto particle = track\.make_particle_view\(\);", "ParticleTrackView particle = CTV_make_particle_view(track);", 1, note="typed view handle"),
    Rule(r"sim\.status\(\)", "STV_status(&sim)", "+", note="view call"),
    Rule(r"sim\.status\(TrackStatus::alive\);", "STV_status_set(&sim, TS_alive);", "*", note="view setter"),
    Rule(r"sim\.reset_step_limit\(\);", "STV_reset_step_limit0(&sim);", "*", note="view call"),
    Rule(r"sim\.reset_step_limit\(calc_physics_step_limit\(mat, particle, phys, step\)\);", "STV_reset_step_limit(&sim, CPSL_call(track));", 1, note="calc_physics_step_limit -> stub with contract"),
    Rule(r"step\.reset_energy_deposition\(\);", "PSV_reset_energy_deposition(&step);", "*", note="view call"),
    Rule(r"step\.secondaries\(\{\}\);", "PSV_secondaries_clear(&step);", "*", note="view call"),
    Rule(r"step\.element\(\{\}\);", "PSV_element_clear(&step);", "*", note="view call"),
    Rule(r"phys\.has_interaction_mfp\(\)", "PHV_has_interaction_mfp(&phys)", "*", note="view call"),
    Rule(r"auto rng = track\.make_rng_engine\(\);", "", 1, note="RNG handle"),
    Rule(r"ExponentialDistribution<real_type> sample_exponential;", "", 1, note="distribution object"),
    Rule(r"phys\.interaction_mfp\(sample_exponential\(rng\)\);", "PHV_interaction_mfp_set(&phys, EXP_sample());", "*", note="view setter; sampler -> stub"),
    Rule(r"\[&particle, &scalars = track\.core_scalars\(\)\]", "[&]", 1, note="lambda capture list"),
    IIFE(["ActionId"]),
    Rule(r"sim\.along_step_action\(", "STV_along_step_action_set(&sim, ", "*", note="view setter"),
    Rule(r"particle\.charge\(\)", "PTV_charge(&particle)", "*", note="view call"),
    Rule(r"scalars\.along_step_(neutral|user)_action", r"g_\1_action", 2, note="core scalars"),
    Rule(r"TrackStatus::(\w+)", r"TS_\1", "+", note="enum class value (bound)"),
]


def build_pre_step(ctx):
    pc = ctx.func(PRE, r"^PreStepExecutor::operator\(\)\(celeritas::CoreTrackView const& track\)", PRE_RULES, name="PreStepExecutor::operator()")
    return (VHDR + PRE_STUBS + """
#define T0(f) __CPROVER_old(track->t->f)
void PRE_call(CoreTrackView const* track)
__CPROVER_requires(VIEW_OK(track) && track->t->status >= 0 && track->t->status < 5 && track->t->status != TS_killed && !__CPROVER_isnand(track->t->interaction_mfp) && g_cleared == 0 && g_draws == 0 && !g_sec_cleared)
__CPROVER_assigns(g_cleared, g_draws, g_limit, g_sec_cleared, track->t->status, track->t->step_length, track->t->post_step_action, track->t->along_step_action, track->t->energy_deposition, track->t->interaction_mfp, track->t->macro_xs, track->t->dedx_range)
/* the shared secondary storage is cleared exactly once per step, by thread 0 only */
__CPROVER_ensures(g_cleared == (g_thread_id == 0 ? 1 : 0))
/* an empty slot stays empty and carries no limit and no actions; nothing is sampled for it */
__CPROVER_ensures(T0(status) == TS_inactive ==> (track->t->status == TS_inactive && track->t->step_length == __builtin_inf() && track->t->post_step_action == INVALID_ID && track->t->along_step_action == INVALID_ID && g_draws == 0))
/* status only moves forward: initializing/alive -> alive, errored stays errored */
__CPROVER_ensures((T0(status) == TS_initializing || T0(status) == TS_alive) ==> track->t->status == TS_alive)
__CPROVER_ensures(T0(status) == TS_errored ==> (track->t->status == TS_errored && g_draws == 0 && (__CPROVER_isnand(T0(step_length)) || track->t->step_length == T0(step_length))))
/* every occupied slot -- also one that failed to initialise -- starts its step with a zero local deposit and an EMPTY secondaries span
   (a stale span would be turned into tracks a second time by the track-initialisation kernels) */
__CPROVER_ensures(T0(status) != TS_inactive ==> (track->t->energy_deposition == 0 && g_sec_cleared))
/* a live track: an MFP is sampled only when none is left (and is then positive); the step limit for this step is exactly the physics limit */
__CPROVER_ensures(track->t->status == TS_alive ==> (track->t->interaction_mfp > 0 && (T0(interaction_mfp) > 0 ? (g_draws == 0 && track->t->interaction_mfp == T0(interaction_mfp)) : g_draws == 1)))
__CPROVER_ensures(track->t->status == TS_alive ==> (track->t->step_length == g_limit.step && track->t->post_step_action == g_limit.action && track->t->step_length >= 0))
/* along-step action by charge */
__CPROVER_ensures(track->t->status == TS_alive ==> track->t->along_step_action == (track->t->charge == 0 ? g_neutral_action : g_user_action))
{""" + pc.body + """}
void h_pre(void)
{
    Track t; CoreTrackView v = {&t};
    PRE_call(&v);
    VERIF_CANARY();
}
""")


# ---- calc_physics_step_limit -------------------------------------------------------
PSU = "src/celeritas/phys/PhysicsStepUtils.hh"
CPSL_STUBS = """
typedef struct { real_type step; ActionId action; } StepLimit;
#define NPROC 8
size_type g_nproc;                       /* physics.num_particle_processes() */
bool g_integral[NPROC];                  /* whether process p uses the integral approach (any) */
real_type g_xs[NPROC];                   /* ghost: the cross section each calculator returns for process p (any non-negative finite value) */
real_type g_stored[NPROC];               /* pstep.per_process_xs(p) */
real_type g_range, g_eloss_step, g_fixed; ActionId g_fixed_action;
static size_type PHV_num_particle_processes(PhysicsTrackView const* self) { return g_nproc; }
static bool PHV_integral_xs_process(PhysicsTrackView const* self, size_type ppid) { __CPROVER_assert(ppid < g_nproc, "celer_expect: ppid < num_particle_processes"); return g_integral[ppid]; }
static real_type PHV_calc_max_xs(PhysicsTrackView const* self, size_type ppid) { __CPROVER_assert(ppid < g_nproc && g_integral[ppid], "PHV_calc_max_xs.precondition: integral process"); return g_xs[ppid]; }
static real_type PHV_calc_xs(PhysicsTrackView const* self, size_type ppid) { __CPROVER_assert(ppid < g_nproc, "celer_expect: ppid < num_particle_processes"); return g_xs[ppid]; }
static void PSV_per_process_xs_set(PhysicsStepView* self, size_type ppid, real_type xs) { __CPROVER_assert(ppid < g_nproc, "celer_expect: ppid < num_particle_processes"); g_stored[ppid] = xs; }
static void PSV_macro_xs_set(PhysicsStepView* self, real_type xs) { __CPROVER_assert(xs >= 0, "celer_expect: PhysicsStepView::macro_xs(xs) xs >= 0"); self->t->macro_xs = xs; }
static real_type PHV_interaction_mfp(PhysicsTrackView const* self) { return self->t->interaction_mfp; }
static real_type RANGE_calc(PhysicsTrackView const* self, size_type ppid, real_type energy) { __CPROVER_assert(ppid != INVALID_ID && energy > 0, "RangeCalculator precondition: valid process, energy > 0"); return g_range; }
static void PHV_dedx_range_set(PhysicsTrackView* self, real_type r) { __CPROVER_assert(r > 0, "celer_expect: PhysicsTrackView::dedx_range(r) r > 0"); self->t->dedx_range = r; }
/* range_to_step: own ASSERT range >= 0; 0 < step <= range (its CELER_ENSURE; nonlinear FP, assumed) */
static real_type PHV_range_to_step(PhysicsTrackView const* self, real_type range) { __CPROVER_assert(range >= 0, "celer_assert: range_to_step range >= 0"); return g_eloss_step; }
/* IEEE division lemma (assumed): a > 0, b >= 0  =>  a / b >= 0 (possibly +inf), and b == 0 => a / b == +inf */
real_type FDIV_pos(real_type a, real_type b)
__CPROVER_requires(a > 0 && b >= 0)
__CPROVER_assigns()
__CPROVER_ensures(__CPROVER_return_value >= 0 && (b == 0 ==> __CPROVER_return_value == __builtin_inf()))
;
"""
CPSL_RULES = Q_RULES + [
    Rule(r"using VGT = ValueGridType;", "", 1, note="enum alias dropped"),
    Rule(r"for \(auto ppid : range\(ParticleProcessId\{physics\.num_particle_processes\(\)\}\)\)", "for (size_type ppid = 0; ppid < PHV_num_particle_processes(physics); ++ppid)", 1, note="range-for over OpaqueId range -> counting loop"),
    Rule(r"if \(auto const& process = physics\.integral_xs_process\(ppid\)\)", "if (PHV_integral_xs_process(physics, ppid))", 1, note="if-with-declaration on an optional process record"),
    Rule(r"physics\.calc_max_xs\(\s*process, ppid, material\.make_material_view\(\), particle\.energy\(\)\)", "PHV_calc_max_xs(physics, ppid)", 1, note="cross-section calculator -> stub (any non-negative finite value)"),
    Rule(r"physics\.calc_xs\(\s*ppid, material\.make_material_view\(\), particle\.energy\(\)\)", "PHV_calc_xs(physics, ppid)", 1, note="cross-section calculator -> stub (any non-negative finite value)"),
    Rule(r"pstep\.per_process_xs\(ppid\) = process_xs;", "PSV_per_process_xs_set(pstep, ppid, process_xs);", "*", note="reference-returning accessor -> setter"),
    Rule(r"pstep\.macro_xs\(total_macro_xs\);", "PSV_macro_xs_set(pstep, total_macro_xs);", "*", note="view setter"),
    Rule(r"CELER_ASSERT\(total_macro_xs > 0 \|\| !particle\.is_stopped\(\)\);", "/* NOT PROMOTED: CELER_ASSERT(total_macro_xs > 0 || !particle.is_stopped()) -- a stopped particle has an at-rest process with positive cross section (data) */", (0, 1), note="in-body assert not promoted (depends on process data)"),
    Rule(r"StepLimit limit;", "StepLimit limit = {0, INVALID_ID};", 1, note="default member initializers"),
    Rule(r"physics\.scalars\(\)\.(discrete|range)_action\(\)", r"physics->t->\1_action", "*", note="scalars accessor"),
    Rule(r"physics\.scalars\(\)\.fixed_step_limiter", "g_fixed", "*", note="scalars field"),
    Rule(r"physics\.scalars\(\)\.fixed_step_action", "g_fixed_action", "*", note="scalars field"),
    Rule(r"particle\.is_stopped\(\)", "PTV_is_stopped(particle)", "*", note="view call"),
    Rule(r"physics\.interaction_mfp\(\) / total_macro_xs", "FDIV_pos(PHV_interaction_mfp(physics), total_macro_xs)", 1, note="FP division -> assumed IEEE lemma"),
    Rule(r"if \(auto ppid = physics\.eloss_ppid\(\)\)", "size_type ppid = PHV_eloss_ppid(physics);\n        if (ppid != INVALID_ID)", 1, note="if-with-declaration on an OpaqueId"),
    Rule(r"auto grid_id = physics\.value_grid\(VGT::range, ppid\);", "", 1, note="grid id only forwarded to the calculator"),
    Rule(r"auto calc_range = physics\.make_calculator<RangeCalculator>\(grid_id\);", "", 1, note="calculator object"),
    Rule(r"calc_range\(particle\.energy\(\)\)", "RANGE_calc(physics, ppid, PTV_energy(particle))", 1, note="RangeCalculator call -> stub (body under contract in c14_range_call)"),
    Rule(r"physics\.dedx_range\(range\);", "PHV_dedx_range_set(physics, range);", "*", note="view setter"),
    Rule(r"physics\.range_to_step\(range\)", "PHV_range_to_step(physics, range)", 1, note="view call -> stub with its CELER_ENSURE as contract"),
    Rule(r"physics\.num_particle_processes\(\)", "PHV_num_particle_processes(physics)", "*", note="view call"),
    Rule(r"limit\.action = \{\};", "limit.action = INVALID_ID;", 1, note="default OpaqueId"),
    Rule(r"physics\.has_interaction_mfp\(\)", "(physics->t->interaction_mfp > 0)", 1, note="view call (body: interaction_mfp > 0)"),
    LoopContracts([
        "    __CPROVER_assigns(ppid, total_macro_xs, __CPROVER_object_whole(g_stored))\n"
        "    __CPROVER_loop_invariant(ppid <= g_nproc && total_macro_xs == SUMSPEC(ppid) && total_macro_xs >= 0 && total_macro_xs <= BOUND(ppid))\n"
        "    __CPROVER_loop_invariant(g_nproc == 0 ==> total_macro_xs == 0)\n"
        "    __CPROVER_loop_invariant(g_w < ppid ==> g_stored[g_w] == g_xs[g_w])\n"
        "    __CPROVER_decreases(g_nproc - ppid)\n"]),
]


def build_cpsl(ctx):
    pc = ctx.func(PSU, r"^calc_physics_step_limit\(MaterialTrackView const& material,", CPSL_RULES, name="calc_physics_step_limit")
    return (VHDR + CPSL_STUBS + """
size_type g_w;   /* ghost witness process */
/* the specified total: the left fold 0 + xs[0] + xs[1] + ... in the code's own floating-point order */
#define S1 (0.0 + g_xs[0])
#define S2 (S1 + g_xs[1])
#define S3 (S2 + g_xs[2])
#define S4 (S3 + g_xs[3])
#define S5 (S4 + g_xs[4])
#define S6 (S5 + g_xs[5])
#define S7 (S6 + g_xs[6])
#define S8 (S7 + g_xs[7])
#define SUMSPEC(p) ((p) == 0 ? 0.0 : (p) == 1 ? S1 : (p) == 2 ? S2 : (p) == 3 ? S3 : (p) == 4 ? S4 : (p) == 5 ? S5 : (p) == 6 ? S6 : (p) == 7 ? S7 : S8)
#define XS_OK(i) (g_xs[i] >= 0 && g_xs[i] <= 0x1p990)
/* p * 2^990 (exact) */
#define BOUND(p) ((p) == 0 ? 0.0 : (p) == 1 ? 0x1p990 : (p) == 2 ? 0x1p991 : (p) == 3 ? 0x1.8p991 : (p) == 4 ? 0x1p992 : (p) == 5 ? 0x1.4p992 : (p) == 6 ? 0x1.8p992 : (p) == 7 ? 0x1.cp992 : 0x1p993)
StepLimit CPSL_call(ParticleTrackView const* particle, PhysicsTrackView* physics, PhysicsStepView* pstep)
__CPROVER_requires(VIEW_OK(particle) && VIEW_OK(physics) && VIEW_OK(pstep) && physics->t == particle->t && pstep->t == particle->t)
__CPROVER_requires(physics->t->interaction_mfp > 0)        /* own CELER_EXPECT: has_interaction_mfp() */
__CPROVER_requires(g_nproc <= NPROC && g_w < NPROC && particle->t->energy >= 0)
/* cross sections: non-negative, bounded (so that their sum is finite) */
__CPROVER_requires(XS_OK(0) && XS_OK(1) && XS_OK(2) && XS_OK(3) && XS_OK(4) && XS_OK(5) && XS_OK(6) && XS_OK(7))
/* range table / range_to_step contracts (assumed): range > 0, 0 < step <= range */
__CPROVER_requires(g_range > 0 && g_eloss_step > 0 && g_eloss_step <= g_range && !__CPROVER_isnand(g_fixed))
__CPROVER_requires(physics->t->discrete_action != INVALID_ID && physics->t->range_action != INVALID_ID && g_fixed_action != INVALID_ID)
__CPROVER_assigns(__CPROVER_object_whole(g_stored), physics->t->macro_xs, physics->t->dedx_range)
/* the total stored for the step is the sum over this particle's processes; each process's own value is stored under its id */
__CPROVER_ensures(pstep->t->macro_xs == SUMSPEC(g_nproc) && pstep->t->macro_xs >= 0)
__CPROVER_ensures(g_w < g_nproc ==> g_stored[g_w] == g_xs[g_w])
/* a stopped particle interacts at rest: zero step, discrete action */
__CPROVER_ensures(particle->t->energy == 0 ==> (__CPROVER_return_value.step == 0 && __CPROVER_return_value.action == physics->t->discrete_action))
/* otherwise the limit is never negative and never exceeds any of the competing limits */
__CPROVER_ensures(__CPROVER_return_value.step >= 0)
__CPROVER_ensures((particle->t->energy != 0 && physics->t->eloss_ppid != INVALID_ID) ==> (__CPROVER_return_value.step <= g_eloss_step && physics->t->dedx_range == g_range
      && ((g_fixed > 0) ==> __CPROVER_return_value.step <= g_fixed)))
/* the action names the limit that won: range action => the step is the continuous-loss step; fixed action => the fixed limit */
__CPROVER_ensures((particle->t->energy != 0 && __CPROVER_return_value.action == physics->t->range_action && physics->t->range_action != physics->t->discrete_action && physics->t->range_action != g_fixed_action) ==> __CPROVER_return_value.step == g_eloss_step)
__CPROVER_ensures((particle->t->energy != 0 && __CPROVER_return_value.action == g_fixed_action && g_fixed_action != physics->t->discrete_action && g_fixed_action != physics->t->range_action) ==> __CPROVER_return_value.step == g_fixed)
/* an action is missing only for a particle without processes, and then the step is infinite (what SimTrackView::reset_step_limit expects) */
__CPROVER_ensures(__CPROVER_return_value.action == INVALID_ID ==> (g_nproc == 0 && particle->t->energy != 0 && __CPROVER_return_value.step == __builtin_inf()))
{""" + pc.body + """}
void h_cpsl(void)
{
    Track t; ParticleTrackView pa = {&t}; PhysicsTrackView ph = {&t}; PhysicsStepView ps = {&t};
    for (unsigned i = 0; i < NPROC; ++i) { unsigned b; g_integral[i] = (b != 0); }
    CPSL_call(&pa, &ph, &ps);
    VERIF_CANARY();
}
""")


LEAF_CHECKS = ["--bounds-check", "--pointer-check"]
UNITS = [
    Unit("c05_stv_init", build_sim_init, "h_sim_init", enforce="STVR_init", timeout=120, backend=["sat", "cvc5"], must_have=[r"STVR_init.postcondition", r"celer_expect"], checks=LEAF_CHECKS,
         note="SimTrackView::operator=(Initializer): the slot takes the initializer's ids and time, its step counter restarts at 0 (with or without looping counters), status initializing, no stale limit/actions; no other slot touched"),
] + [
    Unit("c05_stv_" + nm, build_sim(nm), "h_sim", enforce=SIM_OPS[nm][1].split("(")[0].split()[-1], timeout=120, backend=["sat", "cvc5"],
         must_have=[r"postcondition"], checks=LEAF_CHECKS, note="SimTrackView::%s on the real state layout" % nm)
    for nm in SIM_OPS
] + [
    Unit("c05_time_updater", build_time_updater, "h_tiu", enforce="TIU_call", replace=["PTV_speed", "STV_add_time"], timeout=300, backend=["sat", "cvc5"],
         must_have=[r"TIU_call.postcondition", r"celer_assert", r"STV_add_time.precondition"], checks=LEAF_CHECKS,
         assumptions=["ParticleTrackView::speed() >= 0 and finite (sqrt inside; assumed)"],
         note="TimeUpdater: t' >= t, add_time's precondition (delta >= 0) holds at the call site"),
    Unit("c05_track_updater", build_track_updater, "h_tru", enforce="TRU_call", replace=["STV_increment_num_steps"], timeout=300, backend=["sat", "cvc5"],
         must_have=[r"TRU_call.postcondition", r"celer_assert"], checks=LEAF_CHECKS,
         assumptions=["NOT PROMOTED: TrackUpdater's CELER_ASSERT(mfp > 0) (and interaction_mfp(mfp)'s EXPECT): step*xs < mfp does not follow in floating point from step < mfp/xs (1-ulp corner); stated, not proved"],
         note="TrackUpdater: step counter +1 iff not errored; remaining MFP reduced by step*xs exactly when alive and the discrete action is not selected"),
    Unit("c05_propagation_applier", build_propagation_applier, "h_pra", enforce="PRA_call",
         replace=["PROP_call", "STV_update_looping", "PTV_is_stable", "STV_is_looping", "STV_step_length_set", "STV_post_step_action_set"], timeout=300, backend=["sat", "cvc5"],
         must_have=[r"PRA_call.postcondition", r"celer_assert", r"STV_step_length_set.precondition", r"PROP_call.precondition"], checks=LEAF_CHECKS,
         assumptions=["propagator satisfies the C08 contract 0 < distance <= step (for the field propagator 'up to rounding' is NOT decided)", "`#if CELERITAS_DEBUG` blocks compiled out"],
         note="PropagationApplier: 0 < len' <= len; shortened => boundary/propagation-limit/tracking-cut action; boundary flag => boundary action with len' = distance; zero-length step untouched; in-body CELER_ASSERTs hold"),
    Unit("c05_pre_step", build_pre_step, "h_pre", enforce="PRE_call", object_bits=10,
         replace=["SECALLOC_clear", "STV_reset_step_limit0", "STV_reset_step_limit", "STV_along_step_action_set", "STV_status_set", "PSV_reset_energy_deposition", "PSV_secondaries_clear", "PSV_element_clear", "PHV_interaction_mfp_set", "EXP_sample", "CPSL_call"],
         timeout=300, backend=["sat", "cvc5"],
         must_have=[r"PRE_call.postcondition", r"celer_assert", r"CPSL_call.precondition", r"STV_reset_step_limit.precondition", r"PHV_interaction_mfp_set.precondition"], checks=LEAF_CHECKS,
         assumptions=["calc_physics_step_limit returns step >= 0 with (action valid) xor (step == inf) (assumed; its body is under contract in c05_calc_physics_step_limit for the clauses stated there)", "ExponentialDistribution returns a value > 0 (-log of a canonical in [0,1))", "`#if CELERITAS_DEBUG` block compiled out"],
         note="PreStepExecutor: secondary storage cleared once by thread 0; inactive slots untouched apart from the limit reset; status initializing/alive -> alive, errored stays; deposit reset; MFP sampled only when exhausted; step limit := physics limit; along-step action by charge; callee preconditions hold"),
    Unit("c05_calc_physics_step_limit", build_cpsl, "h_cpsl", enforce="CPSL_call", replace=["FDIV_pos"], loop_contracts=True, timeout=600, backend=["sat", "kissat", "cvc5"], object_bits=10, unwind=9,
         must_have=[r"CPSL_call.postcondition", r"loop_invariant_step", r"celer_expect", r"FDIV_pos.precondition", r"PHV_calc_max_xs.precondition"], checks=LEAF_CHECKS,
         assumptions=["cross-section calculators return non-negative bounded values; RangeCalculator > 0; range_to_step 0 < step <= range (its CELER_ENSURE; nonlinear FP)", "IEEE division lemma a>0,b>=0 => a/b>=0, b==0 => +inf (assumed)",
                      "NOT PROMOTED: CELER_ASSERT(total_macro_xs > 0 || !is_stopped) (process data)", "an infinite sampled MFP (u == 0) or an overflowing mfp/xs gives an infinite step WITH an action: reset_step_limit's debug-only EXPECT is not provable there; stated, not decided"],
         note="calc_physics_step_limit: macro xs = sum over processes (any number <= 8 by loop contract), per-process values stored under their ids; stopped => zero step with the discrete action; otherwise 0 <= step <= continuous-loss step and <= fixed limit, action names the winning limit; no action only for a particle without processes (infinite step)"),
]


# ---------------------------------------------------------------------------
# UrbanMscSafetyStepLimit: the MSC true path limit never exceeds the physics step limit
# ---------------------------------------------------------------------------
from vkit.extract import init_list, ExtractionDrift  # noqa: E402
from units.c14 import algo_min_clamp  # noqa: E402

USL = "src/celeritas/em/msc/detail/UrbanMscSafetyStepLimit.hh"
USL_MODEL = """
#include <math.h>
typedef struct { real_type range_init, range_factor, limit_min; } MscRange;      /* { range_init{}, range_factor{}, limit_min{} } */
typedef struct { real_type max_step_, limit_min_, limit_; } UrbanMscSafetyStepLimit;
typedef struct Engine Engine;
#define MSCR_VALID(r) ((r)->range_init > 0 && (r)->range_factor > 0 && (r)->limit_min > 0)    /* MscRange::operator bool */
bool g_safety_plus;                      /* physics->scalars().step_limit_algorithm == safety_plus */
real_type g_range, g_mfp, g_helper_max_step, g_range_factor, g_lambda_limit, g_safety_factor, g_limit_min_fix;   /* dedx_range(), helper_.msc_mfp(), helper_.max_step(), scalars, params */
MscRange g_msc_range;                    /* physics->msc_range(): the track's cached MSC range (a reference into the physics state) */
double __CPROVER_uninterpreted_any2(double, double);
double __CPROVER_uninterpreted_any4(double, double, double, double);
/* calc_limit_min: ends with max(xm, limit_min_fix), so the result is >= limit_min_fix (its polynomial / FP part is not decided) */
real_type CLM_call(UrbanMscSafetyStepLimit const* self) __CPROVER_assigns() __CPROVER_ensures(__CPROVER_return_value >= g_limit_min_fix);
/* NormalDistribution sample: any value that is not NaN */
real_type GAUSS_sample(real_type mean, real_type stddev, Engine* rng) __CPROVER_assigns() __CPROVER_ensures(!__CPROVER_isnand(__CPROVER_return_value));
#define NN(x) (!__CPROVER_isnand(x))
"""
USL_RULES = Q_RULES + [
    Rule(r"physics->scalars\(\)\.step_limit_algorithm\s*==\s*MscStepLimitAlgorithm::safety_plus", "g_safety_plus", "*", note="scalars option"),
    Rule(r"physics->dedx_range\(\)", "g_range", "*", note="view read"),
    Rule(r"auto const& msc_range = physics->msc_range\(\);", "MscRange const* msc_range = &g_msc_range;", "*", note="reference into the physics state"),
    Rule(r"!msc_range\b", "!MSCR_VALID(msc_range)", "*", note="MscRange::operator bool"),
    Rule(r"CELER_ASSERT\(msc_range\);", "/* NOT PROMOTED: CELER_ASSERT(msc_range) -- positivity of the FP-scaled range factor */", "*", note="in-body assert not promoted (FP products)"),
    Rule(r"MscRange new_range;", "MscRange new_range = {0, 0, 0};", "*", note="default member initializers"),
    Rule(r"physics->scalars\(\)\.(range_factor|lambda_limit|safety_factor)", r"g_\1", "*", note="scalars field"),
    Rule(r"helper_\.msc_mfp\(\)", "g_mfp", "*", note="helper accessor"),
    Rule(r"helper_\.max_step\(\)", "g_helper_max_step", "*", note="helper accessor"),
    Rule(r"shared_\.params\.limit_min_fix\(\)", "g_limit_min_fix", "*", note="params accessor"),
    Rule(r"max<real_type>\(", "fmax(", "*", note="celeritas::max<floating> == std::fmax"),
    Rule(r"(?<![\w_])min\(", "celer_min(", "*", note="celeritas::min"),
    Rule(r"(?<![\w_])clamp\(", "celer_clamp(", "*", note="celeritas::clamp (extracted)"),
    Rule(r"new_range\.range_factor \*= [^;]*;", "new_range.range_factor = __CPROVER_uninterpreted_any4(new_range.range_factor, c, g_mfp, g_lambda_limit);", "*", note="FP scaling of the range factor -> uninterpreted (value not decided)"),
    Rule(r"this->calc_limit_min\(shared_\.material_data\[matid\], inc_energy\)", "CLM_call(self)", "*", note="member call -> stub (its final max is its contract)"),
    Rule(r"physics->msc_range\(new_range\);", "g_msc_range = new_range;", "*", note="view setter"),
    Rule(r"\bmsc_range\.", "msc_range->", "*", note="reference -> pointer"),
    Rule(r"UrbanMscSafetyStepLimit::min_range\(\)", "g_rho_", "*", note="constexpr constant (any positive value)"),
    Rule(r"UrbanMscSafetyStepLimit::max_step_over_range\(\)", "g_alpha_", "*", note="constexpr constant (any value)"),
    Rule(r"real_type limit_step = [^;]*;", "real_type limit_step = __CPROVER_uninterpreted_any2(alpha, range); __CPROVER_assume(limit_step > 0);", "*", note="scaled step range (nonlinear FP) -> uninterpreted POSITIVE value (alpha r + rho (1 - alpha)(2 - rho/r) > 0 for r > rho; not decided)"),
    Rule(r"NormalDistribution<real_type> sample_gauss\(\s*([^;]*?),\s*([^;,]*)\);", r"real_type gauss_mean_ = \1, gauss_sd_ = \2;", "*", note="distribution construction -> its two arguments"),
    Rule(r"sample_gauss\(rng\)", "GAUSS_sample(gauss_mean_, gauss_sd_, rng)", "*", note="normal sample -> stub (any value)"),
    Rule(r"real_type\(0\.1\)", "((real_type)0.1)", "*", note="functional cast"),
    Rule(r"(?<![\w.>])(max_step_|limit_min_|limit_)\b", r"self->\1", "*", note="data members"),
]
USL_INV = "NN(self->max_step_) && NN(self->limit_) && NN(self->limit_min_) && self->limit_ >= self->limit_min_ && self->limit_min_ > 0 && self->max_step_ > 0"


def build_usl_call(ctx):
    pc = ctx.func(USL, r"CELER_FUNCTION real_type UrbanMscSafetyStepLimit::operator\(\)\(Engine& rng\)", USL_RULES, name="UrbanMscSafetyStepLimit::operator()")
    return (HDR + USL_MODEL + algo_min_clamp(ctx) + """
real_type USL_call(UrbanMscSafetyStepLimit const* self, Engine* rng)
/* class invariant established by the constructor (c05_msc_safety_limit_ctor) */
__CPROVER_requires(self != 0 && """ + USL_INV + """)
__CPROVER_assigns()
/* the true path length limit never exceeds the physics step limit chosen before the step, and is positive */
__CPROVER_ensures(__CPROVER_return_value <= self->max_step_ && __CPROVER_return_value > 0)
/* and, unless the physics limit itself is shorter, is not below the minimum true path */
__CPROVER_ensures(self->max_step_ > self->limit_ ==> __CPROVER_return_value >= self->limit_min_)
{""" + pc.body + """}
void h_usl(void)
{
    UrbanMscSafetyStepLimit s; Engine* e;
    USL_call(&s, e);
    VERIF_CANARY();
}
""")


def build_usl_ctor(ctx):
    pc = ctx.span(USL, r"^UrbanMscSafetyStepLimit::UrbanMscSafetyStepLimit\(UrbanMscRef const& shared,", r"\n\{\n.*?\n\}", [], name="UrbanMscSafetyStepLimit::UrbanMscSafetyStepLimit")
    k = pc.body.index("\n{\n")
    inits = dict(init_list(pc.body[:k]))
    if inits.get("max_step_") != "phys_step" or set(inits) != {"shared_", "helper_", "max_step_"}:
        raise ExtractionDrift("UrbanMscSafetyStepLimit constructor initialiser list changed: %r" % inits)
    from vkit.extract import strip_comments
    body = strip_comments(pc.body[k + 3 : -1])
    rep = []
    for r in USL_RULES:
        body = r.apply(body, rep, "UrbanMscSafetyStepLimit::UrbanMscSafetyStepLimit")
    ctx.report.extend(rep)
    return (HDR + USL_MODEL + algo_min_clamp(ctx) + """
real_type g_rho_, g_alpha_;
void USL_ctor(UrbanMscSafetyStepLimit* self, bool on_boundary, real_type safety, real_type phys_step)
__CPROVER_requires(__CPROVER_rw_ok(self, sizeof(*self)))
/* own CELER_EXPECTs */
__CPROVER_requires(safety >= 0 && safety < g_helper_max_step && phys_step > g_limit_min_fix && phys_step <= g_range)
/* state / parameters: finite positive range, positive fixed minimum, a cached MSC range that is either unset or valid */
__CPROVER_requires(g_range > 0 && !__CPROVER_isinfd(g_range) && g_limit_min_fix > 0 && NN(g_mfp) && NN(g_range_factor) && NN(g_safety_factor) && NN(g_lambda_limit) && NN(safety) && NN(g_rho_))
__CPROVER_requires(NN(g_msc_range.range_init) && NN(g_msc_range.range_factor) && NN(g_msc_range.limit_min))
__CPROVER_assigns(*self, g_msc_range)
/* the physics step limit is only ever lowered (safety_plus), never raised */
__CPROVER_ensures(self->max_step_ <= phys_step && (!g_safety_plus ==> self->max_step_ == phys_step))
/* class invariant used by operator() */
__CPROVER_ensures(""" + USL_INV.replace("NN(self->max_step_) && ", "") + """)
{
    self->max_step_ = phys_step;   /* member initialiser list `max_step_(phys_step)` (checked on the extracted text); limit_min_{}, limit_{} default to 0 */
    self->limit_min_ = 0; self->limit_ = 0;
""" + body + """
}
void h_uslc(void)
{
    UrbanMscSafetyStepLimit s; real_type safety, step; unsigned r1, r2; g_safety_plus = (r2 != 0);
    USL_ctor(&s, r1 != 0, safety, step);
    VERIF_CANARY();
}
""")


UNITS += [
    Unit("c05_msc_safety_limit_call", build_usl_call, "h_usl", enforce="USL_call", replace=["GAUSS_sample"], timeout=300, backend=["sat", "cvc5"],
         must_have=[r"USL_call.postcondition"], checks=LEAF_CHECKS,
         assumptions=["NormalDistribution sample: any value", "class invariant limit_ >= limit_min_ (established in c05_msc_safety_limit_ctor)"],
         note="UrbanMscSafetyStepLimit::operator(): the sampled true path limit is <= the physics step limit for every state, and >= limit_min unless the physics limit is the shorter one"),
    Unit("c05_msc_safety_limit_ctor", build_usl_ctor, "h_uslc", enforce="USL_ctor", replace=["CLM_call"], timeout=300, backend=["sat", "cvc5"],
         must_have=[r"USL_ctor.postcondition", r"celer_expect"], checks=LEAF_CHECKS,
         assumptions=["calc_limit_min >= limit_min_fix (its final max)", "range-factor scaling and the safety_plus scaled step are uninterpreted (values not decided)", "NOT PROMOTED: CELER_ASSERT(msc_range) after caching"],
         note="UrbanMscSafetyStepLimit constructor: max_step == the physics step (only lowered, never raised, under safety_plus); limit >= limit_min"),
]


# ---------------------------------------------------------------------------
# UrbanMsc::limit_step / apply_step: the step length through the true-path <-> geometric-path conversions
# ---------------------------------------------------------------------------
UMS = "src/celeritas/em/msc/UrbanMsc.hh"
UMS_MODEL = """
typedef struct { bool is_displaced; real_type true_path, geom_path, alpha; } MscStep;          /* { is_displaced{true}, true_path{}, geom_path{}, alpha = 0 } */
typedef struct { real_type step, alpha; } MscStepToGeoResult;
typedef struct { int action; real_type direction, displacement; } MscInteraction;              /* Real3 members abstracted to one component */
enum { MA_displaced = 0, MA_scattered = 1, MA_unchanged = 2 };                                  /* MscInteraction::Action (only equality with displaced / unchanged is used) */
typedef struct { Track* t; } GeoTrackView;
MscStep g_msc_step;            /* PhysicsStepView::msc_step(): the slot's MSC step record */
real_type g_limit_min_fix, g_helper_max_step, g_msc_mfp, g_safety, g_geom_limit, g_safety_tol;   /* params / helper values (any), geometry safety */
ActionId g_msc_action; bool g_minimal, g_on_boundary;
unsigned g_draws;
/* geometry: find_safety(max) >= 0 (property C11) */
static bool GEO_is_on_boundary(GeoTrackView const* g) { return g_on_boundary; }
real_type GEO_find_safety(GeoTrackView* g, real_type max_step) __CPROVER_requires(max_step > 0) __CPROVER_assigns() __CPROVER_ensures(__CPROVER_return_value >= 0 && __CPROVER_return_value == g_safety);
/* UrbanMscSafetyStepLimit{...}(rng): constructor EXPECTs as requires; 0 < result <= the physics step handed in (contracts: c05_msc_safety_limit_ctor / _call) */
real_type SAFETY_limit(bool on_boundary, real_type safety, real_type phys_step, real_type range)
__CPROVER_requires(safety >= 0 && safety < g_helper_max_step && phys_step > g_limit_min_fix && phys_step <= range)
__CPROVER_assigns(g_draws)
__CPROVER_ensures(__CPROVER_return_value > 0 && __CPROVER_return_value <= phys_step)
;
/* UrbanMscMinimalStepLimit{...}(rng): same constructor EXPECTs; 0 < result <= the physics step (contracts: c05_msc_minimal_limit_ctor / _call) */
real_type MINIMAL_limit(bool on_boundary, real_type phys_step, real_type range)
__CPROVER_requires(phys_step > g_limit_min_fix && phys_step <= range)
__CPROVER_assigns(g_draws)
__CPROVER_ensures(__CPROVER_return_value > 0 && __CPROVER_return_value <= phys_step)
;
/* MscStepToGeo(tstep): own EXPECT 0 <= tstep <= range; geometric path <= true path (c14_msc_to_geo) and > 0 for a positive true path (assumed: transcendental) */
real_type g_togeo;      /* ghost: the geometric path MscStepToGeo returned (before the clamp to one MSC mean free path) */
MscStepToGeoResult TOGEO_call(real_type tstep, real_type range)
__CPROVER_requires(tstep >= 0 && tstep <= range)
__CPROVER_assigns(g_togeo)
__CPROVER_ensures(__CPROVER_return_value.step <= tstep && (tstep > 0 ==> __CPROVER_return_value.step > 0) && g_togeo == __CPROVER_return_value.step)
;
/* MscStepFromGeo(gstep): own EXPECT 0 <= gstep <= true_step; result in [gstep, true_step] (c14_msc_from_geo) */
real_type FROMGEO_call(real_type gstep, real_type true_step)
__CPROVER_requires(gstep >= 0 && gstep <= true_step)
__CPROVER_assigns()
__CPROVER_ensures(__CPROVER_return_value >= gstep && __CPROVER_return_value <= true_step)
;
real_type SCATTER_calc_displacement(real_type g, real_type t) __CPROVER_assigns() __CPROVER_ensures(!__CPROVER_isnand(__CPROVER_return_value));
MscInteraction SCATTER_sample(real_type safety, MscStep const* step) __CPROVER_assigns(g_draws) __CPROVER_ensures(__CPROVER_return_value.action >= 0 && __CPROVER_return_value.action <= 2 && (__CPROVER_return_value.action == MA_displaced ==> step->is_displaced));
void GEO_set_dir1(GeoTrackView* g, real_type d) __CPROVER_assigns() __CPROVER_ensures(1);
void GEO_move_internal1(GeoTrackView* g, real_type p) __CPROVER_requires(!g_on_boundary) __CPROVER_assigns() __CPROVER_ensures(1);
static real_type celer_max(real_type a, real_type b) { return fmax(a, b); }
"""
UMS_COMMON = Q_RULES + [
    Rule(r"auto phys = track\.make_physics_view\(\);", "PhysicsTrackView phys = CTV_make_physics_view(track);", "*", note="typed view handle"),
    Rule(r"auto par = track\.make_particle_view\(\);", "ParticleTrackView par = CTV_make_particle_view(track);", "*", note="typed view handle"),
    Rule(r"auto sim = track\.make_sim_view\(\);", "SimTrackView sim = CTV_make_sim_view(track);", "*", note="typed view handle"),
    Rule(r"auto geo = track\.make_geo_view\(\);", "GeoTrackView geo = {track->t};", "*", note="typed view handle"),
    Rule(r"UrbanMscHelper msc_helper\(shared_, par, phys\);", "", "*", note="helper object (its accessors are ghost values)"),
    Rule(r"shared_\.params\.limit_min_fix\(\)", "g_limit_min_fix", "*", note="params"),
    Rule(r"shared_\.params\.(geom_limit|safety_tol)", r"g_\1", "*", note="params"),
    Rule(r"msc_helper\.max_step\(\)", "g_helper_max_step", "*", note="helper accessor"),
    Rule(r"msc_helper\.msc_mfp\(\)", "g_msc_mfp", "*", note="helper accessor"),
    Rule(r"sim\.step_length\(\)", "STV_step_length(&sim)", "*", note="view call"),
    Rule(r"sim\.step_length\(", "STV_step_length_set(&sim, ", "*", note="view setter (own EXPECT length > 0)"),
    Rule(r"sim\.post_step_action\(\)", "STV_post_step_action(&sim)", "*", note="view call"),
    Rule(r"sim\.post_step_action\(", "STV_post_step_action_set(&sim, ", "*", note="view setter"),
    Rule(r"geo\.is_on_boundary\(\)", "GEO_is_on_boundary(&geo)", "*", note="geometry view call"),
    Rule(r"geo\.find_safety\(", "GEO_find_safety(&geo, ", "*", note="geometry view call -> contract (C11)"),
    Rule(r"phys\.dedx_range\(\)", "PHV_dedx_range(&phys)", "*", note="view call"),
    Rule(r"auto rng = track\.make_rng_engine\(\);", "", "*", note="RNG handle"),
]
UMS_LIMIT_RULES = UMS_COMMON + [
    IIFE(["real_type", "MscStepToGeoResult", "MscStep"]),
    Rule(r"phys\.scalars\(\)\.step_limit_algorithm\s*==\s*MscStepLimitAlgorithm::minimal", "g_minimal", "*", note="scalars option"),
    Rule(r"UrbanMscMinimalStepLimit calc_limit\(shared_,\s*msc_helper,\s*&phys,\s*([^,]*),\s*([^;]*?)\);\s*(\{ lam_\d+ = )calc_limit\(rng\);", r"\3MINIMAL_limit(\1, \2, PHV_dedx_range(&phys));", "*", flags=16, note="construct + call -> stub with the constructor's EXPECTs"),
    Rule(r"UrbanMscSafetyStepLimit calc_limit\(shared_,\s*msc_helper,\s*par\.energy\(\),\s*&phys,\s*phys\.material_id\(\),\s*([^,]*),\s*([^,]*),\s*([^;]*?)\);\s*(\{ lam_\d+ = )calc_limit\(rng\);", r"\4SAFETY_limit(\1, \2, \3, PHV_dedx_range(&phys));", "*", flags=16, note="construct + call -> stub with the contracts of c05_msc_safety_limit_*"),
    Rule(r"MscStepToGeo calc_geom_path\(shared_,\s*msc_helper,\s*par\.energy\(\),\s*g_msc_mfp,\s*PHV_dedx_range\(&phys\)\);", "", "*", flags=16, note="converter object"),
    Rule(r"auto gp = calc_geom_path\(true_path\);", "MscStepToGeoResult gp = TOGEO_call(true_path, PHV_dedx_range(&phys));", "*", note="converter call -> contract (c14_msc_to_geo)"),
    Rule(r"auto gp = ", "MscStepToGeoResult gp = ", "*", note="auto"),
    Rule(r"track\.make_physics_step_view\(\)\.msc_step\(", "PSV_msc_step_set(", "*", note="view setter"),
    Rule(r"MscStep result;", "MscStep result = {1, 0, 0, 0};", "*", note="default member initializers"),
    Rule(r"phys\.scalars\(\)\.msc_action\(\)", "g_msc_action", "*", note="scalars accessor"),
]


def build_ums_limit(ctx):
    pc = ctx.func(UMS, r"^CELER_FUNCTION void UrbanMsc::limit_step\(CoreTrackView const& track\)", UMS_LIMIT_RULES, name="UrbanMsc::limit_step")
    return (VHDR + "#include <math.h>\n" + C05_STUBS + UMS_MODEL + """
static void PSV_msc_step_set(MscStep s) { g_msc_step = s; }
#define T0(f) __CPROVER_old(track->t->f)
void UMS_limit_step(CoreTrackView const* track)
__CPROVER_requires(VIEW_OK(track))
/* state after the pre-step: a positive finite physics step that does not exceed the range (is_applicable: step > geom_limit > 0) */
__CPROVER_requires(track->t->step_length > 0 && !__CPROVER_isinfd(track->t->step_length) && track->t->step_length <= track->t->dedx_range && !__CPROVER_isinfd(track->t->dedx_range))
__CPROVER_requires(g_limit_min_fix > 0 && g_helper_max_step > 0 && g_msc_mfp > 0 && !__CPROVER_isnand(g_msc_mfp) && g_msc_action != INVALID_ID)
__CPROVER_assigns(track->t->step_length, track->t->post_step_action, g_msc_step, g_draws, g_togeo)
/* the true path never exceeds the physics step limit, the geometric path never exceeds the true path, and the step handed to the propagator is the geometric path (> 0) */
__CPROVER_ensures(g_msc_step.true_path <= T0(step_length) && g_msc_step.geom_path <= g_msc_step.true_path && g_msc_step.geom_path > 0 && track->t->step_length == g_msc_step.geom_path)
/* the step's action becomes the MSC action exactly when MSC shortened it; otherwise the physics action is kept */
__CPROVER_ensures(track->t->post_step_action == T0(post_step_action) || track->t->post_step_action == g_msc_action)
__CPROVER_ensures((g_msc_step.true_path < T0(step_length)) ==> track->t->post_step_action == g_msc_action)
/* ... and a step that MSC did not shorten (same true path, geometric path within one MSC mean free path) keeps its physics action, so that the interaction chosen before the step still happens */
__CPROVER_ensures((g_msc_step.true_path == T0(step_length) && g_togeo <= g_msc_mfp) ==> track->t->post_step_action == T0(post_step_action))
{""" + pc.body + """}
void h_umsl(void)
{
    Track t; CoreTrackView v = {&t}; unsigned r1, r2; g_minimal = (r1 != 0); g_on_boundary = (r2 != 0);
    UMS_limit_step(&v);
    VERIF_CANARY();
}
""")


UMS_APPLY_RULES = UMS_COMMON + [
    IIFE(["MscInteraction"]),
    Rule(r"auto msc_step = track\.make_physics_step_view\(\)\.msc_step\(\);", "MscStep msc_step = g_msc_step;", "*", note="view read (a copy, as in the source)"),
    Rule(r"this->is_geo_limited\(track\)", "UMS_is_geo_limited(track)", "*", note="member call (body extracted)"),
    Rule(r"MscStepFromGeo geo_to_true\(\s*shared_\.params, msc_step, PHV_dedx_range\(&phys\), g_msc_mfp\);", "", "*", flags=16, note="converter object"),
    Rule(r"geo_to_true\(msc_step\.geom_path\)", "FROMGEO_call(msc_step.geom_path, msc_step.true_path)", "*", note="converter call -> contract (c14_msc_from_geo)"),
    Rule(r"auto msc_result = ", "MscInteraction msc_result = ", "*", note="auto"),
    Rule(r"UrbanMscScatter::calc_displacement\(", "SCATTER_calc_displacement(", "*", note="static member -> stub"),
    Rule(r"(?<![\w_])max\(", "celer_max(", "*", note="celeritas::max"),
    Rule(r"auto mat = track\.make_material_view\(\)\.make_material_view\(\);", "", "*", note="material view (only forwarded to the sampler)"),
    Rule(r"UrbanMscScatter sample_scatter\(\s*shared_, msc_helper, par, phys, mat, geo\.dir\(\), safety, msc_step\);", "", "*", flags=16, note="sampler object"),
    Rule(r"sample_scatter\(rng\)", "SCATTER_sample(safety, &msc_step)", "*", note="angular / displacement sampling -> stub"),
    Rule(r"MscInteraction::Action::(\w+)", r"MA_\1", "*", note="enum"),
    Rule(r"geo\.set_dir\(msc_result\.direction\);", "GEO_set_dir1(&geo, msc_result.direction);", "*", note="geometry view call"),
    Rule(r"geo\.move_internal\(geo\.pos\(\) \+ msc_result\.displacement\);", "GEO_move_internal1(&geo, msc_result.displacement);", "*", note="geometry view call (requires: not on a boundary)"),
]


def build_ums_apply(ctx):
    pc = ctx.func(UMS, r"^CELER_FUNCTION void UrbanMsc::apply_step\(CoreTrackView const& track\)", UMS_APPLY_RULES, name="UrbanMsc::apply_step")
    gl = ctx.func(UMS, r"^CELER_FUNCTION bool UrbanMsc::is_geo_limited\(CoreTrackView const& track\)", UMS_COMMON + [Rule(r"track\.(boundary_action|propagation_limit_action)\(\)", r"CTV_\1(track)", "*", note="CoreTrackView member")], name="UrbanMsc::is_geo_limited")
    return (VHDR + "#include <math.h>\n" + C05_STUBS + UMS_MODEL + "static bool UMS_is_geo_limited(CoreTrackView const* track)\n{" + gl.body + "}\n" + """
#define T0(f) __CPROVER_old(track->t->f)
#define GEO_LIMITED0 (T0(post_step_action) == track->t->boundary_action || T0(post_step_action) == track->t->propagation_limit_action)
void UMS_apply_step(CoreTrackView const* track)
__CPROVER_requires(VIEW_OK(track))
/* state after limit_step and the propagation: the step length is the distance actually travelled along the geometric path, 0 < travelled <= geom_path <= true_path;
   a step not limited by the geometry was travelled in full */
__CPROVER_requires(track->t->step_length > 0 && track->t->step_length <= g_msc_step.geom_path && g_msc_step.geom_path <= g_msc_step.true_path && !__CPROVER_isinfd(g_msc_step.true_path))
__CPROVER_requires((track->t->post_step_action != track->t->boundary_action && track->t->post_step_action != track->t->propagation_limit_action) ==> track->t->step_length == g_msc_step.geom_path)
__CPROVER_requires(g_msc_step.is_displaced ==> !g_on_boundary)         /* limit_step only displaces tracks that are off the boundary */
__CPROVER_requires(g_on_boundary == (track->t->post_step_action == track->t->boundary_action) && g_geom_limit > 0)
__CPROVER_assigns(track->t->step_length, g_draws)
/* the physical (true) step is never shorter than the geometric distance travelled and never longer than the true path fixed before the step (hence never beyond the physics limit) */
__CPROVER_ensures(track->t->step_length >= T0(step_length) && track->t->step_length <= g_msc_step.true_path)
/* a step that the geometry did not shorten gets back exactly its true path */
__CPROVER_ensures(!GEO_LIMITED0 ==> track->t->step_length == g_msc_step.true_path)
{""" + pc.body + """}
void h_umsa(void)
{
    Track t; CoreTrackView v = {&t}; unsigned r2; g_on_boundary = (r2 != 0);
    UMS_apply_step(&v);
    VERIF_CANARY();
}
""")


UNITS += [
    Unit("c05_urban_msc_limit_step", build_ums_limit, "h_umsl", enforce="UMS_limit_step", replace=["GEO_find_safety", "SAFETY_limit", "MINIMAL_limit", "TOGEO_call", "STV_step_length_set", "STV_post_step_action_set"], timeout=300, object_bits=10, backend=["sat", "cvc5"],
         must_have=[r"UMS_limit_step.postcondition", r"celer_assert", r"SAFETY_limit.precondition", r"TOGEO_call.precondition", r"STV_step_length_set.precondition"], checks=LEAF_CHECKS,
         assumptions=["UrbanMscSafetyStepLimit / UrbanMscMinimalStepLimit by their contracts (c05_msc_safety_limit_*, c05_msc_minimal_limit_*)", "MscStepToGeo: geometric <= true (c14_msc_to_geo) and > 0 for a positive true path (assumed)", "find_safety >= 0 (C11)"],
         note="UrbanMsc::limit_step: true path <= physics step limit, 0 < geometric path <= true path, the propagator gets the geometric path, the MSC action is recorded exactly when MSC shortened the step; the limiters' constructor EXPECTs (safety < max_step, step > limit_min_fix, step <= range) hold at the call sites; both in-body CELER_ASSERTs hold"),
    Unit("c05_urban_msc_apply_step", build_ums_apply, "h_umsa", enforce="UMS_apply_step", replace=["GEO_find_safety", "FROMGEO_call", "SCATTER_calc_displacement", "SCATTER_sample", "GEO_set_dir1", "GEO_move_internal1", "STV_step_length_set"], timeout=300, object_bits=10, backend=["sat", "cvc5"],
         must_have=[r"UMS_apply_step.postcondition", r"celer_assert", r"FROMGEO_call.precondition", r"STV_step_length_set.precondition"], checks=LEAF_CHECKS,
         assumptions=["MscStepFromGeo in [geometric, true] (c14_msc_from_geo)", "angular / displacement sampling not under contract (only: a displacement is returned only for a displaced step)", "find_safety >= 0 (C11)"],
         note="UrbanMsc::apply_step: the physical step restored after propagation is >= the geometric distance travelled (never shorter than the straight-line displacement) and <= the true path fixed before the step; an unshortened step gets back exactly its true path; callee preconditions and in-body CELER_ASSERTs hold"),
]


# ---- UrbanMscMinimalStepLimit (the `minimal` step-limit algorithm) ----------------------------------------
UML = "src/celeritas/em/msc/detail/UrbanMscMinimalStepLimit.hh"
UML_RULES = [r for r in USL_RULES] + [
    Rule(r"shared\.params\.limit_min_fix\(\)", "g_limit_min_fix", "*", note="params accessor"),
    Rule(r"helper\.msc_mfp\(\)", "g_mfp", "*", note="helper accessor"),
    Rule(r"numeric_limits<real_type>::infinity\(\)", "__builtin_inf()", "*", note="numeric_limits::infinity"),
    Rule(r"MscRange new_range = msc_range;", "MscRange new_range = *msc_range;", "*", note="copy of the referenced record"),
    Rule(r"(?<![\w_])max\(", "fmax(", "*", note="celeritas::max<floating> == std::fmax"),
]


def build_uml_call(ctx):
    pc = ctx.func(UML, r"CELER_FUNCTION real_type UrbanMscMinimalStepLimit::operator\(\)\(Engine& rng\)", UML_RULES, name="UrbanMscMinimalStepLimit::operator()")
    src = build_usl_call(ctx)
    k = src.index("{", src.index("__CPROVER_ensures(self->max_step_ > self->limit_ ==> __CPROVER_return_value >= self->limit_min_)"))
    e = src.index("void h_usl(void)")
    return src[:k] + "{" + pc.body + "}\n" + src[e:]


def build_uml_ctor(ctx):
    pc = ctx.span(UML, r"^UrbanMscMinimalStepLimit::UrbanMscMinimalStepLimit\(", r"\n\{\n.*?\n\}", [], name="UrbanMscMinimalStepLimit::UrbanMscMinimalStepLimit")
    k = pc.body.index("\n{\n")
    inits = dict(init_list(pc.body[:k]))
    if inits != {"max_step_": "phys_step"}:
        raise ExtractionDrift("UrbanMscMinimalStepLimit constructor initialiser list changed: %r" % inits)
    from vkit.extract import strip_comments
    body = strip_comments(pc.body[k + 3 : -1])
    rep = []
    for r in UML_RULES:
        body = r.apply(body, rep, "UrbanMscMinimalStepLimit::UrbanMscMinimalStepLimit")
    ctx.report.extend(rep)
    return (HDR + USL_MODEL + algo_min_clamp(ctx) + """
#define MSCR_HIST_OK(r) (!MSCR_VALID(r) || (r)->range_init >= (r)->limit_min)     /* what every earlier write of this constructor established (postcondition below): inductive over the track's history */
void UML_ctor(UrbanMscSafetyStepLimit* self, bool on_boundary, real_type phys_step)
__CPROVER_requires(__CPROVER_rw_ok(self, sizeof(*self)))
__CPROVER_requires(phys_step > g_limit_min_fix && phys_step <= g_range)         /* own CELER_EXPECTs */
__CPROVER_requires(g_range > 0 && !__CPROVER_isinfd(g_range) && g_limit_min_fix > 0 && !__CPROVER_isinfd(g_limit_min_fix) && NN(g_mfp) && g_range_factor > 0 && !__CPROVER_isinfd(g_range_factor))
__CPROVER_requires(NN(g_msc_range.range_init) && NN(g_msc_range.range_factor) && NN(g_msc_range.limit_min) && MSCR_HIST_OK(&g_msc_range))
__CPROVER_assigns(*self, g_msc_range)
__CPROVER_ensures(self->max_step_ == phys_step)
/* class invariant used by operator() */
__CPROVER_ensures(""" + USL_INV.replace("NN(self->max_step_) && ", "") + """)
/* the cached MSC range stays valid and keeps range_init >= limit_min (the history invariant assumed above) */
__CPROVER_ensures(g_msc_range.limit_min > 0 && g_msc_range.range_init >= g_msc_range.limit_min)
{
    self->max_step_ = phys_step;   /* member initialiser list `max_step_(phys_step)` (checked on the extracted text) */
    self->limit_min_ = 0; self->limit_ = 0;
""" + body + """
}
void h_umlc(void)
{
    UrbanMscSafetyStepLimit s; real_type step; unsigned r1;
    UML_ctor(&s, r1 != 0, step);
    VERIF_CANARY();
}
""")


UNITS += [
    Unit("c05_msc_minimal_limit_call", build_uml_call, "h_usl", enforce="USL_call", replace=["GAUSS_sample"], timeout=300, backend=["sat", "cvc5"],
         must_have=[r"USL_call.postcondition"], checks=LEAF_CHECKS,
         assumptions=["NormalDistribution sample: any non-NaN value", "class invariant limit_ >= limit_min_ > 0, max_step_ > 0 (established in c05_msc_minimal_limit_ctor)"],
         note="UrbanMscMinimalStepLimit::operator(): 0 < sampled true path limit <= the physics step limit"),
    Unit("c05_msc_minimal_limit_ctor", build_uml_ctor, "h_umlc", enforce="UML_ctor", timeout=300, backend=["sat", "cvc5", "z3"],
         must_have=[r"UML_ctor.postcondition", r"celer_expect"], checks=LEAF_CHECKS,
         assumptions=["a valid cached MscRange satisfies range_init >= limit_min (established by every earlier write of this constructor: shown as a postcondition)", "the range-factor product on a boundary is real FP arithmetic; CELER_ASSERT(msc_range) after caching NOT promoted"],
         note="UrbanMscMinimalStepLimit constructor: max_step == the physics step; limit >= limit_min > 0; every MscRange it caches keeps range_init >= limit_min"),
]


# ---- PhysicsTrackView leaf members on the real state layout (the stubs used above are these contracts) -----------------
PHVH = "src/celeritas/phys/PhysicsTrackView.hh"
PHV_LAYOUT = """
#include <stdlib.h>
typedef struct { real_type range_init, range_factor, limit_min; } MscRange;
typedef struct { real_type interaction_mfp; real_type dedx_range; MscRange msc_range; } PhysicsTrackState;     /* the members these accessors touch */
typedef struct { PhysicsTrackState* state; size_type size_; } PhysicsStateRef;
typedef struct { PhysicsStateRef const* states_; size_type track_slot_; } PhysicsTrackViewR;
size_type g_k; PhysicsTrackState g_old;     /* ghost: a witness slot and its record before the call (frame) */
static PhysicsTrackState* PHVR_state(PhysicsTrackViewR const* self) { __CPROVER_assert(self->track_slot_ < self->states_->size_, "celer_expect: Collection::operator[] i < size"); return &self->states_->state[self->track_slot_]; }   /* state(): states_.state[track_slot_] */
#define PHV_OK(v) ((v) != 0 && (v)->states_ != 0 && (v)->states_->size_ >= 1 && (v)->states_->size_ <= 64 && (v)->track_slot_ < (v)->states_->size_ && __CPROVER_rw_ok((v)->states_->state, (v)->states_->size_ * sizeof(PhysicsTrackState)) \\
    && g_k < (v)->states_->size_ && g_old.interaction_mfp == (v)->states_->state[g_k].interaction_mfp && g_old.dedx_range == (v)->states_->state[g_k].dedx_range && !__CPROVER_isnand(g_old.interaction_mfp) && !__CPROVER_isnand(g_old.dedx_range))
#define ME (self->states_->state[self->track_slot_])
#define SAMEV(a, b) ((a) == (b) || (__CPROVER_isnand(a) && __CPROVER_isnand(b)))
#define OTHER_UNCHANGED ((g_k != self->track_slot_) ==> (self->states_->state[g_k].interaction_mfp == g_old.interaction_mfp && self->states_->state[g_k].dedx_range == g_old.dedx_range))
"""
PHV_RULES = [Rule(r"this->state\(\)\.", "PHVR_state(self)->", "*", note="state() returns states_.state[track_slot_]")]
PHV_OPS = {
    "interaction_mfp_set": (r"CELER_FUNCTION void PhysicsTrackView::interaction_mfp\(real_type mfp\)", "void PHVR_interaction_mfp_set(PhysicsTrackViewR* self, real_type mfp)", "mfp > 0", "ME.interaction_mfp == mfp && SAMEV(ME.dedx_range, __CPROVER_old(ME.dedx_range))", "real_type x; PHVR_interaction_mfp_set(&v, x);", True),
    "reset_interaction_mfp": (r"CELER_FUNCTION void PhysicsTrackView::reset_interaction_mfp\(\)", "void PHVR_reset_interaction_mfp(PhysicsTrackViewR* self)", "1", "ME.interaction_mfp == 0", "PHVR_reset_interaction_mfp(&v);", True),
    "has_interaction_mfp": (r"CELER_FUNCTION bool PhysicsTrackView::has_interaction_mfp\(\) const", "bool PHVR_has_interaction_mfp(PhysicsTrackViewR const* self)", "1", "__CPROVER_return_value == (ME.interaction_mfp > 0)", "PHVR_has_interaction_mfp(&v);", False),
    "interaction_mfp_get": (r"CELER_FUNCTION real_type PhysicsTrackView::interaction_mfp\(\) const", "real_type PHVR_interaction_mfp(PhysicsTrackViewR const* self)", "ME.interaction_mfp >= 0", "__CPROVER_return_value == ME.interaction_mfp", "PHVR_interaction_mfp(&v);", False),
    "dedx_range_set": (r"CELER_FUNCTION void PhysicsTrackView::dedx_range\(real_type range\)", "void PHVR_dedx_range_set(PhysicsTrackViewR* self, real_type range)", "range > 0", "ME.dedx_range == range && SAMEV(ME.interaction_mfp, __CPROVER_old(ME.interaction_mfp))", "real_type x; PHVR_dedx_range_set(&v, x);", True),
    "dedx_range_get": (r"CELER_FUNCTION real_type PhysicsTrackView::dedx_range\(\) const", "real_type PHVR_dedx_range(PhysicsTrackViewR const* self)", "ME.dedx_range > 0", "__CPROVER_return_value == ME.dedx_range", "PHVR_dedx_range(&v);", False),
}


def build_phv(name):
    def build(ctx):
        loc, sig, req, ens, call, writes = PHV_OPS[name]
        pc = ctx.func(PHVH, loc, PHV_RULES, name="PhysicsTrackView::" + name)
        return (HDR + PHV_LAYOUT + sig + "\n__CPROVER_requires(PHV_OK(self))\n__CPROVER_requires(%s)   /* own CELER_EXPECT / the state invariant its CELER_ENSURE needs */\n" % req
                + ("__CPROVER_assigns(__CPROVER_object_whole(self->states_->state))\n" if writes else "__CPROVER_assigns()\n")
                + "__CPROVER_ensures(%s)\n__CPROVER_ensures(OTHER_UNCHANGED)\n" % ens + "{" + pc.body + """}
void h_phv(void)
{
    size_type n, slot, k; __CPROVER_assume(n >= 1 && n <= 64 && k < n);
    PhysicsTrackState* st = malloc(n * sizeof(PhysicsTrackState)); __CPROVER_assume(st != 0);
    PhysicsStateRef r = {st, n}; PhysicsTrackViewR v = {&r, slot};
    g_k = k; g_old = st[k];
    %s
    VERIF_CANARY();
}
""" % call)
    return build


UNITS += [
    Unit("c05_phv_" + nm, build_phv(nm), "h_phv", enforce=PHV_OPS[nm][1].split("(")[0].split()[-1], timeout=120, backend=["sat", "cvc5"],
         must_have=[r"postcondition"] + ([r"celer_expect"] if "EXPECT" in "" else []), checks=LEAF_CHECKS, note="PhysicsTrackView::%s on the real state layout (own EXPECT/ENSURE, the slot's field, every other slot untouched)" % nm)
    for nm in PHV_OPS
]


# ---------------------------------------------------------------------------
# MscStepLimitApplier / MscApplier: the per-slot "MSC used this step" record (msc_step().geom_path) is set or reset on EVERY step
# ---------------------------------------------------------------------------
MSLA = "src/celeritas/global/alongstep/detail/MscStepLimitApplier.hh"
MSCA = "src/celeritas/global/alongstep/detail/MscApplier.hh"
MSA_MODEL = """
typedef struct { bool is_displaced; real_type true_path, geom_path, alpha; } MscStep;
MscStep g_msc_step;            /* PhysicsStepView::msc_step(): the slot's MSC step record -- it persists from step to step */
bool g_applicable; unsigned g_limit_calls, g_apply_calls;
/* MH::is_applicable(track, step): any answer */
static bool MH_is_applicable(CoreTrackView const* track, real_type step) { return g_applicable; }
/* MH::limit_step (UrbanMsc::limit_step, contract c05_urban_msc_limit_step): 0 < geom_path <= true_path <= physics step; the step becomes the geometric path */
void MH_limit_step(CoreTrackView const* track)
__CPROVER_requires(VIEW_OK(track) && track->t->step_length > 0)
__CPROVER_assigns(g_msc_step, g_limit_calls, track->t->step_length)
__CPROVER_ensures(g_limit_calls == __CPROVER_old(g_limit_calls) + 1 && g_msc_step.geom_path > 0 && g_msc_step.geom_path <= g_msc_step.true_path && g_msc_step.true_path <= __CPROVER_old(track->t->step_length) && track->t->step_length == g_msc_step.geom_path)
;
/* MH::apply_step (UrbanMsc::apply_step, contract c05_urban_msc_apply_step): requires that limit_step ran in THIS step (its record describes this step) */
void MH_apply_step(CoreTrackView const* track)
__CPROVER_requires(VIEW_OK(track) && g_msc_step.geom_path > 0)
__CPROVER_assigns(g_apply_calls, track->t->step_length)
__CPROVER_ensures(g_apply_calls == __CPROVER_old(g_apply_calls) + 1)
;
"""
MSA_RULES = [
    Rule(r"msc\.is_applicable\(track, track\.make_sim_view\(\)\.step_length\(\)\)", "MH_is_applicable(track, track->t->step_length)", "*", note="MH member call -> stub (any answer)"),
    Rule(r"msc\.limit_step\(track\);", "MH_limit_step(track);", "*", note="MH member call -> contract"),
    Rule(r"msc\.apply_step\(track\);", "MH_apply_step(track);", "*", note="MH member call -> contract"),
    Rule(r"auto step_view = track\.make_physics_step_view\(\);", "", "*", note="view handle (the msc_step record is the ghost g_msc_step)"),
    Rule(r"step_view\.msc_step\(\)", "g_msc_step", "*", note="PhysicsStepView::msc_step()"),
    Rule(r"track\.make_physics_step_view\(\)\.msc_step\(\)", "g_msc_step", "*", note="PhysicsStepView::msc_step()"),
    Rule(r"track\.make_sim_view\(\)\.status\(\)", "track->t->status", "*", note="SimTrackView::status()"),
    Rule(r"TrackStatus::(\w+)", r"TS_\1", "*", note="enum class value (bound)"),
]


def build_msc_appliers(ctx):
    a = ctx.func(MSLA, r"^MscStepLimitApplier<MH>::operator\(\)\(CoreTrackView const& track\)", MSA_RULES, name="MscStepLimitApplier<MH>::operator()")
    b = ctx.func(MSCA, r"^CELER_FUNCTION void MscApplier<MH>::operator\(\)\(CoreTrackView const& track\)", MSA_RULES, name="MscApplier<MH>::operator()")
    return (VHDR + MSA_MODEL + """
#define T0(f) __CPROVER_old(track->t->f)
void MSL_call(CoreTrackView const* track)
__CPROVER_requires(VIEW_OK(track) && track->t->step_length > 0 && g_limit_calls == 0)
__CPROVER_assigns(g_msc_step, g_limit_calls, track->t->step_length)
/* MSC applies: limited once, the record describes THIS step (0 < geom <= true <= physics step) */
__CPROVER_ensures(g_applicable ==> (g_limit_calls == 1 && g_msc_step.geom_path > 0 && g_msc_step.true_path <= T0(step_length) && track->t->step_length == g_msc_step.geom_path))
/* MSC does not apply: the record left by an EARLIER step of this slot is cleared, so that MscApplier cannot replay it; the step is untouched */
__CPROVER_ensures(!g_applicable ==> (g_limit_calls == 0 && g_msc_step.geom_path == 0 && (track->t->step_length == T0(step_length) || __CPROVER_isnand(T0(step_length)))))
{""" + a.body + """}
void MSA_call(CoreTrackView const* track)
__CPROVER_requires(VIEW_OK(track) && g_apply_calls == 0 && track->t->status >= 0 && track->t->status < 5)
__CPROVER_assigns(g_apply_calls, track->t->step_length)
/* the geometric -> true conversion and the scattering run exactly for alive tracks whose step was MSC-limited */
__CPROVER_ensures(g_apply_calls == ((track->t->status == TS_alive && g_msc_step.geom_path > 0) ? 1 : 0))
__CPROVER_ensures(g_apply_calls == 0 ==> (track->t->step_length == T0(step_length) || __CPROVER_isnand(T0(step_length))))
{""" + b.body + """}
void h_msl(void) { Track t; CoreTrackView v = {&t}; unsigned r; g_applicable = (r != 0); MSL_call(&v); VERIF_CANARY(); }
void h_msa(void) { Track t; CoreTrackView v = {&t}; MSA_call(&v); VERIF_CANARY(); }
""")


UNITS += [
    Unit("c05_msc_step_limit_applier", build_msc_appliers, "h_msl", enforce="MSL_call", replace=["MH_limit_step"], timeout=120, backend=["sat", "cvc5"],
         must_have=[r"MSL_call.postcondition", r"celer_assert"], checks=LEAF_CHECKS, assumptions=["MH::limit_step by the contract enforced in c05_urban_msc_limit_step; is_applicable: any answer"],
         note="MscStepLimitApplier: when MSC applies the step is limited once and the slot's MSC record describes this step; when it does not, the record of an earlier step is cleared and the step is untouched"),
    Unit("c05_msc_applier", build_msc_appliers, "h_msa", enforce="MSA_call", replace=["MH_apply_step"], timeout=120, backend=["sat", "cvc5"],
         must_have=[r"MSA_call.postcondition", r"MH_apply_step.precondition"], checks=LEAF_CHECKS, assumptions=["MH::apply_step by the contract enforced in c05_urban_msc_apply_step"],
         note="MscApplier: apply_step runs exactly for alive tracks whose step was MSC-limited in this step"),
]


# ---------------------------------------------------------------------------
# BoundaryExecutor: crossing a boundary moves no energy and no time; it changes volume / material, or ends the track
# ---------------------------------------------------------------------------
BEX = "src/celeritas/geo/detail/BoundaryExecutor.hh"
BEX_MODEL = """
typedef struct { Track* t; } GeoTrackView;
typedef struct { Track* t; } GeoMaterialView;
typedef struct { Track* t; } MaterialTrackView;
/* ghost geometry / material state of the slot */
bool g_on_boundary, g_failed, g_outside; size_type g_volume, g_material; unsigned g_crossings, g_errored_calls;
size_type g_new_volume; bool g_cross_fails, g_new_outside;      /* what the crossing does (any outcome) */
size_type g_matid_of_new_volume;                                 /* geo_mat.material_id(new volume): may be invalid (volume without material) */
static bool GEO_is_on_boundary(GeoTrackView const* g) { return g_on_boundary; }
static bool GEO_failed(GeoTrackView const* g) { return g_failed; }
static bool GEO_is_outside(GeoTrackView const* g) { return g_outside; }
static size_type GEO_volume_id(GeoTrackView const* g) { return g_volume; }
/* cross_boundary(): own EXPECT on boundary; the track stays on the boundary and is now in the next volume / outside / failed (contract; the navigator itself is property C03) */
static void GEO_cross_boundary(GeoTrackView* g)
{
    __CPROVER_assert(g_on_boundary, "celer_expect: cross_boundary() is_on_boundary()");
    ++g_crossings; g_failed = g_cross_fails; g_outside = g_new_outside; g_volume = g_new_volume;
}
static size_type GMV_material_id(GeoMaterialView const* m, size_type vol) { __CPROVER_assert(vol != INVALID_ID, "celer_expect: material_id(volume) valid volume"); return vol == g_new_volume ? g_matid_of_new_volume : INVALID_ID; }
/* CoreTrackView::apply_errored(): status := errored (contract) */
static void CTV_apply_errored(CoreTrackView const* track) { ++g_errored_calls; track->t->status = TS_errored; }
"""
BEX_RULES = [
    Rule(r"CELER_EXPECT\(\[track\] \{.*?\}\(\)\);", "CELER_EXPECT(track->t->post_step_action == track->t->boundary_action && track->t->status == TS_alive);", 1, flags=16, note="lambda-wrapped EXPECT -> its condition"),
    StripPP(r"!CELER_DEVICE_COMPILE", note="host logging block dropped (no effect on state)"),
    Rule(r"auto geo = track\.make_geo_view\(\);", "GeoTrackView geo = {track->t};", 1, note="typed view handle"),
    Rule(r"geo\.(is_on_boundary|failed|is_outside|volume_id)\(\)", r"GEO_\1(&geo)", "*", note="geometry view call -> ghost state"),
    Rule(r"geo\.cross_boundary\(\);", "GEO_cross_boundary(&geo);", "*", note="geometry view call -> contract"),
    Rule(r"track\.apply_errored\(\);", "CTV_apply_errored(track);", "*", note="CoreTrackView::apply_errored -> contract"),
    Rule(r"auto geo_mat = track\.make_geo_material_view\(\);", "GeoMaterialView geo_mat = {track->t};", "*", note="typed view handle"),
    Rule(r"auto matid = geo_mat\.material_id\(", "size_type matid = GMV_material_id(&geo_mat, ", "*", note="view call"),
    Rule(r"!matid\b", "(matid == INVALID_ID)", "*", note="OpaqueId::operator bool"),
    Rule(r"auto mat = track\.make_material_view\(\);\s*mat = \{matid\};", "g_material = matid;   /* MaterialTrackView::operator=({matid}) */", "*", note="material view assignment -> ghost"),
    Rule(r"auto sim = track\.make_sim_view\(\);", "SimTrackView sim = CTV_make_sim_view(track);", "*", note="typed view handle"),
    Rule(r"sim\.status\(TrackStatus::(\w+)\);", r"STV_status_set(&sim, TS_\1);", "*", note="view setter"),
    Rule(r"TrackStatus::(\w+)", r"TS_\1", "*", note="enum class value (bound)"),
]


def build_boundary_executor(ctx):
    pc = ctx.func(BEX, r"^BoundaryExecutor::operator\(\)\(celeritas::CoreTrackView& track\)", BEX_RULES, name="BoundaryExecutor::operator()")
    return (VHDR + BEX_MODEL + """
#define T0(f) __CPROVER_old(track->t->f)
void BEX_call(CoreTrackView const* track)
__CPROVER_requires(VIEW_OK(track) && g_crossings == 0 && g_errored_calls == 0 && !g_failed && !g_outside && g_volume != INVALID_ID && g_new_volume != INVALID_ID)
/* own CELER_EXPECTs: an alive track whose step ended on a boundary */
__CPROVER_requires(track->t->post_step_action == track->t->boundary_action && track->t->status == TS_alive && g_on_boundary)
__CPROVER_assigns(track->t->status, g_failed, g_outside, g_volume, g_material, g_crossings, g_errored_calls)      /* frame: energy, deposition, time, step length, actions are not assignable */
/* exactly one crossing */
__CPROVER_ensures(g_crossings == 1)
/* into another volume WITH a material: stays alive on the boundary, volume and material are the new volume's */
__CPROVER_ensures((!g_cross_fails && !g_new_outside && g_matid_of_new_volume != INVALID_ID) ==> (track->t->status == TS_alive && g_volume == g_new_volume && g_material == g_matid_of_new_volume && g_on_boundary))
/* leaving the world: killed (exactly once), material untouched */
__CPROVER_ensures((!g_cross_fails && g_new_outside) ==> (track->t->status == TS_killed && g_material == __CPROVER_old(g_material)))
/* navigation failure or a volume without material: flagged errored, never silently alive */
__CPROVER_ensures((g_cross_fails || (!g_new_outside && g_matid_of_new_volume == INVALID_ID)) ==> (track->t->status == TS_errored && g_errored_calls == 1 && g_material == __CPROVER_old(g_material)))
{""" + pc.body + """}
void h_bex(void)
{
    Track t; CoreTrackView v = {&t}; unsigned a, b, c; g_on_boundary = (a != 0); g_cross_fails = (b != 0); g_new_outside = (c != 0);
    BEX_call(&v);
    VERIF_CANARY();
}
""")


UNITS += [
    Unit("c05_boundary_executor", build_boundary_executor, "h_bex", enforce="BEX_call", replace=["STV_status_set"], timeout=120, backend=["sat", "cvc5"],
         must_have=[r"BEX_call.postcondition", r"celer_expect", r"celer_ensure"], checks=LEAF_CHECKS,
         assumptions=["geometry cross_boundary / material lookup by contract (any outcome: next volume, outside, failure, volume without material); the navigator itself is property C03"],
         note="BoundaryExecutor: one crossing; energy, deposition, time and step length are outside its frame; new volume + material when it stays inside, killed when it leaves the world, errored on a navigation failure or a volume without material"),
]


# ---------------------------------------------------------------------------
# LinearPropagator::operator()(dist): the track is moved by exactly the reported distance, never beyond the requested step
# ---------------------------------------------------------------------------
LPR = "src/celeritas/field/LinearPropagator.hh"
LPR_MODEL = """
typedef struct { real_type distance; bool boundary; bool looping; } Propagation;      /* { distance{0}, boundary{false}, looping{false} } */
typedef struct { int dummy; } GeoTrackView;
typedef struct { GeoTrackView* geo_; } LinearPropagator;
real_type g_next_dist; bool g_next_boundary, g_have_next;       /* ghost: the pending result of find_next_step */
real_type g_moved; bool g_on_boundary; unsigned g_moves;         /* ghost: distance the geometry state was moved by, its on-boundary flag, number of moves */
/* GeoTrackView::find_next_step(max): a distance-limited search (contract; the navigator itself is property C03):
   0 <= distance <= max, and the limit is reported (no boundary) exactly when no boundary lies within it */
Propagation GEO_find_next_step(GeoTrackView* g, real_type max_step)
__CPROVER_requires(g != 0 && max_step > 0)
__CPROVER_assigns(g_next_dist, g_next_boundary, g_have_next)
__CPROVER_ensures(__CPROVER_return_value.distance >= 0 && __CPROVER_return_value.distance <= max_step && (__CPROVER_return_value.boundary == 0 || __CPROVER_return_value.boundary == 1) && !__CPROVER_return_value.looping)
__CPROVER_ensures(!__CPROVER_return_value.boundary ==> __CPROVER_return_value.distance == max_step)
__CPROVER_ensures(g_have_next && g_next_dist == __CPROVER_return_value.distance && g_next_boundary == __CPROVER_return_value.boundary)
;
/* move_to_boundary(): own EXPECT: a next step that ends on a boundary has been found */
static void GEO_move_to_boundary(GeoTrackView* g) { __CPROVER_assert(g_have_next && g_next_boundary, "celer_expect: move_to_boundary() after find_next_step found a boundary"); g_moved = g_next_dist; g_on_boundary = 1; ++g_moves; g_have_next = 0; }
/* move_internal(d): own EXPECTs: d > 0 and not beyond the next step found */
static void GEO_move_internal(GeoTrackView* g, real_type dist) { __CPROVER_assert(dist > 0 && g_have_next && dist <= g_next_dist, "celer_expect: move_internal(dist) dist > 0 && dist <= next step"); g_moved = dist; g_on_boundary = 0; ++g_moves; g_have_next = 0; }
"""
LPR_RULES = [
    Rule(r"result_type result = geo_\.find_next_step\(dist\);", "Propagation result = GEO_find_next_step(self->geo_, dist);", 1, note="geometry call -> contract"),
    Rule(r"geo_\.move_to_boundary\(\);", "GEO_move_to_boundary(self->geo_);", "*", note="geometry call -> ghost"),
    Rule(r"geo_\.move_internal\(([^()]*)\);", r"GEO_move_internal(self->geo_, \1);", "*", note="geometry call -> ghost"),
]


def build_linear_propagator(ctx):
    pc = ctx.func(LPR, r"^LinearPropagator<GTV>::operator\(\)\(real_type dist\) -> result_type", LPR_RULES, name="LinearPropagator<GTV>::operator()(dist)")
    return (HDR + LPR_MODEL + """
Propagation LPR_call(LinearPropagator* self, real_type dist)
__CPROVER_requires(__CPROVER_r_ok(self, sizeof(*self)) && self->geo_ != 0 && g_moves == 0 && !g_have_next)
__CPROVER_requires(dist > 0)             /* own CELER_EXPECT */
__CPROVER_assigns(g_next_dist, g_next_boundary, g_have_next, g_moved, g_on_boundary, g_moves)
/* the reported distance never exceeds the requested step and the geometry state is moved once, by exactly that distance (step length == straight-line displacement) */
__CPROVER_ensures(__CPROVER_return_value.distance >= 0 && __CPROVER_return_value.distance <= dist && g_moves == 1 && g_moved == __CPROVER_return_value.distance)
/* the boundary flag is the geometry's on-boundary state; a step that is not boundary-limited is the full requested step; a straight line never loops */
__CPROVER_ensures(__CPROVER_return_value.boundary == g_on_boundary && (!__CPROVER_return_value.boundary ==> __CPROVER_return_value.distance == dist) && !__CPROVER_return_value.looping)
{""" + pc.body + """}
void h_lpr(void)
{
    GeoTrackView g; LinearPropagator p = {&g}; real_type d;
    LPR_call(&p, d);
    VERIF_CANARY();
}
""")


UNITS += [
    Unit("c05_linear_propagator", build_linear_propagator, "h_lpr", enforce="LPR_call", replace=["GEO_find_next_step"], timeout=120, backend=["sat", "cvc5"],
         must_have=[r"LPR_call.postcondition", r"celer_expect", r"celer_assert"], checks=LEAF_CHECKS,
         assumptions=["GeoTrackView::find_next_step(max) by contract (0 <= distance <= max; limit reported iff no boundary within it): the navigator is property C03"],
         note="LinearPropagator::operator()(dist): distance in [0, dist], geometry moved once by exactly that distance, boundary flag == on-boundary state, a non-boundary step is the full step; the geometry calls' own preconditions hold"),
]
