"""C10 (runtime side): LogicStack, LogicEvaluator, InfixEvaluator."""
from vkit.extract import Rule, LoopContracts
from vkit.runner import Unit

LS = "src/orange/univ/detail/LogicStack.hh"
LE = "src/orange/univ/detail/LogicEvaluator.hh"
IE = "src/orange/univ/detail/InfixEvaluator.hh"
OT = "src/orange/OrangeTypes.hh"

HDR = '#include "celer.h"\n'

LS_TYPES = """
typedef bool value_type;
typedef struct { size_type data_; size_type size_; } LogicStack;   /* data_{0}, size_{0}; bound in bindings.cc */
/* ---- abstract view: a sequence of `size_` booleans, index 0 = deepest, top = index size_-1 = least significant bit */
#define LS_ELEM(data, size, i) ((i) < (size) && (((data) >> (((size) - (i) - 1u) & 63u)) & 1u) != 0)   /* total: shift distance masked, false outside the stack */
#define LS_DEPTH 64u   /* LogicStack::max_stack_depth() == sizeof(size_type) * 8; asserted against the extracted function in unit c10_ls_max_depth */
#define LS_WF(data, size) ((size) <= LS_DEPTH && ((size) == LS_DEPTH || ((data) >> (size)) == 0u))
#define ALLPOS(P) (P(0)&&P(1)&&P(2)&&P(3)&&P(4)&&P(5)&&P(6)&&P(7)&&P(8)&&P(9)&&P(10)&&P(11)&&P(12)&&P(13)&&P(14)&&P(15)&&P(16)&&P(17)&&P(18)&&P(19)&&P(20)&&P(21)&&P(22)&&P(23)&&P(24)&&P(25)&&P(26)&&P(27)&&P(28)&&P(29)&&P(30)&&P(31)&&P(32)&&P(33)&&P(34)&&P(35)&&P(36)&&P(37)&&P(38)&&P(39)&&P(40)&&P(41)&&P(42)&&P(43)&&P(44)&&P(45)&&P(46)&&P(47)&&P(48)&&P(49)&&P(50)&&P(51)&&P(52)&&P(53)&&P(54)&&P(55)&&P(56)&&P(57)&&P(58)&&P(59)&&P(60)&&P(61)&&P(62)&&P(63))   /* one conjunct per possible stack position (64) */
"""

LS_RULES = [
    Rule(r"\bsize_type\(([^()]*)\)", r"((size_type)(\1))", "*", note="functional cast"),
    Rule(r"LogicStack::(lsb|shr|shl)\(", r"LS_\1(", "*", note="static member call"),
    Rule(r"\bmax_stack_depth\(\)", "LS_max_stack_depth()", "*", note="static member call"),
    Rule(r"!empty\(\)", "!LS_empty(self)", "*", note="member call"),
    Rule(r"\bsize\(\)", "LS_size(self)", "*", note="member call"),
    Rule(r"\bdata_\b", "self->data_", "*", note="data member"),
    Rule(r"\bsize_\b", "self->size_", "*", note="data member"),
]


def ls_helpers(ctx):
    out = []
    for nm in ("lsb", "shr", "shl"):
        pc = ctx.func(LS, r"static CELER_CONSTEXPR_FUNCTION size_type %s\(size_type val\)" % nm, LS_RULES[:1], name="LogicStack::" + nm)
        out.append("static size_type LS_%s(size_type val)\n{%s}\n" % (nm, pc.body))
    pc = ctx.func(LS, r"static CELER_CONSTEXPR_FUNCTION size_type max_stack_depth\(\)", [], name="LogicStack::max_stack_depth")
    out.append("static size_type LS_max_stack_depth(void)\n{%s}\n" % pc.body)
    pc = ctx.func(LS, r"CELER_FORCEINLINE_FUNCTION size_type size\(\) const", LS_RULES[5:], name="LogicStack::size")
    out.append("static size_type LS_size(LogicStack const* self)\n{%s}\n" % pc.body)
    pc = ctx.func(LS, r"CELER_FUNCTION bool LogicStack::empty\(\) const", LS_RULES, name="LogicStack::empty")
    out.append("static bool LS_empty(LogicStack const* self)\n{%s}\n" % pc.body)
    return "".join(out)


# (name, locator, C signature, requires-beyond-EXPECT, assigns, ensures list)
OLD_D = "__CPROVER_old(self->data_)"
OLD_S = "__CPROVER_old(self->size_)"
LS_OPS = {
    "top": (r"CELER_FUNCTION auto LogicStack::top\(\) const -> value_type", "bool LS_top(LogicStack const* self)", "self->size_ != 0", "",
            ["__CPROVER_return_value == LS_ELEM(self->data_, self->size_, self->size_ - 1u)"]),
    "index": (r"CELER_FUNCTION auto LogicStack::operator\[\]\(size_type index\) const -> value_type", "bool LS_index(LogicStack const* self, size_type index)", "index < self->size_", "",
              ["__CPROVER_return_value == LS_ELEM(self->data_, self->size_, index)"]),
    "push": (r"CELER_FUNCTION void LogicStack::push\(value_type v\)", "void LS_push(LogicStack* self, value_type v)", "self->size_ != LS_DEPTH", "self->data_, self->size_",
             ["self->size_ == %s + 1u" % OLD_S,
              "LS_ELEM(self->data_, self->size_, self->size_ - 1u) == v",
              "#define P_(i) ((i) < %s ==> LS_ELEM(self->data_, self->size_, i) == LS_ELEM(%s, %s, i))\nALLPOS(P_)" % (OLD_S, OLD_D, OLD_S),
              "LS_WF(self->data_, self->size_)"]),
    "pop": (r"CELER_FUNCTION auto LogicStack::pop\(\) -> value_type", "bool LS_pop(LogicStack* self)", "self->size_ != 0", "self->data_, self->size_",
            ["self->size_ == %s - 1u" % OLD_S,
             "__CPROVER_return_value == LS_ELEM(%s, %s, %s - 1u)" % (OLD_D, OLD_S, OLD_S),
             "#define P_(i) ((i) < self->size_ ==> LS_ELEM(self->data_, self->size_, i) == LS_ELEM(%s, %s, i))\nALLPOS(P_)" % (OLD_D, OLD_S),
             "LS_WF(self->data_, self->size_)"]),
    "apply_not": (r"CELER_FUNCTION void LogicStack::apply_not\(\)", "void LS_apply_not(LogicStack* self)", "self->size_ != 0", "self->data_",
                  ["self->size_ == %s" % OLD_S,
                   "LS_ELEM(self->data_, self->size_, self->size_ - 1u) == !LS_ELEM(%s, %s, %s - 1u)" % (OLD_D, OLD_S, OLD_S),
                   "#define P_(i) ((i) + 1u < self->size_ ==> LS_ELEM(self->data_, self->size_, i) == LS_ELEM(%s, %s, i))\nALLPOS(P_)" % (OLD_D, OLD_S),
                   "LS_WF(self->data_, self->size_)"]),
    "apply_and": (r"CELER_FUNCTION void LogicStack::apply_and\(\)", "void LS_apply_and(LogicStack* self)", "self->size_ >= 2u", "self->data_, self->size_",
                  ["self->size_ == %s - 1u" % OLD_S,
                   "LS_ELEM(self->data_, self->size_, self->size_ - 1u) == (LS_ELEM(%s, %s, %s - 1u) && LS_ELEM(%s, %s, %s - 2u))" % (OLD_D, OLD_S, OLD_S, OLD_D, OLD_S, OLD_S),
                   "#define P_(i) ((i) + 1u < self->size_ ==> LS_ELEM(self->data_, self->size_, i) == LS_ELEM(%s, %s, i))\nALLPOS(P_)" % (OLD_D, OLD_S),
                   "LS_WF(self->data_, self->size_)"]),
    "apply_or": (r"CELER_FUNCTION void LogicStack::apply_or\(\)", "void LS_apply_or(LogicStack* self)", "self->size_ >= 2u", "self->data_, self->size_",
                 ["self->size_ == %s - 1u" % OLD_S,
                  "LS_ELEM(self->data_, self->size_, self->size_ - 1u) == (LS_ELEM(%s, %s, %s - 1u) || LS_ELEM(%s, %s, %s - 2u))" % (OLD_D, OLD_S, OLD_S, OLD_D, OLD_S, OLD_S),
                  "#define P_(i) ((i) + 1u < self->size_ ==> LS_ELEM(self->data_, self->size_, i) == LS_ELEM(%s, %s, i))\nALLPOS(P_)" % (OLD_D, OLD_S),
                  "LS_WF(self->data_, self->size_)"]),
}


def ls_contract(name, fresh):
    loc, sig, req, assigns, ens = LS_OPS[name]
    out = [sig]
    out.append("__CPROVER_requires(%s)" % ("__CPROVER_is_fresh(self, sizeof(*self))" if fresh else "self != 0"))
    out.append("__CPROVER_requires(LS_WF(self->data_, self->size_))  /* representation invariant */")
    out.append("__CPROVER_requires(%s)  /* the operation's own CELER_EXPECT */" % req)
    out.append("__CPROVER_assigns(%s)" % assigns)
    pre = []
    for e in ens:
        if e.startswith("#define"):
            d, body = e.split("\n")
            pre.append("#undef P_\n" + d)
            out.append("__CPROVER_ensures(%s)" % body)
        else:
            out.append("__CPROVER_ensures(%s)" % e)
    return "\n".join(pre) + "\n" + "\n".join(out) + "\n"


def build_ls(name):
    def build(ctx):
        loc = LS_OPS[name][0]
        pc = ctx.func(LS, loc, LS_RULES, name="LogicStack::" + name)
        cname = LS_OPS[name][1].split("(")[0].split()[-1]
        args = "&s" + (", x" if "," in LS_OPS[name][1] else "")
        argdecl = ("unsigned xr; value_type x = (xr != 0); /* a proper bool (0/1), the C++ type invariant */" if name == "push" else "size_type x;") if "," in LS_OPS[name][1] else ""
        return (HDR + LS_TYPES + ls_helpers(ctx) + ls_contract(name, False) + "{" + pc.body + "}\n"
                + "void h_ls(void)\n{\n    size_type data, size; %s\n    LogicStack s = {data, size};\n    %s(%s);\n    VERIF_CANARY();\n}\n" % (argdecl, cname, args))
    return build


REPLAY_C10 = {"src": "replay/c10.cc", "argv": lambda inputs, fl: [["battery"]]}

UNITS = [
    Unit("c10_ls_" + nm, build_ls(nm), "h_ls", enforce=LS_OPS[nm][1].split("(")[0].split()[-1], timeout=120,
         must_have=[r"postcondition", r"celer_expect"], checks=["--bounds-check", "--pointer-check"], replay=REPLAY_C10,
         note="LogicStack::%s against the abstract stack view, all 2^64 x 65 states (loop-free, complete)" % nm)
    for nm in LS_OPS
]


# ---------------------------------------------------------------------------
# logic tokens, LogicEvaluator
# ---------------------------------------------------------------------------
def logic_tokens(ctx):
    """enum OperatorToken -> #defines (C enums cannot hold 0xfffffff9)."""
    import re
    from vkit.extract import ExtractionDrift
    pc = ctx.func(OT, r"enum OperatorToken : logic_int", [], generic=False, name="logic::OperatorToken")
    out = ["typedef size_type logic_int;"]
    prev = None
    for item in [x.strip() for x in pc.body.split(",") if x.strip()]:
        m = re.match(r"^(\w+)(?:\s*=\s*(.+))?$", item, flags=re.S)
        if not m:
            raise ExtractionDrift("cannot parse enumerator %r" % item)
        name, init = m.group(1), m.group(2)
        if init:
            init = re.sub(r"\blogic_int\(", "(logic_int)(", init)
            init = re.sub(r"\b(l\w+)\b", lambda mm: "logic_" + mm.group(1) if mm.group(1) != "logic_int" else mm.group(1), init)
            val = "((logic_int)(%s))" % init
        else:
            if prev is None:
                raise ExtractionDrift("first enumerator without value")
            val = "((logic_int)(logic_%s + 1u))" % prev
        out.append("#define logic_%s %s" % (name, val))
        prev = name
    iot = ctx.func(OT, r"CELER_CONSTEXPR_FUNCTION bool is_operator_token\(logic_int lv\)", [Rule(r"\blbegin\b", "logic_lbegin", 1, note="namespace-scope enumerator")], name="logic::is_operator_token")
    out.append("static bool logic_is_operator_token(logic_int lv)\n{%s}" % iot.body)
    return "\n".join(out) + "\n"


LE_TYPES = """
typedef struct { logic_int const* ptr; size_t size; } SpanConstLogic;   /* LdgSpan<logic_int const> */
typedef bool Sense;                                                       /* enum class Sense : bool { inside, outside } */
typedef struct { Sense const* ptr; size_t size; } SpanConstSense;
typedef struct { SpanConstLogic logic_; } LogicEvaluator;
"""

# ghost: textbook postfix evaluation over an explicit array stack, run in lock-step
LE_GHOST = """
bool g_stk[65]; unsigned g_sp;      /* ghost: reference (array) stack */
unsigned char g_depth[4097];        /* ghost: depth profile of the postfix string (precondition witness) */
static void spec_step(logic_int lgc, SpanConstSense values)
{
    if (lgc < logic_lbegin) { g_stk[g_sp] = values.ptr[lgc]; g_sp = g_sp + 1; }
    else if (lgc == logic_ltrue) { g_stk[g_sp] = 1; g_sp = g_sp + 1; }
    else if (lgc == logic_lor) { g_stk[g_sp - 2] = g_stk[g_sp - 2] || g_stk[g_sp - 1]; g_sp = g_sp - 1; }
    else if (lgc == logic_land) { g_stk[g_sp - 2] = g_stk[g_sp - 2] && g_stk[g_sp - 1]; g_sp = g_sp - 1; }
    else if (lgc == logic_lnot) { g_stk[g_sp - 1] = !g_stk[g_sp - 1]; }
}
/* well-formedness of token i given the depth before it (instance of the quantified precondition) */
#define WF_TOKEN(lgc, d0, d1, nvalues) ( \\
      (lgc) < logic_lbegin ? ((lgc) < (nvalues) && (d0) < 64 && (d1) == (d0) + 1) \\
    : (lgc) == logic_ltrue ? ((d0) < 64 && (d1) == (d0) + 1) \\
    : ((lgc) == logic_lor || (lgc) == logic_land) ? ((d0) >= 2 && (d1) == (d0) - 1) \\
    : (lgc) == logic_lnot ? ((d0) >= 1 && (d1) == (d0)) : 0)
#define REL_(i) ((i) < stack.size_ ==> LS_ELEM(stack.data_, stack.size_, i) == g_stk[i])
"""

LE_RULES = [
    Rule(r"LogicStack stack;", "LogicStack stack = {0, 0}; g_sp = 0; /* ghost init */", 1, note="default member initializers data_{0}, size_{0}"),
    Rule(r"for \(logic_int lgc : logic_\)\s*\{",
         "for (size_t vi_ = 0; vi_ < self->logic_.size; ++vi_)\n    {\n        logic_int lgc = self->logic_.ptr[vi_];\n"
         "        /* ghost: instance of the well-formedness precondition at token vi_ */\n"
         "        __CPROVER_assume(WF_TOKEN(lgc, g_depth[vi_], g_depth[vi_ + 1], values.size));\n"
         "        spec_step(lgc, values); /* ghost lock-step */", 1, note="range-for over a Span -> index loop; ghost injected"),
    Rule(r"logic::is_operator_token\(", "logic_is_operator_token(", "+", note="namespace function"),
    Rule(r"logic::(l\w+)", r"logic_\1", "+", note="namespace-scope enumerator"),
    Rule(r"values\.size\(\)", "values.size", "+", note="Span::size()"),
    Rule(r"values\[lgc\]", "values.ptr[lgc]", 1, note="Span::operator[]"),
    Rule(r"stack\.(push|apply_or|apply_and|apply_not)\(\)", r"LS_\1(&stack)", 3, note="member call"),
    Rule(r"stack\.push\(", "LS_push(&stack, ", 2, note="member call"),
    Rule(r"stack\.size\(\)", "stack.size_", 1, note="inline accessor"),
    Rule(r"stack\.top\(\)", "LS_top(&stack)", 1, note="member call"),
    LoopContracts([
        "    __CPROVER_assigns(vi_, stack, g_sp, __CPROVER_object_whole(g_stk))\n"
        "    __CPROVER_loop_invariant(vi_ <= self->logic_.size && LS_WF(stack.data_, stack.size_) && stack.size_ == g_depth[vi_] && g_sp == stack.size_)\n"
        "    __CPROVER_loop_invariant(ALLPOS(REL_))\n"
        "    __CPROVER_decreases(self->logic_.size - vi_)\n"]),
]


def build_logic_eval(ctx):
    toks = logic_tokens(ctx)
    pc = ctx.func(LE, r"CELER_FUNCTION bool LogicEvaluator::operator\(\)\(SpanConstSense values\) const", LE_RULES, name="LogicEvaluator::operator()")
    stubs = "".join(ls_contract(nm, False) + ";\n" for nm in ("push", "apply_or", "apply_and", "apply_not", "top"))
    return (HDR + "#include <stdlib.h>\n" + LS_TYPES + toks + LE_TYPES + LE_GHOST + stubs + """
bool LE_call(LogicEvaluator const* self, SpanConstSense values)
__CPROVER_requires(self != 0 && self->logic_.size >= 1 && self->logic_.size <= 4096 && __CPROVER_r_ok(self->logic_.ptr, self->logic_.size * sizeof(logic_int)))
__CPROVER_requires(values.size <= 4096 && __CPROVER_r_ok(values.ptr, values.size * sizeof(Sense)))
/* precondition: well-formed postfix string whose stack depth never exceeds 64 (witness: depth profile g_depth; used by instance) */
__CPROVER_requires(g_depth[0] == 0 && g_depth[self->logic_.size] == 1)
__CPROVER_assigns(g_sp, __CPROVER_object_whole(g_stk))
/* result equals the textbook array-stack evaluation run in lock-step */
__CPROVER_ensures(g_sp == 1 && __CPROVER_return_value == g_stk[0])
{""" + pc.body + """}
void h_le(void)
{
    size_t n, nv; __CPROVER_assume(n >= 1 && n <= 4096 && nv <= 4096);
    logic_int* lg = malloc(n * sizeof(logic_int)); Sense* vals = malloc(nv ? nv : 1); __CPROVER_assume(lg != 0 && vals != 0);
    LogicEvaluator ev = {{lg, n}}; SpanConstSense v = {vals, nv};
    LE_call(&ev, v);
    VERIF_CANARY();
}
""")


UNITS += [
    Unit("c10_logic_eval", build_logic_eval, "h_le", enforce="LE_call", replace=["LS_push", "LS_apply_or", "LS_apply_and", "LS_apply_not", "LS_top"], loop_contracts=True, timeout=600, object_bits=10,
         must_have=[r"LE_call.postcondition", r"loop_invariant_step", r"LS_push.precondition", r"LS_apply_and.precondition", r"celer_ensure", r"celer_unreachable"],
         checks=["--bounds-check", "--pointer-check"], replay=REPLAY_C10,
         assumptions=["well-formedness of the postfix string is used through per-token instances (ghost assume) of the depth-profile precondition",
                      "Sense values are proper bools (0/1)"],
         note="LogicEvaluator::operator(): for every well-formed postfix string of any length <= 4096 with depth <= 64: every LogicStack precondition holds at its call site, the default branch is unreachable, the stack ends with one element and the result equals the array-stack evaluation (lock-step loop invariant over the abstract stack view)"),
]


# ---------------------------------------------------------------------------
# InfixEvaluator: bounded equivalence with a reference infix evaluator
# ---------------------------------------------------------------------------
IE_RULES = [
    Rule(r"\b(int|size_type|bool) (\w+)\{([^{}]*)\};", r"\1 \2 = \3;", "+", note="brace initialisation of a scalar"),
    Rule(r"if \(logic_int const lgc\{logic_\[i\]\}; ", "logic_int const lgc = LOGIC_AT(self, i); if (", (0, 1), note="C++17 if-with-initializer -> declaration + if (same block)"),
    Rule(r"if \(logic_int lgc = logic_\[\+\+i\]; ", "logic_int lgc = LOGIC_AT(self, ++i); if (", (0, 1), note="C++17 if-with-initializer -> declaration + if (same block)"),
    Rule(r"logic_\.size\(\)", "self->logic_.size", "*", note="Span::size()"),
    Rule(r"logic_\[([^\[\]]*)\]", r"LOGIC_AT(self, \1)", "*", note="Span::operator[] -> bounds assertion + index"),
    Rule(r"logic::is_operator_token\(", "logic_is_operator_token(", "*", note="namespace function"),
    Rule(r"logic::(l\w+)", r"logic_\1", "*", note="namespace-scope enumerator"),
    Rule(r"eval_sense\(FaceId\{([^{}]*)\}\)", r"EVAL_SENSE(\1)", "*", note="functor F -> macro over the symbolic sense table; FaceId{x} -> x"),
    Rule(r"this->short_circuit\(i\)", "IE_short_circuit(self, i)", (0, 1), note="member call"),
    Rule(r"CELER_ASSUME\(", "CELER_ASSERT(", "*", note="CELER_ASSUME (compiler assumption, UB if false) -> obligation"),
]

IE_SPEC = """
#define NTOK %d
#define NFACE 3
bool g_senses[NFACE];
#define EVAL_SENSE(id) (g_senses[(id)])
static logic_int LOGIC_AT(LogicEvaluator const* self, size_type i) { __CPROVER_assert(i < self->logic_.size, "celer_expect: Span::operator[] i < size"); return self->logic_.ptr[i]; }
/* Reference: plain evaluation of the infix grammar
 *   group := '(' item (op item)* ')' with ONE operator kind per group;  item := face | '~' face | '*' | group
 * top level is one item or an unparenthesised single-operator list.  No short-circuiting.  *valid is cleared for malformed input. */
static bool spec_infix(logic_int const* t, unsigned n, bool* valid)
{
    bool acc[NTOK + 2]; logic_int op[NTOK + 2]; bool have[NTOK + 2];   /* frame stack */
    unsigned d = 0; acc[0] = 0; op[0] = 0; have[0] = 0;
    bool expect_item = 1; *valid = 1;
    for (unsigned i = 0; i < NTOK; ++i)
    {
        if (i >= n) break;
        logic_int g = t[i];
        bool is_item = 0, v = 0;
        if (g < logic_lbegin) { if (g >= NFACE) *valid = 0; else { v = g_senses[g]; } is_item = 1; }
        else if (g == logic_ltrue) { v = 1; is_item = 1; }
        else if (g == logic_lnot)
        {
            if (i + 1 >= n || t[i + 1] >= NFACE) { *valid = 0; } else { v = !g_senses[t[i + 1]]; }
            is_item = 1; ++i;
        }
        else if (g == logic_lopen) { if (!expect_item) *valid = 0; ++d; acc[d] = 0; op[d] = 0; have[d] = 0; expect_item = 1; continue; }
        else if (g == logic_lclose)
        {
            if (d == 0 || expect_item || !have[d]) { *valid = 0; return 0; }
            v = acc[d]; --d; is_item = 1; expect_item = 1;   /* the closed group is the item its parent was waiting for */
        }
        else if (g == logic_lor || g == logic_land)
        {
            if (expect_item || (op[d] != 0 && op[d] != g)) *valid = 0;
            op[d] = g; expect_item = 1; continue;
        }
        else { *valid = 0; }
        if (is_item)
        {
            if (!expect_item) *valid = 0;
            if (!have[d]) { acc[d] = v; have[d] = 1; }
            else if (op[d] == logic_lor) acc[d] = acc[d] || v;
            else if (op[d] == logic_land) acc[d] = acc[d] && v;
            else *valid = 0;
            expect_item = 0;
        }
    }
    if (d != 0 || expect_item) *valid = 0;
    return acc[0];
}
"""


def build_infix(N):
    def build(ctx):
        toks = logic_tokens(ctx)
        sc = ctx.func(IE, r"CELER_FUNCTION size_type InfixEvaluator::short_circuit\(size_type i\) const", IE_RULES, name="InfixEvaluator::short_circuit")
        op = ctx.func(IE, r"CELER_FUNCTION bool InfixEvaluator::operator\(\)\(F&& eval_sense\) const", IE_RULES, name="InfixEvaluator::operator()")
        return (HDR + LS_TYPES.split("/* ---- abstract view")[0] + toks + LE_TYPES + IE_SPEC % N + """
static size_type IE_short_circuit(LogicEvaluator const* self, size_type i)
{""" + sc.body + """}
static bool IE_call(LogicEvaluator const* self)
{""" + op.body + """}
void h_infix(void)
{
    logic_int t[NTOK]; unsigned n; bool valid;
    __CPROVER_assume(n >= 1 && n <= NTOK);
    for (unsigned i = 0; i < NFACE; ++i) { unsigned r; g_senses[i] = (r != 0); }
    bool want = spec_infix(t, n, &valid);
    __CPROVER_assume(valid);
    LogicEvaluator ev = {{t, n}};
    bool got = IE_call(&ev);
    /* reachability guards (must FAIL): nested groups with a short-circuit over a nested group are among the valid inputs */
    __CPROVER_assert(!(n == 7 && t[0] == logic_lopen && t[2] == logic_lor && t[3] == logic_lopen && g_senses[0]), "cover.nested_group_after_or");
    __CPROVER_assert(!(n >= 9 && t[0] == logic_lopen && t[1] == logic_lopen && t[2] == logic_lnot), "cover.group_first_with_negation");
    __CPROVER_assert(got == want, "infix.equiv: short-circuit evaluation equals plain evaluation of the infix expression");
    VERIF_CANARY();
}
""")
    return build


UNITS += [
    Unit("c10_infix_n9", build_infix(9), "h_infix", unwind=11, timeout=900,
         bounded="every well-formed infix string of <= 9 tokens over 3 faces, all sense assignments (symbolic)",
         must_have=[r"infix.equiv", r"celer_assert", r"celer_expect", r"unwinding assertion"], checks=["--bounds-check", "--pointer-check"], replay=REPLAY_C10,
         assumptions=["infix grammar as emitted by InfixStringBuilder: one operator kind per parenthesised group, negation of faces only"],
         note="InfixEvaluator (operator() and short_circuit) == plain infix evaluation (bounded)"),
    Unit("c10_infix_n13", build_infix(13), "h_infix", unwind=15, timeout=7200, tier="thorough",
         bounded="every well-formed infix string of <= 13 tokens over 3 faces (three nesting levels with content)",
         must_have=[r"infix.equiv", r"unwinding assertion"], checks=["--bounds-check", "--pointer-check"], replay=REPLAY_C10,
         assumptions=["infix grammar as emitted by InfixStringBuilder"],
         note="InfixEvaluator == plain infix evaluation (bounded, thorough)"),
]


# ---------------------------------------------------------------------------
# DeMorganSimplifier::dealias (host): following aliases ends on a node that is not an alias
# ---------------------------------------------------------------------------
from vkit.extract import LoopContracts as _LC  # noqa: E402

DMS = "src/orange/orangeinp/detail/DeMorganSimplifier.cc"
DEAL_MODEL = """
typedef size_type NodeId;
#define NNODE 16
typedef struct { NodeId node; } Aliased;
/* the CSG tree as seen by dealias: which nodes are Aliased and what they point to.  CsgTree invariant (enforced on insertion): a node only refers to nodes with a LOWER id. */
bool g_is_alias[NNODE]; Aliased g_alias[NNODE]; size_type g_tree_size;
NodeId g_w;    /* ghost witness: a node on the chain */
static Aliased const* TREE_get_if_aliased(NodeId id) { __CPROVER_assert(id < g_tree_size, "celer_expect: CsgTree::operator[] id < size"); return g_is_alias[id] ? &g_alias[id] : 0; }   /* std::get_if<Aliased>(&tree_[id]) */
#define CHAIN_OK(i) (!g_is_alias[i] || g_alias[i].node < (i))
#define TREE_OK (g_tree_size <= NNODE && CHAIN_OK(0) && CHAIN_OK(1) && CHAIN_OK(2) && CHAIN_OK(3) && CHAIN_OK(4) && CHAIN_OK(5) && CHAIN_OK(6) && CHAIN_OK(7) && CHAIN_OK(8) && CHAIN_OK(9) && CHAIN_OK(10) && CHAIN_OK(11) && CHAIN_OK(12) && CHAIN_OK(13) && CHAIN_OK(14) && CHAIN_OK(15))
"""
DEAL_RULES = [
    Rule(r"tree_\.size\(\)", "g_tree_size", "*", note="CsgTree::size()"),
    Rule(r"NodeId dealiased\{node_id\};", "NodeId dealiased = node_id;", (0, 1), note="brace initialisation"),
    Rule(r"while \(auto const\* aliased = std::get_if<Aliased>\(&tree_\[(\w+)\]\)\)\s*\{", r"while (TREE_get_if_aliased(\1))\n    {\n        Aliased const* aliased = TREE_get_if_aliased(\1);", (0, 1), note="while-with-declaration on std::get_if -> condition + declaration"),
    Rule(r"if \(auto const\* aliased = std::get_if<Aliased>\(&tree_\[(\w+)\]\)\)\s*\{", r"if (TREE_get_if_aliased(\1))\n    {\n        Aliased const* aliased = TREE_get_if_aliased(\1);", (0, 1), note="if-with-declaration on std::get_if -> condition + declaration"),
]


def build_dealias(ctx):
    import re
    pc = ctx.func(DMS, r"^NodeId DeMorganSimplifier::dealias\(NodeId node_id\) const", DEAL_RULES, name="DeMorganSimplifier::dealias (host)")
    body = pc.body
    nloops = len(re.findall(r"\bwhile\b", body))
    if nloops:
        rep = []
        body = _LC(["    __CPROVER_assigns(dealiased)\n    __CPROVER_loop_invariant(dealiased < g_tree_size && dealiased <= node_id)\n    __CPROVER_decreases(dealiased)\n"] + [None] * (nloops - 1)).apply(body, rep, "DeMorganSimplifier::dealias")
        ctx.report.extend(rep)
    return (HDR + DEAL_MODEL + """
NodeId DMS_dealias(NodeId node_id)
__CPROVER_requires(TREE_OK && node_id < g_tree_size)      /* own CELER_EXPECT + tree invariant */
__CPROVER_assigns()
/* the node to use in place of node_id is a real node, never another alias -- however long the alias chain is */
__CPROVER_ensures(__CPROVER_return_value < g_tree_size && !g_is_alias[__CPROVER_return_value < NNODE ? __CPROVER_return_value : 0])
/* and it is node_id itself exactly when node_id is not an alias */
__CPROVER_ensures((__CPROVER_return_value == node_id) == !g_is_alias[node_id < NNODE ? node_id : 0])
{""" + body + """}
void h_deal(void)
{
    NodeId n;
    DMS_dealias(n);
    VERIF_CANARY();
}
""")


UNITS += [
    Unit("c10_dealias", build_dealias, "h_deal", enforce="DMS_dealias", loop_contracts=True, timeout=300, unwind=18, backend=["sat", "kissat", "cvc5"],
         must_have=[r"DMS_dealias.postcondition", r"celer_expect"], checks=["--bounds-check", "--pointer-check"],
         assumptions=["CsgTree invariant: a node refers only to lower node ids (so alias chains are finite)", "tree of <= 16 nodes in the harness (the loop is closed by a loop contract)"],
         note="DeMorganSimplifier::dealias (host): for alias chains of any length the result is a node that is not an alias; it is the node itself iff that node is not an alias; all tree accesses in range"),
]
