"""C17: user scoring receives exactly the steps that happened (per-slot gather / tally kernels)."""
import re
from vkit.extract import Rule
from vkit.runner import Unit
from units.c01 import Q_RULES

SGE = "src/celeritas/user/detail/StepGatherExecutor.hh"
SCE = "src/celeritas/user/detail/SimpleCaloExecutor.hh"
AT = "src/corecel/math/Atomics.hh"

HDR = '#include "celer.h"\n'

# attribute table: (name in StepStateData / StepSelection, C type, view expression giving the track's value, only at post?)
POINT_ATTRS = [("time", "real_type", "track->t->time"), ("pos", "real_type", "track->t->pos"), ("dir", "real_type", "track->t->dir"),
               ("volume_id", "size_type", "(track->t->outside ? INVALID_ID : track->t->volume)"), ("energy", "real_type", "track->t->energy")]
POST_ATTRS = [("event_id", "size_type", "track->t->event_id"), ("parent_id", "size_type", "track->t->parent_id"), ("track_step_count", "size_type", "track->t->num_steps"),
              ("action_id", "size_type", "track->t->post_step_action"), ("step_length", "real_type", "track->t->step_length"),
              ("energy_deposition", "real_type", "track->t->energy_deposition"), ("particle", "size_type", "track->t->particle_id")]

SGE_MODEL = """
#include <stdlib.h>
enum { TS_inactive = 0, TS_initializing = 1, TS_alive = 2, TS_errored = 3, TS_killed = 4 };
enum { SP_pre = 0, SP_post = 1 };           /* StepPoint (bound) */
#define INVALID_ID ((size_type)-1)
/* one slot's track state as seen through the views (Real3 pos/dir abstracted to one component each) */
typedef struct { int status; size_type track_id, event_id, parent_id, num_steps, post_step_action, volume, particle_id; bool outside;
                 real_type time, step_length, pos, dir, energy, energy_deposition; } GTrack;
typedef struct { GTrack* t; size_type slot; } CoreTrackView;
typedef struct { bool time, pos, dir, volume_id, energy; } StepPointSelection;
typedef struct { StepPointSelection points[2]; bool event_id, parent_id, track_step_count, action_id, step_length, particle, energy_deposition; } StepSelection;
typedef struct { size_type const* ptr; size_type size; } DetectorMap;      /* Collection<DetectorId, ..., VolumeId> */
typedef struct { StepSelection selection; DetectorMap detector; bool nonzero_energy_deposition; } StepParamsData;
typedef struct { real_type* time; real_type* pos; real_type* dir; size_type* volume_id; real_type* energy; } StepPointState;
typedef struct { StepPointState points[2]; size_type* track_id; size_type* detector; size_type* event_id; size_type* parent_id; size_type* track_step_count;
                 size_type* action_id; real_type* step_length; real_type* energy_deposition; size_type* particle; size_type size_; } StepStateDataImpl;
typedef struct { StepStateDataImpl data; } StepStateData;
typedef struct { StepParamsData const* params; StepStateData* state; } StepGatherExecutor;
static size_type CTV_track_slot_id(CoreTrackView const* track) { return track->slot; }
static size_type DET_AT(DetectorMap const* d, size_type vol) { __CPROVER_assert(vol < d->size, "celer_expect: Collection::operator[] i < size (detector map)"); return d->ptr[vol]; }
"""

SGE_RULES = Q_RULES + [
    Rule(r"CELER_EXPECT\(params && state\);", "CELER_EXPECT(self->params != 0 && self->state != 0);", 1, note="operator bool of the data references"),
    Rule(r"this->params\.detector\[vol\]", "DET_AT(&self->params->detector, vol)", "*", note="Collection[VolumeId] -> bounds assertion + index"),
    Rule(r"this->params\.detector\.empty\(\)", "(self->params->detector.size == 0)", "*", note="Collection::empty()"),
    Rule(r"this->params\.", "self->params->", "*", note="executor member (reference data)"),
    Rule(r"this->state\.", "self->state->", "*", note="executor member (reference data)"),
    Rule(r"track\.track_slot_id\(\)", "CTV_track_slot_id(track)", "*", note="CoreTrackView member"),
    Rule(r"auto const (sim|geo|par|pstep) = track\.make_\w+_view\(\);", r"/* view \1: reads go to track->t */", "*", note="view handles dropped: member reads lowered to the slot record"),
    Rule(r"sim\.status\(\)", "track->t->status", "*", note="view read"),
    Rule(r"TrackStatus::(\w+)", r"TS_\1", "*", note="enum class value (bound)"),
    Rule(r"StepPoint::(pre|post)", r"SP_\1", "*", note="enum class value (bound)"),
    Rule(r"inactive \? TrackId\{\} : sim\.track_id\(\)", "inactive ? INVALID_ID : track->t->track_id", "*", note="OpaqueId{} -> invalid"),
    Rule(r"= \{\};", "= INVALID_ID;", "*", note="DetectorId{} -> invalid"),
    Rule(r"CELER_ASSERT\(!geo\.is_outside\(\)\);", "CELER_ASSERT(!track->t->outside);", "*", note="view read"),
    Rule(r"VolumeId vol = geo\.volume_id\(\);", "size_type vol = track->t->volume;", "*", note="view read"),
    Rule(r"CELER_ASSERT\(vol\);", "CELER_ASSERT(vol != INVALID_ID);", "*", note="OpaqueId::operator bool"),
    Rule(r"if \(!self->state->data\.detector\[CTV_track_slot_id\(track\)\]\)", "if (self->state->data.detector[CTV_track_slot_id(track)] == INVALID_ID)", "*", note="OpaqueId::operator bool"),
    Rule(r"pstep\.energy_deposition\(\)", "track->t->energy_deposition", "*", note="view read"),
    Rule(r"sim\.time\(\)", "track->t->time", "*", note="view read"),
    Rule(r"sim\.event_id\(\)", "track->t->event_id", "*", note="view read"),
    Rule(r"sim\.parent_id\(\)", "track->t->parent_id", "*", note="view read"),
    Rule(r"sim\.num_steps\(\)", "track->t->num_steps", "*", note="view read"),
    Rule(r"sim\.post_step_action\(\)", "track->t->post_step_action", "*", note="view read"),
    Rule(r"sim\.step_length\(\)", "track->t->step_length", "*", note="view read"),
    Rule(r"geo\.pos\(\)", "track->t->pos", "*", note="view read (Real3 abstracted to one component)"),
    Rule(r"geo\.dir\(\)", "track->t->dir", "*", note="view read (Real3 abstracted to one component)"),
    Rule(r"geo\.is_outside\(\) \? VolumeId\{\} : geo\.volume_id\(\)", "track->t->outside ? INVALID_ID : track->t->volume", "*", note="view reads"),
    Rule(r"par\.particle_id\(\)", "track->t->particle_id", "*", note="view read"),
    Rule(r"par\.energy\(\)", "track->t->energy", "*", note="view read"),
]


def _attr_list(P):
    out = [("points[%d].%s" % (P, n), "points[%d].%s" % (P, n), ty, val) for n, ty, val in POINT_ATTRS]
    if P == 1:
        out += [(n, n, ty, val) for n, ty, val in POST_ATTRS]
    return out


def build_gather(P):
    def build(ctx):
        pc = ctx.func(SGE, r"^StepGatherExecutor<P>::operator\(\)\(celeritas::CoreTrackView const& track\)", SGE_RULES, name="StepGatherExecutor<P>::operator()")
        attrs = _attr_list(P)
        other = _attr_list(1 - P) if P == 1 else [a for a in _attr_list(1) if a not in _attr_list(0)] + [("points[1].%s" % n, "points[1].%s" % n, ty, v) for n, ty, v in POINT_ATTRS]
        D = "self->state->data"
        S = "track->slot"
        # ghost old values for this slot and a witness slot g_w
        ghost = "size_type g_w; /* witness: another slot */\n"
        olds = []
        for i, (st, sel, ty, val) in enumerate(attrs + other):
            ghost += "%s g_old_%d, g_oldw_%d;\n" % (ty, i, i)
        ghost += "size_type g_old_det, g_oldw_det, g_old_tid, g_oldw_tid;\n"
        req = []
        for i, (st, sel, ty, val) in enumerate(attrs + other):
            req.append("g_old_%d == %s.%s[%s] && g_oldw_%d == %s.%s[g_w]" % (i, D, st, S, i, D, st))
        req.append("g_old_det == %s.detector[%s] && g_oldw_det == %s.detector[g_w] && g_old_tid == %s.track_id[%s] && g_oldw_tid == %s.track_id[g_w]" % (D, S, D, D, S, D))
        active = "(track->t->status != TS_inactive)"
        hasdet = "(self->params->detector.size != 0)"
        if P == 0:
            det_expected = "(%s ? (%s ? self->params->detector.ptr[track->t->volume] : INVALID_ID) : g_old_det)" % (hasdet, active)
            passes = "(%s && (!%s || self->params->detector.ptr[track->t->volume] != INVALID_ID))" % (active, hasdet)
        else:
            filt = "(self->params->nonzero_energy_deposition && track->t->energy_deposition == 0)"
            det_expected = "((%s && %s && g_old_det != INVALID_ID && %s) ? INVALID_ID : g_old_det)" % (hasdet, active, filt)
            passes = "(%s && (!%s || (g_old_det != INVALID_ID && !%s)))" % (active, hasdet, filt)
        ens = []
        ens.append("%s.detector[%s] == %s" % (D, S, det_expected))
        if P == 1:
            ens.append("%s.track_id[%s] == (%s ? track->t->track_id : INVALID_ID)   /* inactive slots are flagged by a null track id */" % (D, S, active))
        else:
            ens.append("%s.track_id[%s] == g_old_tid" % (D, S))
        for i, (st, sel, ty, val) in enumerate(attrs):
            ens.append("%s.%s[%s] == ((%s && self->params->selection.%s) ? %s : g_old_%d)   /* selected and delivered => the track's value; otherwise untouched */" % (D, st, S, passes, sel, val, i))
        for j, (st, sel, ty, val) in enumerate(other):
            i = len(attrs) + j
            ens.append("%s.%s[%s] == g_old_%d   /* attributes of the other step point are not written by this instantiation */" % (D, st, S, i))
        # frame: witness slot untouched
        fr = " && ".join("%s.%s[g_w] == g_oldw_%d" % (D, st, i) for i, (st, sel, ty, val) in enumerate(attrs + other))
        ens.append("g_w != %s ==> (%s && %s.detector[g_w] == g_oldw_det && %s.track_id[g_w] == g_oldw_tid)   /* only this slot's entries are written */" % (S, fr, D, D))
        assigns = ", ".join("%s.%s[%s]" % (D, st, S) for st, sel, ty, val in attrs) + ", %s.detector[%s], %s.track_id[%s]" % (D, S, D, S)
        alloc = []
        for pt in (0, 1):
            for n, ty, v in POINT_ATTRS:
                alloc.append("st.data.points[%d].%s = malloc(n * sizeof(%s));" % (pt, n, ty))
        for n, ty, v in POST_ATTRS:
            alloc.append("st.data.%s = malloc(n * sizeof(%s));" % (n, ty))
        alloc.append("st.data.track_id = malloc(n * sizeof(size_type)); st.data.detector = malloc(n * sizeof(size_type));")
        rw = " && ".join(["__CPROVER_rw_ok(%s.%s, %s.size_ * sizeof(%s))" % (D, st, D, ty) for st, sel, ty, val in attrs + other]
                         + ["__CPROVER_rw_ok(%s.detector, %s.size_ * sizeof(size_type))" % (D, D), "__CPROVER_rw_ok(%s.track_id, %s.size_ * sizeof(size_type))" % (D, D)])
        nn = " && ".join(["%s.%s != 0" % ("st.data", st) for st, sel, ty, val in attrs + other] + ["st.data.detector != 0", "st.data.track_id != 0"])
        sig = ("void SGE_call(StepGatherExecutor const* self, CoreTrackView const* track)\n"
               "__CPROVER_requires(self != 0 && self->params != 0 && self->state != 0 && track != 0 && track->t != 0)\n"
               "__CPROVER_requires(%s.size_ >= 1 && %s.size_ <= 8 && track->slot < %s.size_ && g_w < %s.size_)\n" % (D, D, D, D)
               + "__CPROVER_requires(%s)\n" % rw
               + "__CPROVER_requires(self->params->detector.size <= 16 && __CPROVER_r_ok(self->params->detector.ptr, self->params->detector.size * sizeof(size_type)))\n"
               + "/* an active track is inside the geometry in a known volume whose entry exists in the detector map (if any detectors are defined) */\n"
               + "__CPROVER_requires((track->t->status != TS_inactive && self->params->detector.size != 0) ==> (!track->t->outside && track->t->volume != INVALID_ID && track->t->volume < self->params->detector.size))\n"
               + "__CPROVER_requires(track->t->status >= 0 && track->t->status < 5)\n"
               + "__CPROVER_requires(!__CPROVER_isnand(track->t->time) && !__CPROVER_isnand(track->t->pos) && !__CPROVER_isnand(track->t->dir) && !__CPROVER_isnand(track->t->energy) && !__CPROVER_isnand(track->t->step_length) && !__CPROVER_isnand(track->t->energy_deposition))   /* track quantities are numbers */\n"
               + "".join("__CPROVER_requires(%s)\n" % r for r in req)
               + "__CPROVER_assigns(%s)\n" % assigns
               + "".join("__CPROVER_ensures(%s)\n" % e.split("   /*")[0] for e in ens))
        itv = ctx.func("src/celeritas/Types.hh", r"CELER_CONSTEXPR_FUNCTION bool is_track_valid\(TrackStatus status\)", [Rule(r"TrackStatus::(\w+)", r"TS_\1", "+", note="enum class value (bound)")], name="is_track_valid")
        helper = "static bool is_track_valid(int status)     /* celeritas::is_track_valid (real body; only used by edited text) */\n{" + itv.body + "}\n"
        return (HDR + SGE_MODEL + "#define P %d\n" % P + ghost + helper + sig + "{" + pc.body + "}\n" + """
void h_sge(void)
{
    size_type n, slot, w, nd; __CPROVER_assume(n >= 1 && n <= 8 && nd <= 16);
    StepStateData st; StepParamsData pr; GTrack t; unsigned b[32];
    st.data.size_ = n;
    """ + "\n    ".join(alloc) + """
    __CPROVER_assume(""" + nn + """);
    size_type* dm = malloc(nd * sizeof(size_type)); __CPROVER_assume(dm != 0);
    pr.detector.ptr = dm; pr.detector.size = nd;
    pr.nonzero_energy_deposition = (b[0] != 0);
    for (int k = 0; k < 2; ++k) { pr.selection.points[k].time = (b[1 + 5 * k] != 0); pr.selection.points[k].pos = (b[2 + 5 * k] != 0); pr.selection.points[k].dir = (b[3 + 5 * k] != 0); pr.selection.points[k].volume_id = (b[4 + 5 * k] != 0); pr.selection.points[k].energy = (b[5 + 5 * k] != 0); }
    pr.selection.event_id = (b[11] != 0); pr.selection.parent_id = (b[12] != 0); pr.selection.track_step_count = (b[13] != 0); pr.selection.action_id = (b[14] != 0);
    pr.selection.step_length = (b[15] != 0); pr.selection.particle = (b[16] != 0); pr.selection.energy_deposition = (b[17] != 0); t.outside = (b[18] != 0);
    CoreTrackView tv = {&t, slot}; StepGatherExecutor ex = {&pr, &st};
    g_w = w;
    if (slot < n && w < n) {
""" + "\n".join("        g_old_%d = st.data.%s[slot]; g_oldw_%d = st.data.%s[w];" % (i, stn, i, stn) for i, (stn, sel, ty, val) in enumerate(attrs + other)) + """
        g_old_det = st.data.detector[slot]; g_oldw_det = st.data.detector[w]; g_old_tid = st.data.track_id[slot]; g_oldw_tid = st.data.track_id[w];
    }
    SGE_call(&ex, &tv);
    VERIF_CANARY();
}
""")
    return build


# ---- SimpleCaloExecutor ------------------------------------------------------
SCE_MODEL = """
#include <stdlib.h>
#define INVALID_ID ((size_type)-1)
typedef struct { size_type* detector; real_type* energy_deposition; size_type detector_size, edep_size; } StepData_;
typedef struct { StepData_ data; } StepRef;
typedef struct { real_type* ptr; size_type size; } RealItems;
typedef struct { RealItems energy_deposition; } CaloRef;
typedef struct { StepRef step; CaloRef calo; } SimpleCaloExecutor;
size_type g_w; real_type g_oldw, g_old;   /* ghost: witness detector and its tally before; this step's detector tally before */
"""
SCE_RULES = Q_RULES + [
    Rule(r"step\.data\.detector\.size\(\)", "self->step.data.detector_size", "*", note="Collection::size()"),
    Rule(r"!step\.data\.energy_deposition\.empty\(\)", "(self->step.data.edep_size != 0)", "*", note="Collection::empty()"),
    Rule(r"DetectorId det = step\.data\.detector\[tid\];", "size_type det = self->step.data.detector[tid];", 1, note="Collection[tid]; tid < size by the EXPECT above"),
    Rule(r"if \(!det\)", "if (det == INVALID_ID)", 1, note="OpaqueId::operator bool"),
    Rule(r"static_assert\(.*?\);", "", 1, flags=16, note="static_assert on units dropped"),
    Rule(r"step\.data\.energy_deposition\[tid\]", "self->step.data.energy_deposition[tid]", 1, note="Collection[tid]"),
    Rule(r"calo\.energy_deposition\.size\(\)", "self->calo.energy_deposition.size", "*", note="Collection::size()"),
    Rule(r"&calo\.energy_deposition\[det\]", "&self->calo.energy_deposition.ptr[det]", 1, note="Collection[det] address (det < size asserted just above)"),
]


def build_calo(ctx):
    aa = ctx.func(AT, r"CELER_FORCEINLINE_FUNCTION T atomic_add\(T\* address, T value\)", [
        Rule(r"#if CELER_DEVICE_COMPILE\s*return atomicAdd\(address, value\);\s*#else", "", 1, note="device branch dropped (host build)"),
        Rule(r"#\s*if defined\(_OPENMP\) && CELERITAS_OPENMP == CELERITAS_OPENMP_TRACK\s*#\s*pragma omp atomic capture\s*#\s*endif", "", 1, note="omp atomic pragma dropped: atomics treated sequentially"),
        Rule(r"#endif", "", 1, note="preprocessor"),
        Rule(r"\bT\b", "real_type", "+", note="template parameter bound to real_type"),
    ], name="atomic_add<T>")
    pc = ctx.func(SCE, r"CELER_FUNCTION void SimpleCaloExecutor::operator\(\)\(TrackSlotId tid\)", SCE_RULES, name="SimpleCaloExecutor::operator()")
    return (HDR + SCE_MODEL + "static real_type atomic_add(real_type* address, real_type value)\n{" + aa.body + "}\n" + """
#define DET (self->step.data.detector[tid])
#define TALLY(d) (self->calo.energy_deposition.ptr[d])
void SCE_call(SimpleCaloExecutor* self, size_type tid)
__CPROVER_requires(self != 0 && self->step.data.detector_size >= 1 && self->step.data.detector_size <= 8 && self->step.data.edep_size == self->step.data.detector_size)
__CPROVER_requires(__CPROVER_r_ok(self->step.data.detector, self->step.data.detector_size * sizeof(size_type)) && __CPROVER_r_ok(self->step.data.energy_deposition, self->step.data.edep_size * sizeof(real_type)))
__CPROVER_requires(self->calo.energy_deposition.size >= 1 && self->calo.energy_deposition.size <= 16 && __CPROVER_rw_ok(self->calo.energy_deposition.ptr, self->calo.energy_deposition.size * sizeof(real_type)))
__CPROVER_requires(tid < self->step.data.detector_size)     /* own CELER_EXPECT */
/* what the gather kernels deliver for a slot with a detector: the detector exists in this calorimeter and the deposit is positive
   (SimpleCalo selects energy_deposition and sets the non-zero-deposit filter) */
__CPROVER_requires(DET != INVALID_ID ==> (DET < self->calo.energy_deposition.size && self->step.data.energy_deposition[tid] > 0 && !__CPROVER_isinfd(self->step.data.energy_deposition[tid])))
__CPROVER_requires(g_w < self->calo.energy_deposition.size && g_oldw == TALLY(g_w) && !__CPROVER_isnand(g_oldw) && (DET != INVALID_ID ==> (g_old == TALLY(DET) && !__CPROVER_isnand(g_old) && !__CPROVER_isinfd(g_old))))
__CPROVER_assigns(__CPROVER_object_whole(self->calo.energy_deposition.ptr))
/* the delivered deposit is added to its detector's tally, exactly once; every other tally is untouched; a slot without detector changes nothing */
__CPROVER_ensures(DET != INVALID_ID ==> TALLY(DET) == g_old + self->step.data.energy_deposition[tid])
__CPROVER_ensures((DET == INVALID_ID || g_w != DET) ==> TALLY(g_w) == g_oldw)
{""" + pc.body + """}
void h_sce(void)
{
    size_type n, nd, tid, w; __CPROVER_assume(n >= 1 && n <= 8 && nd >= 1 && nd <= 16);
    SimpleCaloExecutor ex;
    ex.step.data.detector = malloc(n * sizeof(size_type)); ex.step.data.energy_deposition = malloc(n * sizeof(real_type));
    ex.step.data.detector_size = n; ex.step.data.edep_size = n;
    ex.calo.energy_deposition.ptr = malloc(nd * sizeof(real_type)); ex.calo.energy_deposition.size = nd;
    __CPROVER_assume(ex.step.data.detector && ex.step.data.energy_deposition && ex.calo.energy_deposition.ptr);
    g_w = w;
    if (w < nd) g_oldw = ex.calo.energy_deposition.ptr[w];
    if (tid < n && ex.step.data.detector[tid] < nd) g_old = ex.calo.energy_deposition.ptr[ex.step.data.detector[tid]];
    SCE_call(&ex, tid);
    VERIF_CANARY();
}
""")


CHECKS = ["--bounds-check", "--pointer-check"]
UNITS = [
    Unit("c17_gather_pre", build_gather(0), "h_sge", enforce="SGE_call", timeout=600, object_bits=10, unwind=4, backend=["sat", "cvc5"],
         must_have=[r"SGE_call.postcondition", r"celer_assert", r"celer_expect"], checks=CHECKS,
         assumptions=["view accessors are plain reads of the slot's state; Real3 pos/dir abstracted to one component each"],
         note="StepGatherExecutor<pre>: detector = map[volume] for active tracks and cleared for inactive ones; every selected pre-step attribute equals the track's value iff the step is delivered; unselected attributes, post-step attributes and other slots untouched"),
    Unit("c17_gather_post", build_gather(1), "h_sge", enforce="SGE_call", timeout=600, object_bits=10, unwind=4, backend=["sat", "cvc5"],
         must_have=[r"SGE_call.postcondition", r"celer_expect"], checks=CHECKS,
         assumptions=["view accessors are plain reads of the slot's state; Real3 pos/dir abstracted to one component each"],
         note="StepGatherExecutor<post>: track_id null for inactive slots; zero-deposit filter clears the detector; selected post-step attributes equal the track's values iff delivered; everything else untouched"),
    Unit("c17_simple_calo", build_calo, "h_sce", enforce="SCE_call", timeout=300, object_bits=10, backend=["sat", "cvc5"],
         must_have=[r"SCE_call.postcondition", r"celer_assert", r"celer_expect"], checks=CHECKS,
         assumptions=["atomic_add treated as sequential read-modify-write", "gather kernels deliver detector < calorimeter size and deposit > 0 (non-zero filter set by SimpleCalo)"],
         note="SimpleCaloExecutor: tally[det] += deposit exactly once, all other tallies untouched, nothing for slots without detector; both in-body CELER_ASSERTs hold"),
]


# ---------------------------------------------------------------------------
# StepParams constructor: merge of selections and filters over the registered callbacks (span extraction)
# ---------------------------------------------------------------------------
from vkit.extract import LoopContracts  # noqa: E402

SPC = "src/celeritas/user/detail/StepParams.cc"

SP_MODEL = """
#define NCB 8
typedef struct { size_type ndet; bool nonzero_energy_deposition; } Filters;     /* StepInterface::Filters {detectors (map), nonzero_energy_deposition} */
unsigned g_sel[NCB]; Filters g_filters[NCB]; size_type g_ncb;                   /* ghost: what each registered callback declares */
int g_threw;                                                                    /* CELER_VALIDATE threw */
bool g_and; unsigned g_or;                                                      /* ghost: specified merge, in lock-step */
#define CELER_VALIDATE_C(c) if (!(c)) { g_threw = 1; return; }
/* detector map insertion of one callback's volumes (std::map; may report a duplicate volume): assumed */
bool MAP_insert_all(size_type cb) __CPROVER_requires(cb < NCB) __CPROVER_assigns() __CPROVER_ensures(__CPROVER_return_value == 0 || __CPROVER_return_value == 1);
bool out_nonzero; unsigned out_selection;                                       /* the merged values the constructor stores in StepParamsData */
"""
SP_RULES = [
    Rule(r"StepSelection selection;", "unsigned selection = 0;   /* StepSelection as a bit set: operator|= is bitwise or, operator bool is != 0 */", 1, note="StepSelection -> bit set"),
    Rule(r"CELER_ASSERT\(!selection\);", "CELER_ASSERT(!selection); g_and = 1; g_or = 0; /* ghost init */", 1, note="ghost init"),
    Rule(r"StepInterface::MapVolumeDetector detector_map;", "", 1, note="std::map dropped (insertions stubbed)"),
    Rule(r"bool nonzero_energy_deposition\{([^{}]*)\};", r"bool nonzero_energy_deposition = \1;", 1, note="brace initialisation"),
    Rule(r"HasDetectors has_det = HasDetectors::unknown;", "int has_det = HD_unknown;", 1, note="local enum class -> int constants"),
    Rule(r"for \(SPStepInterface const& sp_interface : callbacks\)\s*\{", "for (size_type ci_ = 0; ci_ < g_ncb; ++ci_)\n    {\n        g_and = g_and && g_filters[ci_].nonzero_energy_deposition; g_or = g_or | g_sel[ci_]; /* ghost: the specified merge: filter only if ALL callbacks want it; selection = union */", 1, note="range-for over the callbacks vector -> index loop over the ghost tables; ghost lock-step"),
    Rule(r"auto&& this_selection = sp_interface->selection\(\);", "unsigned this_selection = g_sel[ci_];", 1, note="virtual call -> ghost table"),
    Rule(r"CELER_VALIDATE\(([^,]*),.*?\);", r"CELER_VALIDATE_C(\1)", "+", flags=16, note="CELER_VALIDATE -> ghost throw flag + early return"),
    Rule(r"auto const&& filters = sp_interface->filters\(\);", "Filters filters = g_filters[ci_];", 1, note="virtual call -> ghost table"),
    Rule(r"for \(auto const& kv : filters\.detectors\)\s*\{.*?CELER_VALIDATE_C\(inserted\)\s*\}", "{ bool inserted = MAP_insert_all(ci_); CELER_VALIDATE_C(inserted) }", 1, flags=16, note="std::map insertion loop -> stub (uniqueness validation kept)"),
    Rule(r"filters\.detectors\.empty\(\)", "(filters.ndet == 0)", 1, note="map::empty()"),
    Rule(r"auto this_has_detectors =", "int this_has_detectors =", 1, note="auto -> int"),
    Rule(r"HasDetectors::(\w+)", r"HD_\1", "+", note="local enum class -> int constants"),
    LoopContracts([
        "    __CPROVER_assigns(ci_, selection, nonzero_energy_deposition, has_det, g_and, g_or, g_threw)\n"
        "    __CPROVER_loop_invariant(ci_ <= g_ncb && g_threw == 0 && nonzero_energy_deposition == g_and && selection == g_or && (ci_ > 0 ? selection != 0 : 1))\n"
        "    __CPROVER_decreases(g_ncb - ci_)\n"]),
]


def build_step_params_merge(ctx):
    pc = ctx.span(SPC, r"StepSelection selection;", r"CELER_ASSERT\(selection\);", SP_RULES, name="StepParams::StepParams (merge over callbacks)")
    return (HDR + SP_MODEL + "enum { HD_unknown = -1, HD_none = 0, HD_all = 1 };\n" + """
void SP_merge(void)
__CPROVER_requires(g_ncb >= 1 && g_ncb <= NCB && g_threw == 0)
__CPROVER_assigns(g_and, g_or, g_threw, out_nonzero, out_selection)
/* unless construction is rejected: steps with zero deposit are filtered only if EVERY registered callback asked for it; the gathered selection is the union */
__CPROVER_ensures(!g_threw ==> (out_nonzero == g_and && out_selection == g_or && out_selection != 0))
{
    """ + pc.body + """
    out_nonzero = nonzero_energy_deposition; out_selection = selection;   /* host_data.nonzero_energy_deposition / host_data.selection */
}
void h_spm(void)
{
    size_type n; g_ncb = n;
    for (unsigned i = 0; i < NCB; ++i) { unsigned r; g_filters[i].nonzero_energy_deposition = (r != 0); }
    SP_merge();
    VERIF_CANARY();
}
""")


UNITS += [
    Unit("c17_step_params_merge", build_step_params_merge, "h_spm", enforce="SP_merge", replace=["MAP_insert_all"], loop_contracts=True, unwind=10, timeout=300,
         must_have=[r"SP_merge.postcondition", r"loop_invariant_step", r"celer_assert"], checks=["--bounds-check", "--pointer-check"],
         assumptions=["StepSelection abstracted to a bit set; std::map insertion stubbed; the span is cut out of the constructor (from `StepSelection selection;` to `CELER_ASSERT(selection);`)"],
         note="StepParams constructor: non-zero-deposit filter = AND over callbacks, selection = OR over callbacks (lock-step loop invariant, any number of callbacks <= 8)"),
]


# ---------------------------------------------------------------------------
# Action / step diagnostics: one tally per delivered step, in the right bin
# ---------------------------------------------------------------------------
ADE = "src/celeritas/user/detail/ActionDiagnosticExecutor.hh"
SDE = "src/celeritas/user/detail/StepDiagnosticExecutor.hh"
ALGO = "src/corecel/math/Algorithms.hh"

DIAG_MODEL = """
#include <stdlib.h>
#define INVALID_ID ((size_type)-1)
enum { TS_inactive = 0, TS_initializing = 1, TS_alive = 2, TS_errored = 3, TS_killed = 4 };   /* TrackStatus (bound) */
typedef struct { size_type num_bins, num_particles; } DiagParams;       /* ParticleTallyParamsData */
typedef struct { size_type* ptr; size_type size; } Counts;
typedef struct { Counts counts; } DiagState;                            /* ParticleTallyStateData: counts[particle * num_bins + bin] */
typedef struct { size_type post_step_action, particle_id, num_steps; int status; } Track;
typedef struct { Track const* t; } CoreTrackView;
typedef struct { DiagParams params; DiagState state; } DiagExecutor;
#define NCOUNT 64
size_type g_w, g_oldw;     /* ghost: witness bin and its count before */
#define COUNT(i) (self->state.counts.ptr[i])
#define DIAG_OK (self != 0 && track != 0 && track->t != 0 && self->params.num_bins >= 1 && self->params.num_particles >= 1 && self->params.num_bins <= NCOUNT && self->params.num_particles <= NCOUNT \\
    && self->state.counts.size == self->params.num_bins * self->params.num_particles && self->state.counts.size <= NCOUNT && __CPROVER_rw_ok(self->state.counts.ptr, NCOUNT * sizeof(size_type)) \\
    && g_w < self->state.counts.size && g_oldw == COUNT(g_w) && g_oldw < (size_type)-1)
"""


def atomic_add_size(ctx):
    aa = ctx.func(AT, r"CELER_FORCEINLINE_FUNCTION T atomic_add\(T\* address, T value\)", [
        Rule(r"#if CELER_DEVICE_COMPILE\s*return atomicAdd\(address, value\);\s*#else", "", 1, note="device branch dropped (host build)"),
        Rule(r"#\s*if defined\(_OPENMP\) && CELERITAS_OPENMP == CELERITAS_OPENMP_TRACK\s*#\s*pragma omp atomic capture\s*#\s*endif", "", 1, note="omp atomic pragma dropped: atomics treated sequentially"),
        Rule(r"#endif", "", 1, note="preprocessor"),
        Rule(r"\bT\b", "size_type", "+", note="template parameter bound to size_type"),
    ], name="atomic_add<T>")
    return "static size_type atomic_add(size_type* address, size_type value)\n{" + aa.body + "}\n"


ADE_RULES = [
    Rule(r"CELER_EXPECT\(params\);", "", 1, note="params validity is in the requires (DIAG_OK)"),
    Rule(r"CELER_EXPECT\(state\);", "", 1, note="state validity is in the requires (DIAG_OK)"),
    Rule(r"using BinId = ItemId<size_type>;", "", 1, note="type alias dropped"),
    Rule(r"auto action = track\.make_sim_view\(\)\.post_step_action\(\);", "size_type action = track->t->post_step_action;", 1, note="view read"),
    Rule(r"CELER_ASSERT\(action\);", "CELER_ASSERT(action != INVALID_ID);", "*", note="OpaqueId::operator bool"),
    Rule(r"auto particle = track\.make_particle_view\(\)\.particle_id\(\);", "size_type particle = track->t->particle_id;", 1, note="view read"),
    Rule(r"CELER_ASSERT\(particle\);", "CELER_ASSERT(particle != INVALID_ID);", "*", note="OpaqueId::operator bool"),
    Rule(r"BinId bin\{", "size_type bin = (", 1, note="ItemId construction -> value"),
    Rule(r"\+ action\.unchecked_get\(\)\};", "+ action);", 1, note="ItemId construction -> value"),
    Rule(r"particle\.unchecked_get\(\)", "particle", "*", note="OpaqueId value"),
    Rule(r"(?<![\w.>])params\.(\w+)", r"self->params.\1", "*", note="member"),
    Rule(r"state\.counts\.size\(\)", "self->state.counts.size", "*", note="Collection::size()"),
    Rule(r"&state\.counts\[bin\]", "&self->state.counts.ptr[bin]", "*", note="Collection[bin] address (bin < size asserted just above)"),
    Rule(r"celeritas::atomic_add", "atomic_add", "*", note="namespace"),
    Rule(r"size_type\(1\)", "(size_type)1", "*", note="functional cast"),
]


def build_action_diag(ctx):
    pc = ctx.func(ADE, r"^ActionDiagnosticExecutor::operator\(\)\(CoreTrackView const& track\)", ADE_RULES, name="ActionDiagnosticExecutor::operator()")
    return (HDR + DIAG_MODEL + atomic_add_size(ctx) + """
#define ABIN (track->t->particle_id * self->params.num_bins + track->t->post_step_action)
void ADE_call(DiagExecutor* self, CoreTrackView const* track)
__CPROVER_requires(DIAG_OK)
/* what the action's track filter and the physics guarantee for a delivered step: a defined particle type and a post-step action of the registry (num_bins = number of actions) */
__CPROVER_requires(track->t->particle_id < self->params.num_particles && track->t->post_step_action < self->params.num_bins)
__CPROVER_assigns(__CPROVER_object_whole(self->state.counts.ptr))
/* the delivered step is counted exactly once, in the bin of ITS particle type and ITS post-step action; every other bin is untouched */
__CPROVER_ensures(COUNT(g_w) == g_oldw + (g_w == ABIN ? 1 : 0))
{""" + pc.body + """}
void h_ade(void)
{
    DiagExecutor ex; Track t; CoreTrackView v = {&t}; size_type cnt[NCOUNT]; size_type w;
    ex.state.counts.ptr = cnt; g_w = w; if (w < NCOUNT) g_oldw = cnt[w];
    ADE_call(&ex, &v);
    VERIF_CANARY();
}
""")


SDE_RULES = [
    Rule(r"CELER_EXPECT\(params\);", "", 1, note="params validity is in the requires (DIAG_OK)"),
    Rule(r"CELER_EXPECT\(state\);", "", 1, note="state validity is in the requires (DIAG_OK)"),
    Rule(r"using BinId = ItemId<size_type>;", "", 1, note="type alias dropped"),
    Rule(r"auto sim = track\.make_sim_view\(\);", "", 1, note="view handle"),
    Rule(r"sim\.status\(\)", "track->t->status", "*", note="view read"),
    Rule(r"TrackStatus::(\w+)", r"TS_\1", "*", note="enum value (bound)"),
    Rule(r"auto get = \[this\]\(size_type i, size_type j\) -> size_type& \{(.*?)\};\s*\n", r"@@GET@@\1@@END@@\n", 1, flags=16, note="named lambda returning a reference -> inlined at its single call site (below)"),
    Rule(r"celeritas::min\(", "celer_min_u(", "*", note="celeritas::min<size_type> (extracted)"),
    Rule(r"sim\.num_steps\(\)", "track->t->num_steps", "*", note="view read"),
    Rule(r"(?<![\w.>])params\.(\w+)", r"self->params.\1", "*", note="member"),
    Rule(r"auto particle = track\.make_particle_view\(\)\.particle_id\(\);", "size_type particle = track->t->particle_id;", 1, note="view read"),
    Rule(r"auto& bin = get\(particle\.get\(\), num_steps\);", "size_type* bin; { size_type i = particle, j = num_steps; size_type index = i * self->params.num_bins + j; CELER_ENSURE(index < self->state.counts.size); bin = &self->state.counts.ptr[index]; }", 1,
         note="call of the `get` lambda -> its body with (i, j) bound (text compared with the extracted lambda body below)"),
    Rule(r"atomic_add\(&bin, size_type\{1\}\);", "atomic_add(bin, (size_type)1);", 1, note="reference -> pointer"),
]
GET_EXPECTED = "size_type index = i * self->params.num_bins + j; CELER_ENSURE(index < state.counts.size()); return state.counts[BinId(index)];"


def build_step_diag(ctx):
    import re
    from vkit.extract import ExtractionDrift
    pc = ctx.func(SDE, r"^StepDiagnosticExecutor::operator\(\)\(CoreTrackView const& track\)", SDE_RULES, name="StepDiagnosticExecutor::operator()")
    m = re.search(r"@@GET@@(.*?)@@END@@\n", pc.body, flags=re.S)
    got = " ".join(m.group(1).split()) if m else ""
    if got != GET_EXPECTED:
        raise ExtractionDrift("the `get` lambda of StepDiagnosticExecutor changed: %r" % got)
    body = pc.body.replace(m.group(0), "")
    mn = ctx.func(ALGO, r"CELER_CONSTEXPR_FUNCTION T const& min\(T const& a, T const& b\) noexcept", [], name="celeritas::min<T>")
    return (HDR + DIAG_MODEL + atomic_add_size(ctx) + "static size_type celer_min_u(size_type a, size_type b)\n{" + mn.body + "}\n" + """
#define NSTEP (track->t->num_steps < self->params.num_bins - 1 ? track->t->num_steps : self->params.num_bins - 1)
#define SBIN (track->t->particle_id * self->params.num_bins + NSTEP)
void SDE_call(DiagExecutor* self, CoreTrackView const* track)
__CPROVER_requires(DIAG_OK)
__CPROVER_requires(track->t->particle_id < self->params.num_particles)      /* a defined particle type */
__CPROVER_assigns(__CPROVER_object_whole(self->state.counts.ptr))
/* a track is counted once, when it is killed, in the bin of its particle type and its (clamped) number of steps; otherwise nothing changes */
__CPROVER_ensures(COUNT(g_w) == g_oldw + ((track->t->status == TS_killed && g_w == SBIN) ? 1 : 0))
{""" + body + """}
void h_sde(void)
{
    DiagExecutor ex; Track t; CoreTrackView v = {&t}; size_type cnt[NCOUNT]; size_type w;
    ex.state.counts.ptr = cnt; g_w = w; if (w < NCOUNT) g_oldw = cnt[w];
    SDE_call(&ex, &v);
    VERIF_CANARY();
}
""")


UNITS += [
    Unit("c17_action_diagnostic", build_action_diag, "h_ade", enforce="ADE_call", timeout=300, backend=["sat", "cvc5", "z3"],
         must_have=[r"ADE_call.postcondition", r"celer_assert"], checks=CHECKS,
         assumptions=["atomic_add treated as sequential read-modify-write", "table size bounded (<= 64 bins in the harness)", "wrap-around of a 64-bit counter not considered"],
         note="ActionDiagnosticExecutor: count[particle * num_bins + action] += 1 exactly once, every other bin untouched; the three in-body CELER_ASSERTs hold"),
    Unit("c17_step_diagnostic", build_step_diag, "h_sde", enforce="SDE_call", timeout=300, backend=["sat", "cvc5", "z3"],
         must_have=[r"SDE_call.postcondition", r"celer_ensure"], checks=CHECKS,
         assumptions=["atomic_add treated as sequential read-modify-write", "table size bounded (<= 64 bins in the harness)", "wrap-around of a 64-bit counter not considered"],
         note="StepDiagnosticExecutor: a killed track adds 1 to count[particle * num_bins + min(steps, num_bins-1)], nothing else changes; live tracks change nothing; in-body CELER_ENSURE holds"),
]


# ---------------------------------------------------------------------------
# accumulate_over_streams (host): the reported tally is the sum over ALL allocated streams
# ---------------------------------------------------------------------------
SST = "src/corecel/data/StreamStore.hh"
AOS_MODEL = """
#define INVALID_ID ((size_type)-1)
#define NSTREAM 4
#define NITEM 8
typedef size_type T;                                   /* instantiated for size_type tallies (diagnostic counts); sums are exact modulo 2^64 */
typedef struct { T const* ptr; size_type size; } SpanT;
typedef struct { T* ptr; size_type size_; } VecT;      /* std::vector<T>* result */
typedef struct { T counts[NITEM]; } StreamState;
StreamState g_states[NSTREAM]; bool g_alloc[NSTREAM]; size_type g_nstreams, g_nitems;     /* the store: per-stream states, lazily allocated (any subset) */
size_type g_w; T g_old;                                /* ghost: witness item and its value before */
/* store.state<MemSpace::host>(s): pointer to the stream's state, or null if that stream was never used (deterministic accessor) */
static StreamState const* STORE_host_state(size_type s) { __CPROVER_assert(s < g_nstreams, "celer_expect: stream id < num_streams"); return g_alloc[s] ? &g_states[s] : 0; }
static SpanT FUNC_all_items(StreamState const* st) { SpanT d = {st->counts, g_nitems}; return d; }
/* the specified partial sums: contributions of the allocated streams below s, in stream order */
#define D(s) (g_alloc[s] ? g_states[s].counts[g_w] : (T)0)
#define PSUM(s) ((s) == 0 ? g_old : (s) == 1 ? g_old + D(0) : (s) == 2 ? g_old + D(0) + D(1) : (s) == 3 ? g_old + D(0) + D(1) + D(2) : g_old + D(0) + D(1) + D(2) + D(3))
"""
AOS_RULES = [
    Rule(r"std::vector<T> temp_host;", "", (0, 1), note="device staging buffer (unused on the host path)"),
    Rule(r"for \(StreamId s : range\(StreamId\{store\.num_streams\(\)\}\)\)", "for (size_type s = 0; s < g_nstreams; ++s)", "+", note="range-for over stream ids -> counting loop"),
    Rule(r"if \(auto\* state = store\.template state<MemSpace::host>\(s\)\)", "StreamState const* state = STORE_host_state(s);\n        if (state)", (0, 1), note="if-with-declaration on the lazily allocated state"),
    Rule(r"auto\* state = store\.template state<MemSpace::host>\(s\);", "StreamState const* state = STORE_host_state(s);", (0, 1), note="lazily allocated state"),
    Rule(r"auto data = func\(\*state\)\[AllItems<T>\{\}\];", "SpanT data = FUNC_all_items(state);", "+", note="accessor functor + AllItems -> span over the stream's tallies"),
    Rule(r"data\.size\(\)", "data.size", "+", note="Span size"),
    Rule(r"result->size\(\)", "result->size_", "+", note="vector size"),
    Rule(r"for \(auto i : range\(data\.size\)\)", "for (size_type i = 0; i < data.size; ++i)", "+", note="range-for -> counting loop"),
    Rule(r"\(\*result\)\[i\]", "result->ptr[i]", "+", note="vector element"),
    Rule(r"data\[i\]", "data.ptr[i]", "+", note="Span element"),
    LoopContracts([
        "    __CPROVER_assigns(s, __CPROVER_object_whole(result->ptr))\n"
        "    __CPROVER_loop_invariant(s <= g_nstreams && result->ptr[g_w] == PSUM(s))\n"
        "    __CPROVER_decreases(g_nstreams - s)\n",
        "    __CPROVER_assigns(i, __CPROVER_object_whole(result->ptr))\n"
        "    __CPROVER_loop_invariant(i <= data.size && result->ptr[g_w] == PSUM(s) + (g_w < i ? data.ptr[g_w] : (T)0))\n"
        "    __CPROVER_decreases(data.size - i)\n"]),
]


def build_accumulate_streams(ctx):
    from vkit.extract import ExtractionDrift
    pc = ctx.func(SST, r"^void accumulate_over_streams\(S&& store, F&& func, std::vector<T>\* result\)", [], generic=False, name="accumulate_over_streams")
    # the host loop = the text up to the second loop over the streams (the device loop, which goes through copy_to_host, is not part of this unit)
    heads = [m.start() for m in re.finditer(r"for \(StreamId s : range\(", pc.body)]
    if len(heads) != 2 or "MemSpace::device" in pc.body[: heads[1]] or "MemSpace::device" not in pc.body[heads[1]:]:
        raise ExtractionDrift("accumulate_over_streams no longer has the host loop followed by the device loop")
    text = pc.body[: heads[1]]
    rep = []
    for r in AOS_RULES:
        text = r.apply(text, rep, "accumulate_over_streams [host loop]")
    ctx.report.extend(rep)
    return (HDR + AOS_MODEL + """
void AOS_host(VecT* result)
__CPROVER_requires(result != 0 && g_nstreams <= NSTREAM && g_nitems <= NITEM && result->size_ == g_nitems && __CPROVER_rw_ok(result->ptr, NITEM * sizeof(T)) && g_w < g_nitems && g_old == result->ptr[g_w])
__CPROVER_assigns(__CPROVER_object_whole(result->ptr))
/* every item of the result grows by the sum of that item over ALL streams that have a state -- whichever streams were used, in whatever pattern */
__CPROVER_ensures(result->ptr[g_w] == PSUM(g_nstreams))
{
""" + text + """
}
void h_aos(void)
{
    T buf[NITEM]; size_type n_; VecT r = {buf, n_}; size_type w; g_w = w; if (w < NITEM) g_old = buf[w];
    for (unsigned k = 0; k < NSTREAM; ++k) { unsigned b; g_alloc[k] = (b != 0); }
    AOS_host(&r);
    VERIF_CANARY();
}
""")


UNITS += [
    Unit("c17_accumulate_over_streams", build_accumulate_streams, "h_aos", enforce="AOS_host", loop_contracts=True, timeout=600, object_bits=10, backend=["sat", "kissat", "cvc5"], unwind=6,
         must_have=[r"AOS_host.postcondition", r"loop_invariant_step", r"celer_expect"], checks=CHECKS,
         assumptions=["host path only (the device loop copies through a staging buffer; not in this build)", "<= 4 streams and <= 8 items in the harness (the loops themselves are closed by loop contracts)", "instantiated for integer tallies"],
         note="accumulate_over_streams (host part; used by SimpleCalo, ActionDiagnostic, StepDiagnostic): result[i] += sum over ALL allocated streams of that stream's tally i, for any allocation pattern of the lazily created per-stream states"),
]


# ---------------------------------------------------------------------------
# DetectorSteps.cc (host): compaction of the delivered steps into the output handed to the hit processor
# ---------------------------------------------------------------------------
DSC = "src/celeritas/user/DetectorSteps.cc"
DS_MODEL = """
#include <stdlib.h>
#define INVALID_ID ((size_type)-1)
#define NSLOT 8
typedef size_type DetectorId;
typedef struct { DetectorId const* ptr; size_type size; } DetectorRef;          /* StateCollection<DetectorId, reference, host> */
/* number of valid detector ids among the first i slots (the specification of count_num_valid and of the compaction index) */
#define V_(k) ((size_type)(g_det[k] != INVALID_ID))
#define CNT(i) ((i) == 0 ? 0 : (i) == 1 ? V_(0) : (i) == 2 ? V_(0) + V_(1) : (i) == 3 ? V_(0) + V_(1) + V_(2) : (i) == 4 ? V_(0) + V_(1) + V_(2) + V_(3) : (i) == 5 ? V_(0) + V_(1) + V_(2) + V_(3) + V_(4) \\
   : (i) == 6 ? V_(0) + V_(1) + V_(2) + V_(3) + V_(4) + V_(5) : (i) == 7 ? V_(0) + V_(1) + V_(2) + V_(3) + V_(4) + V_(5) + V_(6) : V_(0) + V_(1) + V_(2) + V_(3) + V_(4) + V_(5) + V_(6) + V_(7))
DetectorId g_det[NSLOT]; size_type g_n;       /* the step state's detector ids (one per track slot) */
"""
CNV_RULES = [
    Rule(r"size_type size\{0\};", "size_type size = 0;", 1, note="brace initialisation"),
    Rule(r"for \(DetectorId id : detector\[AllItems<DetectorId>\{\}\]\)\s*\{", "for (size_type k_ = 0; k_ < detector->size; ++k_)\n    {\n        DetectorId id = detector->ptr[k_];", 1, note="range-for over all items -> index loop"),
    Rule(r"if \(id\)", "if (id != INVALID_ID)", 1, note="OpaqueId::operator bool"),
    LoopContracts(["    __CPROVER_assigns(k_, size)\n    __CPROVER_loop_invariant(k_ <= g_n && size == CNT(k_))\n    __CPROVER_decreases(g_n - k_)\n"]),
]


def build_count_valid(ctx):
    pc = ctx.func(DSC, r"^size_type count_num_valid\(DetectorRef const& detector\)", CNV_RULES, name="count_num_valid (host)")
    return (HDR + DS_MODEL + """
size_type count_num_valid(DetectorRef const* detector)
__CPROVER_requires(detector != 0 && detector->ptr == g_det && detector->size == g_n && g_n <= NSLOT)
__CPROVER_assigns()
/* the number of slots that carry a detector id, i.e. the number of steps to deliver */
__CPROVER_ensures(__CPROVER_return_value == CNT(g_n))
{""" + pc.body + """}
void h_cnv(void)
{
    DetectorRef d = {g_det, g_n};
    count_num_valid(&d);
    VERIF_CANARY();
}
""")


AF_MODEL = """
typedef real_type T;
typedef struct { T* ptr; size_type size_; } VecT;                  /* DetectorStepOutput::vector<T> (storage of NSLOT elements in the harness) */
typedef struct { T const* ptr; size_type size; } StateRefT;        /* StateCollection<T, reference, host>; size 0 = attribute not selected */
size_type g_w; T g_src_w;     /* ghost: a witness slot and its source value */
static void VEC_clear(VecT* v) { v->size_ = 0; }
static void VEC_resize(VecT* v, size_type n) { __CPROVER_assert(n <= NSLOT, "vector resize within the harness storage"); v->size_ = n; }
"""
AF_RULES = [
    Rule(r"src\.empty\(\)", "(src->size == 0)", 1, note="Collection::empty()"),
    Rule(r"dst->clear\(\);", "VEC_clear(dst);", 1, note="std::vector::clear"),
    Rule(r"for \(TrackSlotId tid : range\(TrackSlotId\{src\.size\(\)\}\)\)", "for (size_type tid = 0; tid < src->size; ++tid)", 1, note="range-for over track slots -> counting loop"),
    Rule(r"src\.size\(\)", "src->size", "*", note="Collection::size()"),
    Rule(r"dst->resize\(([^;]*)\);", r"VEC_resize(dst, \1);", "*", note="std::vector::resize"),
    Rule(r"auto iter = dst->begin\(\);", "T* iter = dst->ptr;", 1, note="vector iterator -> pointer"),
    Rule(r"if \(detector\[tid\]\)", "if (DET_at(detector, tid) != INVALID_ID)", 1, note="Collection[tid] (asserts tid < size); OpaqueId::operator bool"),
    Rule(r"\*iter\+\+ = src\[tid\];", "{ __CPROVER_assert(iter < dst->ptr + dst->size_, \"output iterator within the resized vector\"); *iter++ = src->ptr[tid]; }", 1, note="checked output iterator (std::vector iterators are unchecked; the bound is the property)"),
    Rule(r"dst->end\(\)", "(dst->ptr + dst->size_)", 1, note="vector end"),
    LoopContracts([
        "    __CPROVER_assigns(tid, iter, __CPROVER_object_whole(dst->ptr))\n"
        "    __CPROVER_loop_invariant(tid <= g_n && __CPROVER_same_object(iter, dst->ptr) && iter == dst->ptr + CNT(tid))\n"
        "    __CPROVER_loop_invariant((g_w < tid && g_det[g_w] != INVALID_ID) ==> dst->ptr[CNT(g_w)] == g_src_w)\n"
        "    __CPROVER_decreases(g_n - tid)\n"]),
]


def build_assign_field(ctx):
    pc = ctx.func(DSC, r"^void assign_field\(DetectorStepOutput::vector<T>\* dst,", AF_RULES, name="assign_field<T> (host)")
    return (HDR + DS_MODEL + AF_MODEL + """
static DetectorId DET_at(DetectorRef const* d, size_type i) { __CPROVER_assert(i < d->size, "celer_expect: Collection::operator[] i < size"); return d->ptr[i]; }
void assign_field(VecT* dst, StateRefT const* src, DetectorRef const* detector, size_type size)
__CPROVER_requires(dst != 0 && src != 0 && detector != 0 && detector->ptr == g_det && detector->size == g_n && g_n <= NSLOT && __CPROVER_rw_ok(dst->ptr, NSLOT * sizeof(T)))
__CPROVER_requires((src->size == 0 || src->size == g_n) && __CPROVER_r_ok(src->ptr, NSLOT * sizeof(T)) && size == CNT(g_n))       /* size comes from count_num_valid */
__CPROVER_requires(g_w < g_n && (src->size != 0 ==> (g_src_w == src->ptr[g_w] && !__CPROVER_isnand(g_src_w))))
__CPROVER_assigns(dst->size_, __CPROVER_object_whole(dst->ptr))
/* an unselected attribute is emptied; a selected one gets exactly one entry per delivered step ... */
__CPROVER_ensures(dst->size_ == (src->size == 0 ? 0 : size))
/* ... and the k-th delivered step (slots in increasing order) carries the value of ITS slot */
__CPROVER_ensures((src->size != 0 && g_det[g_w] != INVALID_ID) ==> dst->ptr[CNT(g_w)] == g_src_w)
{""" + pc.body + """}
void h_af(void)
{
    T out[NSLOT], in[NSLOT]; size_type nsrc, sz, w; VecT d = {out, 0}; StateRefT s = {in, nsrc}; DetectorRef det = {g_det, g_n};
    g_w = w; if (w < NSLOT) g_src_w = in[w];
    assign_field(&d, &s, &det, sz);
    VERIF_CANARY();
}
""")


CS_MODEL = """
typedef struct { size_type size_; } Vec;                       /* an output vector: only its size matters here */
typedef struct { Vec time, pos, dir, energy; } DetectorStepPointOutput;
typedef struct { DetectorStepPointOutput points[2]; Vec detector, track_id, event_id, parent_id, track_step_count, step_length, particle, energy_deposition; } DetectorStepOutput;
typedef struct { bool time, pos, dir, energy; } StepPointSel;
typedef struct { StepPointSel points[2]; bool detector, track_id, event_id, parent_id, track_step_count, step_length, particle, energy_deposition; } StepSel;   /* which state collections are non-empty */
typedef struct { StepSel data; } StepState;
size_type g_count;     /* ghost: what count_num_valid returns = number of slots with a detector */
unsigned g_assigned;   /* ghost: number of assign_field calls */
static size_type count_num_valid_(bool det_selected) { return g_count; }
/* assign_field: contract enforced in c17_assign_field (size of the destination: 0 if the attribute is unselected, else `size`) */
static void assign_field_(Vec* dst, bool selected, bool det_selected, size_type size) { dst->size_ = selected ? size : 0; ++g_assigned; }
#define ENUM_SP_size_ 2
"""
CS_RULES = [
    Rule(r"CELER_EXPECT\(output\);", "CELER_EXPECT(output != 0);", 1, note="pointer check"),
    Rule(r"count_num_valid\(state\.data\.detector\)", "count_num_valid_(state->data.detector)", 1, note="call -> contract (c17_count_num_valid)"),
    Rule(r"assign_field\(&\(output->FIELD\), state\.data\.FIELD, state\.data\.detector, size\)", "assign_field_(&(output->FIELD), state->data.FIELD, state->data.detector, size)", 1, note="call -> contract (c17_assign_field); the macro is kept as a macro"),
    Rule(r"for \(auto sp : range\(StepPoint::size_\)\)", "for (int sp = 0; sp < ENUM_SP_size_; ++sp)", 1, note="range over the StepPoint enum (2 values, bound)"),
    Rule(r"output->(\w+)\.size\(\)", r"output->\1.size_", "*", note="vector size"),
]


def build_copy_steps(ctx):
    pc = ctx.func(DSC, r"^void copy_steps<MemSpace::host>\(\s*DetectorStepOutput\* output,", CS_RULES, generic=True, name="copy_steps<MemSpace::host>")
    return (HDR + CS_MODEL + """
#define SZ(f, sel) (output->f.size_ == ((sel) ? g_count : 0))
void copy_steps_host(DetectorStepOutput* output, StepState const* state)
__CPROVER_requires(__CPROVER_rw_ok(output, sizeof(*output)) && state != 0 && state->data.detector && state->data.track_id && g_assigned == 0)     /* detector and track ids are always gathered */
__CPROVER_assigns(*output, g_assigned)
/* after EVERY call -- also one that delivers no step -- the output holds exactly the steps of THIS iteration: each selected attribute has one entry per delivered step
   and each unselected one is empty (so nothing of a previous iteration can be delivered again) */
__CPROVER_ensures(SZ(detector, 1) && SZ(track_id, 1) && SZ(event_id, state->data.event_id) && SZ(parent_id, state->data.parent_id) && SZ(track_step_count, state->data.track_step_count)
                  && SZ(step_length, state->data.step_length) && SZ(particle, state->data.particle) && SZ(energy_deposition, state->data.energy_deposition))
__CPROVER_ensures(SZ(points[0].time, state->data.points[0].time) && SZ(points[0].pos, state->data.points[0].pos) && SZ(points[0].dir, state->data.points[0].dir) && SZ(points[0].energy, state->data.points[0].energy)
                  && SZ(points[1].time, state->data.points[1].time) && SZ(points[1].pos, state->data.points[1].pos) && SZ(points[1].dir, state->data.points[1].dir) && SZ(points[1].energy, state->data.points[1].energy))
__CPROVER_ensures(g_assigned == 16)
{""" + pc.body + """}
void h_cs(void)
{
    DetectorStepOutput o; StepState s;
    copy_steps_host(&o, &s);
    VERIF_CANARY();
}
""")


UNITS += [
    Unit("c17_count_num_valid", build_count_valid, "h_cnv", enforce="count_num_valid", loop_contracts=True, timeout=300, unwind=10, must_have=[r"count_num_valid.postcondition", r"loop_invariant_step"], checks=CHECKS,
         assumptions=["<= 8 track slots in the harness (the loop is closed by a loop contract; the count specification is written out for 8 slots)"],
         note="count_num_valid (host): the number of slots that carry a detector id"),
    Unit("c17_assign_field", build_assign_field, "h_af", enforce="assign_field", loop_contracts=True, timeout=600, unwind=10, object_bits=10, backend=["sat", "kissat", "cvc5"],
         must_have=[r"assign_field.postcondition", r"loop_invariant_step", r"celer_assert", r"output iterator within"], checks=CHECKS,
         assumptions=["<= 8 track slots in the harness", "std::vector modelled as pointer + size over harness storage"],
         note="assign_field<T> (host): an unselected attribute is cleared; otherwise the output has one entry per delivered step, the k-th delivered step (slot order) carries its own slot's value, the output iterator stays inside the vector and ends exactly at its end"),
    Unit("c17_copy_steps_host", build_copy_steps, "h_cs", enforce="copy_steps_host", timeout=300, unwind=4, object_bits=10, backend=["sat", "cvc5"],
         must_have=[r"copy_steps_host.postcondition", r"celer_ensure", r"celer_expect"], checks=CHECKS,
         assumptions=["count_num_valid / assign_field by their contracts (c17_count_num_valid, c17_assign_field)"],
         note="copy_steps<host>: after every call, also one with zero delivered steps, each selected output attribute has exactly one entry per delivered step and each unselected one is empty; all 16 attributes are (re)assigned; both CELER_ENSUREs hold"),
]


# ---------------------------------------------------------------------------
# StepGatherAction<P>::step (host): gather kernel, then every registered callback exactly once (post step only)
# ---------------------------------------------------------------------------
SGA = "src/celeritas/user/detail/StepGatherAction.cc"
SGA_MODEL = """
#define NCB 8
enum { SP_pre = 0, SP_post = 1 };
typedef struct { size_type ncallbacks; } StepGatherAction;
unsigned g_launched;            /* ghost: gather kernel launches */
unsigned g_calls[NCB];          /* ghost: process_steps calls per registered callback */
unsigned g_calls_before_gather; /* ghost: callbacks invoked before the gather kernel ran */
size_type g_w;                  /* ghost witness callback */
static void LAUNCH_gather(StepGatherAction const* self) { g_launched += 1; }
static void CB_process_steps(StepGatherAction const* self, size_type i) { __CPROVER_assert(i < self->ncallbacks, "callback index in range"); if (!g_launched) g_calls_before_gather += 1; g_calls[i] += 1; }
"""
SGA_RULES = [
    Rule(r"auto const& step_params = params_->ref<MemSpace::native>\(\);", "", 1, note="params reference"),
    Rule(r"auto& step_state = params_->state_ref<MemSpace::native>\(state\.aux\(\)\);", "", 1, note="state reference"),
    Rule(r"auto execute = TrackExecutor\{.*?\};", "", 1, flags=16, note="executor object (the per-slot kernel is under contract in c17_gather_pre / c17_gather_post)"),
    Rule(r"launch_action\(\*this, params, state, execute\);", "LAUNCH_gather(self);", "*", note="kernel launch -> ghost counter"),
    Rule(r"\bP (==|!=) StepPoint::(\w+)", r"P_ \1 SP_\2", "*", note="template parameter (bound per unit)"),
    Rule(r"StepState<MemSpace::native> cb_state\{step_state, state\.stream_id\(\)\};", "", "*", note="callback argument"),
    Rule(r"for \(auto const& sp_callback : callbacks_\)", "for (size_type cb_ = 0; cb_ < self->ncallbacks; ++cb_)", "*", note="range-for over the registered callbacks -> index loop"),
    Rule(r"sp_callback->process_steps\(cb_state\);", "CB_process_steps(self, cb_);", "*", note="virtual call -> ghost counter per callback"),
]


def build_gather_action(P):
    def build(ctx):
        import re
        pc = ctx.func(SGA, r"^void StepGatherAction<P>::step\(CoreParams const& params,\s*CoreStateHost& state\) const", SGA_RULES, name="StepGatherAction<P>::step (host)")
        body = pc.body
        nloops = len(re.findall(r"\bfor\b", body))
        rep = []
        body = LoopContracts(["    __CPROVER_assigns(cb_, g_calls_before_gather, __CPROVER_object_whole(g_calls))\n"
                              "    __CPROVER_loop_invariant(cb_ <= self->ncallbacks && g_calls[g_w] == (g_w < cb_ ? 1 : 0) && g_calls_before_gather == 0)\n"
                              "    __CPROVER_decreases(self->ncallbacks - cb_)\n"] * nloops).apply(body, rep, "StepGatherAction<P>::step") if nloops else body
        ctx.report.extend(rep)
        return (HDR + SGA_MODEL + "#define P_ %d\n" % P + """
void SGA_step(StepGatherAction const* self)
__CPROVER_requires(self != 0 && self->ncallbacks <= NCB && g_w < NCB && g_launched == 0 && g_calls[g_w] == 0 && g_calls_before_gather == 0)
__CPROVER_assigns(g_launched, g_calls_before_gather, __CPROVER_object_whole(g_calls))
/* the gather kernel runs exactly once; at the post-step point every registered callback then receives the steps exactly once (and none before the gather); at the pre-step point no callback runs */
__CPROVER_ensures(g_launched == 1 && g_calls_before_gather == 0)
__CPROVER_ensures(g_w < self->ncallbacks ==> g_calls[g_w] == (P_ == SP_post ? 1 : 0))
{""" + body + """}
void h_sga(void)
{
    StepGatherAction a;
    SGA_step(&a);
    VERIF_CANARY();
}
""")
    return build


UNITS += [
    Unit("c17_gather_action_%s" % nm, build_gather_action(P), "h_sga", enforce="SGA_step", loop_contracts=True, timeout=300, unwind=10, backend=["sat", "cvc5"],
         must_have=[r"SGA_step.postcondition"], checks=CHECKS,
         assumptions=["<= 8 registered callbacks in the harness (loop closed by a loop contract)", "the kernel launch itself (launch_action / TrackExecutor) is not under contract"],
         note="StepGatherAction<%s>::step (host): one gather launch; %s" % (nm, "then every registered callback is invoked exactly once, after the gather" if P else "no callback is invoked at the pre-step point"))
    for nm, P in (("pre", 0), ("post", 1))
]


# ---------------------------------------------------------------------------
# launch_core (host kernel launcher): the executor is run exactly once for EVERY thread id, also when some threads throw
# ---------------------------------------------------------------------------
ALH = "src/celeritas/global/ActionLauncher.hh"
ALH_MODEL = """
#define NTHR 16
size_type g_size;               /* state.size() */
unsigned g_runs[NTHR];          /* ghost: executions per thread id */
bool g_throws[NTHR];            /* ghost: whether the executor throws for that thread (any pattern) */
unsigned g_captured;            /* ghost: exceptions captured by the MultiExceptionHandler */
bool g_rethrown;                /* ghost: log_and_rethrow saw captured exceptions */
size_type g_w;
static bool EXEC_thread(size_type i) { __CPROVER_assert(i < g_size, "thread id < state size"); g_runs[i] += 1; return g_throws[i]; }
static void HANDLER_capture(void) { g_captured += 1; }
static void LOG_and_rethrow(void) { g_rethrown = (g_captured != 0); }
"""
ALH_RULES = [
    Rule(r"MultiExceptionHandler capture_exception;", "", 1, note="exception collector -> ghost counter"),
    Rule(r"#if defined\(_OPENMP\) && CELERITAS_OPENMP == CELERITAS_OPENMP_TRACK\s*#\s*pragma omp parallel for\s*#endif", "", 1, note="OpenMP pragma dropped: iterations treated sequentially (CELERITAS_OPENMP is not 'track' in this build)"),
    Rule(r"state\.size\(\)", "g_size", "*", note="state size"),
    Rule(r"CELER_TRY_HANDLE_CONTEXT\(\s*execute_thread\(ThreadId\{i\}\),\s*capture_exception,\s*KernelContextException\(.*?label\)\);", "if (EXEC_thread(i)) { HANDLER_capture(); }   /* try { execute_thread(ThreadId{i}) } catch (...) { capture_exception(context) } */", 1, flags=16,
         note="try/catch macro -> executor returns whether it threw; the handler captures and the loop goes on"),
    Rule(r"log_and_rethrow\(std::move\(capture_exception\)\);", "LOG_and_rethrow();", 1, note="rethrow at the end -> ghost flag"),
    LoopContracts(["    __CPROVER_assigns(i, g_captured, __CPROVER_object_whole(g_runs))\n"
                   "    __CPROVER_loop_invariant(i <= size && size == g_size && g_runs[g_w] == (g_w < i ? 1 : 0) && g_captured <= i && (g_captured == 0) == !THROWN_BELOW(i))\n"
                   "    __CPROVER_decreases(size - i)\n"]),
]


def build_launch_core(ctx):
    pc = ctx.func(ALH, r"^void launch_core\(std::string_view label,", ALH_RULES, generic=False, name="launch_core (host)")
    tb = " || ".join("(%d < (n) && g_throws[%d])" % (k, k) for k in range(16))
    return (HDR + ALH_MODEL + "#define THROWN_BELOW(n) (" + tb + ")\n" + """
void ALH_launch_core(void)
__CPROVER_requires(g_size <= NTHR && g_w < NTHR && g_runs[g_w] == 0 && g_captured == 0 && !g_rethrown)
__CPROVER_assigns(g_captured, g_rethrown, __CPROVER_object_whole(g_runs))
/* every thread id below the state size is executed exactly once -- whether or not other threads throw -- and none beyond */
__CPROVER_ensures(g_runs[g_w] == (g_w < g_size ? 1 : 0))
/* an exception in any thread is reported after ALL threads have run */
__CPROVER_ensures(g_rethrown == THROWN_BELOW(g_size))
{""" + pc.body + """}
void h_alh(void)
{
    for (unsigned k = 0; k < NTHR; ++k) { unsigned b; g_throws[k] = (b != 0); }
    ALH_launch_core();
    VERIF_CANARY();
}
""")


UNITS += [
    Unit("c17_launch_core", build_launch_core, "h_alh", enforce="ALH_launch_core", loop_contracts=True, timeout=300, unwind=18, backend=["sat", "kissat", "cvc5"],
         must_have=[r"ALH_launch_core.postcondition", r"loop_invariant_step"], checks=CHECKS,
         assumptions=["<= 16 track slots in the harness (loop closed by a loop contract)", "OpenMP parallel-for treated sequentially (not the 'track' OpenMP mode in this build); exceptions modelled as a per-thread flag"],
         note="launch_core (host kernel launcher used by every action): the executor runs exactly once for every thread id in [0, state size), also when some executions throw; the captured exceptions are rethrown only after the loop"),
]


# ---------------------------------------------------------------------------
# StepCollector::StepCollector (host): which gather actions are registered
# ---------------------------------------------------------------------------
SCC = "src/celeritas/user/StepCollector.cc"
SCC_RULES = [
    Rule(r"CELER_EXPECT\(std::all_of\(.*?\}\)\);", "", (0, 1), flags=16, note="precondition over the callback vector (std::all_of + lambda) dropped: callbacks are non-null (stated)"),
    Rule(r"CELER_EXPECT\(!callbacks\.empty\(\)\);", "CELER_EXPECT(ncallbacks != 0);", (0, 1), note="vector::empty()"),
    Rule(r"CELER_EXPECT\((geo|aux_registry|action_registry)\);", "", "*", note="non-null shared pointers / registries (stated)"),
    Rule(r"params_ = std::make_shared<StepParams>\(\s*aux_registry->next_id\(\), \*geo, callbacks\);", "/* params_ = make_shared<StepParams>(...): merged selection and detector map (unit c17_step_params_merge) */", 1, note="StepParams construction -> its two results used here (ghost fields)"),
    Rule(r"aux_registry->insert\(params_\);", "", (0, 1), note="registry insertion of the params (no effect on delivery)"),
    Rule(r"this->selection\(\)\.points\[StepPoint::pre\]", "self->sel_pre_any", "*", note="StepPointSelection::operator bool of the merged pre-step selection"),
    Rule(r"params_->has_detectors\(\)", "self->has_detectors", "*", note="StepParams::has_detectors()"),
    Rule(r"pre_action_\s*=\s*std::make_shared<StepGatherAction<StepPoint::pre>>\(\s*action_registry->next_id\(\), params_, VecInterface\{\}\);", "self->pre_action_ = 1;", (0, 1), flags=16, note="pre-step gather action created (without callbacks)"),
    Rule(r"post_action_ = std::make_shared<StepGatherAction<StepPoint::post>>\(\s*action_registry->next_id\(\), params_, std::move\(callbacks\)\);", "self->post_action_ = 1; self->post_callbacks = ncallbacks;", (0, 1), flags=16, note="post-step gather action created with all callbacks"),
    Rule(r"action_registry->insert\((pre|post)_action_\);", r"REG_insert(self, self->\1_action_, P_\1);", "*", note="ActionRegistry::insert -> ghost"),
]


def build_step_collector_ctor(ctx):
    pc = ctx.func(SCC, r"^StepCollector::StepCollector\(SPConstGeo geo,", SCC_RULES, name="StepCollector::StepCollector (host)")
    return (HDR + """
enum { P_pre = 0, P_post = 1 };
typedef struct { bool sel_pre_any, has_detectors; int pre_action_, post_action_; size_type post_callbacks; } StepCollector;
unsigned g_registered[2];      /* ghost: gather actions inserted into the action registry, per step point */
static void REG_insert(StepCollector* self, int action, int point) { __CPROVER_assert(action != 0, "celer_expect: ActionRegistry::insert(action) non-null"); ++g_registered[point]; }
void SC_ctor(StepCollector* self, size_type ncallbacks)
__CPROVER_requires(__CPROVER_rw_ok(self, sizeof(*self)) && ncallbacks != 0 && g_registered[0] == 0 && g_registered[1] == 0 && self->pre_action_ == 0 && self->post_action_ == 0)
__CPROVER_assigns(self->pre_action_, self->post_action_, self->post_callbacks, __CPROVER_object_whole(g_registered))
/* the post-step gather action always runs, with every callback */
__CPROVER_ensures(g_registered[P_post] == 1 && self->post_callbacks == ncallbacks)
/* the pre-step gather action runs whenever a pre-step quantity is selected OR detectors are mapped: only it sets the slot's detector id, without which the post-step gather delivers nothing */
__CPROVER_ensures(g_registered[P_pre] == ((self->sel_pre_any || self->has_detectors) ? 1 : 0))
{""" + pc.body + """}
void h_scc(void)
{
    StepCollector c; unsigned a, b; size_type n; c.sel_pre_any = (a != 0); c.has_detectors = (b != 0);
    SC_ctor(&c, n);
    VERIF_CANARY();
}
""")


UNITS += [
    Unit("c17_step_collector_ctor", build_step_collector_ctor, "h_scc", enforce="SC_ctor", timeout=120, backend=["sat"], must_have=[r"SC_ctor.postcondition", r"celer_expect"], checks=["--bounds-check", "--pointer-check"],
         assumptions=["shared_ptr / registry plumbing lowered to ghost flags (which action is created and inserted); StepParams' merged selection and detector map by unit c17_step_params_merge"],
         note="StepCollector constructor (host): the post-step gather action is always registered with all callbacks; the pre-step gather action whenever a pre-step quantity is selected or any detector is mapped"),
]
