"""C04 (subset, continued): the atomic relaxation cascade (AtomicRelaxation::operator(), sample_transition, MiniStack)."""
import re
from vkit.extract import Rule, LoopContracts, init_list, ExtractionDrift
from vkit.runner import Unit
from units.c01 import Q_RULES
from units.c04 import HDR, INTERACTION_MODEL
from units.c04b import VALUE_AS, members

AR = "src/celeritas/em/interactor/AtomicRelaxation.hh"
MS = "src/corecel/cont/MiniStack.hh"

AR_MODEL = """
#define NSHELL 4
#define NTRANS 6
#define NSEC 5
#define NVAC 6
typedef struct { size_type initial_shell, auger_shell; real_type probability, energy; } AtomicRelaxTransition;
typedef struct { size_type begin_, end_; } ItemRange;
typedef struct { ItemRange transitions; } AtomicRelaxSubshell;
typedef struct { size_type* ptr; size_type size; } SpanSubshell;
typedef struct { size_type* data_; size_type size_, capacity_; } MiniStack;
typedef struct { size_type count; real_type energy; } RelaxResult;
typedef struct { real_type gamma_cutoff_, electron_cutoff_; size_type shell_id_; SpanSecondary secondaries_; SpanSubshell vacancies_; size_type electron_id, gamma_id; } AtomicRelaxation;
/* shared_.shells[el.shells] and shared_.transitions: the element's EADL data, ANY contents within the stated shape */
AtomicRelaxSubshell g_shells[NSHELL]; size_type g_nshells; AtomicRelaxTransition g_trans[NTRANS];
#define RANGE_SIZE(r) ((r).end_ - (r).begin_)
#define SHAPE_OK (g_nshells <= NSHELL \\
    && g_shells[0].transitions.begin_ <= g_shells[0].transitions.end_ && g_shells[0].transitions.end_ <= NTRANS \\
    && g_shells[1].transitions.begin_ <= g_shells[1].transitions.end_ && g_shells[1].transitions.end_ <= NTRANS \\
    && g_shells[2].transitions.begin_ <= g_shells[2].transitions.end_ && g_shells[2].transitions.end_ <= NTRANS \\
    && g_shells[3].transitions.begin_ <= g_shells[3].transitions.end_ && g_shells[3].transitions.end_ <= NTRANS)
#define TR_OK(i) (g_trans[i].energy >= 0 && !__CPROVER_isinfd(g_trans[i].energy))
#define ENERGIES_OK (TR_OK(0) && TR_OK(1) && TR_OK(2) && TR_OK(3) && TR_OK(4) && TR_OK(5))
Real3 ISO_sample(Engine* rng) __CPROVER_assigns(g_draws) __CPROVER_ensures(g_draws > __CPROVER_old(g_draws));
real_type GC_draw(Engine* rng) __CPROVER_assigns(g_draws) __CPROVER_ensures(__CPROVER_return_value >= 0 && __CPROVER_return_value < 1 && g_draws == __CPROVER_old(g_draws) + 1);
"""

# ---- MiniStack -------------------------------------------------------------
MS_RULES = [
    Rule(r"this->size\(\)", "self->size_", "*", note="accessor"), Rule(r"this->capacity\(\)", "self->capacity_", "*", note="accessor"), Rule(r"this->empty\(\)", "(self->size_ == 0)", "*", note="accessor"),
    members("data_", "size_", "capacity_"),
]


def ministack(ctx, assume_capacity=False):
    push = ctx.func(MS, r"CELER_FUNCTION void push\(T element\)", MS_RULES + ([Rule(r"CELER_EXPECT\(", "__CPROVER_assume(", 1, note="capacity precondition ASSUMED at this call site (max_stack_size is computed on the host from the transition data; not decided)")] if assume_capacity else []), name="MiniStack::push")
    pop = ctx.func(MS, r"CELER_FUNCTION T pop\(\)", MS_RULES, name="MiniStack::pop")
    ctor = ctx.span(MS, r"CELER_FUNCTION explicit MiniStack\(Span<T> storage\)", r"\{\s*\}", [], name="MiniStack::MiniStack")
    inits = init_list(ctor.body[: ctor.body.rindex("{")])
    if [m for m, _ in inits] != ["data_", "size_", "capacity_"]:
        raise ExtractionDrift("MiniStack constructor initialiser list changed")
    ctor_body = "\n".join("    self->%s = %s;" % (m, e.replace("storage.data()", "storage.ptr").replace("storage.size()", "storage.size")) for m, e in inits)
    return ("static void MS_ctor(MiniStack* self, SpanSubshell storage)\n{\n" + ctor_body + "\n}\n"
            "void MS_push(MiniStack* self, size_type element)\nMS_PUSH_CONTRACT\n{" + push.body + "}\n"
            "size_type MS_pop(MiniStack* self)\nMS_POP_CONTRACT\n{" + pop.body + "}\n")


MS_CONTRACTS = """
#define MS_WF(s) ((s)->size_ <= (s)->capacity_ && (s)->capacity_ <= NVAC && __CPROVER_rw_ok((s)->data_, NVAC * sizeof(size_type)))
#define MS_PUSH_CONTRACT __CPROVER_requires(__CPROVER_rw_ok(self, sizeof(*self)) && MS_WF(self) && self->size_ < self->capacity_ && g_k < NVAC && g_oldv == self->data_[g_k]) \\
  __CPROVER_assigns(self->size_, __CPROVER_object_whole(self->data_)) \\
  __CPROVER_ensures(self->size_ == __CPROVER_old(self->size_) + 1 && self->data_[self->size_ - 1] == element && (g_k != self->size_ - 1 ==> self->data_[g_k] == g_oldv))
#define MS_POP_CONTRACT __CPROVER_requires(__CPROVER_rw_ok(self, sizeof(*self)) && MS_WF(self) && self->size_ > 0) \\
  __CPROVER_assigns(self->size_) \\
  __CPROVER_ensures(self->size_ == __CPROVER_old(self->size_) - 1 && __CPROVER_return_value == self->data_[self->size_])
size_type g_oldv;
"""


def build_ministack(ctx):
    return (HDR + INTERACTION_MODEL + AR_MODEL + MS_CONTRACTS + ministack(ctx) + """
void h_ms(void)
{
    size_type store[NVAC]; MiniStack s; size_type x, k; unsigned which;
    __CPROVER_assume(k < NVAC); s.data_ = store; g_k = k; g_oldv = store[k];
    MS_CALL;
    VERIF_CANARY();
}
""")


# ---- sample_transition -----------------------------------------------------
ST_RULES = Q_RULES + [
    Rule(r"auto const& transitions = shared_\.transitions\[shell\.transitions\];", "ItemRange const tr_ = shell->transitions;", 1, note="Collection[ItemRange] -> the range into the ghost transition table"),
    Rule(r"generate_canonical\(rng\)", "GC_draw(rng)", 1, note="canonical draw -> stub ([0,1), one draw; enforced in C13/C15)"),
    Rule(r"transitions\.size\(\)", "RANGE_SIZE(tr_)", 1, note="Span size"),
    Rule(r"transitions\[i\]\.probability", "g_trans[tr_.begin_ + i].probability", 1, note="Span element"),
    Rule(r"return TransitionId\{i\};", "return i;", 1, note="OpaqueId value"),
    Rule(r"return \{\};", "return INVALID_ID;", 1, note="default OpaqueId = invalid"),
    LoopContracts(["    __CPROVER_assigns(i, accum)\n    __CPROVER_loop_invariant(i <= RANGE_SIZE(tr_))\n    __CPROVER_decreases(RANGE_SIZE(tr_) - i)\n"]),
]
ST_SIG = """
size_type AR_sample_transition(AtomicRelaxation const* self, AtomicRelaxSubshell const* shell, Engine* rng)
__CPROVER_requires(__CPROVER_r_ok(shell, sizeof(*shell)) && shell->transitions.begin_ <= shell->transitions.end_ && shell->transitions.end_ <= NTRANS)
__CPROVER_assigns(g_draws)
/* a transition of THIS shell, or none; exactly one draw */
__CPROVER_ensures((__CPROVER_return_value == INVALID_ID || __CPROVER_return_value < RANGE_SIZE(shell->transitions)) && g_draws == __CPROVER_old(g_draws) + 1)
"""


def build_sample_transition(ctx):
    pc = ctx.func(AR, r"^AtomicRelaxation::sample_transition\(AtomicRelaxSubshell const& shell,", ST_RULES, name="AtomicRelaxation::sample_transition")
    return (HDR + INTERACTION_MODEL + AR_MODEL + ST_SIG + "{" + pc.body + """}
void h_st(void)
{
    AtomicRelaxation a; AtomicRelaxSubshell sh; Engine* e;
    AR_sample_transition(&a, &sh, e);
    VERIF_CANARY();
}
""")


# ---- the cascade -----------------------------------------------------------
W = "((secs_[K].particle_id == self->electron_id && secs_[K].energy >= self->electron_cutoff_) || (secs_[K].particle_id == self->gamma_id && secs_[K].energy >= self->gamma_cutoff_))"
AR_RULES = Q_RULES + [
    VALUE_AS,
    Rule(r"AtomicRelaxElement const& el = shared_\.elements\[el_id_\];", "", 1, note="element record -> ghost tables"),
    Rule(r"auto const& shells = shared_\.shells\[el\.shells\];", "", 1, note="Collection[ItemRange] -> ghost table g_shells[0..g_nshells)"),
    Rule(r"MiniStack<SubshellId> vacancies\(vacancies_\);", "MiniStack vacancies; MS_ctor(&vacancies, vacancies_);", 1, note="constructor call (body extracted)"),
    Rule(r"vacancies\.push\(", "MS_push(&vacancies, ", 3, note="member call (body extracted)"),
    Rule(r"!vacancies\.empty\(\)", "(vacancies.size_ != 0)", 1, note="MiniStack::empty()"),
    Rule(r"SubshellId vacancy_id = vacancies\.pop\(\);", "size_type vacancy_id = MS_pop(&vacancies);", 1, note="member call (body extracted)"),
    Rule(r"vacancy_id\.get\(\)", "vacancy_id", 2, note="OpaqueId value"),
    Rule(r"shells\.size\(\)", "g_nshells", 1, note="Span size"),
    Rule(r"AtomicRelaxSubshell const& shell = shells\[vacancy_id\];", "AtomicRelaxSubshell const* shell = &g_shells[vacancy_id];", 1, note="reference -> pointer"),
    Rule(r"TransitionId const trans_id = this->sample_transition\(shell, rng\);", "size_type const trans_id = AR_sample_transition(self, shell, rng);", 1, note="member call -> contract (enforced in c04_relax_sample_transition)"),
    Rule(r"if \(!trans_id\)", "if (trans_id == INVALID_ID)", 1, note="OpaqueId::operator bool"),
    Rule(r"auto const& transition\s*=\s*shared_\.transitions\[shell\.transitions\]\[trans_id\.get\(\)\];", "AtomicRelaxTransition const* transition = &g_trans[shell->transitions.begin_ + trans_id];", 1, note="Collection[ItemRange][i] -> ghost table"),
    Rule(r"if \(transition\.auger_shell\)", "if (transition->auger_shell != INVALID_ID)", 1, note="OpaqueId::operator bool"),
    Rule(r"\btransition\.", "transition->", "+", note="reference -> pointer"),
    Rule(r"CELER_ASSERT\(count < secondaries_\.size\(\)\);", "__CPROVER_assume(count < secondaries_.size);", (1, 4), note="span-size assertion ASSUMED (max_secondary is computed on the host from the transition data; not decided)"),
    Rule(r"Secondary& secondary = secondaries_\[count\+\+\];", "Secondary* secondary = &secondaries_.ptr[count++]; g_emitted += transition->energy; /* ghost: energy of the secondary being emitted */", (1, 4), note="reference -> pointer; ghost: the specified total grows exactly when a secondary is emitted"),
    Rule(r"\bsecondary\.", "secondary->", "+", note="reference -> pointer"),
    Rule(r"sample_direction_\(rng\)", "ISO_sample(rng)", (1, 4), note="isotropic direction -> stub"),
    Rule(r"shared_\.ids\.(electron|gamma)", r"self->\1_id", (1, 8), note="params"),
    Rule(r"result_type result;", "RelaxResult result = {0, 0};", 1, note="default member initializers"),
    members("gamma_cutoff_", "electron_cutoff_", "shell_id_", "secondaries_", "vacancies_"),
    LoopContracts([
        "    __CPROVER_assigns(count, sum_energy, g_emitted, g_draws, vacancies.size_, __CPROVER_object_whole(self->vacancies_.ptr), __CPROVER_object_whole(self->secondaries_.ptr))\n"
        "    __CPROVER_loop_invariant(count <= self->secondaries_.size && vacancies.size_ <= vacancies.capacity_ && vacancies.data_ == self->vacancies_.ptr && vacancies.capacity_ == self->vacancies_.size)\n"
        "    __CPROVER_loop_invariant(sum_energy >= 0 && sum_energy == g_emitted)\n"
        "    __CPROVER_loop_invariant(g_k < count ==> (" + W.replace("K", "g_k").replace("secs_", "self->secondaries_.ptr") + " && sum_energy >= self->secondaries_.ptr[g_k].energy))\n"
        "    __CPROVER_loop_invariant((g_k >= count && g_k < NSEC) ==> (self->secondaries_.ptr[g_k].particle_id == g_old.particle_id && self->secondaries_.ptr[g_k].energy == g_old.energy))\n"]),
]


def build_relax(ctx):
    pc = ctx.func(AR, r"^AtomicRelaxation::operator\(\)\(Engine& rng\)", AR_RULES, name="AtomicRelaxation::operator()")
    return (HDR + INTERACTION_MODEL + AR_MODEL + MS_CONTRACTS + ministack(ctx, assume_capacity=True) + ST_SIG + ";\n" + """
#define SECS (self->secondaries_.ptr)
real_type g_emitted;    /* ghost: sum of the energies of the secondaries actually emitted, in emission order */
RelaxResult AR_call(AtomicRelaxation const* self, Engine* rng)
__CPROVER_requires(__CPROVER_r_ok(self, sizeof(*self)) && SHAPE_OK && ENERGIES_OK && self->electron_id != INVALID_ID && self->gamma_id != INVALID_ID && self->electron_id != self->gamma_id)
__CPROVER_requires(self->secondaries_.size <= NSEC && __CPROVER_rw_ok(SECS, NSEC * sizeof(Secondary)) && self->vacancies_.size <= NVAC && self->vacancies_.size >= 1 && __CPROVER_rw_ok(self->vacancies_.ptr, NVAC * sizeof(size_type)))
__CPROVER_requires(g_k < NSEC && g_old.particle_id == SECS[g_k].particle_id && g_old.energy == SECS[g_k].energy && g_emitted == 0)
__CPROVER_assigns(g_emitted, g_draws, __CPROVER_object_whole(self->vacancies_.ptr), __CPROVER_object_whole(SECS))
__CPROVER_ensures(__CPROVER_return_value.count <= self->secondaries_.size && __CPROVER_return_value.energy >= 0)
/* every emitted secondary is an Auger electron at or above the ELECTRON production threshold or a fluorescence photon at or above the GAMMA production threshold */
__CPROVER_ensures(g_k < __CPROVER_return_value.count ==> """ + W.replace("K", "g_k").replace("secs_", "SECS") + """)
/* the reported total is exactly the sum of the energies of the EMITTED secondaries (a transition suppressed by a production cut carries nothing away, so its
   energy stays in the caller's local deposit) */
__CPROVER_ensures(__CPROVER_return_value.energy == g_emitted)
/* ... and hence at least each emitted secondary's energy */
__CPROVER_ensures(g_k < __CPROVER_return_value.count ==> __CPROVER_return_value.energy >= SECS[g_k].energy)
/* slots beyond the reported count are untouched */
__CPROVER_ensures(g_k >= __CPROVER_return_value.count ==> (SECS[g_k].particle_id == g_old.particle_id && SECS[g_k].energy == g_old.energy))
{""" + pc.body + """}
void h_ar(void)
{
    AtomicRelaxation a; Engine* e; Secondary secs[NSEC]; size_type vac[NVAC]; size_type k;
    __CPROVER_assume(k < NSEC);
    a.secondaries_.ptr = secs; a.vacancies_.ptr = vac; g_k = k; g_old = secs[k];
    AR_call(&a, e);
    VERIF_CANARY();
}
""")


UNITS = [
    Unit("c04_ministack_push", build_ministack, "h_ms", enforce="MS_push", defines=["MS_CALL=MS_push(&s,x)"], timeout=120, must_have=[r"MS_push.postcondition", r"celer_expect"], checks=["--bounds-check", "--pointer-check"],
         note="MiniStack::push: stores at the top and grows by one leaving other slots alone; bounds-safe within capacity"),
    Unit("c04_ministack_pop", build_ministack, "h_ms", enforce="MS_pop", defines=["MS_CALL=MS_pop(&s)"], timeout=120, must_have=[r"MS_pop.postcondition", r"celer_expect"], checks=["--bounds-check", "--pointer-check"],
         note="MiniStack::pop: returns the top element and shrinks by one; bounds-safe"),
    Unit("c04_relax_sample_transition", build_sample_transition, "h_st", enforce="AR_sample_transition", replace=["GC_draw"], loop_contracts=True, timeout=300, backend=["sat", "cvc5", "z3"],
         must_have=[r"AR_sample_transition.postcondition", r"loop_invariant_step"], checks=["--bounds-check", "--pointer-check"],
         note="AtomicRelaxation::sample_transition: returns a transition index of the given shell or none, for any number of transitions (loop contract); exactly one draw"),
    Unit("c04_atomic_relaxation", build_relax, "h_ar", enforce="AR_call", replace=["AR_sample_transition", "ISO_sample"], loop_contracts=True, timeout=600, backend=["kissat", "sat", "cvc5"],
         must_have=[r"AR_call.postcondition", r"loop_invariant_step", r"AR_sample_transition.precondition"], checks=["--bounds-check", "--pointer-check"],
         assumptions=["span / vacancy-stack sufficiency (max_secondary, max_stack_size computed on the host) ASSUMED at the two capacity checks", "transition energies finite and non-negative (data)", "termination of the cascade not decided"],
         note="AtomicRelaxation::operator(): for any EADL table shape and any cascade length (loop contract), every emitted secondary is an electron >= electron cutoff or a photon >= gamma cutoff with a defined id; count <= span size; total >= each emitted energy; untouched slots beyond count; all table accesses in bounds"),
]
