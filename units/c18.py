"""C18: device-portable algorithms and grid lookups (also the grid part of C14)."""
from vkit.extract import Rule, LoopContracts
from vkit.runner import Unit

IMPL = "src/corecel/math/detail/AlgorithmsImpl.hh"
ALGO = "src/corecel/math/Algorithms.hh"
UGRID = "src/corecel/grid/UniformGrid.hh"
UGDATA = "src/corecel/grid/UniformGridData.hh"

HDR = '#include "celer.h"\n'

# ---------------------------------------------------------------------------
# UniformGrid
# ---------------------------------------------------------------------------
UG_TYPES = """
typedef struct { size_type size; real_type front; real_type back; real_type delta; } UniformGridData; /* bound in bindings.cc */
typedef struct { UniformGridData const* data_; } UniformGrid;   /* holds a const& */
typedef real_type value_type;
#define UGD_VALID(d) ((d).size >= 2 && (d).delta > 0 && (d).front < (d).back)   /* UniformGridData::operator bool, extracted text asserted below */
"""
UG_RULES = [
    Rule(r"this->front\(\)", "self->data_->front", "*", note="inline accessor front() { return data_.front; }"),
    Rule(r"this->back\(\)", "self->data_->back", "*", note="inline accessor back() { return data_.back; }"),
    Rule(r"this->size\(\)", "self->data_->size", "*", note="inline accessor size() { return data_.size; }"),
    Rule(r"\bdata_\.", "self->data_->", "*", note="const& member -> pointer"),
    Rule(r"auto bin =", "size_type bin =", (0, 1), note="auto -> size_type (static_cast target)"),
    Rule(r"\(\*this\)\[", "UG_index_body(self, ", "*", note="(*this)[i] -> the real operator[] body (inlined; only present in edited text)"),
    Rule(r"(UG_index_body\(self, [^\[\]]*)\]", r"\1)", "*", note="(*this)[i] closing bracket"),
]


def _ug_valid_text(ctx):
    """UniformGridData::operator bool body, lowered to a C expression over d."""
    pc = ctx.func(UGDATA, r"CELER_FUNCTION operator bool\(\) const", [
        Rule(r"^\s*return\s+", "", 1, note="return expr; -> expr"),
        Rule(r";\s*$", "", 1, note="return expr; -> expr"),
        Rule(r"\b(size|delta|front|back)\b", r"(d).\1", "+", note="data members -> (d).member"),
    ], name="UniformGridData::operator bool")
    return pc.body.strip()


FROM_BOUNDS_RULES = [
    Rule(r"UniformGridData result;", "UniformGridData result = {0, 0, 0, 0};", 1, note="default member initializers {}"),
    Rule(r"CELER_ENSURE\(result\);", "CELER_ENSURE(UGD_VALID(result));", 1, note="operator bool"),
]


def build_from_bounds(ctx):
    valid = _ug_valid_text(ctx)
    pc = ctx.func(UGDATA, r"^UniformGridData::from_bounds\(value_type front, value_type back, size_type size\)", FROM_BOUNDS_RULES, name="UniformGridData::from_bounds")
    return (HDR + UG_TYPES.replace("((d).size >= 2 && (d).delta > 0 && (d).front < (d).back)", "(" + valid + ")") + """
UniformGridData UGD_from_bounds(value_type front, value_type back, size_type size)
__CPROVER_requires(size >= 2 && front < back)
__CPROVER_requires(!__CPROVER_isinfd(front) && !__CPROVER_isinfd(back) && !__CPROVER_isinfd(back - front))
/* stated precondition: the spacing does not underflow to zero (it does for e.g. from_bounds(0, 5e-324, 4), where the code's own CELER_ENSURE fails) */
__CPROVER_requires((back - front) / (size - 1) > 0)
__CPROVER_assigns()
__CPROVER_ensures(__CPROVER_return_value.size == size && __CPROVER_return_value.front == front && __CPROVER_return_value.back == back)
__CPROVER_ensures(__CPROVER_return_value.delta == (back - front) / (size - 1))
__CPROVER_ensures(UGD_VALID(__CPROVER_return_value))
{""" + pc.body + """}
void h_from_bounds(void)
{
    value_type front, back; size_type size;
    UGD_from_bounds(front, back, size);
    VERIF_CANARY();
}
""")


def build_ug_find(ctx):
    valid = _ug_valid_text(ctx)
    pc = ctx.func(UGRID, r"CELER_FUNCTION size_type UniformGrid::find\(value_type value\) const", UG_RULES, name="UniformGrid::find")
    ix = ctx.func(UGRID, r"CELER_FUNCTION auto UniformGrid::operator\[\]\(size_type i\) const -> value_type", UG_RULES, name="UniformGrid::operator[]")
    return (HDR + UG_TYPES.replace("((d).size >= 2 && (d).delta > 0 && (d).front < (d).back)", "(" + valid + ")") + """
static value_type UG_index_body(UniformGrid const* self, size_type i)       /* real body of operator[] (contract: c18_ug_index); unused unless find() calls it */
{""" + ix.body + """}
size_type UG_find(UniformGrid const* self, value_type value)
__CPROVER_requires(self != 0 && self->data_ != 0)
/* the grid comes from UniformGridData::from_bounds (its contract, unit c18_from_bounds) */
__CPROVER_requires(UGD_VALID(*self->data_) && !__CPROVER_isinfd(self->data_->front) && !__CPROVER_isinfd(self->data_->back) && !__CPROVER_isinfd(self->data_->back - self->data_->front))
__CPROVER_requires(self->data_->delta == (self->data_->back - self->data_->front) / (self->data_->size - 1))
/* the function's own CELER_EXPECT */
__CPROVER_requires(value >= self->data_->front && value < self->data_->back)
__CPROVER_assigns()
/* the function's own CELER_ENSURE: a valid bin, so that callers may read points [bin] and [bin+1] */
__CPROVER_ensures(__CPROVER_return_value < self->data_->size - 1)   /* i.e. bin + 1 < size WITHOUT wrap-around (bin == SIZE_MAX would satisfy the literal form) */
{""" + pc.body + """}
void h_ug_find(void)
{
    real_type front, back, delta, value; size_type size;
    UniformGridData d = {size, front, back, delta};
    UniformGrid g = {&d};
    size_type r = UG_find(&g, value);
    VERIF_CANARY();
}
""")


def build_ug_index(ctx):
    valid = _ug_valid_text(ctx)
    pc = ctx.func(UGRID, r"CELER_FUNCTION auto UniformGrid::operator\[\]\(size_type i\) const -> value_type", UG_RULES, name="UniformGrid::operator[]")
    return (HDR + UG_TYPES.replace("((d).size >= 2 && (d).delta > 0 && (d).front < (d).back)", "(" + valid + ")") + """
value_type UG_index(UniformGrid const* self, size_type i)
__CPROVER_requires(self != 0 && self->data_ != 0)
__CPROVER_requires(UGD_VALID(*self->data_) && i < self->data_->size && !__CPROVER_isinfd(self->data_->front) && !__CPROVER_isinfd(self->data_->delta))
__CPROVER_assigns()
__CPROVER_ensures(__CPROVER_return_value == self->data_->front + self->data_->delta * i)
__CPROVER_ensures(i == 0 ==> __CPROVER_return_value == self->data_->front)
{""" + pc.body + """}
void h_ug_index(void)
{
    real_type front, back, delta; size_type size, i;
    UniformGridData d = {size, front, back, delta};
    UniformGrid g = {&d};
    UG_index(&g, i);
    VERIF_CANARY();
}
""")


def _ug_argv(inputs, fl):
    runs = []
    if all(k in inputs for k in ("front", "back", "size", "value")):
        runs.append(["ugrid_find", inputs["front#bin"], inputs["back#bin"], inputs["size"].rstrip("u"), inputs["value#bin"]])
    runs.append(["ugrid_search"])
    return runs


REPLAY_UG = {"src": "replay/c18.cc", "argv": _ug_argv}
REPLAY_ALGO = {"src": "replay/c18.cc", "argv": lambda inputs, fl: [["algo_battery"]]}

# ---------------------------------------------------------------------------
# binary / linear search
# ---------------------------------------------------------------------------
SEARCH_COMMON_RULES = [
    Rule(r"using difference_type = difference_type_t<ForwardIterator>;", "", (0, 1), note="type alias -> typedef ptrdiff_t (bound)"),
    Rule(r"\bcomp\(([^(),]*(?:\([^()]*\))?[^(),]*), ([^(),]*)\)", r"VERIF_COMP(\1, \2)", "+", note="Compare functor call -> macro (Less<>: a < b)"),
]
HALF_POS = """
typedef ptrdiff_t difference_type;
/* half_positive<Integral> (extracted below) */
"""


def piece_half_positive(ctx):
    return ctx.func(IMPL, r"typename std::enable_if<std::is_integral<Integral>::value, Integral>::type\s*half_positive\(Integral value\)", [
        Rule(r"typename std::make_unsigned<Integral>::type", "size_t", 1, note="make_unsigned<ptrdiff_t> -> size_t (bound)"),
        Rule(r"\bIntegral\b", "difference_type", "+", note="template parameter bound to ptrdiff_t"),
    ], name="detail::half_positive<Integral>")


def search_prelude(T, ctx):
    hp = piece_half_positive(ctx)
    return (HDR + "#include <stddef.h>\n#include <stdlib.h>\ntypedef %s T;\ntypedef T const* ForwardIterator;\n" % T + HALF_POS
            + "static difference_type half_positive(difference_type value)\n{" + hp.body + "}\n"
            + "#define VERIF_COMP(a, b) ((a) < (b))   /* Compare = Less<> */\n"
            + "size_t g_n; size_t g_k; T const* g_a; /* ghost: array length, witness index, array base */\n"
            + "#define G_IDX(p) ((size_t)__CPROVER_POINTER_OFFSET(p) / sizeof(T))   /* index of p in g_a (g_a has offset 0) */\n"
            + ("#define NOTNAN(x) (!__CPROVER_isnand(x))\n" if T == "double" else "#define NOTNAN(x) 1\n"))


# invariant pieces shared by lower/upper bound
PTR_INV = ("__CPROVER_same_object(first, g_a) && __CPROVER_POINTER_OFFSET(first) % sizeof(T) == 0 && len >= 0 "
           "&& (size_t)len <= g_n && G_IDX(first) <= g_n && G_IDX(first) + (size_t)len <= g_n")


def build_lower_bound(T):
    def build(ctx):
        rules = SEARCH_COMMON_RULES + [
            Rule(r"(ForwardIterator m = first \+ half_len;)",
                 r"\1\n        /* instance of the precondition `sorted, NaN-free` at (g_k, m) */\n"
                 r"        __CPROVER_assume(NOTNAN(*m) && (g_k < g_n ==> NOTNAN(g_a[g_k])) && ((g_k < g_n && g_k <= G_IDX(m)) ==> !(*m < g_a[g_k])) && ((g_k < g_n && g_k >= G_IDX(m)) ==> !(g_a[g_k] < *m)));", 1,
                 note="ghost: instance of the quantified precondition (sortedness) at the probed element"),
            LoopContracts([
                "    __CPROVER_assigns(first, len)\n"
                "    __CPROVER_loop_invariant(" + PTR_INV + ")\n"
                "    __CPROVER_loop_invariant(g_k < G_IDX(first) ==> VERIF_COMP(g_a[g_k], value_))\n"
                "    __CPROVER_loop_invariant((g_k >= G_IDX(first) + (size_t)len && g_k < g_n) ==> !VERIF_COMP(g_a[g_k], value_))\n"
                "    __CPROVER_decreases(len)\n"]),
        ]
        pc = ctx.func(IMPL, r"CELER_FUNCTION ForwardIterator lower_bound_impl\(ForwardIterator first,", rules, name="detail::lower_bound_impl")
        return (search_prelude(T, ctx) + """
ForwardIterator lower_bound_impl(ForwardIterator first, ForwardIterator last, T value_)
__CPROVER_requires(g_n <= 1000000 && first == g_a && last == g_a + g_n && __CPROVER_r_ok(g_a, g_n * sizeof(T)) && NOTNAN(value_))
__CPROVER_assigns()
__CPROVER_ensures(__CPROVER_same_object(__CPROVER_return_value, g_a) && __CPROVER_return_value >= g_a && __CPROVER_return_value <= g_a + g_n)
/* std::lower_bound: everything before the result compares less than value, nothing from the result on does (witness g_k arbitrary) */
__CPROVER_ensures(g_k < (size_t)(__CPROVER_return_value - g_a) ==> g_a[g_k] < value_)
__CPROVER_ensures((g_k >= (size_t)(__CPROVER_return_value - g_a) && g_k < g_n) ==> !(g_a[g_k] < value_))
{""" + pc.body + """}
void h_lower_bound(void)
{
    T v; size_t n, k; __CPROVER_assume(n <= 1000000);
    T* a = malloc(n * sizeof(T)); __CPROVER_assume(a != 0);
    g_a = a; g_n = n; g_k = k;
    lower_bound_impl(a, a + n, v);
    VERIF_CANARY();
}
""")
    return build


def build_upper_bound(T):
    def build(ctx):
        rules = SEARCH_COMMON_RULES + [
            Rule(r"(ForwardIterator m = first \+ half_len;)",
                 r"\1\n        /* instance of the precondition `sorted, NaN-free` at (g_k, m) */\n"
                 r"        __CPROVER_assume(NOTNAN(*m) && (g_k < g_n ==> NOTNAN(g_a[g_k])) && ((g_k < g_n && g_k <= G_IDX(m)) ==> !(*m < g_a[g_k])) && ((g_k < g_n && g_k >= G_IDX(m)) ==> !(g_a[g_k] < *m)));", 1,
                 note="ghost: instance of the quantified precondition (sortedness) at the probed element"),
            LoopContracts([
                "    __CPROVER_assigns(first, len)\n"
                "    __CPROVER_loop_invariant(" + PTR_INV + ")\n"
                "    __CPROVER_loop_invariant(g_k < G_IDX(first) ==> !VERIF_COMP(value_, g_a[g_k]))\n"
                "    __CPROVER_loop_invariant((g_k >= G_IDX(first) + (size_t)len && g_k < g_n) ==> VERIF_COMP(value_, g_a[g_k]))\n"
                "    __CPROVER_decreases(len)\n"]),
        ]
        pc = ctx.func(IMPL, r"CELER_FUNCTION ForwardIterator upper_bound_impl\(ForwardIterator first,", rules, name="detail::upper_bound_impl")
        return (search_prelude(T, ctx) + """
ForwardIterator upper_bound_impl(ForwardIterator first, ForwardIterator last, T value_)
__CPROVER_requires(g_n <= 1000000 && first == g_a && last == g_a + g_n && __CPROVER_r_ok(g_a, g_n * sizeof(T)) && NOTNAN(value_))
__CPROVER_assigns()
__CPROVER_ensures(__CPROVER_same_object(__CPROVER_return_value, g_a) && __CPROVER_return_value >= g_a && __CPROVER_return_value <= g_a + g_n)
/* std::upper_bound: nothing before the result is greater than value, everything from the result on is */
__CPROVER_ensures(g_k < (size_t)(__CPROVER_return_value - g_a) ==> !(value_ < g_a[g_k]))
__CPROVER_ensures((g_k >= (size_t)(__CPROVER_return_value - g_a) && g_k < g_n) ==> (value_ < g_a[g_k]))
{""" + pc.body + """}
void h_upper_bound(void)
{
    T v; size_t n, k; __CPROVER_assume(n <= 1000000);
    T* a = malloc(n * sizeof(T)); __CPROVER_assume(a != 0);
    g_a = a; g_n = n; g_k = k;
    upper_bound_impl(a, a + n, v);
    VERIF_CANARY();
}
""")
    return build


def build_lower_bound_linear(T):
    def build(ctx):
        rules = SEARCH_COMMON_RULES + [
            LoopContracts([
                "    __CPROVER_assigns(it)\n"
                "    __CPROVER_loop_invariant(__CPROVER_same_object(it, g_a) && __CPROVER_POINTER_OFFSET(it) % sizeof(T) == 0 && G_IDX(it) <= g_n)\n"
                "    __CPROVER_loop_invariant(g_k < G_IDX(it) ==> VERIF_COMP(g_a[g_k], value_))\n"
                "    __CPROVER_decreases(g_n - G_IDX(it))\n"]),
        ]
        pc = ctx.func(IMPL, r"CELER_FUNCTION ForwardIterator lower_bound_linear_impl\(ForwardIterator first,", rules, name="detail::lower_bound_linear_impl")
        return (search_prelude(T, ctx) + """
ForwardIterator lower_bound_linear_impl(ForwardIterator first, ForwardIterator last, T value_)
__CPROVER_requires(g_n <= 1000000 && first == g_a && last == g_a + g_n && __CPROVER_r_ok(g_a, g_n * sizeof(T)))
__CPROVER_assigns()
__CPROVER_ensures(__CPROVER_same_object(__CPROVER_return_value, g_a) && __CPROVER_return_value >= g_a && __CPROVER_return_value <= g_a + g_n)
/* first position whose element is not less than value (no sortedness needed): all earlier ones are less, and the result itself is not */
__CPROVER_ensures(g_k < (size_t)(__CPROVER_return_value - g_a) ==> g_a[g_k] < value_)
__CPROVER_ensures(__CPROVER_return_value != g_a + g_n ==> !(*__CPROVER_return_value < value_))
{""" + pc.body + """}
void h_lower_bound_linear(void)
{
    T v; size_t n, k; __CPROVER_assume(n <= 1000000);
    T* a = malloc(n * sizeof(T)); __CPROVER_assume(a != 0);
    g_a = a; g_n = n; g_k = k;
    lower_bound_linear_impl(a, a + n, v);
    VERIF_CANARY();
}
""")
    return build


# ---------------------------------------------------------------------------
# NonuniformGrid<real_type>::find
# ---------------------------------------------------------------------------
NUGRID = "src/corecel/grid/NonuniformGrid.hh"
NUG_RULES = [
    Rule(r"using ItemIdT = ItemId<T>;", "", 1, note="type alias dropped"),
    Rule(r"auto iter = celeritas::lower_bound\(\s*offset_\.begin\(\),\s*offset_\.end\(\),\s*value,\s*\[&v = storage_\]\(ItemIdT i, T value\) \{ return v\[i\] < value; \}\);",
         "T const* iter = lower_bound_impl(g_a, g_a + g_n, value);", 1,
         note="lower_bound over the ItemRange with comparator `storage[i] < value` -> lower_bound_impl over the grid's values (iterator = pointer to the value; celeritas::lower_bound forwards to lower_bound_impl)"),
    Rule(r"offset_\.end\(\)", "(g_a + g_n)", "+", note="ItemRange end -> pointer past the grid's values"),
    Rule(r"offset_\.begin\(\)", "g_a", "+", note="ItemRange begin -> pointer to the grid's first value"),
    Rule(r"storage_\[\*iter\]", "(*iter)", 1, note="Collection[ItemId] -> the value the iterator designates"),
    Rule(r"this->front\(\)", "g_a[0]", 1, note="front(): storage_[*offset_.begin()]"),
    Rule(r"this->back\(\)", "g_a[g_n - 1]", 1, note="back(): storage_[*(offset_.end() - 1)]"),
    Rule(r"return iter - g_a;", "return (size_type)(iter - g_a);", 1, note="iterator difference -> index"),
]


def build_nug_find(ctx):
    pc = ctx.func(NUGRID, r"CELER_FUNCTION size_type NonuniformGrid<T>::find\(value_type value\) const", NUG_RULES, name="NonuniformGrid<T>::find")
    return (HDR + """#include <stddef.h>
#include <stdlib.h>
typedef double T; typedef T value_type;
size_t g_n; T const* g_a;   /* the grid: storage_[offset_[0 .. n)) */
size_t g_r;                 /* ghost: index lower_bound returned */
#define NOTNAN(x) (!__CPROVER_isnand(x))
size_t nondet_size_t(void);
/* detail::lower_bound_impl: contract enforced in c18_lower_bound_d (any length).  Encoded as: assert the precondition, return a result constrained by
 * that contract's two postconditions at witnesses r-1 and r -- plus the INSTANCE at (r, r+1) of this function's own quantified precondition
 * "the grid is strictly increasing and NaN-free" (CBMC has no reliable quantifiers; the instance is what the proof below uses). */
static T const* lower_bound_impl(T const* first, T const* last, T value_)
{
    __CPROVER_assert(first == g_a && last == g_a + g_n && NOTNAN(value_), "lower_bound_impl.precondition: whole grid, NaN-free value");
    size_t r = nondet_size_t();
    __CPROVER_assume(r <= g_n);
    __CPROVER_assume(r > 0 ? g_a[r - 1] < value_ : 1);
    __CPROVER_assume(r < g_n ? (NOTNAN(g_a[r]) && !(g_a[r] < value_)) : 1);
    __CPROVER_assume(r + 1 < g_n ? g_a[r] < g_a[r + 1] : 1);
    g_r = r;
    return g_a + r;
}
size_type NUG_find(T value)
__CPROVER_requires(g_n >= 2 && g_n <= 1000000 && __CPROVER_r_ok(g_a, g_n * sizeof(T)) && NOTNAN(value))
__CPROVER_requires(value >= g_a[0] && value < g_a[g_n - 1])   /* own CELER_EXPECT */
__CPROVER_assigns(g_r)
/* the bin containing the value: grid[i] <= value < grid[i+1], with i+1 a valid index */
__CPROVER_ensures(__CPROVER_return_value < g_n - 1)
__CPROVER_ensures(__CPROVER_return_value < g_n - 1 ? (g_a[__CPROVER_return_value] <= value && value < g_a[__CPROVER_return_value + 1]) : 1)
{""" + pc.body + """}
void h_nug_find(void)
{
    T v; size_t n; __CPROVER_assume(n >= 2 && n <= 1000000);
    T* a = malloc(n * sizeof(T)); __CPROVER_assume(a != 0);
    g_a = a; g_n = n;
    NUG_find(v);
    VERIF_CANARY();
}
""")


UNITS = [
    Unit("c18_from_bounds", build_from_bounds, "h_from_bounds", enforce="UGD_from_bounds", timeout=300, backend="cvc5",
         assumptions=["from_bounds: spacing (back-front)/(size-1) does not underflow to zero (stated precondition)"],
         must_have=[r"UGD_from_bounds.postcondition", r"celer_ensure"], checks=["--bounds-check", "--pointer-check", "--nan-check"],
         note="UniformGridData::from_bounds: fields as given, delta = (back-front)/(size-1), result valid"),
    Unit("c18_ug_find", build_ug_find, "h_ug_find", enforce="UG_find", timeout=600,
         must_have=[r"UG_find.postcondition", r"celer_ensure"], checks=["--bounds-check", "--pointer-check"],
         replay=REPLAY_UG,
         note="UniformGrid::find on a from_bounds grid returns a bin with bin+1 < size for EVERY in-range value, incl. one ulp below back"),
    Unit("c18_ug_index", build_ug_index, "h_ug_index", enforce="UG_index", timeout=300, backend="cvc5",
         must_have=[r"UG_index.postcondition"], checks=["--bounds-check", "--pointer-check"],
         note="UniformGrid::operator[]"),
    Unit("c18_lower_bound_u", build_lower_bound("unsigned"), "h_lower_bound", enforce="lower_bound_impl", loop_contracts=True, timeout=300,
         must_have=[r"lower_bound_impl.postcondition", r"loop_invariant_step", r"loop_decreases"], checks=["--bounds-check", "--pointer-check"],
         assumptions=["sortedness precondition used through instances at the probed element (ghost assume)"],
         replay=REPLAY_ALGO, note="lower_bound_impl<unsigned>: unbounded length (<= 10^6 elements object bound), loop invariant + variant"),
    Unit("c18_lower_bound_d", build_lower_bound("double"), "h_lower_bound", enforce="lower_bound_impl", loop_contracts=True, timeout=300,
         must_have=[r"lower_bound_impl.postcondition", r"loop_invariant_step", r"loop_decreases"], checks=["--bounds-check", "--pointer-check"],
         assumptions=["sortedness and NaN-freedom preconditions used through instances at the probed element (ghost assume)"],
         replay=REPLAY_ALGO, note="lower_bound_impl<double>"),
    Unit("c18_upper_bound_u", build_upper_bound("unsigned"), "h_upper_bound", enforce="upper_bound_impl", loop_contracts=True, timeout=300,
         must_have=[r"upper_bound_impl.postcondition", r"loop_invariant_step", r"loop_decreases"], checks=["--bounds-check", "--pointer-check"],
         assumptions=["sortedness precondition used through instances at the probed element (ghost assume)"],
         replay=REPLAY_ALGO, note="upper_bound_impl<unsigned>"),
    Unit("c18_upper_bound_d", build_upper_bound("double"), "h_upper_bound", enforce="upper_bound_impl", loop_contracts=True, timeout=300,
         must_have=[r"upper_bound_impl.postcondition", r"loop_invariant_step", r"loop_decreases"], checks=["--bounds-check", "--pointer-check"],
         assumptions=["sortedness and NaN-freedom preconditions used through instances at the probed element (ghost assume)"],
         replay=REPLAY_ALGO, note="upper_bound_impl<double>"),
    Unit("c18_lower_bound_linear_u", build_lower_bound_linear("unsigned"), "h_lower_bound_linear", enforce="lower_bound_linear_impl", loop_contracts=True, timeout=300,
         must_have=[r"lower_bound_linear_impl.postcondition", r"loop_invariant_step", r"loop_decreases"], checks=["--bounds-check", "--pointer-check"],
         replay=REPLAY_ALGO, note="lower_bound_linear_impl<unsigned>"),
]


# ---------------------------------------------------------------------------
# partition and heap sort: bounded (symbolic contents, every array of length <= N)
# ---------------------------------------------------------------------------
SWAP_RULES = [
    Rule(r"static_assert\([^;]*;", "", 3, note="static_asserts on T dropped (T is a scalar binding)"),
    Rule(r"T temp\{move\(a\)\};", "T temp = *a;", 1, note="move of a trivially copyable scalar = copy; T& -> T*"),
    Rule(r"a = move\(b\);", "*a = *b;", 1, note="T& -> T*"),
    Rule(r"b = move\(temp\);", "*b = temp;", 1, note="T& -> T*"),
]


def piece_trivial_swap(ctx):
    return ctx.func(ALGO, r"CELER_FORCEINLINE_FUNCTION void trivial_swap\(T& a, T& b\) noexcept", SWAP_RULES, name="trivial_swap")


PART_RULES = [
    Rule(r"\bpred\(", "VERIF_PRED(", 2, note="Predicate functor call -> macro (symbolic predicate table)"),
    Rule(r"trivial_swap\(\*first, \*last\);", "trivial_swap(first, last);", 1, note="T& arguments -> pointers"),
]


def build_partition(N):
    def build(ctx):
        sw = piece_trivial_swap(ctx)
        pc = ctx.func(IMPL, r"CELER_FUNCTION BidirectionalIterator partition_impl\(BidirectionalIterator first,", PART_RULES, name="detail::partition_impl")
        return (HDR + """
typedef unsigned T; typedef T* BidirectionalIterator;
unsigned g_predbits;                         /* symbolic predicate: pred(x) = bit x of g_predbits (elements are < 32) */
#define VERIF_PRED(x) (((g_predbits >> (x)) & 1u) != 0)
static void trivial_swap(T* a, T* b)
{""" + sw.body + """}
BidirectionalIterator partition_impl(BidirectionalIterator first, BidirectionalIterator last)
{""" + pc.body + """}
#define N %d
void h_partition(void)
{
    T a[N + 1], a0[N + 1]; unsigned n, w, pb;
    g_predbits = pb;     /* ANY predicate table (a global is zero-initialised in a plain cbmc harness: it must be set explicitly) */
    __CPROVER_assume(n <= N && w < 32);
    for (unsigned i = 0; i < N; ++i) { __CPROVER_assume(a[i] < 32); a0[i] = a[i]; }
    T* r = partition_impl(a, a + n);
    __CPROVER_assert(r >= a && r <= a + n, "partition.range: result inside [first, last]");
    unsigned c0 = 0, c1 = 0;
    for (unsigned i = 0; i < N; ++i)
    {
        if (i < n)
        {
            __CPROVER_assert((i < (unsigned)(r - a)) == VERIF_PRED(a[i]), "partition.split: true elements exactly before the result (std::partition)");
            c0 += (a0[i] == w); c1 += (a[i] == w);
        }
        else
            __CPROVER_assert(a[i] == a0[i], "partition.frame: nothing outside [first, last) written");
    }
    __CPROVER_assert(c0 == c1, "partition.permutation: multiset of elements preserved (witness value)");
    __CPROVER_assert(!(n == 3 && VERIF_PRED(a0[0]) && !VERIF_PRED(a0[1]) && VERIF_PRED(a0[2])), "cover.partition_mixed: a true/false/true input is reachable");
    __CPROVER_assert(!(n == 2 && VERIF_PRED(a0[0]) && VERIF_PRED(a0[1])), "cover.partition_all_true: an all-true input is reachable");
    VERIF_CANARY();
}
""" % N)
    return build


HEAP_RULES = [
    Rule(r"using difference_type = difference_type_t<RandomAccessIt>;", "", (0, 1), note="type alias -> typedef ptrdiff_t (bound)"),
    Rule(r"using value_type =\s*typename std::iterator_traits<RandomAccessIt>::value_type;", "", (0, 1), note="type alias -> typedef T (bound)"),
    Rule(r"\bcomp\(\*(\w+), \*\((\w+) \+ difference_type\(1\)\)\)", r"VERIF_COMP(*\1, *(\2 + 1))", (0, 2), note="Compare functor call -> macro; functional cast"),
    Rule(r"\bcomp\(\*(\w+), \*(\w+)\)", r"VERIF_COMP(*\1, *\2)", "*", note="Compare functor call -> macro"),
    Rule(r"\bcomp\(\*(\w+), (\w+)\)", r"VERIF_COMP(*\1, \2)", "*", note="Compare functor call -> macro"),
    Rule(r"value_type top\(trivial_move\(\*start\)\);", "value_type top = *start;", (0, 1), note="move of a scalar = copy"),
    Rule(r"trivial_move\(([^()]*)\)", r"\1", "*", note="move of a scalar = copy"),
    Rule(r"(sift_down|pop_heap|make_heap|sort_heap|partial_sort)<Compare>\(", r"\1(", "*", note="explicit template argument dropped"),
    Rule(r"trivial_swap\(\*(\w+), \*(--)?(\w+)\);", r"trivial_swap(\1, \2\3);", "*", note="T& arguments -> pointers"),
    Rule(r", comp\b", "", "*", note="comparator argument dropped (bound by macro)"),
    Rule(r"\(void\)--n", "--n", (0, 1), note="(void) cast dropped"),
]


def build_heapsort(T, N):
    def build(ctx):
        sw = piece_trivial_swap(ctx)
        fns = []
        sigs = [
            ("sift_down", r"CELER_FUNCTION void sift_down\(RandomAccessIt first,", "void sift_down(RandomAccessIt first, RandomAccessIt last_unused, difference_type len, RandomAccessIt start)"),
            ("pop_heap", r"CELER_FORCEINLINE_FUNCTION void pop_heap\(RandomAccessIt first,", "void pop_heap(RandomAccessIt first, RandomAccessIt last, difference_type len)"),
            ("make_heap", r"^make_heap\(RandomAccessIt first, RandomAccessIt last, Compare comp\)", "void make_heap(RandomAccessIt first, RandomAccessIt last)"),
            ("sort_heap", r"^sort_heap\(RandomAccessIt first, RandomAccessIt last, Compare comp\)", "void sort_heap(RandomAccessIt first, RandomAccessIt last)"),
            ("partial_sort", r"CELER_FUNCTION void partial_sort\(RandomAccessIt first,", "void partial_sort(RandomAccessIt first, RandomAccessIt middle, RandomAccessIt last)"),
            ("heapsort_impl", r"^heapsort_impl\(RandomAccessIt first, RandomAccessIt last, Compare comp\)", "void heapsort_impl(RandomAccessIt first, RandomAccessIt last)"),
        ]
        for nm, loc, sig in sigs:
            pc = ctx.func(IMPL, loc, HEAP_RULES, name="detail::" + nm)
            fns.append(sig + "\n{" + pc.body + "}\n")
        return (HDR + "#include <stddef.h>\ntypedef %s T; typedef T value_type; typedef T* RandomAccessIt; typedef ptrdiff_t difference_type;\n" % T
                + "#define VERIF_COMP(a, b) ((a) < (b))   /* Compare = Less<> */\n"
                + "static void trivial_swap(T* a, T* b)\n{" + sw.body + "}\n" + "".join(fns) + """
#define N %d
void h_sort(void)
{
    T a[N + 1], a0[N + 1]; unsigned n; T w;
    __CPROVER_assume(n <= N);
    for (unsigned i = 0; i <= N; ++i) { %s a0[i] = a[i]; }
    heapsort_impl(a, a + n);
    unsigned c0 = 0, c1 = 0;
    for (unsigned i = 0; i <= N; ++i)
    {
        if (i < n)
        {
            if (i + 1 < n) __CPROVER_assert(!(a[i + 1] < a[i]), "sort.sorted: result is non-decreasing (std::sort)");
            c0 += (a0[i] == w); c1 += (a[i] == w);
        }
        else
            __CPROVER_assert(a[i] == a0[i], "sort.frame: nothing outside [first, last) written");
    }
    __CPROVER_assert(c0 == c1, "sort.permutation: multiset of elements preserved (witness value)");
    VERIF_CANARY();
}
""" % (N, "__CPROVER_assume(!__CPROVER_isnand(a[i]));" if T == "double" else ""))
    return build


UNITS += [
    Unit("c18_partition_n6", build_partition(6), "h_partition", unwind=9, timeout=600, bounded="all arrays of length <= 6, elements < 32, every predicate on them (symbolic table)",
         must_have=[r"partition.split", r"partition.permutation", r"unwinding assertion"], checks=["--bounds-check", "--pointer-check"], no_canary=False,
         replay=REPLAY_ALGO, note="partition_impl == std::partition semantics (bounded)"),
    Unit("c18_heapsort_u5", build_heapsort("unsigned", 5), "h_sort", unwind=8, timeout=1800, bounded="all unsigned arrays of length <= 5 (symbolic contents; the smallest length that reaches the second-level child comparison of sift_down)",
         must_have=[r"sort.sorted", r"sort.permutation", r"unwinding assertion"], checks=["--bounds-check", "--pointer-check"], backend=["sat", "kissat"],
         replay=REPLAY_ALGO, note="heapsort_impl<unsigned> (bounded), every block of sift_down / pop_heap / make_heap reachable"),
    Unit("c18_heapsort_u6", build_heapsort("unsigned", 6), "h_sort", unwind=9, timeout=3600, tier="thorough", bounded="all unsigned arrays of length <= 6",
         must_have=[r"sort.sorted", r"sort.permutation", r"unwinding assertion"], checks=["--bounds-check", "--pointer-check"],
         replay=REPLAY_ALGO, note="heapsort_impl: sorted permutation (bounded, thorough)"),
    Unit("c18_heapsort_d5", build_heapsort("double", 5), "h_sort", unwind=8, timeout=3600, tier="thorough", bounded="all NaN-free double arrays of length <= 5",
         must_have=[r"sort.sorted", r"sort.permutation", r"unwinding assertion"], checks=["--bounds-check", "--pointer-check"],
         replay=REPLAY_ALGO, note="heapsort_impl<double>: sorted permutation (bounded, thorough)"),
]


# ---------------------------------------------------------------------------
# min_element, all_of/any_of, integer helpers
# ---------------------------------------------------------------------------
def build_min_element(T):
    def build(ctx):
        rules = [
            Rule(r"\bcomp\(\*(\w+), \*(\w+)\)", r"VERIF_COMP(*\1, *\2)", "+", note="Compare functor call -> macro (Less<>)"),
            LoopContracts([
                "    __CPROVER_assigns(iter, result)\n"
                "    __CPROVER_loop_invariant(__CPROVER_same_object(iter, g_a) && __CPROVER_POINTER_OFFSET(iter) % sizeof(T) == 0 && G_IDX(iter) >= 1 && G_IDX(iter) <= g_n)\n"
                "    __CPROVER_loop_invariant(__CPROVER_same_object(result, g_a) && __CPROVER_POINTER_OFFSET(result) % sizeof(T) == 0 && G_IDX(result) < G_IDX(iter))\n"
                "    /* result is the FIRST minimum of the prefix [0, iter): nothing before it is <= it, nothing in the prefix is less */\n"
                "    __CPROVER_loop_invariant((g_k < G_IDX(iter)) ==> !VERIF_COMP(g_a[g_k], *result))\n"
                "    __CPROVER_loop_invariant((g_k < G_IDX(result)) ==> VERIF_COMP(*result, g_a[g_k]))\n"
                "    __CPROVER_decreases(g_n - G_IDX(iter))\n"]),
        ]
        pc = ctx.func(ALGO, r"inline CELER_FUNCTION ForwardIt min_element\(ForwardIt iter,", rules, name="min_element")
        pre = search_prelude(T, ctx).replace("typedef T const* ForwardIterator;", "typedef T const* ForwardIterator; typedef T const* ForwardIt;")
        return (pre + """
ForwardIt min_element(ForwardIt iter, ForwardIt last)
__CPROVER_requires(g_n <= 1000000 && iter == g_a && last == g_a + g_n && __CPROVER_r_ok(g_a, g_n * sizeof(T)))
__CPROVER_requires(g_k < g_n ==> NOTNAN(g_a[g_k]))
__CPROVER_assigns()
__CPROVER_ensures(__CPROVER_same_object(__CPROVER_return_value, g_a) && G_IDX(__CPROVER_return_value) <= g_n && (g_n == 0 ? __CPROVER_return_value == last : G_IDX(__CPROVER_return_value) < g_n))
/* std::min_element: no element is less than the result, and every element BEFORE it is strictly greater (first of equal minima) */
__CPROVER_ensures((g_n > 0 && g_k < g_n) ==> !(g_a[g_k] < *__CPROVER_return_value))
__CPROVER_ensures((g_n > 0 && g_k < G_IDX(__CPROVER_return_value)) ==> (*__CPROVER_return_value < g_a[g_k]))
{""" + pc.body + """}
void h_min_element(void)
{
    size_t n, k; __CPROVER_assume(n <= 1000000);
    T* a = malloc(n * sizeof(T)); __CPROVER_assume(a != 0);
    g_a = a; g_n = n; g_k = k;
    min_element(a, a + n);
    VERIF_CANARY();
}
""")
    return build


def build_int_helpers(ctx):
    cd = ctx.func(ALGO, r"CELER_CONSTEXPR_FUNCTION T ceil_div\(T top, T bottom\)", [Rule(r"static_assert\([^;]*;", "", 1, note="static_assert(is_unsigned<T>) dropped: T bound to unsigned types")], name="ceil_div")
    cn = ctx.func(ALGO, r"CELER_CONSTEXPR_FUNCTION T clamp_to_nonneg\(T v\) noexcept", [], name="clamp_to_nonneg")
    ng = ctx.func(ALGO, r"\[\[nodiscard\]\] CELER_CONSTEXPR_FUNCTION T negate\(T value\)", [Rule(r"T\{0\}", "((T)0)", 1, note="T{0}")], name="negate")
    sg = ctx.func(ALGO, r"CELER_CONSTEXPR_FUNCTION int signum\(T x\)", [], name="signum")
    hp = piece_half_positive(ctx)
    return (HDR + "#include <stddef.h>\n" + """
typedef ptrdiff_t difference_type;
static difference_type half_positive(difference_type value)
{""" + hp.body + """}
#define DEF_CEIL_DIV(T, NAME) static T NAME(T top, T bottom) {""" + cd.body.replace("\n", " ") + """}
DEF_CEIL_DIV(unsigned, ceil_div_u32)
DEF_CEIL_DIV(unsigned long, ceil_div_u64)
#define DEF_CLAMP_NN(T, NAME) static T NAME(T v) {""" + cn.body.replace("\n", " ") + """}
DEF_CLAMP_NN(double, clamp_to_nonneg_d)
DEF_CLAMP_NN(int, clamp_to_nonneg_i)
#define DEF_NEGATE(T, NAME) static T NAME(T value) {""" + ng.body.replace("\n", " ") + """}
DEF_NEGATE(double, negate_d)
#define DEF_SIGNUM(T, NAME) static int NAME(T x) {""" + sg.body.replace("\n", " ") + """}
DEF_SIGNUM(double, signum_d)
DEF_SIGNUM(int, signum_i)
void h_int_helpers(void)
{
    unsigned t32, b32; unsigned long t64, b64; double d; int i; difference_type len;
    __CPROVER_assume(b32 != 0 && b64 != 0);
    /* exact-arithmetic reference: ceil(top/bottom) = floor + (remainder != 0), with C's / and % as the (trusted) floor and remainder;
       a least-q-with-q*bottom>=top formulation needs a 64x64 multiplier proof that no installed solver finishes */
    unsigned q32 = ceil_div_u32(t32, b32);
    __CPROVER_assert(q32 == t32 / b32 + (t32 % b32 != 0 ? 1u : 0u), "ceil_div.u32: floor + (remainder != 0), for all 32-bit operands");
    unsigned long q64 = ceil_div_u64(t64, b64);
    __CPROVER_assert(q64 == t64 / b64 + (t64 % b64 != 0 ? 1ul : 0ul), "ceil_div.u64: floor + (remainder != 0), for all 64-bit operands");
    __CPROVER_assert(__CPROVER_isnand(d) || (clamp_to_nonneg_d(d) >= 0 && (d >= 0 ? clamp_to_nonneg_d(d) == d : clamp_to_nonneg_d(d) == 0)), "clamp_to_nonneg.double");
    __CPROVER_assert(clamp_to_nonneg_i(i) == (i < 0 ? 0 : i), "clamp_to_nonneg.int");
    __CPROVER_assert(__CPROVER_isnand(d) || negate_d(d) == -d, "negate.double: equals unary minus on values");
    __CPROVER_assert(!(d == 0 && __CPROVER_signd(d) == 0) || __CPROVER_signd(negate_d(d)) == 0, "negate.double: negate(+0) is +0 (documented difference from unary minus)");
    __CPROVER_assert(signum_d(d) == (d > 0 ? 1 : d < 0 ? -1 : 0) && signum_i(i) == (i > 0 ? 1 : i < 0 ? -1 : 0), "signum");
    __CPROVER_assume(len >= 0);
    __CPROVER_assert(half_positive(len) == len / 2, "half_positive: value/2 for non-negative values");
    VERIF_CANARY();
}
""")


UNITS += [
    Unit("c18_min_element_u", build_min_element("unsigned"), "h_min_element", enforce="min_element", loop_contracts=True, timeout=300,
         must_have=[r"min_element.postcondition", r"loop_invariant_step", r"loop_decreases"], checks=["--bounds-check", "--pointer-check"],
         replay=REPLAY_ALGO, note="min_element<unsigned>: the FIRST minimal element (std::min_element), any length"),
    Unit("c18_min_element_d", build_min_element("double"), "h_min_element", enforce="min_element", loop_contracts=True, timeout=300,
         must_have=[r"min_element.postcondition", r"loop_invariant_step", r"loop_decreases"], checks=["--bounds-check", "--pointer-check"],
         assumptions=["NaN-freedom used through instances (witness element)"],
         replay=REPLAY_ALGO, note="min_element<double>"),
    Unit("c18_int_helpers", build_int_helpers, "h_int_helpers", timeout=600, backend="cvc5",
         must_have=[r"ceil_div.u32", r"ceil_div.u64", r"half_positive", r"signum"], checks=["--bounds-check", "--div-by-zero-check"],
         replay=REPLAY_ALGO, note="ceil_div (32/64-bit, all operands), clamp_to_nonneg, negate, signum, half_positive against exact references (loop-free, complete)"),
    Unit("c18_nonuniform_find", build_nug_find, "h_nug_find", enforce="NUG_find", timeout=300, backend=["sat", "cvc5", "z3"],
         must_have=[r"NUG_find.postcondition", r"celer_expect", r"celer_assert", r"lower_bound_impl.precondition"], checks=["--bounds-check", "--pointer-check"],
         assumptions=["lower_bound_impl by its c18_lower_bound_d contract (two witness instances)", "grid strictly increasing and NaN-free (precondition, used at one instance)"],
         note="NonuniformGrid<double>::find: for any grid length and any in-range value returns i with grid[i] <= value < grid[i+1] and i+1 < size; its own asserts and the decrement are safe"),
]


# ---------------------------------------------------------------------------
# LinearInterpolator: exact at the left knot, exact on a flat bin
# ---------------------------------------------------------------------------
INTERP = "src/corecel/grid/Interpolator.hh"
TRAITS = "src/corecel/grid/detail/InterpolatorTraits.hh"


def linear_traits(ctx):
    """The five one-line functions of InterpolatorTraits<Interp::linear, T>, turned into macros mechanically."""
    import re
    from vkit.extract import ExtractionDrift
    text = ctx.read(TRAITS)
    m = re.search(r"struct InterpolatorTraits<Interp::linear, T>\s*\{(.*?)\n\};", text, flags=re.S)
    if not m:
        raise ExtractionDrift("InterpolatorTraits<Interp::linear, T> not found")
    out = ""
    found = set()
    for f in re.finditer(r"static CELER_CONSTEXPR_FUNCTION (?:T|bool) (\w+)\(([^()]*)\)\s*\{\s*return ([^;]*);\s*\}", m.group(1)):
        name, params, expr = f.group(1), [p.split()[-1] for p in f.group(2).split(",") if p.strip() and len(p.split()) > 1], f.group(3)
        for p in params:
            expr = re.sub(r"\b%s\b" % p, "(%s)" % p, expr)
        nparam = len([p for p in f.group(2).split(",") if p.strip()])
        args = params + ["unused_"] * (nparam - len(params))
        out += "#define TRAITS_%s(%s) (%s)\n" % (name, ", ".join(args), expr)
        found.add(name)
    if found != {"transform", "negate_transformed", "add_transformed", "transform_inv", "valid_domain"}:
        raise ExtractionDrift("linear interpolator traits changed: %r" % sorted(found))
    return out


LI_MODEL = """
typedef struct { real_type v[2]; } Point;                                      /* Array<T, 2> */
typedef struct { real_type intercept_, slope_, offset_; } Interpolator;        /* members of the current text; a member that a changed text no longer uses stays unused */
double __CPROVER_uninterpreted_fma(double, double, double);
double __CPROVER_uninterpreted_fdiv(double, double);
#define FINV(x) (!__CPROVER_isnand(x) && !__CPROVER_isinfd(x))
/* IEEE facts about the two operations whose general value is not decided here (assumed): fma(a, b, c) == c when a or b is zero and the other finite; 0 / b == 0 for b != 0;
   neither operation yields NaN on finite operands (non-zero divisor) */
static real_type FMA(real_type a, real_type b, real_type c)
{
    if ((a == 0 && FINV(b)) || (b == 0 && FINV(a))) return c;
    real_type r = __CPROVER_uninterpreted_fma(a, b, c);
    __CPROVER_assume(!(FINV(a) && FINV(b) && FINV(c)) || !__CPROVER_isnand(r));
    return r;
}
static real_type FDIV(real_type a, real_type b)
{
    if (a == 0 && b != 0 && !__CPROVER_isnand(b)) return 0.0;
    real_type r = __CPROVER_uninterpreted_fdiv(a, b);
    __CPROVER_assume(!(FINV(a) && FINV(b) && b != 0) || !__CPROVER_isnand(r));
    return r;
}
"""
LI_RULES = [
    Rule(r"(?:XTraits_t|YTraits_t)::(\w+)\(", r"TRAITS_\1(", "+", note="traits of Interp::linear (extracted as macros)"),
    Rule(r"\b(left|right)\[(X|Y)\]", r"\1.v[\2]", "*", note="Array::operator[]"),
    Rule(r"std::isnan\(", "__CPROVER_isnand(", "*", note="std::isnan"),
    Rule(r"std::fma\(", "FMA(", "*", note="std::fma -> uninterpreted with the zero-factor lemma"),
    Rule(r"\(([^;]*?)\s*/\s*(TRAITS_add_transformed\([^;]*\))\);", r"FDIV(\1, \2);", (0, 1), note="slope quotient -> uninterpreted with the zero-numerator lemma"),
    Rule(r"(?<![\w.>])(intercept_|slope_|offset_)\b", r"self->\1", "*", note="data members"),
]


def build_interp_linear(ctx):
    ct = ctx.func(INTERP, r"^CELER_FUNCTION Interpolator<XI, YI, T>::Interpolator\(Point left, Point right\)", LI_RULES, name="Interpolator<linear,linear>::Interpolator")
    op = ctx.func(INTERP, r"^Interpolator<XI, YI, T>::operator\(\)\(real_type x\) const -> real_type", LI_RULES, name="Interpolator<linear,linear>::operator()")
    return (HDR + LI_MODEL + linear_traits(ctx) + "static void LI_ctor(Interpolator* self, Point left, Point right)\n{" + ct.body + "}\n"
            "static real_type LI_call(Interpolator const* self, real_type x)\n{" + op.body + "}\n" + """
real_type LI_eval(real_type xl, real_type yl, real_type xr, real_type yr, real_type x)
__CPROVER_requires(FINV(xl) && FINV(xr) && FINV(yl) && FINV(yr) && FINV(x) && xl < xr && !__CPROVER_isinfd(-xl + xr) && !__CPROVER_isinfd(-xl + x) && !__CPROVER_isinfd(-yl + yr))      /* constructor EXPECT + finite table */
/* the bin is not so steep that its slope overflows */
__CPROVER_requires(!__CPROVER_isinfd(__CPROVER_uninterpreted_fdiv(-yl + yr, -xl + xr)))
__CPROVER_assigns()
/* the interpolant reproduces the table EXACTLY at the left knot of the bin (the knot every lookup lands on for a grid value) */
__CPROVER_ensures(x == xl ==> __CPROVER_return_value == yl)
/* and a flat bin is reproduced exactly everywhere inside it */
__CPROVER_ensures(yl == yr ==> __CPROVER_return_value == yl)
{
    Interpolator it; Point l = {{xl, yl}}, r = {{xr, yr}};
    LI_ctor(&it, l, r);          /* LinearInterpolator<real_type> interp{{xl, yl}, {xr, yr}}; */
    return LI_call(&it, x);      /* interp(x) */
}
void h_li(void)
{
    real_type a, b, c, d, x;
    LI_eval(a, b, c, d, x);
    VERIF_CANARY();
}
""")


UNITS += [
    Unit("c18_interp_linear", build_interp_linear, "h_li", enforce="LI_eval", timeout=600, backend=["sat", "kissat", "cvc5", "z3"],
         must_have=[r"LI_eval.postcondition", r"celer_expect", r"celer_ensure"], checks=["--bounds-check", "--pointer-check"],
         assumptions=["fma(a,b,c) == c when a factor is zero and 0/b == 0 (IEEE facts, assumed); the general value of fma and of the slope quotient is uninterpreted: interpolation accuracy inside a bin is NOT decided"],
         note="LinearInterpolator (constructor + operator(), real extracted bodies): exact value at the left knot of the bin and exact reproduction of a flat bin, for all finite tables; the constructor's EXPECT/ENSURE hold"),
]


# ---------------------------------------------------------------------------
# find_sorted: binary search for an element (built on lower_bound)
# ---------------------------------------------------------------------------
def build_find_sorted(ctx):
    pc = ctx.func(ALGO, r"^find_sorted\(ForwardIt first, ForwardIt last, T const& value, Compare comp\)", [
        Rule(r"auto iter = (?:::celeritas::)?lower_bound\(first, last, value, comp\);", "T const* iter = lower_bound_impl(first, last, value);", 1, note="celeritas::lower_bound forwards to lower_bound_impl (contract: c18_lower_bound_u)"),
        Rule(r"\bcomp\(([^(),]*), ([^(),]*)\)", r"((\1) < (\2))", "+", note="Compare functor call -> Less<>: a < b"),
    ], name="celeritas::find_sorted")
    return (HDR + """#include <stddef.h>
#include <stdlib.h>
typedef unsigned T; typedef T const* ForwardIt;
size_t g_n; T const* g_a; size_t g_k;     /* the sorted range, a witness index */
size_t nondet_size_t(void);
/* lower_bound_impl by its c18_lower_bound_u contract (witness instances at r-1, r and at the witness g_k); precondition instance: sorted between g_k and r */
static T const* lower_bound_impl(T const* first, T const* last, T value)
{
    __CPROVER_assert(first == g_a && last == g_a + g_n, "lower_bound_impl.precondition: whole range");
    size_t r = nondet_size_t();
    __CPROVER_assume(r <= g_n);
    __CPROVER_assume(r > 0 ? g_a[r - 1] < value : 1);
    __CPROVER_assume(r < g_n ? !(g_a[r] < value) : 1);
    __CPROVER_assume(g_k < g_n ? (g_k < r ? g_a[g_k] < value : !(g_a[g_k] < value)) : 1);
    __CPROVER_assume((g_k < g_n && r < g_n) ? (g_k <= r ? !(g_a[r] < g_a[g_k]) : !(g_a[g_k] < g_a[r])) : 1);      /* sortedness instance (g_k, r) */
    return g_a + r;
}
T const* find_sorted(ForwardIt first, ForwardIt last, T value)
__CPROVER_requires(g_n <= 1000000 && first == g_a && last == g_a + g_n && __CPROVER_r_ok(g_a, g_n * sizeof(T)))
__CPROVER_assigns()
/* either `last`, or an iterator to an element equal to the value */
__CPROVER_ensures(__CPROVER_return_value == g_a + g_n || (__CPROVER_same_object(__CPROVER_return_value, g_a) && __CPROVER_return_value >= g_a && __CPROVER_return_value < g_a + g_n && *__CPROVER_return_value == value))
/* and `last` is returned only if NO element equals the value (witness g_k arbitrary) */
__CPROVER_ensures((__CPROVER_return_value == g_a + g_n && g_k < g_n) ==> g_a[g_k] != value)
{""" + pc.body + """}
void h_fs(void)
{
    T v; size_t n, k; __CPROVER_assume(n <= 1000000);
    T* a = malloc(n * sizeof(T)); __CPROVER_assume(a != 0);
    g_a = a; g_n = n; g_k = k;
    find_sorted(a, a + n, v);
    VERIF_CANARY();
}
""")


UNITS += [
    Unit("c18_find_sorted", build_find_sorted, "h_fs", enforce="find_sorted", timeout=300, backend=["sat", "cvc5"],
         must_have=[r"find_sorted.postcondition", r"lower_bound_impl.precondition"], checks=["--bounds-check", "--pointer-check"], replay=REPLAY_ALGO,
         assumptions=["lower_bound_impl by its c18_lower_bound_u contract (witness instances)", "range sorted (precondition, used at one instance)"],
         note="find_sorted<unsigned>: returns an iterator to an element equal to the value, and `last` only when no element equals it; any length"),
]
