"""C15: samplers respect their support (support / draw-count clauses within reach of contracts)."""
from vkit.extract import Rule, LoopContracts
from vkit.runner import Unit

BER = "src/celeritas/random/distribution/BernoulliDistribution.hh"
SEL = "src/celeritas/random/Selector.hh"
URD = "src/celeritas/random/distribution/UniformRealDistribution.hh"   # not under contract: CBMC has no model of fma() (returns nondet)
HDR = '#include "celer.h"\n'

RNG_MODEL = """
typedef struct Engine Engine;
unsigned g_draws; real_type g_u[4];        /* ghost: canonical draws consumed and their values */
/* generate_canonical: a value in [0, 1) (property C13 / GenerateCanonical32: enforced in c13_canon_double), one engine draw pair */
real_type generate_canonical(Engine* rng)
__CPROVER_requires(g_draws < 4)
__CPROVER_assigns(g_draws)
__CPROVER_ensures(g_draws == __CPROVER_old(g_draws) + 1 && __CPROVER_return_value == g_u[__CPROVER_old(g_draws)] && __CPROVER_return_value >= 0 && __CPROVER_return_value < 1)
;
"""
GC_RULES = [Rule(r"generate_canonical<real_type>\(rng\)|generate_canonical\(rng\)", "generate_canonical(rng)", "+", note="generate_canonical<real_type>(rng) -> stub with its [0,1) contract")]


def build_bernoulli(ctx):
    c1 = ctx.func(BER, r"CELER_FUNCTION BernoulliDistribution::BernoulliDistribution\(real_type p_true\)", [], name="BernoulliDistribution(p)")
    import re
    from vkit.extract import ExtractionDrift
    if not re.search(r":\s*p_true_\(p_true\)\s*$", c1.head):
        raise ExtractionDrift("BernoulliDistribution(p) initializer list is not ': p_true_(p_true)'")
    pc = ctx.func(BER, r"^BernoulliDistribution::operator\(\)\(Generator& rng\) -> result_type", GC_RULES + [Rule(r"\bp_true_\b", "self->p_true_", "+", note="data member")], name="BernoulliDistribution::operator()")
    return (HDR + RNG_MODEL + """
typedef struct { real_type p_true_; } BernoulliDistribution;
void BER_ctor(BernoulliDistribution* self, real_type p_true)
__CPROVER_requires(self != 0 && p_true >= 0 && p_true <= 1)      /* own CELER_EXPECT */
__CPROVER_assigns(self->p_true_)
__CPROVER_ensures(self->p_true_ == p_true)
{ self->p_true_ = p_true; /* member initializer list ': p_true_(p_true)' (checked on the extracted header) */ """ + c1.body + """}
bool BER_call(BernoulliDistribution const* self, Engine* rng)
__CPROVER_requires(self != 0 && self->p_true_ >= 0 && self->p_true_ <= 1 && g_draws == 0)
__CPROVER_assigns(g_draws)
/* exactly one draw; true exactly when the draw falls in [0, p): probability p, never true for p == 0, always true for p == 1 */
__CPROVER_ensures(g_draws == 1 && __CPROVER_return_value == (g_u[0] < self->p_true_))
__CPROVER_ensures(self->p_true_ == 0 ==> !__CPROVER_return_value)
__CPROVER_ensures(self->p_true_ == 1 ==> __CPROVER_return_value)
{""" + pc.body + """}
void h_ber(void)
{
    BernoulliDistribution d; real_type p, u; Engine* e;
    __CPROVER_assume(p >= 0 && p <= 1);
    BER_ctor(&d, p);
    g_u[0] = u;
    BER_call(&d, e);
    VERIF_CANARY();
}
""")


SEL_RULES = GC_RULES + [
    Rule(r"\btotal_\b", "self->total_", "+", note="data member"),
    Rule(r"for \(IterT iter\{\}; iter (\S+) last_; \+\+iter\)", r"for (size_type iter = 0; iter \1 self->last_; ++iter)", 1, note="RangeIter<T> -> its integer value (IterT{} == 0)"),
    Rule(r"eval_\(\*iter\)", "EVAL(self, iter)", "+", note="F functor -> ghost table"),
    Rule(r"return \*iter;", "return iter;", 1, note="RangeIter dereference -> value"),
    Rule(r"return \*last_;", "return self->last_;", 1, note="RangeIter dereference -> value"),
    LoopContracts([
        "    __CPROVER_assigns(iter, accum)\n"
        "    __CPROVER_loop_invariant(iter <= self->last_)\n"
        "    __CPROVER_decreases(self->last_ - iter)\n"]),
]


def build_selector(ctx):
    pc = ctx.func(SEL, r"CELER_FUNCTION T Selector<F, T>::operator\(\)\(Engine& rng\) const", SEL_RULES, name="Selector::operator()")
    return (HDR + "#include <stdlib.h>\n" + RNG_MODEL + """
typedef struct { real_type const* pdf; size_type last_; real_type total_; } Selector;    /* eval_ = i -> pdf[i]; last_ = size - 1 (set by the constructor) */
static real_type EVAL(Selector const* self, size_type i) { __CPROVER_assert(i <= self->last_, "selector.eval_in_range: the weight functor is only called for indices < size"); return self->pdf[i]; }
size_type SEL_call(Selector const* self, Engine* rng)
__CPROVER_requires(self != 0 && self->last_ < 100000 && __CPROVER_r_ok(self->pdf, (self->last_ + 1) * sizeof(real_type)))
__CPROVER_requires(self->total_ > 0 && !__CPROVER_isinfd(self->total_) && g_draws == 0)      /* constructor EXPECT */
__CPROVER_assigns(g_draws)
/* a valid index (never size or beyond), exactly one draw, whatever the weights are */
__CPROVER_ensures(__CPROVER_return_value <= self->last_ && g_draws == 1)
{""" + pc.body + """}
void h_sel(void)
{
    size_type n; __CPROVER_assume(n >= 1 && n <= 100000);
    real_type* pdf = malloc(n * sizeof(real_type)); __CPROVER_assume(pdf != 0);
    Selector s = {pdf, n - 1, 0}; real_type tot; s.total_ = tot; Engine* e;
    SEL_call(&s, e);
    VERIF_CANARY();
}
""")


def build_uniform_real(ctx):
    pc = ctx.func(URD, r"UniformRealDistribution<RealType>::operator\(\)\(Generator& rng\) const -> result_type", [
        Rule(r"generate_canonical<RealType>\(rng\)", "generate_canonical(rng)", 1, note="generate_canonical -> stub"),
        Rule(r"\b(a_|delta_)\b", r"self->\1", "+", note="data member"),
        Rule(r"std::fma\(", "fma(", (0, 1), note="std::fma -> C fma"),
    ], name="UniformRealDistribution::operator()")
    return (HDR + "#include <math.h>\n" + RNG_MODEL + """
typedef struct { real_type a_; real_type delta_; } UniformRealDistribution;     /* a, b - a */
real_type URD_call(UniformRealDistribution const* self, Engine* rng)
__CPROVER_requires(self != 0 && g_draws == 0 && !__CPROVER_isinfd(self->a_) && !__CPROVER_isnand(self->a_) && self->delta_ >= 0 && !__CPROVER_isinfd(self->delta_) && !__CPROVER_isinfd(self->a_ + self->delta_))
__CPROVER_assigns(g_draws)
/* one draw; the sample lies in the closed interval [a, a + delta] (the half-open upper end can be reached by rounding: documented as a known limitation, same as std::uniform_real_distribution) */
__CPROVER_ensures(g_draws == 1 && __CPROVER_return_value >= self->a_ && __CPROVER_return_value <= self->a_ + self->delta_)
{""" + pc.body + """}
void h_urd(void)
{
    UniformRealDistribution d; Engine* e;
    URD_call(&d, e);
    VERIF_CANARY();
}
""")


UNITS = [
    Unit("c15_bernoulli", build_bernoulli, "h_ber", enforce="BER_call", replace=["generate_canonical"], timeout=120, backend=["sat", "cvc5"],
         must_have=[r"BER_call.postcondition", r"generate_canonical.precondition"], checks=["--bounds-check", "--pointer-check"],
         note="BernoulliDistribution: one draw, true iff u < p (never true at p = 0, always at p = 1)"),
    Unit("c15_selector", build_selector, "h_sel", enforce="SEL_call", replace=["generate_canonical"], loop_contracts=True, timeout=300, backend=["sat", "cvc5"],
         must_have=[r"SEL_call.postcondition", r"loop_invariant_step", r"selector.eval_in_range"], checks=["--bounds-check", "--pointer-check"],
         note="Selector::operator(): returns a valid index (< size) after exactly one draw for any weights and any size; the weight functor is only evaluated in range"),
]


# ---------------------------------------------------------------------------
# GammaDistribution: the shape boost (constructor) and its correction (call) agree
# ---------------------------------------------------------------------------
from vkit.extract import MulToUF  # noqa: E402

GAM = "src/celeritas/random/distribution/GammaDistribution.hh"

GAM_MODEL = """
typedef struct { real_type alpha_, beta_, alpha_p_, d_, c_; } GammaDistribution;
double __CPROVER_uninterpreted_mul(double, double);
#define MUL(a, b) __CPROVER_uninterpreted_mul((a), (b))      /* products: uninterpreted (values not decided) */
#define IPOW(n, x) __CPROVER_uninterpreted_mul((double)(n), (x))   /* ipow<n>(x): uninterpreted */
double __CPROVER_uninterpreted_log(double); double __CPROVER_uninterpreted_fastpow(double, double); double __CPROVER_uninterpreted_rsqrt(double);
real_type NORMAL_sample(Engine* rng) __CPROVER_requires(1) __CPROVER_assigns() __CPROVER_ensures(!__CPROVER_isnand(__CPROVER_return_value));   /* NormalDistribution: any number */
int g_it;            /* ghost: rejection-loop iterations (bounded unit) */
int g_corrected;     /* ghost: number of times the U^(1/alpha) correction was applied */
#undef generate_canonical
"""
GAM_CALL_RULES = [
    Rule(r"sample_normal_\(rng\)", "NORMAL_sample(rng)", 1, note="member functor -> stub"),
    Rule(r"\b(alpha_|beta_|alpha_p_|d_|c_)\b", r"self->\1", "+", note="data member"),
    Rule(r"z = NORMAL_sample\(rng\);", "__CPROVER_assume(++g_it <= 3); /* bounded unit: at most 3 rejection iterations in total */ z = NORMAL_sample(rng);", 1, note="ghost iteration bound"),
    Rule(r"ipow<(\d)>\(([^()]*)\)", r"IPOW(\1, \2)", "+", note="ipow<n>(x) -> uninterpreted"),
    Rule(r"real_type\(([\d.]+)\)", r"((real_type)\1)", "*", note="functional cast"),
    Rule(r"std::log\(", "__CPROVER_uninterpreted_log(", "*", note="std::log -> uninterpreted"),
    Rule(r"generate_canonical<real_type>\(rng\)", "generate_canonical(rng)", "+", note="generate_canonical -> stub"),
    Rule(r"result \*= fastpow\(generate_canonical\(rng\), 1 / self->alpha_\);", "{ ++g_corrected; result = MUL(result, __CPROVER_uninterpreted_fastpow(generate_canonical(rng), 1 / self->alpha_)); }", 1, note="correction factor U^(1/alpha); ghost count"),
    Rule(r"result_type result = self->d_ \* v \* self->beta_;", "real_type result = MUL(MUL(self->d_, v), self->beta_);", 1, note="products -> uninterpreted"),
    Rule(r"self->c_ \* z", "MUL(self->c_, z)", 1, note="product -> uninterpreted"),
    Rule(r"self->d_ \* \(", "MUL(self->d_, ", 1, note="product -> uninterpreted"),
    Rule(r"\(\(real_type\)0\.0331\) \* IPOW", "0.0331 * IPOW", "*", note="(constant product kept)"),
]


def build_gamma(ctx):
    import re
    from vkit.extract import ExtractionDrift
    ct = ctx.func(GAM, r"^GammaDistribution<RealType>::GammaDistribution\(real_type alpha, real_type beta\)", [], name="GammaDistribution(alpha, beta)")
    m = re.search(r"alpha_p_\(([^)]*)\)", ct.head)
    if not m:
        raise ExtractionDrift("GammaDistribution constructor: no alpha_p_ initializer")
    alpha_p_init = m.group(1)
    pc = ctx.func(GAM, r"^GammaDistribution<RealType>::operator\(\)\(Generator& rng\) -> result_type", GAM_CALL_RULES, name="GammaDistribution::operator()")
    return (HDR + RNG_MODEL.replace("g_draws < 4", "g_draws < 8").replace("real_type g_u[4]", "real_type g_u[8]") + GAM_MODEL + """
/* constructor's member initializer for the boosted shape, extracted from the initializer list: alpha_p_(""" + alpha_p_init + """) */
static real_type GAM_alpha_p(real_type alpha) { return """ + alpha_p_init + """; }
real_type GAM_call(GammaDistribution const* self, Engine* rng)
__CPROVER_requires(self != 0 && self->alpha_ > 0 && !__CPROVER_isinfd(self->alpha_) && self->beta_ > 0 && g_draws == 0 && g_corrected == 0 && g_it == 0)
/* object invariant established by the constructor (its initializer text is evaluated here) */
__CPROVER_requires(self->alpha_p_ == GAM_alpha_p(self->alpha_))
__CPROVER_assigns(g_draws, g_it, g_corrected)
/* Marsaglia-Tsang: shapes below 1 are sampled with alpha + 1 and corrected by one extra uniform draw U^(1/alpha); shapes >= 1 (including exactly 1) are NOT corrected */
__CPROVER_ensures(g_corrected == (self->alpha_ < 1 ? 1 : 0))
{""" + pc.body + """}
void h_gam(void)
{
    GammaDistribution d; Engine* e;
    GAM_call(&d, e);
    VERIF_CANARY();
}
""")


UNITS += [
    Unit("c15_gamma_boost", build_gamma, "h_gam", enforce="GAM_call", replace=["generate_canonical", "NORMAL_sample"], unwind=5, timeout=300, backend=["sat", "cvc5"],
         bounded="at most 3 rejection iterations (the checked fact does not depend on them); all arithmetic uninterpreted",
         must_have=[r"GAM_call.postcondition"], checks=["--bounds-check", "--pointer-check"],
         assumptions=["normal sampler, log, pow, products uninterpreted: the unit decides only WHEN the U^(1/alpha) correction is applied"],
         note="GammaDistribution: the correction draw is applied iff the constructor boosted the shape (alpha < 1), in particular not at alpha == 1"),
]


# ---------------------------------------------------------------------------
# PoissonDistribution::operator(): the Gaussian branch returns a count
# ---------------------------------------------------------------------------
POI = "src/celeritas/random/distribution/PoissonDistribution.hh"
POI_RULES = [
    Rule(r"PoissonDistribution::lambda_threshold\(\)", "POI_THRESHOLD", "*", note="constexpr threshold (value re-read from the header each run)"),
    Rule(r"std::exp\(", "__CPROVER_uninterpreted_exp(", "*", note="exp -> uninterpreted (direct branch; excluded by this unit's precondition)"),
    Rule(r"generate_canonical<real_type>\(rng\)", "GC_draw(rng)", "*", note="canonical draw -> stub"),
    Rule(r"sample_normal_\(rng\)", "NORMAL_sample(self, rng)", "*", note="NormalDistribution sample -> stub: ANY finite value (the normal distribution has unbounded support)"),
    Rule(r"\bresult_type\{(\d+)\}", r"((result_type)\1)", "*", note="brace-initialised constant"),
    Rule(r"\bresult_type\(", "(result_type)(", "*", note="functional cast"),
    Rule(r"real_type\(0\.5\)", "((real_type)0.5)", "*", note="functional cast"),
    Rule(r"(?<![\w.>])lambda_\b", "self->lambda_", "*", note="data member"),
]


def build_poisson(ctx):
    import re
    from vkit.extract import ExtractionDrift
    th = ctx.func(POI, r"static CELER_CONSTEXPR_FUNCTION int lambda_threshold\(\)", [], name="PoissonDistribution::lambda_threshold")
    m = re.search(r"return\s+(\d+)\s*;", th.body)
    if not m:
        raise ExtractionDrift("lambda_threshold() is not an integer literal")
    pc = ctx.func(POI, r"^PoissonDistribution<RealType>::operator\(\)\(Generator& rng\) -> result_type", POI_RULES, name="PoissonDistribution::operator()")
    return (HDR + """
typedef unsigned int result_type;
typedef struct Engine Engine;
typedef struct { real_type lambda_; } PoissonDistribution;
#define POI_THRESHOLD """ + m.group(1) + """
double __CPROVER_uninterpreted_exp(double);
real_type g_normal;    /* ghost: the normal deviate drawn (mean lambda, sigma sqrt(lambda)): any finite value */
real_type GC_draw(Engine* rng) __CPROVER_assigns() __CPROVER_ensures(__CPROVER_return_value >= 0 && __CPROVER_return_value < 1);
real_type NORMAL_sample(PoissonDistribution const* self, Engine* rng) __CPROVER_assigns(g_normal) __CPROVER_ensures(g_normal == __CPROVER_return_value && !__CPROVER_isnand(g_normal) && !__CPROVER_isinfd(g_normal) && g_normal <= 4e9);
result_type POI_call(PoissonDistribution const* self, Engine* rng)
/* Gaussian regime only (lambda above the threshold); the direct multiplication method's loop terminates with probability one only and is not part of this unit */
__CPROVER_requires(self != 0 && self->lambda_ > POI_THRESHOLD && !__CPROVER_isinfd(self->lambda_))
__CPROVER_assigns(g_normal)
/* the sampled count is the deviate rounded to the nearest integer, and a deviate below -1/2 (possible for every lambda: the normal has unbounded support) gives ZERO, not a wrapped huge count */
__CPROVER_ensures(g_normal + 0.5 >= 1 ? (__CPROVER_return_value >= 1 && __CPROVER_return_value <= g_normal + 0.5 && __CPROVER_return_value > g_normal - 0.5) : __CPROVER_return_value == 0)
{""" + pc.body + """}
void h_poi(void)
{
    PoissonDistribution d; Engine* e;
    POI_call(&d, e);
    VERIF_CANARY();
}
""")


def _poi_argv(inputs, fl):
    return [["poisson_battery"]]


UNITS += [
    Unit("c15_poisson_gauss", build_poisson, "h_poi", enforce="POI_call", replace=["NORMAL_sample", "GC_draw"], timeout=300, unwind=3, backend=["sat", "cvc5", "z3"],
         must_have=[r"POI_call.postcondition"], checks=["--bounds-check", "--pointer-check", "--conversion-check", "--float-overflow-check"],
         replay={"src": "replay/c15.cc", "argv": _poi_argv},
         assumptions=["NormalDistribution returns any finite value <= 4e9", "direct (small-lambda) branch excluded by precondition: its loop terminates only with probability one"],
         note="PoissonDistribution::operator() above the direct-method threshold: the result is the normal deviate rounded to the nearest count, with 0 for deviates below -1/2; the double -> unsigned conversion never sees a negative value"),
]


# ---------------------------------------------------------------------------
# NormalDistribution assignment: a cached second Box-Muller deviate is owned by exactly one sampler
# ---------------------------------------------------------------------------
NOR = "src/celeritas/random/distribution/NormalDistribution.hh"
NOR_MODEL = """
typedef struct { real_type mean_, stddev_, spare_; bool has_spare_; } NormalDistribution;
#define SAME(a, b) ((a) == (b) || (__CPROVER_isnand(a) && __CPROVER_isnand(b)))
"""
NOR_RULES = [
    Rule(r"\bother\.", "other->", "*", note="reference parameter -> pointer"),
    Rule(r"(?<![\w.>])(mean_|stddev_|spare_|has_spare_)\b", r"self->\1", "*", note="data members"),
    Rule(r"return \*this;", "return;", "*", note="returns *this (chaining not modelled)"),
]


def build_normal_assign(kind):
    def build(ctx):
        loc = (r"^NormalDistribution<RealType>::operator=\(NormalDistribution const& other\)" if kind == "copy" else r"^NormalDistribution<RealType>::operator=\(NormalDistribution&& other\)")
        pc = ctx.func(NOR, loc, NOR_RULES, name="NormalDistribution::operator=(%s)" % ("const&" if kind == "copy" else "&&"))
        if kind == "copy":
            sig = """
void NOR_assign(NormalDistribution* self, NormalDistribution const* other)
__CPROVER_requires(__CPROVER_rw_ok(self, sizeof(*self)) && __CPROVER_r_ok(other, sizeof(*other)) && self != other && (self->has_spare_ == 0 || self->has_spare_ == 1))
__CPROVER_assigns(self->mean_, self->stddev_, self->spare_, self->has_spare_)
/* copy assignment changes the distribution only: the source keeps its cached deviate (it is const), so the target must NOT acquire it -- otherwise both samplers
   would later return the same 'random' number without consuming any draw */
__CPROVER_ensures(SAME(self->mean_, other->mean_) && SAME(self->stddev_, other->stddev_))
__CPROVER_ensures(self->has_spare_ == __CPROVER_old(self->has_spare_) && (self->has_spare_ ==> SAME(self->spare_, __CPROVER_old(self->spare_))))
"""
            call = "NormalDistribution a, b; unsigned r; a.has_spare_ = (r != 0); NOR_assign(&a, &b);"
        else:
            sig = """
void NOR_assign(NormalDistribution* self, NormalDistribution* other)
__CPROVER_requires(__CPROVER_rw_ok(self, sizeof(*self)) && __CPROVER_rw_ok(other, sizeof(*other)) && self != other && (self->has_spare_ == 0 || self->has_spare_ == 1) && (other->has_spare_ == 0 || other->has_spare_ == 1))
__CPROVER_assigns(self->mean_, self->stddev_, self->spare_, self->has_spare_, other->has_spare_)
__CPROVER_ensures(SAME(self->mean_, other->mean_) && SAME(self->stddev_, other->stddev_))
/* move assignment may TAKE the source's cached deviate (only if the target has none), and then the source no longer has it: a deviate is never owned twice and never lost */
__CPROVER_ensures((!__CPROVER_old(self->has_spare_) && __CPROVER_old(other->has_spare_)) ? (self->has_spare_ && !other->has_spare_ && SAME(self->spare_, other->spare_))
                                                                                         : (self->has_spare_ == __CPROVER_old(self->has_spare_) && other->has_spare_ == __CPROVER_old(other->has_spare_) && (self->has_spare_ ==> SAME(self->spare_, __CPROVER_old(self->spare_)))))
"""
            call = "NormalDistribution a, b; unsigned r1, r2; a.has_spare_ = (r1 != 0); b.has_spare_ = (r2 != 0); NOR_assign(&a, &b);"
        return (HDR + NOR_MODEL + sig + "{" + pc.body + "}\nvoid h_nor(void)\n{\n    " + call + "\n    VERIF_CANARY();\n}\n")
    return build


UNITS += [
    Unit("c15_normal_assign_%s" % k, build_normal_assign(k), "h_nor", enforce="NOR_assign", timeout=120, backend=["sat", "cvc5"], must_have=[r"NOR_assign.postcondition"], checks=["--bounds-check", "--pointer-check"],
         note="NormalDistribution::operator=(%s): %s" % ("const&" if k == "copy" else "&&", "changes mean/stddev only, never acquires the source's cached deviate" if k == "copy" else "takes the source's cached deviate only when the target has none, and then the source gives it up"))
    for k in ("copy", "move")
]


# ---------------------------------------------------------------------------
# PoissonDistribution::operator(): WHICH method is used for which lambda (documented: Knuth's direct method for lambda <= 16, Gaussian approximation above)
# ---------------------------------------------------------------------------
def build_poisson_branch(ctx):
    import re
    from vkit.extract import ExtractionDrift
    th = ctx.func(POI, r"static CELER_CONSTEXPR_FUNCTION int lambda_threshold\(\)", [], name="PoissonDistribution::lambda_threshold")
    m = re.search(r"return\s+(\d+)\s*;", th.body)
    if not m:
        raise ExtractionDrift("lambda_threshold() is not an integer literal")
    rules = POI_RULES + [Rule(r"\+\+k;", "++k; __CPROVER_assume(++g_it <= 3);   /* bounded unit: at most 3 iterations of the direct loop */", (0, 1), note="ghost iteration bound of the direct method's loop")]
    pc = ctx.func(POI, r"^PoissonDistribution<RealType>::operator\(\)\(Generator& rng\) -> result_type", rules, name="PoissonDistribution::operator()")
    return (HDR + """
typedef unsigned int result_type;
typedef struct Engine Engine;
typedef struct { real_type lambda_; } PoissonDistribution;
#define POI_THRESHOLD """ + m.group(1) + """
double __CPROVER_uninterpreted_exp(double);
unsigned g_draws, g_gauss, g_it;    /* ghost: canonical draws consumed, normal deviates drawn */
real_type GC_draw(Engine* rng) __CPROVER_assigns(g_draws) __CPROVER_ensures(g_draws == __CPROVER_old(g_draws) + 1 && __CPROVER_return_value >= 0 && __CPROVER_return_value < 1);
real_type NORMAL_sample(PoissonDistribution const* self, Engine* rng) __CPROVER_assigns(g_gauss) __CPROVER_ensures(g_gauss == __CPROVER_old(g_gauss) + 1 && !__CPROVER_isnand(__CPROVER_return_value) && !__CPROVER_isinfd(__CPROVER_return_value) && __CPROVER_return_value <= 4e9);
result_type POI_call(PoissonDistribution const* self, Engine* rng)
__CPROVER_requires(self != 0 && self->lambda_ > 0 && !__CPROVER_isinfd(self->lambda_) && g_draws == 0 && g_gauss == 0 && g_it == 0)
__CPROVER_assigns(g_draws, g_gauss, g_it)
/* documented split (class comment, G4Poisson): Knuth's exact direct method for lambda <= 16 -- INCLUDING lambda == 16 --, the Gaussian approximation only above */
__CPROVER_ensures(g_gauss == (self->lambda_ > 16 ? 1 : 0))
__CPROVER_ensures(POI_THRESHOLD == 16)
/* direct method: the count is the number of uniform draws minus one (X = n - 1), at least one draw; Gaussian method: no uniform draw */
__CPROVER_ensures(g_gauss == 0 ? (g_draws >= 1 && __CPROVER_return_value == g_draws - 1) : g_draws == 0)
{""" + pc.body + """}
void h_poib(void)
{
    PoissonDistribution d; Engine* e;
    POI_call(&d, e);
    VERIF_CANARY();
}
""")


UNITS += [
    Unit("c15_poisson_branch", build_poisson_branch, "h_poib", enforce="POI_call", replace=["NORMAL_sample", "GC_draw"], timeout=300, unwind=5, backend=["sat", "cvc5"],
         bounded="at most 3 iterations of the direct method's loop (the checked facts do not depend on the number of iterations); exp uninterpreted",
         must_have=[r"POI_call.postcondition"], checks=["--bounds-check", "--pointer-check"],
         assumptions=["termination of the direct method's loop is probabilistic and not decided", "NormalDistribution: any finite value"],
         note="PoissonDistribution::operator(): the exact direct method is used for every lambda <= 16 (16 included) and returns draws - 1; the Gaussian approximation only for lambda > 16"),
]


# ---------------------------------------------------------------------------
# UniformRealDistribution<RealType>::operator(): the canonical value is generated in the distribution's OWN real type
# ---------------------------------------------------------------------------
def build_uniform_real_T(ctx):
    pc = ctx.func(URD, r"UniformRealDistribution<RealType>::operator\(\)\(Generator& rng\) const -> result_type", [
        Rule(r"generate_canonical<RealType>\(rng\)", "GC_T(rng)", "*", note="generate_canonical<RealType> -> stub: a RealType value in [0, 1) (GenerateCanonical32<float>: c13_canon_float)"),
        Rule(r"generate_canonical(?:<real_type>)?\(rng\)", "GC_real(rng)", "*", note="generate_canonical (build real_type = double) -> stub: a double in [0, 1)"),
        Rule(r"\b(a_|delta_)\b", r"self->\1", "+", note="data member"),
        Rule(r"std::fma\(", "FMA(", (0, 1), note="std::fma -> uninterpreted (cbmc has no model of fma)"),
    ], name="UniformRealDistribution<RealType>::operator()")
    return (HDR + """
typedef float RealType;                         /* binding of this unit: RealType = float in a build whose real_type is double */
typedef RealType result_type;
typedef struct Engine Engine;
typedef struct { RealType a_, delta_; } UniformRealDistribution;
unsigned g_t_draws, g_real_draws; RealType g_ut;
RealType GC_T(Engine* rng) __CPROVER_assigns(g_t_draws, g_ut) __CPROVER_ensures(g_t_draws == __CPROVER_old(g_t_draws) + 1 && __CPROVER_return_value == g_ut && g_ut >= 0 && g_ut < 1);
real_type GC_real(Engine* rng) __CPROVER_assigns(g_real_draws) __CPROVER_ensures(g_real_draws == __CPROVER_old(g_real_draws) + 1 && __CPROVER_return_value >= 0 && __CPROVER_return_value < 1);
double __CPROVER_uninterpreted_fma(double, double, double);
#define FMA(a, b, c) __CPROVER_uninterpreted_fma((a), (b), (c))
result_type URD_call(UniformRealDistribution const* self, Engine* rng)
__CPROVER_requires(self != 0 && g_t_draws == 0 && g_real_draws == 0)
__CPROVER_assigns(g_t_draws, g_real_draws, g_ut)
/* exactly one canonical value, generated in the distribution's own RealType (a float strictly below 1 stays below 1; a double narrowed afterwards can round up to the excluded upper bound) */
__CPROVER_ensures(g_t_draws == 1 && g_real_draws == 0)
{""" + pc.body + """}
void h_urdt(void)
{
    UniformRealDistribution d; Engine* e;
    URD_call(&d, e);
    VERIF_CANARY();
}
""")


UNITS += [
    Unit("c15_uniform_real_T", build_uniform_real_T, "h_urdt", enforce="URD_call", replace=["GC_T", "GC_real"], timeout=120, backend=["sat", "cvc5"],
         must_have=[r"URD_call.postcondition"], checks=["--bounds-check", "--pointer-check"],
         assumptions=["RealType bound to float (one instantiation); fma uninterpreted: the half-open upper bound itself is NOT decided (cbmc has no model of fma)"],
         note="UniformRealDistribution<float>::operator(): exactly one canonical draw, generated in the distribution's own real type"),
]


# ---------------------------------------------------------------------------
# RejectionSampler and IsotropicDistribution (draw counts, acceptance rule, arguments handed to from_spherical)
# ---------------------------------------------------------------------------
REJ = "src/celeritas/random/distribution/RejectionSampler.hh"
ISO = "src/celeritas/random/distribution/IsotropicDistribution.hh"


def build_rejection(ctx):
    from vkit.extract import init_list, ExtractionDrift
    sp = ctx.span(REJ, r"^RejectionSampler<RealType>::RejectionSampler\(real_type f, real_type fmax\)", r"\n\{\n.*?\n\}", [], name="RejectionSampler(f, fmax)")
    k = sp.body.index("\n{\n")
    if init_list(sp.body[:k]) != [("f_", "f"), ("fmax_", "fmax")]:
        raise ExtractionDrift("RejectionSampler(f, fmax) initializer list is not ': f_{f}, fmax_{fmax}'")

    class _B:
        body = __import__("re").sub(r"(?<![\w.>])(f_|fmax_)\b", r"self->\1", sp.body[k + 3:-1])     # data members
    ct = _B
    pc = ctx.func(REJ, r"^RejectionSampler<RealType>::operator\(\)\(Generator& rng\) -> result_type", [
        Rule(r"generate_canonical<RealType>\(rng\)", "generate_canonical(rng)", 1, note="generate_canonical -> stub with its [0,1) contract"),
        Rule(r"fmax_ \* generate_canonical\(rng\)", "MULU(self->fmax_, generate_canonical(rng))", (0, 1), note="product -> uninterpreted with the assumed IEEE bound lemma"),
        Rule(r"(?<![\w.>])(f_|fmax_)\b", r"self->\1", "*", note="data member"),
    ], name="RejectionSampler::operator()")
    return (HDR + RNG_MODEL + """
typedef struct { real_type f_, fmax_; } RejectionSampler;
/* fmax * u for u in [0, 1): value uninterpreted; assumed IEEE fact: 0 <= fmax * u <= fmax (and 0 for u == 0) */
double __CPROVER_uninterpreted_mulu(double, double);
static real_type MULU(real_type a, real_type u)
{
    real_type r = __CPROVER_uninterpreted_mulu(a, u);
    __CPROVER_assume(!(a >= 0 && u >= 0 && u < 1) || (r >= 0 && r <= a));
    __CPROVER_assume(!(u == 0 && a >= 0 && !__CPROVER_isinfd(a)) || r == 0);
    return r;
}
void REJ_ctor(RejectionSampler* self, real_type f, real_type fmax)
__CPROVER_requires(self != 0 && f >= 0 && fmax >= f)          /* own CELER_EXPECTs */
__CPROVER_assigns(self->f_, self->fmax_)
__CPROVER_ensures(self->f_ == f && self->fmax_ == fmax)
{ self->f_ = f; self->fmax_ = fmax; /* member initializer list ': f_{f}, fmax_{fmax}' (checked on the extracted header) */ """ + ct.body + """}
bool REJ_call(RejectionSampler const* self, Engine* rng)
__CPROVER_requires(self != 0 && self->f_ >= 0 && self->fmax_ >= self->f_ && !__CPROVER_isinfd(self->fmax_) && g_draws == 0)
__CPROVER_assigns(g_draws)
/* exactly one draw (true = reject) */
__CPROVER_ensures(g_draws == 1 && (__CPROVER_return_value == 0 || __CPROVER_return_value == 1))
/* a point at the envelope (f == fmax) is never rejected, and a point with f > 0 is never rejected by a zero draw */
__CPROVER_ensures(self->f_ == self->fmax_ ==> !__CPROVER_return_value)
__CPROVER_ensures((g_u[0] == 0 && self->f_ >= 0) ==> !__CPROVER_return_value)
{""" + pc.body + """}
void h_rej(void)
{
    RejectionSampler d; real_type f, fm, u; Engine* e;
    __CPROVER_assume(f >= 0 && fm >= f && !__CPROVER_isinfd(fm));
    REJ_ctor(&d, f, fm);
    g_u[0] = u;
    REJ_call(&d, e);
    VERIF_CANARY();
}
""")


UNITS += [
    Unit("c15_rejection_sampler", build_rejection, "h_rej", enforce="REJ_call", replace=["generate_canonical"], timeout=120, backend=["sat", "cvc5"],
         must_have=[r"REJ_call.postcondition", r"generate_canonical.precondition"], checks=["--bounds-check", "--pointer-check"],
         assumptions=["IEEE product lemma assumed: 0 <= fmax * u <= fmax for u in [0, 1), and fmax * 0 == 0 (the product's value is uninterpreted)"],
         note="RejectionSampler: exactly one draw; never rejects at the envelope f == fmax nor on a zero draw"),
]


# ---------------------------------------------------------------------------
# UniformBoxDistribution: component i of the sample comes from the sampler built on [lower[i], upper[i]]
# ---------------------------------------------------------------------------
UBX = "src/celeritas/random/distribution/UniformBoxDistribution.hh"


def build_uniform_box(ctx):
    from vkit.extract import init_list, ExtractionDrift
    sp = ctx.span(UBX, r"^UniformBoxDistribution<RealType>::UniformBoxDistribution\(result_type lower,", r"\n\{\n.*?\n\}", [], name="UniformBoxDistribution(lower, upper)")
    k = sp.body.index("\n{\n")
    il = init_list(sp.body[:k])
    import re
    want = "UniformRealDist{lower[0], upper[0]}, UniformRealDist{lower[1], upper[1]}, UniformRealDist{lower[2], upper[2]}"
    if len(il) != 1 or il[0][0] != "sample_pos_" or re.sub(r"\s+", " ", il[0][1]) != want:
        raise ExtractionDrift("UniformBoxDistribution initializer list is not sample_pos_{URD{lower[i], upper[i]}, i = 0, 1, 2}: %r" % (il,))
    ctor_body = re.sub(r"\b(lower|upper)\[(\d)\]", r"\1.v[\2]", sp.body[k + 3:-1])
    pc = ctx.func(UBX, r"^UniformBoxDistribution<RealType>::operator\(\)\(Generator& rng\) -> result_type", [
        Rule(r"result_type result;", "Real3 result = {{0, 0, 0}};", 1, note="Array<real_type, 3>"),
        Rule(r"result\[(\w+)\] = sample_pos_\[(\w+)\]\(rng\);", r"result.v[\1] = URD_sample(&self->sample_pos_[\2], \2, rng);", "+", note="component sampler call -> UniformRealDistribution by its contract"),
    ], name="UniformBoxDistribution::operator()")
    return (HDR + """
typedef struct Engine Engine;
typedef struct { real_type v[3]; } Real3;
typedef struct { real_type a_, delta_; } UniformRealDist;
typedef struct { UniformRealDist sample_pos_[3]; } UniformBoxDistribution;
unsigned g_draws; int g_which[3]; real_type g_val[3];
/* UniformRealDistribution(a, b): a_ = a, delta_ = b - a, own EXPECT a <= b (constructor text checked in the C20 units) */
static UniformRealDist URD_make(real_type a, real_type b) { __CPROVER_assert(a <= b, "celer_expect: UniformRealDistribution a <= b"); UniformRealDist d = {a, b - a}; return d; }
/* UniformRealDistribution::operator(): one draw, a value in [a, a + delta] (closed by rounding; fma: not under contract) */
static real_type nondet_real(void);
static real_type URD_sample(UniformRealDist const* d, int which, Engine* rng)
{
    real_type r = nondet_real();
    __CPROVER_assume(r >= d->a_ && r <= d->a_ + d->delta_);
    if (g_draws < 3) { g_which[g_draws] = which; g_val[g_draws] = r; }
    ++g_draws;
    return r;
}
void UBX_ctor(UniformBoxDistribution* self, Real3 lower, Real3 upper)
__CPROVER_requires(self != 0 && lower.v[0] <= upper.v[0] && lower.v[1] <= upper.v[1] && lower.v[2] <= upper.v[2])     /* own CELER_EXPECTs */
__CPROVER_requires(!__CPROVER_isinfd(lower.v[0]) && !__CPROVER_isinfd(lower.v[1]) && !__CPROVER_isinfd(lower.v[2]) && !__CPROVER_isinfd(upper.v[0]) && !__CPROVER_isinfd(upper.v[1]) && !__CPROVER_isinfd(upper.v[2]))   /* a finite box */
__CPROVER_assigns(__CPROVER_object_whole(self))
__CPROVER_ensures(self->sample_pos_[0].a_ == lower.v[0] && self->sample_pos_[1].a_ == lower.v[1] && self->sample_pos_[2].a_ == lower.v[2])
__CPROVER_ensures(self->sample_pos_[0].delta_ == upper.v[0] - lower.v[0] && self->sample_pos_[1].delta_ == upper.v[1] - lower.v[1] && self->sample_pos_[2].delta_ == upper.v[2] - lower.v[2])
{
    /* member initializer list (text checked above): sample_pos_{URD{lower[0], upper[0]}, URD{lower[1], upper[1]}, URD{lower[2], upper[2]}} */
    self->sample_pos_[0] = URD_make(lower.v[0], upper.v[0]); self->sample_pos_[1] = URD_make(lower.v[1], upper.v[1]); self->sample_pos_[2] = URD_make(lower.v[2], upper.v[2]);
""" + ctor_body + """}
Real3 UBX_call(UniformBoxDistribution const* self, Engine* rng)
__CPROVER_requires(self != 0 && g_draws == 0)
__CPROVER_assigns(g_draws, __CPROVER_object_whole(g_which), __CPROVER_object_whole(g_val))
/* three draws, one per axis in order x, y, z; component i is the value drawn from axis i's own sampler, hence inside [lower[i], upper[i]] (up to the closing rounding) */
__CPROVER_ensures(g_draws == 3 && g_which[0] == 0 && g_which[1] == 1 && g_which[2] == 2)
__CPROVER_ensures(__CPROVER_return_value.v[0] == g_val[0] && __CPROVER_return_value.v[1] == g_val[1] && __CPROVER_return_value.v[2] == g_val[2])
__CPROVER_ensures(__CPROVER_return_value.v[0] >= self->sample_pos_[0].a_ && __CPROVER_return_value.v[1] >= self->sample_pos_[1].a_ && __CPROVER_return_value.v[2] >= self->sample_pos_[2].a_)
{""" + pc.body + """}
void h_ubx_ctor(void) { UniformBoxDistribution d; Real3 lo, hi; UBX_ctor(&d, lo, hi); VERIF_CANARY(); }
void h_ubx(void) { UniformBoxDistribution d; Engine* e; for (int i = 0; i < 3; ++i) __CPROVER_assume(!__CPROVER_isnand(d.sample_pos_[i].a_) && d.sample_pos_[i].delta_ >= 0); UBX_call(&d, e); VERIF_CANARY(); }
""")


UNITS += [
    Unit("c15_uniform_box_ctor", build_uniform_box, "h_ubx_ctor", enforce="UBX_ctor", timeout=120, backend=["sat", "cvc5"], must_have=[r"UBX_ctor.postcondition", r"celer_expect"], checks=["--bounds-check", "--pointer-check"],
         note="UniformBoxDistribution constructor: axis i samples on [lower[i], upper[i]]; the component samplers' own precondition (a <= b) holds"),
    Unit("c15_uniform_box", build_uniform_box, "h_ubx", enforce="UBX_call", unwind=5, timeout=120, backend=["sat", "cvc5"], must_have=[r"UBX_call.postcondition"], checks=["--bounds-check", "--pointer-check"],
         assumptions=["UniformRealDistribution::operator(): one draw in [a, a + delta] (fma; not under contract)"],
         note="UniformBoxDistribution::operator(): three draws, component i from axis i's own sampler (so inside the box)"),
]


# ---------------------------------------------------------------------------
# IsotropicDistribution: polar cosine on [-1, 1], azimuth on [0, 2 pi], handed to from_spherical within its precondition
# ---------------------------------------------------------------------------
def build_isotropic(ctx):
    from vkit.extract import init_list, ExtractionDrift
    import re
    ct = ctx.func(ISO, r"^CELER_FUNCTION IsotropicDistribution<RealType>::IsotropicDistribution\(\)", [], name="IsotropicDistribution()", skip_init_list=True)
    il = [(m, re.sub(r"\s+", " ", e)) for m, e in init_list(ct.head)]
    if [m for m, e in il] != ["sample_costheta_", "sample_phi_"] or any(len(e.split(",")) != 2 for m, e in il):
        raise ExtractionDrift("IsotropicDistribution initializer list is not ': sample_costheta_(a, b), sample_phi_(a, b)': %r" % (il,))
    (ca, cb), (pa, pb) = [[x.strip().replace("constants::pi", "PI") for x in e.split(",")] for m, e in il]
    pc = ctx.func(ISO, r"^IsotropicDistribution<RealType>::operator\(\)\(Generator& rng\) -> result_type", [
        Rule(r"sample_(costheta|phi)_\(rng\)", r"URD_sample(&self->sample_\1_, rng)", 2, note="UniformRealDistribution call -> its contract"),
        Rule(r"return from_spherical\(([^;]*)\);", r"return FROM_SPHERICAL(\1);", 1, note="from_spherical -> uninterpreted value, precondition asserted, arguments recorded"),
    ], name="IsotropicDistribution::operator()")
    return (HDR + """
typedef struct Engine Engine;
typedef real_type Dir3;          /* opaque direction value */
typedef struct { real_type a_, delta_; } UniformRealDist;
typedef struct { UniformRealDist sample_costheta_, sample_phi_; } IsotropicDistribution;
unsigned g_draws; real_type g_cost, g_phi;
Dir3 __CPROVER_uninterpreted_from_spherical(real_type, real_type);
static Dir3 FROM_SPHERICAL(real_type costheta, real_type phi)
{
    __CPROVER_assert(costheta >= -1 && costheta <= 1, "celer_expect: from_spherical costheta >= -1 && costheta <= 1");
    g_cost = costheta; g_phi = phi;
    return __CPROVER_uninterpreted_from_spherical(costheta, phi);
}
/* UniformRealDistribution::operator(): one draw, a value in [a, a + delta] (fma; not under contract) */
real_type URD_sample(UniformRealDist const* d, Engine* rng)
__CPROVER_requires(d != 0)
__CPROVER_assigns(g_draws)
__CPROVER_ensures(g_draws == __CPROVER_old(g_draws) + 1 && __CPROVER_return_value >= d->a_ && __CPROVER_return_value <= d->a_ + d->delta_)
;
#define PI 3.14159265358979323846
Dir3 ISO_call(IsotropicDistribution const* self, Engine* rng)
__CPROVER_requires(self != 0 && g_draws == 0)
/* object invariant = the constructor's initializer list, whose argument text is substituted here each run (UniformRealDistribution(a, b): a_ = a, delta_ = b - a) */
__CPROVER_requires(self->sample_costheta_.a_ == (""" + ca + """) && self->sample_costheta_.delta_ == (""" + cb + """) - (""" + ca + """) && self->sample_phi_.a_ == (""" + pa + """) && self->sample_phi_.delta_ == (""" + pb + """) - (""" + pa + """))
__CPROVER_assigns(g_draws, g_cost, g_phi)
/* two draws; the direction is from_spherical(cos theta, phi) of exactly those two values, cos theta in [-1, 1] (from_spherical's own precondition), phi in [0, 2 pi] */
__CPROVER_ensures(g_draws == 2 && g_cost >= -1 && g_cost <= 1 && g_phi >= 0 && g_phi <= 2 * PI)
__CPROVER_ensures(__CPROVER_return_value == __CPROVER_uninterpreted_from_spherical(g_cost, g_phi) || __CPROVER_isnand(__CPROVER_return_value))
{""" + pc.body + """}
void h_iso(void) { IsotropicDistribution d; Engine* e; ISO_call(&d, e); VERIF_CANARY(); }
""")


UNITS += [
    Unit("c15_isotropic", build_isotropic, "h_iso", enforce="ISO_call", replace=["URD_sample"], timeout=120, backend=["sat", "cvc5"], must_have=[r"ISO_call.postcondition", r"celer_expect"], checks=["--bounds-check", "--pointer-check"],
         assumptions=["UniformRealDistribution::operator(): one draw in [a, a + delta] (fma; not under contract)", "from_spherical uninterpreted: that its result is a UNIT vector is not decided"],
         note="IsotropicDistribution: two draws; cos(theta) in [-1, 1] and phi in [0, 2 pi] handed to from_spherical within its precondition"),
]


# ---------------------------------------------------------------------------
# ExponentialDistribution: non-negative samples from one draw
# ---------------------------------------------------------------------------
EXD = "src/celeritas/random/distribution/ExponentialDistribution.hh"


def build_exponential(ctx):
    from vkit.extract import init_list, ExtractionDrift
    import re
    sp = ctx.span(EXD, r"^ExponentialDistribution<RT>::ExponentialDistribution\(real_type lambda\)", r"\n\{\n.*?\n\}", [], name="ExponentialDistribution(lambda)")
    k = sp.body.index("\n{\n")

    class ct:
        body = sp.body[k + 3:-1].replace("real_type{0}", "0")
    il = [(m, re.sub(r"\s+", " ", e)) for m, e in init_list(sp.body[:k])]
    if len(il) != 1 or il[0][0] != "neg_inv_lambda_":
        raise ExtractionDrift("ExponentialDistribution initializer list is not ': neg_inv_lambda_(<expr>)': %r" % (il,))
    init_expr = re.sub(r"real_type\{([^{}]*)\}", r"((real_type)(\1))", il[0][1])      # the initializer's own expression, substituted below
    pc = ctx.func(EXD, r"^ExponentialDistribution<RT>::operator\(\)\(Generator& rng\) -> result_type", [
        Rule(r"generate_canonical<RT>\(rng\)|generate_canonical<RealType>\(rng\)|generate_canonical\(rng\)", "generate_canonical(rng)", 1, note="generate_canonical -> stub with its [0,1) contract"),
        Rule(r"std::log\(", "LOGU(", 1, note="std::log -> uninterpreted with the sign lemma on [0, 1)"),
        Rule(r"return LOGU\(generate_canonical\(rng\)\) \* neg_inv_lambda_;", "return MULS(LOGU(generate_canonical(rng)), self->neg_inv_lambda_);", (0, 1), note="product -> uninterpreted with the IEEE sign rule"),
        Rule(r"(?<![\w.>])neg_inv_lambda_\b", "self->neg_inv_lambda_", "*", note="data member"),
    ], name="ExponentialDistribution::operator()")
    return (HDR + RNG_MODEL + """
typedef struct { real_type neg_inv_lambda_; } ExponentialDistribution;
double __CPROVER_uninterpreted_log(double); double __CPROVER_uninterpreted_muls(double, double);
/* log on [0, 1): never positive, -inf at 0, never NaN (value uninterpreted) */
static real_type LOGU(real_type u) { real_type r = __CPROVER_uninterpreted_log(u); __CPROVER_assume(!(u >= 0 && u < 1) || r <= 0); return r; }
/* IEEE sign rule of a product of two non-positive numbers one of which is non-zero ... : (x <= 0, y < 0) => x * y >= 0 (possibly +inf), not NaN */
static real_type MULS(real_type x, real_type y) { real_type r = __CPROVER_uninterpreted_muls(x, y); __CPROVER_assume(!(x <= 0 && y < 0 && !__CPROVER_isinfd(y)) || r >= 0); return r; }
void EXD_ctor(ExponentialDistribution* self, real_type lambda)
__CPROVER_requires(self != 0 && lambda > 0 && lambda >= 1e-300 && !__CPROVER_isinfd(lambda))     /* own CELER_EXPECT; a finite rate that is not so small that 1/lambda overflows (stated range) */
__CPROVER_assigns(self->neg_inv_lambda_)
/* -1 / lambda: strictly negative and finite for every finite positive rate (no underflow to -0: 1 / DBL_MAX is a subnormal) */
__CPROVER_ensures(self->neg_inv_lambda_ == -1.0 / lambda && self->neg_inv_lambda_ < 0 && !__CPROVER_isinfd(self->neg_inv_lambda_))
{ self->neg_inv_lambda_ = """ + init_expr + """;   /* member initializer ': neg_inv_lambda_(...)': its expression text, extracted each run */ """ + ct.body + """}
real_type EXD_call(ExponentialDistribution const* self, Engine* rng)
__CPROVER_requires(self != 0 && self->neg_inv_lambda_ < 0 && !__CPROVER_isinfd(self->neg_inv_lambda_) && g_draws == 0)       /* the constructor's postcondition */
__CPROVER_assigns(g_draws)
/* one draw; the sample is never negative and never NaN (it is +inf for a draw of exactly 0: the distribution's support is [0, inf)) */
__CPROVER_ensures(g_draws == 1 && __CPROVER_return_value >= 0)
{""" + pc.body + """}
void h_exd_ctor(void) { ExponentialDistribution d; real_type l; EXD_ctor(&d, l); VERIF_CANARY(); }
void h_exd(void) { ExponentialDistribution d; Engine* e; EXD_call(&d, e); VERIF_CANARY(); }
""")


UNITS += [
    Unit("c15_exponential_ctor", build_exponential, "h_exd_ctor", enforce="EXD_ctor", timeout=300, backend=["sat", "kissat", "cvc5", "z3"], must_have=[r"EXD_ctor.postcondition", r"celer_expect"], checks=["--bounds-check", "--pointer-check"],
         note="ExponentialDistribution constructor: -1/lambda is strictly negative and finite for every finite lambda >= 1e-300 (IEEE division, bit-precise; for subnormal rates 1/lambda overflows)"),
    Unit("c15_exponential", build_exponential, "h_exd", enforce="EXD_call", replace=["generate_canonical"], timeout=120, backend=["sat", "cvc5"], must_have=[r"EXD_call.postcondition", r"generate_canonical.precondition"], checks=["--bounds-check", "--pointer-check"],
         assumptions=["log on [0,1) is <= 0 (-inf at 0), never NaN; product of a non-positive and a finite negative number is >= 0 (IEEE sign rule): assumed, values uninterpreted"],
         note="ExponentialDistribution::operator(): one draw, sample >= 0 and not NaN (+inf for a zero draw)"),
]
