"""Registry: property id -> unit modules, claims, trusted base, clauses not decided."""

HOOKS = {
    "guard": "CELERITAS_VERIF",
    "enable": "none needed: the extractor reads /repo source text and the native replay harnesses include the public headers; no hook is compiled into /repo",
    "baseline_off_cmd": "ctest --test-dir /repo/_build -j8 --timeout 900",
    "source_commits": [],
    "add_only": True,
}

_PENDING = "planned in DESIGN.md 4 but no unit is under contract yet in this revision"

NOT_APPLICABLE = {
    "C01": _PENDING, "C02": _PENDING, "C04": _PENDING, "C05": _PENDING, "C08": _PENDING, "C10": _PENDING,
    "C11": _PENDING, "C12": _PENDING, "C14": _PENDING, "C15": _PENDING, "C16": _PENDING, "C17": _PENDING, "C18": _PENDING,
    "C03": "differential statement against an independent geometric oracle over all geometries and operation sequences; the navigator is view/lambda-heavy templated C++ on FP quadrics outside the extractor's C subset, and no per-function contract states 'equals true location' (leaf lemmas it uses are decided under C18/C10/C12)",
    "C06": "2-safety hyperproperty over whole runs of host orchestration code (Stepper, CoreState, ActionSequence, std:: sorting); function contracts relate one call's pre/post state. The reachable slice (state after reseed depends only on seed,event,slot) is a postcondition in C13",
    "C07": "quantifies over thread schedules / data races; CBMC code contracts have no thread semantics (atomics are treated sequentially, stated as an assumption)",
    "C09": "host construction pipeline (std::variant/vector/unordered_map, hashing, FP transforms) compared with an analytic membership oracle; outside the extractor's subset and outside what a function contract can state without that oracle",
    "C19": "nlohmann::json (de)serialisation of host structs; not C-lowerable, no contract within reach",
    "C20": "unit/perpendicular/cone-angle clauses are trigonometric floating point (rotate, from_spherical, sqrt); with those stubbed only a threshold branch remains, too thin to claim the property",
}

REGISTRY = {
    "C17": {
        "modules": ["c17"],
        "level_text": "Contracts on the real per-slot scoring kernels (extracted to C each run): StepGatherExecutor<pre> and <post> write, for the slot, exactly the selected attributes with the track's values iff the step is delivered (active track, detector volume, non-zero-deposit filter), set/clear the detector id and null the track id of inactive slots, and touch nothing else (unselected attributes, the other step point, other slots); SimpleCaloExecutor adds the delivered deposit to its detector's tally exactly once and leaves every other tally alone. All selections, detector maps and slot states, discharged by CBMC. Delivery 'exactly once to every registered callback' is host std::vector code and is not decided.",
        "level_note": "Trusted: CBMC/dfcc/SAT+cvc5; extraction rules; view accessors as plain reads; Real3 attributes abstracted to one component; atomics sequential. Not decided: StepGatherAction callback loop, StepParams construction (merge of selections/filters over callbacks), DetectorSteps copy, Action/StepDiagnostic executors (planned).",
        "design_ref": "DESIGN.md 4 C17",
        "trusted_base": [],
        "assumptions": [],
        "not_decided": ["each step delivered exactly once to every registered callback (host loop)", "StepParams merge of selections and filters over several callbacks (host)", "DetectorSteps.cc copy_steps", "ActionDiagnosticExecutor / StepDiagnosticExecutor counts"],
    },
    "C14": {
        "modules": ["c14", "c18", "c01"],
        "select": r"^c14_|^c18_ug_|^c18_from_bounds|^c01_calc_mean|^c01_mean_eloss",
        "level_text": "Contracts on the real lookup code (extracted to C each run): UniformGrid::find returns a valid bin for EVERY in-range double incl. one ulp below the last point (the defect found and fixed here); XsCalculator: every table/grid index in range, find only called inside the grid, documented below/above-grid extrapolation, 1/E scaling exactly at indices >= prime_index; mean energy loss 0 <= loss <= E and == E for a range-limited step; MSC true->geom never lengthens and geom->true lies in [geom, true] for ANY values of the transcendental functions. log/exp/pow/interpolation are uninterpreted functions, so interpolation containment, continuity, monotonicity and range/inverse-range inversion are NOT decided.",
        "level_note": "Trusted: CBMC/dfcc/SAT+cvc5; extraction rules; transcendental functions, FP division inside XsCalculator and the linear interpolator treated as uninterpreted functions (the units decide which operation is applied to which operands, not numeric accuracy); table calculators in calc_mean_energy_loss by assumed contracts; two IEEE multiplication lemmas assumed. Not decided: ValueGridBuilder (host std::vector code), RangeCalculator/InverseRangeCalculator/EnergyLossCalculator bodies (planned), all interpolation-accuracy clauses.",
        "design_ref": "DESIGN.md 4 C14",
        "trusted_base": [],
        "assumptions": [],
        "not_decided": ["values between neighbouring knots / continuity across knots (FP interpolation)", "range and inverse range are monotone mutual inverses", "mean loss non-decreasing in step length", "ValueGridBuilder construction (host)", "RangeCalculator, InverseRangeCalculator, EnergyLossCalculator, GenericCalculator bodies"],
    },
    "C05": {
        "modules": ["c05"],
        "level_text": "Per-call contracts on the real step-limit machinery (extracted to C each run): SimTrackView::step_limit only shortens the step and replaces the action iff strictly shorter; add_time never decreases time; TimeUpdater, TrackUpdater (step counter +1 iff not errored, MFP reduced by step*xs exactly when the discrete action is not selected), PropagationApplier (0 < len' <= len, a shortened step carries a boundary/propagation/tracking-cut action, zero-length steps untouched, every in-body CELER_ASSERT holds) -- for all states, discharged by CBMC. Cross-step continuity and 'volume contains position' are whole-history statements and are not decided.",
        "level_note": "Trusted: CBMC/dfcc/SAT+cvc5; extraction rules; view model prelude/views.h; propagator by its C08 contract; speed() >= 0 assumed. TrackUpdater's CELER_ASSERT(mfp > 0) is NOT promoted (1-ulp floating-point corner, stated in evidence). Not decided: PreStepExecutor/calc_physics_step_limit (planned), cross-step joins, volume-position consistency, status monotonicity over a whole step.",
        "design_ref": "DESIGN.md 4 C05",
        "trusted_base": [],
        "assumptions": [],
        "not_decided": ["post-step values of step k equal pre-step values of step k+1 (frame over the whole action sequence)", "volume reported contains the position (needs C03)", "step length >= straight-line displacement", "PreStepExecutor / calc_physics_step_limit (planned)", "status only moves forward within a step (StatusCheckExecutor table)"],
    },
    "C01": {
        "modules": ["c01"],
        "level_text": "Per-call energy ledgers on the deposit paths named in the property, as contracts on the real code (extracted to C each run): ElossApplier moves exactly the helper's amount d from the particle to the deposition (same machine value, once) with 0 <= E' <= E; TrackingCutExecutor deposits E (+2mc^2 for antiparticles) and zeroes the particle; MeanELoss::calc_eloss / calc_mean_energy_loss never exceed E and give exactly E for a range-limited step; the leaf view operations they call are enforced against the real member functions. The event-level sum is a paper lemma (telescoping) over these contracts and is not decided here.",
        "level_note": "Trusted: CBMC/dfcc/SAT, cvc5 for FP units; extraction rules; view model prelude/views.h (accessor stubs assumed to be plain reads); table calculators by assumed contracts; two IEEE multiplication monotonicity lemmas assumed; FluctELoss sampler, MSC, field along-step variants and the whole-event sum are not decided.",
        "design_ref": "DESIGN.md 4 C01",
        "trusted_base": ["paper lemma: summing the per-call ledgers over steps and tracks telescopes to the event balance (given C04 per model and C02 for secondaries)"],
        "assumptions": [],
        "not_decided": ["event-level balance (sum over tracks/steps)", "FluctELoss sampled loss", "InteractionApplier sub-cut secondaries loop (planned)", "MSC / field along-step variants (no energy moves there)"],
    },
    "C02": {
        "modules": ["c02", "c16"],
        "select": r"^c02_|^c16_ef",
        "level_text": "Contracts on the real index arithmetic and per-slot kernels of track initialization (extracted to C each run), discharged by CBMC for all sizes and thread ids: vacancy/initializer indices in range and injective, charge-partitioned vacancies of distinct threads distinct. The whole-run clauses (termination, counters over many steps, multi-event interleaving) rest on a paper lemma over these per-call contracts and are listed as not decided.",
        "level_note": "Trusted: CBMC/dfcc/SAT; extraction rules; std::stable_partition/exclusive_scan/remove_if contracts assumed; atomics sequential. Not decided: loop termination, host glue (Stepper/CoreState), multi-event interleavings.",
        "design_ref": "DESIGN.md 4 C02",
        "trusted_base": ["assumed contracts of std::stable_partition, std::exclusive_scan, std::remove_if"],
        "assumptions": [],
        "not_decided": ["stepping loop reaches queued = alive = 0 (liveness)", "counters equal true counts after every step (paper lemma over per-kernel contracts)", "multiple events in flight"],
    },
    "C16": {
        "modules": ["c16"],
        "level_text": "Contracts on the real StackAllocator (extracted to C each run): an allocation succeeds iff it fits, hands out exactly the block [size, size+count) default-initialised and touches nothing else; a failing allocation returns null with the size restored and the storage untouched, for every capacity, fill level and count (loop contract, unbounded). The whole-event clauses are not decided.",
        "level_note": "Trusted: CBMC/dfcc/SAT; extraction rules; atomic_add treated sequentially; size+count assumed not to wrap. Not decided: 'event completes with exact energy balance', stepping stops with a reported error (host CELER_VALIDATE paths).",
        "design_ref": "DESIGN.md 4 C16",
        "trusted_base": [],
        "assumptions": [],
        "not_decided": ["the event still completes with exact energy balance (whole-run)", "capacity CELER_VALIDATE precedes initializer writes in ExtendFromSecondariesAction/ExtendFromPrimariesAction (host .cc)", "CoreState::reset"],
    },
    "C10": {
        "modules": ["c10"],
        "level_text": "Runtime side of the property only: contracts on the real LogicStack operations against an abstract stack view (every element, all 2^32 x 33 states) and on LogicEvaluator::operator() (lock-step loop invariant against a textbook array-stack evaluation, any string length) discharged by CBMC. The construction-side rewrites (CsgTree, simplifiers, De Morgan, postfix/infix builders) are host std::variant/unordered_map code outside the extractor's subset and are NOT decided.",
        "level_note": "Trusted: CBMC/dfcc/SAT; extraction rules; well-formedness of the postfix string enters through per-token instances of the depth-profile precondition. Not decided: all rewriting/encoding clauses and the internal-surface flag.",
        "design_ref": "DESIGN.md 4 C10",
        "trusted_base": [],
        "assumptions": [],
        "not_decided": ["CsgTree::insert/simplify, NodeSimplifier, DeMorganSimplifier, NodeReplacer preserve the boolean function", "PostfixLogicBuilder / InfixStringBuilder encode the tree faithfully", "InternalSurfaceFlagger: flagged volumes are intersections of half-spaces"],
    },
    "C18": {
        "modules": ["c18"],
        "level_text": "Function and loop contracts on the real algorithm and grid code (extracted to C each run): binary/linear search against the std:: definition for arrays of unbounded length, uniform-grid lookup returns a valid bin for every in-range double, bounded proofs (stated length) for partition and heap sort over symbolic contents.",
        "level_note": "Trusted: CBMC/dfcc/SAT and cvc5 (FP units); extraction rules; sortedness precondition used through instances; sort/partition units are bounded (length stated) and labelled so.",
        "design_ref": "DESIGN.md 4 C18",
        "trusted_base": [],
        "assumptions": [],
        "not_decided": ["TwodGridCalculator/TwodSubgridCalculator interpolation accuracy", "Interpolator monotonic containment (nonlinear FP)"],
    },
    "C13": {
        "modules": ["c13"],
        "level_text": "Function contracts on the real XorwowRngEngine code (extracted to C each run) discharged by CBMC for all states: next()==Marsaglia T, operator() state/weyl/return equations, jump(poly)==g(T)x by lock-step loop invariants, all 64 jump-table rows equal the required power of T on every basis vector (one SAT proof per row), digit decomposition of jump(count,table) by nested loop contracts with a ghost exponent, weyl update of discard, canonical reals in [0,1). Tests sample skips <= 2^16; these obligations cover every state, count and table row.",
        "level_note": "Trusted: CBMC/dfcc/SAT; extraction rules (DESIGN 2.3); paper lemma L-lin (xor-linearity lifts basis agreement to all 2^160 states, with lemma c13_additive machine-checked); period 2^160-1 of T (Marsaglia 2003) is not verified; event*slots+slot assumed not to wrap.",
        "design_ref": "DESIGN.md 4 C13",
        "trusted_base": ["Marsaglia 2003: period of the xorwow transition T is 2^160-1 (not verified)",
                         "paper lemma L-lin: a sum of compositions of an additive map is additive, so agreement on the 160 basis vectors implies agreement on all states"],
        "assumptions": [],
        "not_decided": ["period 2^160-1 of T (primitivity of its characteristic polynomial)"],
    },
}
