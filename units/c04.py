"""C04 (subset): energy closure and clean failure of discrete interactors."""
from vkit.extract import Rule
from vkit.runner import Unit
from units.c01 import Q_RULES

LPE = "src/celeritas/em/interactor/LivermorePEInteractor.hh"
INT = "src/celeritas/phys/Interaction.hh"
HDR = '#include "celer.h"\n'

INTERACTION_MODEL = """
#include <stdlib.h>
enum { IA_scattered = 0, IA_absorbed = 1, IA_unchanged = 2, IA_failed = 3 };   /* Interaction::Action (bound) */
#define INVALID_ID ((size_type)-1)
typedef real_type Real3;    /* directions abstracted to one component (their values are outside this unit; arrays inside returned structs stall dfcc) */
typedef struct { size_type particle_id; real_type energy; Real3 direction; } Secondary;
typedef struct { Secondary* ptr; size_type size; } SpanSecondary;
typedef struct { real_type energy; Real3 direction; SpanSecondary secondaries; real_type energy_deposition; int action; } Interaction;
typedef struct Engine Engine;
unsigned g_draws;                 /* ghost: RNG-consuming calls made */
Secondary* g_buf; size_type g_cap; size_type g_requested;   /* ghost: the secondary buffer the allocator hands out (or not), what was asked for */
bool g_alloc_ok;                  /* ghost: whether the allocation succeeds (any) */
size_type g_k; Secondary g_old;   /* ghost witness element of the buffer (frame) */
/* StackAllocator<Secondary>::operator() (contract enforced in c16_alloc): null, or `count` default-initialised secondaries.
   The contract is deterministic given the ghost choice g_alloc_ok, so it is encoded as a function (assert precondition, return the value). */
static Secondary* ALLOC_call(size_type count)
{
    __CPROVER_assert(count > 0, "ALLOC_call.precondition: count > 0");
    g_requested = count;
    if (g_alloc_ok && count <= g_cap) return g_buf;
    return 0;
}
"""


def interaction_factories(ctx):
    ff = ctx.func(INT, r"CELER_FUNCTION Interaction Interaction::from_failure\(\)", [Rule(r"Interaction result;", "Interaction result = {0, 0, {0, 0}, 0, IA_scattered};", 1, note="default member initializers"), Rule(r"Action::(\w+)", r"IA_\1", "+", note="enum")], name="Interaction::from_failure")
    fa = ctx.func(INT, r"CELER_FUNCTION Interaction Interaction::from_absorption\(\)", [
        Rule(r"Interaction result;", "Interaction result = {0, 0, {0, 0}, 0, IA_scattered};", 1, note="default member initializers"),
        Rule(r"#if CELERITAS_DEBUG.*?#endif", "", 1, flags=16, note="`#if CELERITAS_DEBUG` block dropped (CELERITAS_DEBUG == 0)"),
        Rule(r"zero_quantity\(\)", "0", "*", note="Quantity zero"), Rule(r"Action::(\w+)", r"IA_\1", "+", note="enum")], name="Interaction::from_absorption")
    return ("static Interaction Interaction_from_failure(void)\n{" + ff.body + "}\nstatic Interaction Interaction_from_absorption(void)\n{" + fa.body + "}\n")


LPE_MODEL = """
typedef struct { bool enabled; size_type max_secondaries_; } RelaxationHelper;
typedef struct { size_type count; real_type energy; } RelaxResult;     /* AtomicRelaxation::result_type { count, energy } */
typedef struct { real_type inc_energy_; RelaxationHelper relaxation_; size_type electron_id; } LivermorePEInteractor;
real_type g_binding;   /* ghost: binding energy of the sampled shell */
size_type g_shell;     /* ghost: sampled subshell (INVALID_ID: none) */
RelaxResult g_relax;   /* ghost: what the relaxation cascade emitted */
/* sample_subshell: any shell of the element whose binding energy does not exceed the photon energy, or none (assumed: cross-section data) */
size_type LPE_sample_subshell(LivermorePEInteractor const* self, Engine* rng)
__CPROVER_requires(self != 0)
__CPROVER_assigns(g_draws)
__CPROVER_ensures(__CPROVER_return_value == g_shell && g_draws == __CPROVER_old(g_draws) + 1)
;
real_type LPE_binding_energy(LivermorePEInteractor const* self, size_type shell)
__CPROVER_requires(self != 0 && shell != INVALID_ID)
__CPROVER_assigns()
__CPROVER_ensures(__CPROVER_return_value == g_binding && g_binding >= 0 && g_binding <= self->inc_energy_)
;
Real3 LPE_sample_direction(LivermorePEInteractor const* self, Engine* rng) __CPROVER_requires(self != 0) __CPROVER_assigns(g_draws) __CPROVER_ensures(g_draws == __CPROVER_old(g_draws) + 1);
/* AtomicRelaxation (build_distribution + sample): writes at most max_secondaries secondaries into the given subspan, returns their number and their total energy,
   which does not exceed the vacancy's binding energy (assumed contract of the cascade) */
RelaxResult RELAX_sample(LivermorePEInteractor const* self, size_type shell, SpanSecondary out, Engine* rng)
__CPROVER_requires(self != 0 && shell != INVALID_ID && out.size >= self->relaxation_.max_secondaries_ && out.ptr == g_buf + 1)
__CPROVER_assigns(g_draws, g_relax)
__CPROVER_ensures(__CPROVER_return_value.count == g_relax.count && __CPROVER_return_value.energy == g_relax.energy && g_relax.count <= self->relaxation_.max_secondaries_ && g_relax.energy >= 0 && g_relax.energy <= g_binding)
;
"""

LPE_RULES = Q_RULES + [
    Rule(r"Span<Secondary> secondaries;", "SpanSecondary secondaries = {0, 0};", 1, note="default Span"),
    Rule(r"relaxation_\.max_secondaries\(\)", "self->relaxation_.max_secondaries_", "*", note="helper accessor"),
    Rule(r"if \(Secondary\* ptr = allocate_\(count\)\)", "Secondary* ptr = ALLOC_call(count);\n    if (ptr)", (0, 1), note="if-with-declaration -> declaration + if"),
    Rule(r"\ballocate_\(", "ALLOC_call(", "*", note="allocator functor -> stub with the c16_alloc contract"),
    Rule(r"\bnullptr\b", "0", "*", note="nullptr"),
    Rule(r"secondaries = \{ptr, count\};", "secondaries.ptr = ptr; secondaries.size = count;", 1, note="Span aggregate assignment"),
    Rule(r"Interaction::from_(failure|absorption)\(\)", r"Interaction_from_\1()", "+", note="static factory (extracted)"),
    Rule(r"SubshellId shell_id = this->sample_subshell\(rng\);", "size_type shell_id = LPE_sample_subshell(self, rng);", 1, note="member call -> stub"),
    Rule(r"\(!shell_id\)", "(shell_id == INVALID_ID)", 1, note="OpaqueId::operator bool"),
    Rule(r"(?<!->)\binc_energy_\b", "self->inc_energy_", "+", note="data member"),
    Rule(r"\{\s*auto const& el = shared_\.xs\.elements\[el_id_\];.*?binding_energy\);\s*\}", "binding_energy = LPE_binding_energy(self, shell_id);", 1, flags=16, note="table lookup of the shell's binding energy -> stub"),
    Rule(r"CELER_ASSERT\(!secondaries\.empty\(\)\);", "CELER_ASSERT(secondaries.size != 0);", 1, note="Span::empty()"),
    Rule(r"Secondary& electron = secondaries\.front\(\);", "Secondary* electron = &secondaries.ptr[0];", 1, note="reference -> pointer"),
    Rule(r"electron\.particle_id = shared_\.ids\.electron;", "electron->particle_id = self->electron_id;", 1, note="params id"),
    Rule(r"electron\.energy = ", "electron->energy = ", 1, note="reference -> pointer"),
    Rule(r"electron\.direction = this->sample_direction\(rng\);", "electron->direction = LPE_sample_direction(self, rng);", 1, note="member call -> stub"),
    Rule(r"if \(relaxation_\)", "if (self->relaxation_.enabled)", (0, 1), note="helper operator bool"),
    Rule(r"AtomicRelaxation sample_relaxation = relaxation_\.build_distribution\(\s*cutoffs_, shell_id, secondaries\.subspan\(1\)\);", "SpanSecondary sub_ = {secondaries.ptr + 1, secondaries.size - 1};", 1, note="distribution construction -> the subspan it writes to"),
    Rule(r"auto outgoing = sample_relaxation\(rng\);", "RelaxResult outgoing = RELAX_sample(self, shell_id, sub_, rng);", 1, note="relaxation cascade -> stub with assumed contract"),
    Rule(r"secondaries = \{secondaries\.data\(\), 1 \+ outgoing\.count\};", "secondaries.size = 1 + outgoing.count;", 1, note="Span aggregate assignment"),
    Rule(r"value_as<Energy>\(outgoing\.energy\)", "outgoing.energy", 1, note="Quantity value"),
    Rule(r"(?<![\w.>])relaxation_\b(?!\.)", "self->relaxation_.enabled", "*", note="helper operator bool (any remaining boolean use)"),
]


def build_livermore(ctx):
    pc = ctx.func(LPE, r"CELER_FUNCTION Interaction LivermorePEInteractor::operator\(\)\(Engine& rng\)", LPE_RULES, name="LivermorePEInteractor::operator()")
    return (HDR + INTERACTION_MODEL + interaction_factories(ctx) + LPE_MODEL + """
#define NCOUNT (self->relaxation_.enabled ? 1 + self->relaxation_.max_secondaries_ : 1)
Interaction LPE_call(LivermorePEInteractor const* self, Engine* rng)
__CPROVER_requires(self != 0 && self->inc_energy_ > 0 && !__CPROVER_isinfd(self->inc_energy_) && self->relaxation_.max_secondaries_ <= 8 && self->electron_id != INVALID_ID && g_draws == 0)
__CPROVER_requires(g_cap <= 12 && __CPROVER_rw_ok(g_buf, 12 * sizeof(Secondary)) && g_k < 12 && g_old.particle_id == g_buf[g_k].particle_id && g_old.energy == g_buf[g_k].energy)
__CPROVER_assigns(g_draws, g_requested, g_relax, __CPROVER_object_whole(g_buf))
/* storage exhausted: explicit failure, no random draw consumed, nothing written */
__CPROVER_ensures(!(g_alloc_ok && NCOUNT <= g_cap) ==> (__CPROVER_return_value.action == IA_failed && g_draws == 0 && __CPROVER_return_value.secondaries.size == 0 && g_buf[g_k].particle_id == g_old.particle_id && g_buf[g_k].energy == g_old.energy))
/* the photon is always absorbed */
__CPROVER_ensures((g_alloc_ok && NCOUNT <= g_cap) ==> (__CPROVER_return_value.action == IA_absorbed && __CPROVER_return_value.energy == 0))
/* no shell could be sampled: the whole photon energy is deposited locally, nothing emitted */
__CPROVER_ensures((g_alloc_ok && NCOUNT <= g_cap && g_shell == INVALID_ID) ==> (__CPROVER_return_value.energy_deposition == self->inc_energy_ && __CPROVER_return_value.secondaries.size == 0))
/* photo-electron: energy E - B, a defined particle type; deposit B minus what the relaxation cascade carried away; E = (E - B) + (B - R) + R term by term */
__CPROVER_ensures((g_alloc_ok && NCOUNT <= g_cap && g_shell != INVALID_ID) ==> (__CPROVER_return_value.secondaries.ptr == g_buf && g_buf[0].energy == self->inc_energy_ - g_binding && g_buf[0].energy >= 0 && g_buf[0].particle_id == self->electron_id))
__CPROVER_ensures((g_alloc_ok && NCOUNT <= g_cap && g_shell != INVALID_ID) ==> (self->relaxation_.enabled ? (__CPROVER_return_value.energy_deposition == g_binding - g_relax.energy && __CPROVER_return_value.secondaries.size == 1 + g_relax.count)
                                                                                                            : (__CPROVER_return_value.energy_deposition == g_binding && __CPROVER_return_value.secondaries.size == 1)))
__CPROVER_ensures((g_alloc_ok && NCOUNT <= g_cap) ==> __CPROVER_return_value.energy_deposition >= 0)
{""" + pc.body + """}
void h_lpe(void)
{
    LivermorePEInteractor m; Engine* e; size_type cap, k; unsigned r1, r2;
    __CPROVER_assume(cap <= 12 && k < 12);
    Secondary buf[12];
    g_buf = buf; g_cap = cap; g_k = k; g_alloc_ok = (r1 != 0); m.relaxation_.enabled = (r2 != 0);
    g_old = buf[k];
    LPE_call(&m, e);
    VERIF_CANARY();
}
""")


UNITS = [
    Unit("c04_livermore_pe", build_livermore, "h_lpe", enforce="LPE_call", replace=["LPE_sample_subshell", "LPE_binding_energy", "LPE_sample_direction", "RELAX_sample"], timeout=600, object_bits=10, backend=["sat", "cvc5"],
         must_have=[r"LPE_call.postcondition", r"celer_assert", r"celer_ensure", r"ALLOC_call.precondition", r"RELAX_sample.precondition"], checks=["--bounds-check", "--pointer-check"],
         assumptions=["subshell sampling returns a shell with binding energy <= photon energy or none (cross-section data, assumed)", "atomic relaxation emits <= max_secondaries secondaries whose total energy is <= the binding energy (assumed contract of AtomicRelaxation)", "direction sampling not verified"],
         note="LivermorePEInteractor: explicit failure with zero draws and nothing written when storage is exhausted; otherwise absorbed, E = (E-B) electron + (B-R) deposit + R relaxation (or full local deposit when no shell is sampled); deposit >= 0; defined particle id"),
]
