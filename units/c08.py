"""C08: field propagation -- control logic of FieldPropagator::operator()(step) (numerics stubbed)."""
from vkit.extract import Rule, LoopContracts, MulToUF
from vkit.runner import Unit

FP = "src/celeritas/field/FieldPropagator.hh"
HDR = '#include "celer.h"\n'

FP_MODEL = """
#include <math.h>
typedef struct { real_type v[3]; } Real3;
typedef struct { Real3 pos; Real3 mom; } OdeState;
typedef struct { OdeState state; real_type step; } DriverResult;
typedef struct { real_type distance; bool boundary; bool looping; } Propagation;     /* {0, false, false} */
typedef Propagation result_type;
typedef struct { real_type length; Real3 dir; } Chord;
typedef struct { real_type delta_intersection_, minimum_step_; short max_substeps_; } DriverT;   /* FieldDriverOptions values, validated > 0 */
typedef struct { bool on_boundary; Real3 pos; } GTV;                                             /* the geometry state this function can observe/change */
typedef struct { DriverT const* driver_; GTV* geo_; OdeState state_; } FieldPropagator;
#ifndef MAXSUB
#define MAXSUB 3
#endif
/* ---- geometry track view: contracts of the navigation calls (C03/C11 side, assumed) ---- */
static bool GEO_is_on_boundary(GTV const* g) { return g->on_boundary; }
static Real3 GEO_pos(GTV const* g) { return g->pos; }
void GEO_set_dir(GTV* g, Real3 d) __CPROVER_requires(g != 0) __CPROVER_assigns() __CPROVER_ensures(1);
Propagation GEO_find_next_step(GTV* g, real_type maxdist)     /* straight-line search: 0 <= distance <= maxdist, boundary flag; does not move the track */
__CPROVER_requires(g != 0 && maxdist > 0)
__CPROVER_assigns()
__CPROVER_ensures(__CPROVER_return_value.distance >= 0 && __CPROVER_return_value.distance <= maxdist && __CPROVER_return_value.looping == 0 && (__CPROVER_return_value.boundary == 0 || __CPROVER_return_value.boundary == 1))   /* bools are proper 0/1 values */
;
void GEO_move_internal(GTV* g, Real3 p) __CPROVER_requires(g != 0) __CPROVER_assigns(g->on_boundary, g->pos) __CPROVER_ensures(g->on_boundary == 0);   /* afterwards the track is inside a volume */
void GEO_move_to_boundary(GTV* g) __CPROVER_requires(g != 0) __CPROVER_assigns(g->on_boundary, g->pos) __CPROVER_ensures(g->on_boundary == 1);           /* afterwards the track is on the boundary */
/* ---- field driver: contract of advance() (its own ENSURE: 0 < step <= requested) ---- */
DriverResult DRV_advance(DriverT const* d, real_type step, OdeState const* st)
__CPROVER_requires(d != 0 && step > 0)
__CPROVER_assigns()
__CPROVER_ensures(__CPROVER_return_value.step > 0 && __CPROVER_return_value.step <= step)
;
/* ---- vector numerics: uninterpreted (any values) ---- */
Chord UT_make_chord(Real3 a, Real3 b) __CPROVER_requires(1) __CPROVER_assigns() __CPROVER_ensures(__CPROVER_return_value.length >= 0);
bool UT_is_intercept_close(Real3 pos, Real3 dir, real_type distance, Real3 target, real_type tol) __CPROVER_requires(1) __CPROVER_assigns() __CPROVER_ensures(__CPROVER_return_value == 0 || __CPROVER_return_value == 1);
Real3 UT_make_unit_vector(Real3 m) __CPROVER_requires(1) __CPROVER_assigns() __CPROVER_ensures(1);
void UT_axpy(real_type a, Real3 x, Real3* y) __CPROVER_requires(y != 0) __CPROVER_assigns(*y) __CPROVER_ensures(1);
double __CPROVER_uninterpreted_update_length(double, double, double);
/* substep.step * linear_step.distance / chord.length with all three >= 0: any value that is not negative (NaN for 0/0 allowed) */
static real_type UF_update_length(real_type a, real_type b, real_type c) { real_type r = __CPROVER_uninterpreted_update_length(a, b, c); __CPROVER_assume(!(r < 0)); return r; }
#ifndef MAXITER
#define MAXITER 3
#endif
static real_type celer_min(real_type a, real_type b) { return fmin(a, b); }    /* celeritas::min<floating> = std::fmin (extracted and checked in c14_msc_*) */
int g_iters;      /* ghost: number of loop iterations executed */
bool g_bumped;    /* ghost: the zero-progress bump branch was taken */
_Bool __CPROVER_uninterpreted_soft_equal(double, double);
static bool soft_equal(real_type a, real_type b) { return __CPROVER_uninterpreted_soft_equal(a, b) != 0; }    /* tolerance comparison: uninterpreted (either answer) */
"""

FP_RULES = [
    Rule(r"result_type result;", "result_type result = {0, 0, 0};", 1, note="default member initializers"),
    Rule(r"geo_\.is_on_boundary\(\)", "GEO_is_on_boundary(self->geo_)", "*", note="geometry view call"),
    Rule(r"auto remaining_substeps = this->max_substeps\(\);", "short remaining_substeps = self->driver_->max_substeps_; g_iters = 0;", 1, note="auto -> short int; ghost"),
    Rule(r"CELER_ASSERT\(soft_zero\(distance\(state_\.pos, geo_\.pos\(\)\)\)\);", "++g_iters; __CPROVER_assume(g_iters <= MAXITER); /* bounded unit: at most MAXITER loop iterations (bisection / chord-shortening iterations do not consume the substep budget, so the budget alone does not bound the loop) */ /* NOT PROMOTED: CELER_ASSERT(soft_zero(distance(state_.pos, geo_.pos()))) -- position bookkeeping of the geometry, numerics */", 1, note="in-body assert not promoted (geometry/ODE position consistency is numeric)"),
    Rule(r"DriverResult substep = driver_\.advance\(remaining, state_\);", "DriverResult substep = DRV_advance(self->driver_, remaining, &self->state_);", 1, note="driver call -> stub with its contract"),
    Rule(r"auto chord = make_chord\(state_\.pos, substep\.state\.pos\);", "Chord chord = UT_make_chord(self->state_.pos, substep.state.pos);", 1, note="vector numerics -> stub"),
    Rule(r"this->(minimum_substep|delta_intersection|bump_distance)\(\)", r"FPR_\1(self)", "*", note="member call"),
    Rule(r"geo_\.set_dir\(([^;]*)\);", r"GEO_set_dir(self->geo_, \1);", "*", note="geometry view call"),
    Rule(r"auto linear_step\s*=\s*geo_\.find_next_step\(([^;]*)\);", r"Propagation linear_step = GEO_find_next_step(self->geo_, \1);", 1, note="geometry view call"),
    Rule(r"real_type const update_length = substep\.step \* linear_step\.distance\s*/ chord\.length;", "real_type const update_length = UF_update_length(substep.step, linear_step.distance, chord.length); /* substep.step * linear_step.distance / chord.length: uninterpreted (any value) */", 1, note="FP product/quotient -> uninterpreted function"),
    Rule(r"state_ = substep\.state;", "self->state_ = substep.state;", "*", note="data member"),
    Rule(r"geo_\.move_internal\(([^;]*)\);", r"GEO_move_internal(self->geo_, \1);", "*", note="geometry view call"),
    Rule(r"geo_\.move_to_boundary\(\);", "GEO_move_to_boundary(self->geo_);", "*", note="geometry view call"),
    Rule(r"is_intercept_close\(", "UT_is_intercept_close(", "*", note="vector numerics -> stub"),
    Rule(r"\bstate_\.(pos|mom)", r"self->state_.\1", "*", note="data member"),
    Rule(r"self->self->", "self->", "*", note="(idempotence of the previous rule)"),
    Rule(r"= geo_\.pos\(\);", "= GEO_pos(self->geo_);", "*", note="geometry view call"),
    Rule(r"celeritas::min\(|(?<![\w_])min\(", "celer_min(", "*", note="celeritas::min"),
    Rule(r"CELER_ASSERT\(soft_equal\(result\.distance, step\)\);", "/* NOT PROMOTED: CELER_ASSERT(soft_equal(result.distance, step)) -- floating-point accumulation */", (0, 1), note="in-body assert not promoted (FP accumulation)"),
    Rule(r"(result\.distance = celer_min\(FPR_bump_distance\(self\), step\);)", r"\1 g_bumped = 1; /* ghost */", (0, 1), note="ghost: zero-progress bump taken"),
    Rule(r"Real3 dir = make_unit_vector\(self->state_\.mom\);", "Real3 dir = UT_make_unit_vector(self->state_.mom);", 1, note="vector numerics -> stub"),
    Rule(r"axpy\(result\.distance, dir, &self->state_\.pos\);", "UT_axpy(result.distance, dir, &self->state_.pos);", 1, note="vector numerics -> stub"),
    Rule(r"CELER_ENSURE\(\s*result\.distance > 0\s*&& \(result\.distance <= step \|\| soft_equal\(result\.distance, step\)\)\);", "CELER_ENSURE(result.distance > 0); /* second conjunct (distance <= step up to rounding) NOT PROMOTED: FP accumulation */", 1, note="ENSURE split: positivity promoted, 'up to rounding' part not"),
]


def build_field_propagator_with(ctx, rules):
    helpers = []
    for nm, body_rules in (("delta_intersection", [Rule(r"driver_\.delta_intersection\(\)", "self->driver_->delta_intersection_", 1, note="driver option")]),
                           ("minimum_substep", [Rule(r"driver_\.minimum_step\(\)", "self->driver_->minimum_step_", 1, note="driver option")]),
                           ("bump_distance", [Rule(r"this->delta_intersection\(\)", "FPR_delta_intersection(self)", 1, note="member call"), Rule(r"real_type\(0\.1\)", "((real_type)0.1)", 1, note="functional cast")])):
        pc = ctx.func(FP, r"CELER_FUNCTION real_type FieldPropagator<DriverT, GTV>::%s\(\) const" % nm, body_rules, name="FieldPropagator::" + nm)
        helpers.append("static real_type FPR_%s(FieldPropagator const* self)\n{%s}\n" % (nm, pc.body))
    pc = ctx.func(FP, r"^FieldPropagator<DriverT, GTV>::operator\(\)\(real_type step\) -> result_type", rules, name="FieldPropagator::operator()(real_type)")
    return (HDR + FP_MODEL + "".join(helpers) + """
Propagation FPR_call(FieldPropagator* self, real_type step)
__CPROVER_requires(self != 0 && self->driver_ != 0 && self->geo_ != 0)
__CPROVER_requires(step > 0 && !__CPROVER_isinfd(step) && !g_bumped)      /* own CELER_EXPECT */
/* FieldDriverOptions as validated by its operator bool: all tolerances positive; substep budget in [1, MAXSUB] for this bounded unit */
/* the bump distance 0.1 * delta_intersection does not underflow to zero */
__CPROVER_requires(self->driver_->delta_intersection_ * 0.1 > 0)
__CPROVER_requires(self->driver_->delta_intersection_ > 0 && !__CPROVER_isinfd(self->driver_->delta_intersection_) && self->driver_->minimum_step_ > 0 && self->driver_->max_substeps_ >= 1 && self->driver_->max_substeps_ <= MAXSUB)
__CPROVER_assigns(self->state_, self->geo_->on_boundary, self->geo_->pos, g_iters, g_bumped)
/* the returned distance is positive (its own CELER_ENSURE) */
__CPROVER_ensures(__CPROVER_return_value.distance > 0)
/* the returned boundary flag equals the geometry's on-boundary state (its own CELER_ENSURE; also in the zero-progress bump case) */
__CPROVER_ensures(!__CPROVER_return_value.looping ==> __CPROVER_return_value.boundary == self->geo_->on_boundary)
/* looping is reported only when the substep budget is spent and the step was not completed */
__CPROVER_ensures(__CPROVER_return_value.looping ==> (g_iters >= self->driver_->max_substeps_ && __CPROVER_return_value.distance < step))
/* the only outcomes: a boundary hit, looping, the FULL requested step, or the zero-progress bump min(bump_distance, step) -- never a silently shortened step */
__CPROVER_ensures((!__CPROVER_return_value.looping && !__CPROVER_return_value.boundary && !g_bumped) ==> __CPROVER_return_value.distance >= step)
/* a boundary hit is never reported together with looping */
__CPROVER_ensures(!(__CPROVER_return_value.looping && __CPROVER_return_value.boundary && __CPROVER_return_value.distance >= step))
/* one substep only (budget 1, no boundary search hit): the distance never exceeds the requested step -- exact, no accumulation */
__CPROVER_ensures(g_iters == 1 ==> __CPROVER_return_value.distance <= step)
{""" + pc.body + """}
void h_fpr(void)
{
    DriverT d; GTV g; FieldPropagator p; real_type step; unsigned r;
    g.on_boundary = (r != 0);
    p.driver_ = &d; p.geo_ = &g;
    FPR_call(&p, step);
    VERIF_CANARY();
}
""")


def build_field_propagator(ctx):
    return build_field_propagator_with(ctx, FP_RULES)


# ---- unbounded variant: the do-while loop closed by a loop contract (no iteration / substep bound) ------------------
FP_LC_RULES = []
for r in FP_RULES:
    if isinstance(r, Rule) and r.pat.startswith(r"auto remaining_substeps"):
        FP_LC_RULES.append(Rule(r"auto remaining_substeps = this->max_substeps\(\);", "short remaining_substeps = self->driver_->max_substeps_; g_moves = 0; g_niter = 0;", 1, note="auto -> short int; ghost counters"))
    elif isinstance(r, Rule) and r.pat.startswith(r"CELER_ASSERT\(soft_zero\(distance"):
        FP_LC_RULES.append(Rule(r"CELER_ASSERT\(soft_zero\(distance\(state_\.pos, geo_\.pos\(\)\)\)\);", "g_niter = (g_niter < 2 ? g_niter + 1 : 2); /* ghost: iterations started, saturating at 2 */ /* NOT PROMOTED: CELER_ASSERT(soft_zero(distance(state_.pos, geo_.pos()))) -- position bookkeeping of the geometry, numerics */", 1, note="in-body assert not promoted (geometry/ODE position consistency is numeric); ghost iteration counter"))
    else:
        FP_LC_RULES.append(r)
FP_LC_RULES += [
    Rule(r"--remaining_substeps;", "--remaining_substeps; ++g_moves; /* ghost */", "*", note="ghost: count of completed internal substeps"),
    LoopContracts([
        "    __CPROVER_assigns(remaining, remaining_substeps, result.distance, result.boundary, self->state_, self->geo_->on_boundary, self->geo_->pos, g_moves, g_niter)\n"
        "    __CPROVER_loop_invariant(remaining > 0 && result.distance >= 0 && result.looping == 0 && (result.boundary == 0 || result.boundary == 1) && result.boundary == self->geo_->on_boundary)\n"
        "    __CPROVER_loop_invariant(remaining_substeps >= 1 && remaining_substeps <= self->driver_->max_substeps_ && g_moves >= 0 && g_moves <= 30000 && g_moves + remaining_substeps == self->driver_->max_substeps_)\n"
        "    __CPROVER_loop_invariant(g_niter == 0 ==> (result.distance == 0 && remaining == step))\n"]),
]


def build_field_propagator_lc(ctx):
    src = build_field_propagator_with(ctx, FP_LC_RULES)
    src = src.replace("int g_iters;      /* ghost: number of loop iterations executed */", "int g_moves; unsigned long g_niter;   /* ghost: completed internal substeps; loop iterations started (0, 1, or 2 = more) */")
    src = src.replace("self->driver_->max_substeps_ >= 1 && self->driver_->max_substeps_ <= MAXSUB)", "self->driver_->max_substeps_ >= 1 && self->driver_->max_substeps_ <= 30000)   /* any substep budget */")
    src = src.replace("__CPROVER_assigns(self->state_, self->geo_->on_boundary, self->geo_->pos, g_iters, g_bumped)", "__CPROVER_assigns(self->state_, self->geo_->on_boundary, self->geo_->pos, g_moves, g_niter, g_bumped)")
    src = src.replace("(g_iters >= self->driver_->max_substeps_ && __CPROVER_return_value.distance < step))", "(g_moves == self->driver_->max_substeps_ && __CPROVER_return_value.distance < step))")
    src = src.replace("__CPROVER_ensures(g_iters == 1 ==> __CPROVER_return_value.distance <= step)", "__CPROVER_ensures(g_niter == 1 ==> __CPROVER_return_value.distance <= step)")
    if "g_iters" in src:
        from vkit.extract import ExtractionDrift
        raise ExtractionDrift("g_iters left in the loop-contract variant")
    return src


UNITS = [
    Unit("c08_field_propagator_lc", build_field_propagator_lc, "h_fpr", enforce="FPR_call", loop_contracts=True, timeout=900, object_bits=12, backend=["sat", "kissat", "cvc5"],
         replace=["GEO_set_dir", "GEO_find_next_step", "GEO_move_internal", "GEO_move_to_boundary", "DRV_advance", "UT_make_chord", "UT_is_intercept_close", "UT_make_unit_vector", "UT_axpy"],
         must_have=[r"FPR_call.postcondition", r"celer_assert", r"celer_ensure", r"DRV_advance.precondition", r"GEO_find_next_step.precondition", r"loop_invariant_step"],
         checks=["--bounds-check", "--pointer-check"],
         assumptions=["field driver advance(): 0 < step <= requested (its own ENSURE); geometry calls: find_next_step does not move, move_internal leaves the boundary, move_to_boundary lands on it (assumed navigation contracts)",
                      "chord / unit vector / intercept test / update_length are uninterpreted (any values); NOT PROMOTED: the two soft_zero/soft_equal asserts and 'distance <= step up to rounding'", "termination of the substep loop not decided (no variant)"],
         note="FieldPropagator control logic for ANY substep budget and any number of iterations (loop contract): distance > 0; returned boundary flag == geometry on-boundary state; looping only with the whole substep budget spent and distance < step; a step completed in a single iteration never exceeds the requested step; callee preconditions (advance step > 0, find_next_step distance > 0) hold in every iteration"),
    Unit("c08_field_propagator", build_field_propagator, "h_fpr", enforce="FPR_call", unwind=4, tier="thorough", timeout=900, object_bits=12, backend=["sat", "cvc5"], defines=["MAXSUB=2"],
         bounded="substep budget (max_substeps) <= 2 and at most 3 loop iterations in total: the do-while loop is unwound; the driver, geometry and vector numerics are replaced by contracts / uninterpreted functions",
         replace=["GEO_set_dir", "GEO_find_next_step", "GEO_move_internal", "GEO_move_to_boundary", "DRV_advance", "UT_make_chord", "UT_is_intercept_close", "UT_make_unit_vector", "UT_axpy"],
         must_have=[r"FPR_call.postcondition", r"celer_assert", r"celer_ensure", r"DRV_advance.precondition", r"GEO_find_next_step.precondition", r"unwinding assertion"],
         checks=["--bounds-check", "--pointer-check"],
         assumptions=["field driver advance(): 0 < step <= requested (its own ENSURE); geometry calls: find_next_step does not move, move_internal leaves the boundary, move_to_boundary lands on it (assumed navigation contracts)",
                      "chord / unit vector / intercept test / update_length are uninterpreted (any values); NOT PROMOTED: the two soft_zero/soft_equal asserts and 'distance <= step up to rounding'"],
         note="FieldPropagator control logic: distance > 0; returned boundary flag == geometry on-boundary state; looping only with the substep budget spent and distance < step; zero-progress bump is min(bump, step); callee preconditions (advance step > 0, find_next_step distance > 0) hold at the call sites"),
]


# ---------------------------------------------------------------------------
# FieldDriver::accurate_advance
# ---------------------------------------------------------------------------
FD = "src/celeritas/field/FieldDriver.hh"
FD_MODEL = """
#include <math.h>
typedef struct { real_type pos; real_type mom; } OdeState;     /* Real3 pos, mom abstracted to one component each (values irrelevant here) */
double __CPROVER_uninterpreted_mul(double, double);
/* products of two positive numbers: uninterpreted, only known to be non-negative */
static real_type MUL(real_type a, real_type b) { real_type r = __CPROVER_uninterpreted_mul(a, b); __CPROVER_assume(!(a >= 0 && b >= 0) || r >= 0); return r; }
typedef struct { OdeState state; real_type step; } DriverResult;
typedef struct { DriverResult end; real_type proposed_step; } Integration;    /* {end, proposed_step} */
typedef struct { real_type initial_step_tol, epsilon_step, minimum_step; short max_nsteps; } FieldDriverOptions;
typedef struct { FieldDriverOptions const* options_; } FieldDriver;
real_type g_curve;     /* ghost: true accumulated curve length = sum of the substeps actually integrated */
#ifndef MAXN
#define MAXN 3
#endif
/* integrate_step(h, state): one adaptive integration; covers 0 < step <= h and proposes a positive next step (its own ENSUREs; the RK numerics are not decided) */
Integration FD_integrate_step(FieldDriver const* self, real_type h, OdeState const* st)
__CPROVER_requires(self != 0 && h > 0)
__CPROVER_assigns(g_curve)
__CPROVER_ensures(__CPROVER_return_value.end.step > 0 && __CPROVER_return_value.end.step <= h && __CPROVER_return_value.proposed_step > 0)
__CPROVER_ensures(g_curve == __CPROVER_old(g_curve) + __CPROVER_return_value.end.step)
;
static real_type celer_min(real_type a, real_type b) { return fmin(a, b); }
static real_type celer_max(real_type a, real_type b) { return fmax(a, b); }
"""
FD_RULES = [
    Rule(r"\boptions_\.", "self->options_->", "*", note="const& member"),
    Rule(r"Integration output;", "Integration output = {{{0, 0}, 0}, 0};", 1, note="default member initializers"),
    MulToUF(),
    Rule(r"output\.end\.state = state;", "output.end.state = *state;", 1, note="const& parameter -> pointer"),
    Rule(r"auto remaining_steps = ", "short remaining_steps = ", 1, note="auto -> short int"),
    Rule(r"output = this->integrate_step\(h, output\.end\.state\);", "output = FD_integrate_step(self, h, &output.end.state);", 1, note="member call -> stub with its contract"),
    Rule(r"celeritas::min\(|(?<![\w_])min\(", "celer_min(", "*", note="celeritas::min"),
    Rule(r"celeritas::max\(|(?<![\w_])max\(", "celer_max(", "*", note="celeritas::max"),
    Rule(r"(curve_length \+= output\.end\.step;)", r'\1 __CPROVER_assert(curve_length == g_curve, "ghost.lockstep: accumulated curve length equals the sum of the integrated substeps"); __CPROVER_assume(curve_length == g_curve); /* cut: checked, then used */', (0, 1), note="ghost lock-step cut"),
    Rule(r"CELER_ENSURE\(curve_length > 0\s*&& \(curve_length <= step \|\| soft_equal\(curve_length, step\)\)\);", "CELER_ENSURE(curve_length > 0); /* second conjunct (<= step up to rounding) NOT PROMOTED: FP accumulation */", 1, note="ENSURE split"),
]


def build_accurate_advance(ctx):
    pc = ctx.func(FD, r"^CELER_FUNCTION DriverResult FieldDriver<StepperT>::accurate_advance\(", FD_RULES, name="FieldDriver::accurate_advance")
    return (HDR + FD_MODEL + """
DriverResult FD_accurate_advance(FieldDriver const* self, real_type step, OdeState const* state, real_type hinitial)
__CPROVER_requires(self != 0 && self->options_ != 0 && state != 0 && g_curve == 0)
__CPROVER_requires(step > 0 && !__CPROVER_isinfd(step) && !__CPROVER_isnand(hinitial))     /* own CELER_ASSERT */
/* FieldDriverOptions::operator bool: tolerances positive, step budget >= 1 (<= MAXN for this bounded unit) */
__CPROVER_requires(self->options_->initial_step_tol > 0 && self->options_->epsilon_step > 0 && self->options_->epsilon_step < 1 && self->options_->minimum_step > 0 && self->options_->max_nsteps >= 1 && self->options_->max_nsteps <= MAXN)
__CPROVER_assigns(g_curve)
/* the reported step is positive, never more than requested, and never more than the curve length actually integrated:
   the returned end state really lies `step` along the curve (up to the rounding of the sum) */
__CPROVER_ensures(__CPROVER_return_value.step > 0 && __CPROVER_return_value.step <= step && __CPROVER_return_value.step <= g_curve)
{""" + pc.body + """}
void h_fda(void)
{
    FieldDriverOptions o; FieldDriver d = {&o}; OdeState s; real_type step, h;
    FD_accurate_advance(&d, step, &s, h);
    VERIF_CANARY();
}
""")


FD_LC_RULES = FD_RULES + [LoopContracts([
    "    __CPROVER_assigns(h, output, curve_length, succeeded, remaining_steps, g_curve)\n"
    "    __CPROVER_loop_invariant(h > 0 && !succeeded && remaining_steps >= 1 && remaining_steps <= self->options_->max_nsteps)\n"
    "    __CPROVER_loop_invariant(curve_length >= 0 && curve_length == g_curve && curve_length < end_curve_length)\n"])]


def build_accurate_advance_lc(ctx):
    pc = ctx.func(FD, r"^CELER_FUNCTION DriverResult FieldDriver<StepperT>::accurate_advance\(", FD_LC_RULES, name="FieldDriver::accurate_advance")
    src = build_accurate_advance(ctx)
    k = src.index("{", src.index("__CPROVER_ensures(__CPROVER_return_value.step > 0"))
    e = src.index("void h_fda(void)")
    src = src[: k] + "{" + pc.body + "}\n" + src[e:]
    return src.replace("self->options_->max_nsteps <= MAXN)", "self->options_->max_nsteps <= 30000)   /* any step budget */").replace("(<= MAXN for this bounded unit)", "")


UNITS += [
    Unit("c08_accurate_advance", build_accurate_advance, "h_fda", enforce="FD_accurate_advance", replace=["FD_integrate_step"], unwind=5, tier="thorough", timeout=600, object_bits=10, backend=["sat", "cvc5"], defines=["MAXN=3"],
         bounded="max_nsteps <= 3 (do-while loop unwound)",
         must_have=[r"FD_accurate_advance.postcondition", r"celer_assert", r"celer_ensure", r"FD_integrate_step.precondition", r"unwinding assertion"], checks=["--bounds-check", "--pointer-check"],
         assumptions=["integrate_step covers 0 < step <= h and proposes a positive step (its ENSUREs; RK numerics not decided)", "NOT PROMOTED: curve_length <= step up to rounding"],
         note="FieldDriver::accurate_advance: 0 < reported step <= requested and <= the curve length actually integrated (a track that ran out of integration steps is not reported as having completed the step); h > 0 at every integrate_step call"),
    Unit("c08_accurate_advance_lc", build_accurate_advance_lc, "h_fda", enforce="FD_accurate_advance", replace=["FD_integrate_step"], loop_contracts=True, timeout=900, backend=["sat", "kissat", "cvc5"],
         must_have=[r"FD_accurate_advance.postcondition", r"celer_assert", r"celer_ensure", r"FD_integrate_step.precondition", r"loop_invariant_step"], checks=["--bounds-check", "--pointer-check"],
         assumptions=["integrate_step covers 0 < step <= h and proposes a positive next step (its own ENSUREs; RK numerics not decided)", "products uninterpreted (non-negative for non-negative factors)", "NOT PROMOTED: curve_length <= step up to rounding", "termination by the step budget not decided (no variant)"],
         note="FieldDriver::accurate_advance for ANY step budget (loop contract): every trial step h is positive (integrate_step's precondition), the accumulated curve length is exactly the sum of the integrated substeps, and the reported step is > 0, <= requested and <= the curve length actually integrated"),
]
