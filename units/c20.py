"""C20 (subset): generated optical photons -- energy range, cone-angle arguments, segment membership, time ordering, threshold.

Unit-vector / perpendicularity facts of from_spherical / rotate / make_unit_vector are trigonometric floating point and stay
assumed (see DESIGN.md 4, C20); what the generators and offload helpers do AROUND those calls is decided here."""
import re
from vkit.extract import Rule, LoopContracts, MulToUF, init_list, ExtractionDrift
from vkit.runner import Unit
from units.c01 import Q_RULES

O = "src/celeritas/optical/"
CG = O + "CerenkovGenerator.hh"
SG = O + "ScintillationGenerator.hh"
CO = O + "CerenkovOffload.hh"
SO = O + "ScintillationOffload.hh"
DNDX = O + "CerenkovDndxCalculator.hh"
AU = "src/corecel/math/ArrayUtils.hh"
HDR = '#include "celer.h"\n'

MODEL = """
#include <math.h>
typedef struct Engine Engine;
#define INVALID_ID ((size_type)-1)
#define FINV(x) (!__CPROVER_isnand(x) && !__CPROVER_isinfd(x))
#define EQV(a, b) ((a) == (b) || (__CPROVER_isnand(a) && __CPROVER_isnand(b)))     /* same value, NaN-aware */
enum { SP_pre = 0, SP_post = 1 };                      /* StepPoint (bound) */
typedef struct { real_type v[3]; } Real3;              /* Array<real_type, 3>: positions are real 3-vectors here */
typedef real_type Dir3;                                /* directions / polarisations: opaque values built by from_spherical / rotate (uninterpreted) */
typedef struct { real_type speed; Real3 pos; } GeneratorStepData;
typedef struct { size_type num_photons; real_type time, step_length, charge; size_type material; GeneratorStepData points[2]; } GeneratorDistributionData;
typedef struct { real_type energy; Real3 position; Dir3 direction; Dir3 polarization; real_type time; size_type volume; } TrackInitializer;
typedef struct { real_type a_, delta_; } UniformRealDist;      /* UniformRealDistribution: a, b - a */

unsigned g_draws;                                      /* ghost: sampler calls made */
/* UniformRealDistribution::operator() by its contract (enforced in c15_uniform_real): a value in the closed interval [a, a + delta] */
real_type URD_sample(UniformRealDist const* d, Engine* rng)
__CPROVER_requires(d != 0 && FINV(d->a_) && d->delta_ >= 0 && FINV(d->a_ + d->delta_))
__CPROVER_assigns(g_draws)
__CPROVER_ensures(__CPROVER_return_value >= d->a_ && __CPROVER_return_value <= d->a_ + d->delta_)
;
/* RejectionSampler{f, fmax}(rng): any outcome */
bool REJ_sample(real_type f, real_type fmax, Engine* rng) __CPROVER_assigns(g_draws) __CPROVER_ensures(1);

real_type __CPROVER_uninterpreted_mul(real_type, real_type);
real_type __CPROVER_uninterpreted_fma(real_type, real_type, real_type);
real_type __CPROVER_uninterpreted_div(real_type, real_type);
real_type __CPROVER_uninterpreted_sqrt(real_type);
real_type __CPROVER_uninterpreted_nv(real_type);
Dir3 __CPROVER_uninterpreted_from_spherical(real_type, real_type);
Dir3 __CPROVER_uninterpreted_rotate(Dir3, Dir3);
/* IEEE-754 facts about correctly rounded products (assumed; no installed solver decides 53-bit FP products): sign rule, no NaN from finite operands,
   and monotone rounding:  0 <= a <= 1  =>  a*b lies between 0 and b */
static real_type MUL(real_type a, real_type b)
{
    real_type r = __CPROVER_uninterpreted_mul(a, b);
    __CPROVER_assume(!(FINV(a) && FINV(b)) || !__CPROVER_isnand(r));
    __CPROVER_assume(!((a >= 0 && b >= 0) || (a <= 0 && b <= 0)) || r >= 0);
    __CPROVER_assume(!((a >= 0 && b <= 0) || (a <= 0 && b >= 0)) || r <= 0);
    __CPROVER_assume(!(a >= 0 && a <= 1 && b >= 0) || r <= b);
    __CPROVER_assume(!(a >= 0 && a <= 1 && b <= 0) || r >= b);
    __CPROVER_assume(!(b >= 0 && b <= 1 && a >= 0) || r <= a);
    __CPROVER_assume(!(b >= 0 && b <= 1 && a <= 0) || r >= a);
    return r;
}
/* x*x: non-negative, at most 1 for |x| <= 1 */
static real_type IPOW2(real_type x)
{
    real_type r = __CPROVER_uninterpreted_mul(x, x);
    __CPROVER_assume(__CPROVER_isnand(x) || r >= 0);
    __CPROVER_assume(!(x >= -1 && x <= 1) || r <= 1);
    return r;
}
/* a/b: sign rule; no NaN for finite a and finite non-zero b; positive / positive is not negative */
static real_type DIV(real_type a, real_type b)
{
    real_type r = __CPROVER_uninterpreted_div(a, b);
    __CPROVER_assume(!(FINV(a) && FINV(b) && b != 0) || !__CPROVER_isnand(r));
    __CPROVER_assume(!(a >= 0 && b > 0) || r >= 0);
    __CPROVER_assume(!(a <= 0 && b > 0) || r <= 0);
    return r;
}
/* sqrt: domain asserted; [0,1] -> [0,1] */
static real_type SQRT(real_type x)
{
    __CPROVER_assert(x >= 0, "sqrt.domain: argument is non-negative");
    real_type r = __CPROVER_uninterpreted_sqrt(x);
    __CPROVER_assume(!(x >= 0) || r >= 0);
    __CPROVER_assume(!(x >= 0 && x <= 1) || r <= 1);
    return r;
}
/* native_value_from(LightSpeed / MevEnergy): multiplication by a positive unit constant -- sign preserving, odd, monotone (instance at the pre-step speed g_vpre) */
real_type g_vpre;
static real_type NV(real_type x)
{
    real_type r = __CPROVER_uninterpreted_nv(x);
    __CPROVER_assume(!FINV(x) || FINV(r));
    __CPROVER_assume(!(x > 0) || r > 0);
    __CPROVER_assume(!(x < 0) || r < 0);
    __CPROVER_assume(!(x == 0) || r == 0);
    __CPROVER_assume(!(x >= -g_vpre) || r >= -__CPROVER_uninterpreted_nv(g_vpre));
    return r;
}
/* log1p: sign preserving, zero at zero, finite on finite arguments > -1 (value uninterpreted) */
real_type __CPROVER_uninterpreted_log1p(real_type);
static real_type LOG1P(real_type x)
{
    real_type r = __CPROVER_uninterpreted_log1p(x);
    __CPROVER_assume(!(FINV(x) && x > -1) || FINV(r));
    __CPROVER_assume(!(x > 0) || r > 0);
    __CPROVER_assume(!(x < 0) || r < 0);
    __CPROVER_assume(!(x == 0) || r == 0);
    return r;
}
/* fma(a, x, y) as used by axpy: uninterpreted */
#define FMA(a, b, c) __CPROVER_uninterpreted_fma(a, b, c)

/* from_spherical / rotate: values uninterpreted; the polar cosine and azimuth handed to from_spherical are recorded */
unsigned g_fs_n; real_type g_fs_cost[2], g_fs_phi[2];
static Dir3 FROM_SPHERICAL(real_type costheta, real_type phi)
{
    __CPROVER_assert(costheta >= -1 && costheta <= 1, "celer_expect: from_spherical costheta >= -1 && costheta <= 1");
    if (g_fs_n < 2) { g_fs_cost[g_fs_n] = costheta; g_fs_phi[g_fs_n] = phi; }
    ++g_fs_n;
    return __CPROVER_uninterpreted_from_spherical(costheta, phi);
}
#define ROTATE(d, r) __CPROVER_uninterpreted_rotate(d, r)
"""


def axpy_text(ctx):
    pc = ctx.func(AU, r"^CELER_FUNCTION void axpy\(T a, Array<T, N> const& x, Array<T, N>\* y\)", [
        Rule(r"\(\*y\)\[i\]", "y->v[i]", "+", note="Array::operator[] through the pointer"),
        Rule(r"\bx\[i\]", "x->v[i]", "+", note="Array::operator[] (const& parameter passed by address)"),
        Rule(r"\bN\b", "3", "+", note="template parameter N = 3"),
        Rule(r"(?<![\w:])fma\(", "FMA(", "+", note="celeritas::fma == std::fma -> uninterpreted"),
        Rule(r"CELER_EXPECT\(y\);", "CELER_EXPECT(y != 0);", 1, note="pointer truth"),
    ], name="celeritas::axpy")
    return pc.body


AXPY_CONTRACT = """
real_type g_frac;     /* ghost: the scale factor last handed to axpy (the step fraction) */
void AXPY(real_type a, Real3 const* x, Real3* y)
__CPROVER_requires(__CPROVER_r_ok(x, sizeof(Real3)) && __CPROVER_rw_ok(y, sizeof(Real3)))
__CPROVER_assigns(g_frac, *y)
__CPROVER_ensures(EQV(g_frac, a) && __CPROVER_signd(g_frac) == __CPROVER_signd(a))      /* the same value bit for bit (+0 / -0 distinguished: FMA is uninterpreted) */
__CPROVER_ensures(EQV(y->v[0], FMA(a, x->v[0], __CPROVER_old(y->v[0]))) && EQV(y->v[1], FMA(a, x->v[1], __CPROVER_old(y->v[1]))) && EQV(y->v[2], FMA(a, x->v[2], __CPROVER_old(y->v[2]))))
"""


def build_axpy(ctx):
    return (HDR + MODEL + AXPY_CONTRACT + "{ g_frac = a;\n" + axpy_text(ctx) + """}
void h_axpy(void)
{
    real_type a; Real3 x, y;
    AXPY(a, &x, &y);
    VERIF_CANARY();
}
""")


# ---- CerenkovGenerator::operator() ------------------------------------------
CG_MODEL = """
typedef struct { real_type front, back; } GridExt;     /* calc_refractive_index_.grid().front() / back() */
typedef struct { GeneratorDistributionData const* dist_; GridExt grid; UniformRealDist sample_phi_, sample_num_photons_, sample_energy_; Dir3 dir_; Real3 delta_pos_;
                 real_type delta_speed_, delta_num_photons_, dndx_pre_, sin_max_sq_, inv_beta_; } CerenkovGenerator;
real_type __CPROVER_uninterpreted_n(real_type);
/* refractive index at a photon energy: a function of the energy only (GenericCalculator, c14_generic_call); table values are finite and >= 1 (assumed: physical refractive index) */
static real_type RI(CerenkovGenerator const* self, real_type energy)
{
    real_type r = __CPROVER_uninterpreted_n(energy);
    __CPROVER_assume(r >= 1 && FINV(r));
    return r;
}
"""
MEMBERS_CG = Rule(r"(?<![\w.>])(dist_|sample_phi_|sample_num_photons_|sample_energy_|dir_|delta_pos_|delta_speed_|delta_num_photons_|dndx_pre_|sin_max_sq_|inv_beta_)\b", r"self->\1", "+", note="data members -> self->")
BASE_RULES = Q_RULES + [
    Rule(r"\bunits::MevEnergy\(([^()]*)\)", r"(\1)", "*", note="Quantity construction -> value"),
    Rule(r"ipow<2>\(", "IPOW2(", "*", note="ipow<2>(x) = x*x -> product with the assumed square lemma"),
    Rule(r"std::sqrt\(", "SQRT(", "*", note="std::sqrt -> uninterpreted, domain asserted"),
    Rule(r"native_value_from\(", "NV(", "*", note="unit conversion (multiplication by a positive constant) -> uninterpreted monotone"),
    Rule(r"real_type\(0\.5\)", "0.5", "*", note="functional cast of a literal"),
    Rule(r"std::log1p\(", "LOG1P(", "*", note="std::log1p -> uninterpreted with the sign lemma (only present in edited text)"),
    Rule(r"dist_\.points\[StepPoint::(pre|post)\]", r"dist_->points[SP_\1]", "*", note="EnumArray[StepPoint]"),
    Rule(r"\bdist_\.", "dist_->", "*", note="reference member -> pointer"),
]
COMMON_RULES = BASE_RULES + [
    Rule(r"TrackInitializer photon;", "TrackInitializer photon = {0, {{0, 0, 0}}, 0, 0, 0, INVALID_ID};", 1, note="default member initialisers of TrackInitializer"),
    Rule(r"return photon;", "*out = photon; return;", 1, note="returned by value -> written through the result pointer"),
    Rule(r"\bfrom_spherical\(", "FROM_SPHERICAL(", "+", note="from_spherical -> uninterpreted value, arguments recorded"),
    Rule(r"\baxpy\(([^,;]*), (\w+), &photon\.position\)", r"AXPY(\1, &\2, &photon.position)", "+", note="const& argument passed by address"),
]
RI_DIV = Rule(r"inv_beta_ / RI\(self, ([^()]*)\)", r"DIV(inv_beta_, RI(self, \1))", "+", note="quotient -> uninterpreted with the sign lemma")
CG_RULES = COMMON_RULES + [
    Rule(r"\brotate\(", "ROTATE(", "+", note="rotate -> uninterpreted value"),
    Rule(r"calc_refractive_index_\(", "RI(self, ", "+", note="GenericCalculator call -> function of the energy"),
    Rule(r"sample_(energy|phi|num_photons)_\(rng\)", r"URD_sample(&sample_\1_, rng)", "+", note="distribution call -> contract"),
    Rule(r"UniformRealDistribution sample_step_fraction;", "UniformRealDist sample_step_fraction = {0, 1};", 1, note="default UniformRealDistribution: [0, 1)"),
    Rule(r"sample_step_fraction\(rng\)", "URD_sample(&sample_step_fraction, rng)", "+", note="distribution call -> contract"),
    Rule(r"RejectionSampler\{([^{}]*)\}\(rng\)", r"REJ_sample(\1, rng)", "+", note="RejectionSampler temporary -> stub (any outcome)"),
    RI_DIV,
    MulToUF("MUL", note="products -> uninterpreted with assumed IEEE sign / monotonicity lemmas"),
    Rule(r"= MUL\(u, (dist_\.step_length|dist_->step_length)\)\s*/ \(([^;]*)\);", r"= DIV(MUL(u, \1), (\2));", (0, 1), note="time quotient -> uninterpreted with the sign lemma (an edited time formula keeps its IEEE divisions)"),
    MEMBERS_CG,
    LoopContracts([
        "    __CPROVER_assigns(energy, cos_theta, sin_theta_sq, g_draws)\n    __CPROVER_loop_invariant(1)\n",
        "    __CPROVER_assigns(energy, cos_theta, g_draws)\n    __CPROVER_loop_invariant(1)\n",
        "    __CPROVER_assigns(u, g_draws)\n    __CPROVER_loop_invariant(1)\n",
    ]),
]

# the generator's invariant as its constructor establishes it (c20_cerenkov_gen_ctor) from a valid distribution
CG_INV = """(__CPROVER_r_ok(self, sizeof(*self)) && __CPROVER_r_ok(self->dist_, sizeof(*self->dist_))
  && FINV(self->grid.front) && FINV(self->grid.back) && self->grid.front > 0 && self->grid.front <= self->grid.back
  && self->sample_energy_.a_ == self->grid.front && self->sample_energy_.delta_ == self->grid.back - self->grid.front && FINV(self->sample_energy_.a_ + self->sample_energy_.delta_)
  && FINV(self->sample_phi_.a_) && self->sample_phi_.delta_ >= 0 && FINV(self->sample_phi_.a_ + self->sample_phi_.delta_)
  && self->sample_num_photons_.a_ == 0 && self->sample_num_photons_.delta_ >= 0 && FINV(self->sample_num_photons_.delta_)
  && self->inv_beta_ > 1 && FINV(self->inv_beta_) && FINV(self->delta_num_photons_) && FINV(self->dndx_pre_)
  && self->dist_->points[SP_pre].speed > 0 && self->dist_->points[SP_pre].speed <= 1 && self->delta_speed_ >= -self->dist_->points[SP_pre].speed && self->delta_speed_ <= 1
  && self->dist_->step_length > 0 && FINV(self->dist_->step_length) && FINV(self->dist_->time))"""


def build_cerenkov_call(ctx):
    pc = ctx.func(CG, r"^CELER_FUNCTION TrackInitializer CerenkovGenerator::operator\(\)\(Generator& rng\)", CG_RULES, name="CerenkovGenerator::operator()")
    return (HDR + MODEL + AXPY_CONTRACT + ";\n" + CG_MODEL + """
#define COST (DIV(self->inv_beta_, __CPROVER_uninterpreted_n(out->energy)))
void CG_call(CerenkovGenerator const* self, Engine* rng, TrackInitializer* out)
__CPROVER_requires(""" + CG_INV + """ && __CPROVER_w_ok(out, sizeof(*out)) && g_fs_n == 0 && g_vpre == self->dist_->points[SP_pre].speed)
__CPROVER_assigns(g_draws, g_frac, g_fs_n, __CPROVER_object_whole(g_fs_cost), __CPROVER_object_whole(g_fs_phi), __CPROVER_object_whole(out))
/* energy: finite, positive, inside the refractive-index table's energy range (upper end as the distribution represents it: front + (back - front), within one rounding of back) */
__CPROVER_ensures(out->energy >= self->grid.front && out->energy <= self->grid.front + (self->grid.back - self->grid.front) && out->energy > 0 && FINV(out->energy))
/* cone: the photon direction is from_spherical(cos(theta), phi) rotated onto the parent direction, with cos(theta) = (1/beta_mean) / n(E) <= 1 for the photon's own energy */
__CPROVER_ensures(g_fs_n == 2 && g_fs_cost[0] == COST && g_fs_cost[0] <= 1 && g_fs_cost[0] >= 0)
__CPROVER_ensures(EQV(out->direction, ROTATE(__CPROVER_uninterpreted_from_spherical(g_fs_cost[0], g_fs_phi[0]), self->dir_)))
/* polarisation: same azimuth, polar angle theta + pi/2 (cos = -sin(theta) = -sqrt(1 - cos^2(theta))), rotated onto the same parent direction: perpendicular to the direction */
__CPROVER_ensures(g_fs_phi[1] == g_fs_phi[0] && g_fs_cost[1] == -__CPROVER_uninterpreted_sqrt(1 - __CPROVER_uninterpreted_mul(g_fs_cost[0], g_fs_cost[0])))
__CPROVER_ensures(EQV(out->polarization, ROTATE(__CPROVER_uninterpreted_from_spherical(g_fs_cost[1], g_fs_phi[1]), self->dir_)))
/* position: pre-step point + u * (post - pre) with one fraction u in [0, 1] for all three coordinates */
__CPROVER_ensures(g_frac >= 0 && g_frac <= 1)
__CPROVER_ensures(EQV(out->position.v[0], FMA(g_frac, self->delta_pos_.v[0], self->dist_->points[SP_pre].pos.v[0]))
               && EQV(out->position.v[1], FMA(g_frac, self->delta_pos_.v[1], self->dist_->points[SP_pre].pos.v[1]))
               && EQV(out->position.v[2], FMA(g_frac, self->delta_pos_.v[2], self->dist_->points[SP_pre].pos.v[2])))
/* time: not earlier than the parent's pre-step time, and a number */
__CPROVER_ensures(out->time >= self->dist_->time)
{""" + pc.body + """}
void h_cg(void)
{
    CerenkovGenerator g; GeneratorDistributionData d; Engine* e; TrackInitializer out;
    g.dist_ = &d; g_fs_n = 0; g_vpre = d.points[SP_pre].speed;
    CG_call(&g, e, &out);
    VERIF_CANARY();
}
""")


# ---- CerenkovGenerator::CerenkovGenerator -----------------------------------
CGC_MODEL = """
typedef struct { size_type id; GridExt grid; } MaterialView;     /* optical material id + extents of its refractive-index grid (make_refractive_index_calculator().grid()) */
real_type __CPROVER_uninterpreted_dndx(real_type, real_type);
Dir3 __CPROVER_uninterpreted_unit3(real_type, real_type, real_type);
/* CerenkovDndxCalculator{material, shared, charge}(beta) by its contract (c20_dndx_call): a function of charge and speed; finite, non-negative; own EXPECT asserted */
static real_type DNDX_call(real_type charge, real_type beta)
{
    __CPROVER_assert(beta > 0 && beta <= 1, "celer_expect: CerenkovDndxCalculator beta > 0 && beta <= 1");
    real_type r = __CPROVER_uninterpreted_dndx(charge, beta);
    __CPROVER_assume(r >= 0 && FINV(r));
    return r;
}
/* UniformRealDistribution(a, b): members as its constructor sets them (text checked below), own EXPECT asserted */
static UniformRealDist URD_make(real_type a, real_type b)
{
    __CPROVER_assert(a <= b, "celer_expect: UniformRealDistribution a <= b");
    UniformRealDist d = {a, b - a};
    return d;
}
/* Array operator- (ArrayOperators.hh): componentwise */
static Real3 SUB3(Real3 a, Real3 b) { Real3 r = {{a.v[0] - b.v[0], a.v[1] - b.v[1], a.v[2] - b.v[2]}}; return r; }
real_type __CPROVER_uninterpreted_unit3c(real_type, real_type, real_type, int);
/* make_unit_vector as a Real3 (components uninterpreted) and scalar * Array (ArrayOperators.hh: componentwise IEEE product) */
static Real3 UNITVEC3R(Real3 p) { Real3 r = {{__CPROVER_uninterpreted_unit3c(p.v[0], p.v[1], p.v[2], 0), __CPROVER_uninterpreted_unit3c(p.v[0], p.v[1], p.v[2], 1), __CPROVER_uninterpreted_unit3c(p.v[0], p.v[1], p.v[2], 2)}}; return r; }
static Real3 SCALE3(real_type s, Real3 p) { Real3 r = {{s * p.v[0], s * p.v[1], s * p.v[2]}}; return r; }
#define UNITVEC(p) __CPROVER_uninterpreted_unit3((p).v[0], (p).v[1], (p).v[2])
/* Array operator/ scalar (ArrayOperators.hh): componentwise */
Dir3 __CPROVER_uninterpreted_asdir(real_type, real_type, real_type);       /* a 3-vector used as a direction WITHOUT normalisation: opaque value of its components */
static Dir3 DIVV3(Real3 a, real_type s) { return __CPROVER_uninterpreted_asdir(a.v[0] / s, a.v[1] / s, a.v[2] / s); }
#define PI 3.14159265358979323846
/* IEEE: a > b > 0 (finite)  =>  fl(a / b) > 1   (b + ulp(b) <= a, and ulp(b)/b > 2^-53) */
static real_type DIV1(real_type a, real_type b)
{
    real_type r = DIV(a, b);
    __CPROVER_assume(!(a > b && b > 0 && FINV(a)) || (r > 1 && FINV(r)));
    return r;
}
"""
URDH = "src/celeritas/random/distribution/UniformRealDistribution.hh"
CGC_RULES = BASE_RULES + [
    Rule(r"using LS = units::LightSpeed;", "", 1, note="alias dropped"),
    Rule(r"value_as<LS>\(", "(", "+", note="value_as<Q>(q) -> the real_type itself"),
    Rule(r"CELER_EXPECT\(shared\);", "", (0, 1), note="params validity (host-built) not modelled"),
    Rule(r"CELER_EXPECT\(dist_\);", "CELER_EXPECT(dist_->num_photons > 0 && dist_->step_length > 0 && dist_->material != INVALID_ID);", (0, 1), note="GeneratorDistributionData::operator bool (text checked)"),
    Rule(r"material\.material_id\(\)", "material->id", "*", note="MaterialView accessor"),
    Rule(r"auto const& (\w+) = dist_->points\[SP_(\w+)\];", r"GeneratorStepData const \1 = dist_->points[SP_\2];", "+", note="const reference -> const copy"),
    Rule(r"CerenkovDndxCalculator calc_dndx\(material, shared, dist_->charge\);", "real_type const calc_dndx_charge = dist_->charge;", 1, note="calculator object -> its charge argument"),
    Rule(r"\bcalc_dndx\(", "DNDX_call(calc_dndx_charge, ", "+", note="calculator call -> contract"),
    Rule(r"UniformRealDist\(", "URD_make(", "+", note="distribution constructor"),
    Rule(r"(?<![\w:])max\(", "fmax(", "*", note="celeritas::max<real_type> == std::fmax"),
    Rule(r"auto const& energy_grid = calc_refractive_index_\.grid\(\);", "GridExt const energy_grid = self->grid;", 1, note="grid accessor -> extents"),
    Rule(r"energy_grid\.(front|back)\(\)", r"energy_grid.\1", "+", note="NonuniformGrid::front()/back()"),
    Rule(r"calc_refractive_index_\(", "RI(self, ", "+", note="GenericCalculator call -> function of the energy"),
    Rule(r"inv_beta_\s*=\s*([^;/]+?) / ([^;]+);", r"inv_beta_ = DIV1(\1, (\2));", 1, note="1/beta_mean quotient -> uninterpreted with the sign and a > b lemmas"),
    RI_DIV,
    Rule(r"= (\w+)\.pos - (\w+)\.pos;", r"= SUB3(\1.pos, \2.pos);", "+", note="Array operator-"),
    Rule(r"make_unit_vector\((\w+)\)", r"UNITVEC(\1)", "*", note="make_unit_vector -> uninterpreted (free count: an edit may normalise differently; the postcondition decides)"),
    Rule(r"=\s*(delta_pos_|delta_pos)\s*/\s*([^;]+);", r"= DIVV3(\1, (\2));", "*", note="Array operator/ scalar (ArrayOperators.hh): componentwise"),
    MEMBERS_CG,
]


def check_urd_ctor(ctx):
    pc = ctx.func(URDH, r"^UniformRealDistribution<RealType>::UniformRealDistribution\(real_type a,\s*real_type b\)", [], name="UniformRealDistribution(a, b)", skip_init_list=True)
    if init_list(pc.head) != [("a_", "a"), ("delta_", "b - a")] or "CELER_EXPECT(a <= b);" not in pc.body:
        raise ExtractionDrift("UniformRealDistribution(a, b) is no longer ': a_(a), delta_(b - a) { CELER_EXPECT(a <= b); }'")
    bo = ctx.func(O + "GeneratorDistributionData.hh", r"struct GeneratorDistributionData\b.*?explicit CELER_FUNCTION operator bool\(\) const", [], name="GeneratorDistributionData::operator bool", spans_scope=True)
    if re.sub(r"\s+", " ", bo.body).strip() != "return num_photons > 0 && step_length > 0 && material;":
        raise ExtractionDrift("GeneratorDistributionData::operator bool changed: " + bo.body)


def cg_ctor_text(ctx):
    pc = ctx.span(CG, r"^CELER_FUNCTION\s+CerenkovGenerator::CerenkovGenerator\(MaterialView const& material,", r"\n\{\n.*?\n\}", [], name="CerenkovGenerator::CerenkovGenerator")
    k = pc.body.index("\n{\n")
    head, body = pc.body[:k], pc.body[k + 3: -1]
    il = init_list(head)
    want = {"dist_": "self->dist_ = dist;", "calc_refractive_index_": "self->grid = material->grid;", "sample_phi_": None}
    lines = []
    for mem, expr in il:
        if mem == "dist_" and expr.strip() == "dist":
            lines.append("    self->dist_ = dist;")
        elif mem == "calc_refractive_index_" and expr.strip() == "material.make_refractive_index_calculator()":
            lines.append("    self->grid = material->grid;      /* calc_refractive_index_(material.make_refractive_index_calculator()) */")
        elif mem == "sample_phi_":
            lines.append("    self->sample_phi_ = URD_make(%s);" % expr.replace("constants::pi", "PI"))
        else:
            raise ExtractionDrift("CerenkovGenerator initialiser %s(%s) not understood" % (mem, expr))
    from vkit.extract import lower_casts, GENERIC
    body = re.sub(r"//[^\n]*", "", body)
    body = lower_casts(body, ctx.report, "CerenkovGenerator::CerenkovGenerator")
    for r in GENERIC + CGC_RULES:
        body = r.apply(body, ctx.report, "CerenkovGenerator::CerenkovGenerator")
    return "\n".join(lines) + "\n" + body


def build_cerenkov_ctor(ctx):
    check_urd_ctor(ctx)
    body = cg_ctor_text(ctx)
    return (HDR + MODEL + CG_MODEL + CGC_MODEL + """
#define PRE (dist->points[SP_pre])
#define POST (dist->points[SP_post])
void CG_ctor(CerenkovGenerator* self, MaterialView const* material, GeneratorDistributionData const* dist)
__CPROVER_requires(__CPROVER_rw_ok(self, sizeof(*self)) && __CPROVER_r_ok(material, sizeof(*material)) && __CPROVER_r_ok(dist, sizeof(*dist)))
/* a valid distribution (operator bool), of this material, with the speeds the offload helper stores: 0 < beta <= 1, mean below 1 */
__CPROVER_requires(dist->num_photons > 0 && dist->step_length > 0 && FINV(dist->step_length) && dist->material != INVALID_ID && material->id == dist->material && FINV(dist->time) && FINV(dist->charge))
__CPROVER_requires(PRE.speed > 0 && PRE.speed <= 1 && POST.speed > 0 && POST.speed <= 1 && PRE.speed + POST.speed < 2)
/* the material's refractive-index grid: finite positive increasing photon energies */
__CPROVER_requires(FINV(material->grid.front) && FINV(material->grid.back) && material->grid.front > 0 && material->grid.front <= material->grid.back && material->grid.back <= 1e300)
__CPROVER_assigns(__CPROVER_object_whole(self))
__CPROVER_ensures(self->dist_ == dist && self->grid.front == material->grid.front && self->grid.back == material->grid.back)
/* energies are sampled over exactly the table's range */
__CPROVER_ensures(self->sample_energy_.a_ == material->grid.front && self->sample_energy_.delta_ == material->grid.back - material->grid.front)
/* 1/beta for the MEAN of the pre- and post-step speeds, above 1 */
__CPROVER_ensures(EQV(self->inv_beta_, __CPROVER_uninterpreted_div(2, PRE.speed + POST.speed)) && self->inv_beta_ > 1 && FINV(self->inv_beta_))
/* step vector and speed change: post - pre */
__CPROVER_ensures(EQV(self->delta_pos_.v[0], POST.pos.v[0] - PRE.pos.v[0]) && EQV(self->delta_pos_.v[1], POST.pos.v[1] - PRE.pos.v[1]) && EQV(self->delta_pos_.v[2], POST.pos.v[2] - PRE.pos.v[2]))
__CPROVER_ensures(self->delta_speed_ == POST.speed - PRE.speed && self->delta_speed_ >= -PRE.speed && self->delta_speed_ <= 1)
/* parent direction: the unit vector along the step */
__CPROVER_ensures(EQV(self->dir_, UNITVEC(self->delta_pos_)))
/* photon-density ramp along the step: dN/dx at the pre-step speed, its change to the post-step speed, and the rejection envelope max(pre, post) */
__CPROVER_ensures(self->dndx_pre_ == __CPROVER_uninterpreted_dndx(dist->charge, PRE.speed) && self->delta_num_photons_ == __CPROVER_uninterpreted_dndx(dist->charge, POST.speed) - self->dndx_pre_)
__CPROVER_ensures(self->sample_num_photons_.a_ == 0 && self->sample_num_photons_.delta_ >= self->dndx_pre_ && self->sample_num_photons_.delta_ >= __CPROVER_uninterpreted_dndx(dist->charge, POST.speed) && FINV(self->sample_num_photons_.delta_))
__CPROVER_ensures(FINV(self->sample_phi_.a_) && self->sample_phi_.delta_ >= 0 && FINV(self->sample_phi_.a_ + self->sample_phi_.delta_) && self->sample_phi_.a_ == 0 && self->sample_phi_.delta_ > 6.28 && self->sample_phi_.delta_ < 6.29)
/* ... which together are exactly the invariant CerenkovGenerator::operator() is verified under (c20_cerenkov_gen_call) */
__CPROVER_ensures(""" + CG_INV + """)
{""" + body + """}
void h_cgc(void)
{
    CerenkovGenerator g; MaterialView m; GeneratorDistributionData d;
    CG_ctor(&g, &m, &d);
    VERIF_CANARY();
}
""")


# ---- ScintillationGenerator::operator() --------------------------------------
class QuotientToUF:
    """`<numerator regex> / ( ... )` (balanced) -> DIV(numerator, (...))."""

    def __init__(self, num, fn="DIV", fires="+", note="quotient -> uninterpreted with the sign lemma"):
        self.num, self.fn, self.fires, self.note = num, fn, fires, note
        self.pat = "quotient[%s]" % num

    def apply(self, text, report, where):
        from vkit.extract import match_close
        n = 0
        pos = 0
        while True:
            m = re.compile(r"(%s)\s*/\s*\(" % self.num).search(text, pos)
            if not m:
                break
            o = m.end() - 1
            e = match_close(text, o, "(", ")")
            rep = "%s(%s, %s)" % (self.fn, m.group(1), text[o:e + 1])
            text = text[:m.start()] + rep + text[e + 1:]
            pos = m.start() + len(rep)
            n += 1
        if self.fires == "+" and n == 0:
            raise ExtractionDrift("rule %s fired 0 times in %s, expected +" % (self.pat, where))
        report.append({"where": where, "rule": self.pat, "fires": n, "expected": self.fires, "note": self.note})
        return text


SG_MODEL = """
typedef struct { real_type lambda_mean, lambda_sigma, rise_time, fall_time; } ScintRecord;
typedef struct { real_type mean_, stddev_; } NormalDist;       /* NormalDistribution: parameters (spare-value handling: c15_normal_*) */
typedef struct { real_type lambda_; } ExponentialDist;
typedef struct { GeneratorDistributionData const* dist_; UniformRealDist sample_cost_, sample_phi_; NormalDist sample_lambda_; bool is_neutral_; real_type delta_speed_; Real3 delta_pos_; } ScintillationGenerator;
ScintRecord g_comp;       /* ghost: the component record the selector picks: any VALID record of the material (ScintRecord::operator bool) */
real_type g_lambda;       /* ghost: the wavelength handed to wavelength_to_energy */
real_type __CPROVER_uninterpreted_nvto(real_type);
real_type __CPROVER_uninterpreted_expm1(real_type);
Dir3 __CPROVER_uninterpreted_scint_pol(real_type, real_type, real_type);
#define HC 1.0      /* h_planck * c_light: a positive constant (its value is irrelevant to what is decided) */
static ScintRecord SELECT_component(ScintillationGenerator const* self, Engine* rng) { ++g_draws; return g_comp; }
static void NORMAL_assign(NormalDist* d, real_type mean, real_type stddev)
{
    __CPROVER_assert(stddev > 0, "celer_expect: NormalDistribution stddev > 0");
    d->mean_ = mean; d->stddev_ = stddev;
}
/* NormalDistribution::operator(): ANY finite value -- the normal distribution has unbounded support (Box-Muller reaches |z| ~ 8.6 with 53-bit uniforms) */
real_type NORMAL_sample(NormalDist* d, Engine* rng) __CPROVER_requires(d != 0) __CPROVER_assigns(g_draws) __CPROVER_ensures(FINV(__CPROVER_return_value));
/* ExponentialDistribution(lambda)(rng) = -log(u) / lambda: non-negative for lambda > 0 (support not decided here: assumed) */
real_type EXP_sample(ExponentialDist const* d, Engine* rng) __CPROVER_requires(d != 0 && d->lambda_ > 0) __CPROVER_assigns(g_draws) __CPROVER_ensures(__CPROVER_return_value >= 0);
static UniformRealDist const URD_default = {0, 1};
/* native_value_to<MevEnergy>: division by a positive unit constant -- sign preserving; no over/underflow inside 1e-200 .. 1e200 */
static real_type NVTO(real_type x)
{
    real_type r = __CPROVER_uninterpreted_nvto(x);
    __CPROVER_assume(!(x >= 0) || r >= 0);
    __CPROVER_assume(!(x >= 1e-200 && x <= 1e200) || (r > 0 && FINV(r)));
    return r;
}
#define EXPM1(x) __CPROVER_uninterpreted_expm1(x)
/* a / b for finite a > 0, b > 0: positive unless it underflows, finite unless it overflows -- neither for 1e-150 <= a, b <= 1e150 */
static real_type DIVP(real_type a, real_type b)
{
    real_type r = DIV(a, b);
    __CPROVER_assume(!(a >= 1e-150 && a <= 1e150 && b >= 1e-150 && b <= 1e150) || (r >= 1e-200 && r <= 1e200));      /* |log10| <= 300 */
    return r;
}
"""
OU = O + "detail/OpticalUtils.hh"
MEMBERS_SG = Rule(r"(?<![\w.>])(dist_|shared_|sample_cost_|sample_phi_|sample_lambda_|is_neutral_|delta_speed_|delta_pos_)\b", r"self->\1", "+", note="data members -> self->")
TIME_QUOT = QuotientToUF(r"MUL\(u, dist_->step_length\)", note="time quotient -> uninterpreted with the sign lemma")
SG_RULES = COMMON_RULES + [
    Rule(r"ScintRecord const& component = \[&\] \{.*?\}\(\);", "ScintRecord const component = SELECT_component(self, rng);", 1, flags=16,
         note="component selection lambda (Selector over the material's yield pdf: c15_selector) -> ghost: any valid record; NOT decided here"),
    Rule(r"photon\.polarization = \[&\] \{.*?\}\(\);", "photon.polarization = __CPROVER_uninterpreted_scint_pol(cost, phi, URD_sample(&URD_default, rng));", 1, flags=16,
         note="polarisation lambda (3-vector trigonometry) -> uninterpreted function of (cost, phi, one draw); perpendicularity NOT decided"),
    Rule(r"sample_lambda_\s*=\s*NormalDistribution\{([^{}]*)\};", r"NORMAL_assign(&sample_lambda_, \1);", 1, note="distribution assignment"),
    Rule(r"ExponentialDist sample_time\(real_type\{1\} / component\.fall_time\);", "ExponentialDist const sample_time = {DIVP(1, component.fall_time)};", 1, note="ExponentialDistribution(lambda): lambda = 1 / fall_time"),
    Rule(r"real_type (\w+)\{\};", r"real_type \1 = 0;", "*", note="value initialisation"),
    Rule(r"sample_time\(rng\)", "EXP_sample(&sample_time, rng)", "+", note="distribution call -> contract"),
    Rule(r"sample_lambda_\(rng\)", "NORMAL_sample(&sample_lambda_, rng)", "+", note="distribution call -> contract (any finite value)"),
    Rule(r"sample_(cost|phi)_\(rng\)", r"URD_sample(&sample_\1_, rng)", "+", note="distribution call -> contract"),
    Rule(r"UniformRealDist\{\}\(rng\)", "URD_sample(&URD_default, rng)", "*", note="default UniformRealDistribution: [0, 1)"),
    Rule(r"RejectionSampler\(([^()]*)\)\(rng\)", r"REJ_sample(\1, 1, rng)", "+", note="RejectionSampler temporary -> stub (any outcome)"),
    Rule(r"-std::expm1\(-scint_time / component\.rise_time\)", "-EXPM1(DIV(-scint_time, component.rise_time))", (0, 1), note="expm1 and its argument -> uninterpreted"),
    MulToUF("MUL", note="products -> uninterpreted with assumed IEEE sign / monotonicity lemmas"),
    TIME_QUOT,
    MEMBERS_SG,
]
W2E_RULES = [
    Rule(r"native_value_to<units::MevEnergy>\(", "NVTO(", 1, note="unit conversion -> uninterpreted"),
    Rule(r"\(constants::h_planck \* constants::c_light\)\s*/\s*wavelength", "DIVP(HC, wavelength)", 1, note="h c / lambda -> uninterpreted quotient with the sign lemma"),
]
SG_INV = """(__CPROVER_rw_ok(self, sizeof(*self)) && __CPROVER_r_ok(self->dist_, sizeof(*self->dist_))
  && self->sample_cost_.a_ == -1 && self->sample_cost_.delta_ == 2
  && FINV(self->sample_phi_.a_) && self->sample_phi_.delta_ >= 0 && FINV(self->sample_phi_.a_ + self->sample_phi_.delta_)
  && self->dist_->points[SP_pre].speed > 0 && self->dist_->points[SP_pre].speed <= 1 && self->delta_speed_ >= -self->dist_->points[SP_pre].speed && self->delta_speed_ <= 1
  && self->dist_->step_length > 0 && FINV(self->dist_->step_length) && FINV(self->dist_->time))"""


def sg_loops(n_rej):
    return LoopContracts(["    __CPROVER_assigns(wavelength, g_draws)\n    __CPROVER_loop_invariant(1)\n"] * n_rej + [
        "    __CPROVER_assigns(scint_time, target, g_draws)\n    __CPROVER_loop_invariant(1)\n"])


def build_scint_call(ctx):
    w2e = ctx.func(OU, r"^wavelength_to_energy\(real_type wavelength\)", W2E_RULES, name="detail::wavelength_to_energy")
    text = ctx.read(SG)
    m = re.search(r"TrackInitializer ScintillationGenerator::operator\(\)\(Generator& rng\)\n\{.*?\n\}\n", text, flags=re.S)
    n_do = len(re.findall(r"\bdo\b", re.sub(r"//[^\n]*", "", m.group(0)))) if m else 0
    if n_do < 1:
        raise ExtractionDrift("ScintillationGenerator::operator() has no rejection loop")
    pc = ctx.func(SG, r"^CELER_FUNCTION TrackInitializer ScintillationGenerator::operator\(\)\(Generator& rng\)", SG_RULES + [sg_loops(n_do - 1)], name="ScintillationGenerator::operator()")
    return (HDR + MODEL + AXPY_CONTRACT + ";\n" + SG_MODEL + """
static real_type wavelength_to_energy(real_type wavelength)
{ g_lambda = wavelength;
""" + w2e.body + """}
void SG_call(ScintillationGenerator* self, Engine* rng, TrackInitializer* out)
__CPROVER_requires(""" + SG_INV + """ && __CPROVER_w_ok(out, sizeof(*out)) && g_fs_n == 0 && g_vpre == self->dist_->points[SP_pre].speed)
/* the selected component is a valid record (ScintRecord::operator bool) with wavelengths and times in a range where h c / lambda and 1 / fall_time neither overflow nor underflow */
__CPROVER_requires(g_comp.lambda_mean > 0 && g_comp.lambda_sigma > 0 && g_comp.rise_time >= 0 && g_comp.fall_time > 0 && g_comp.fall_time >= 1e-150 && g_comp.fall_time <= 1e150 && FINV(g_comp.lambda_mean) && FINV(g_comp.lambda_sigma) && FINV(g_comp.rise_time))
__CPROVER_assigns(g_draws, g_frac, g_lambda, g_fs_n, __CPROVER_object_whole(g_fs_cost), __CPROVER_object_whole(g_fs_phi), __CPROVER_object_whole(out), self->sample_lambda_)
/* energy: h c / lambda of a POSITIVE wavelength -- positive and finite (for a wavelength that does not over/underflow the quotient) */
__CPROVER_ensures(g_lambda > 0 && out->energy >= 0)
__CPROVER_ensures((g_lambda >= 1e-150 && g_lambda <= 1e150) ==> (out->energy > 0 && FINV(out->energy) && EQV(out->energy, __CPROVER_uninterpreted_nvto(__CPROVER_uninterpreted_div(HC, g_lambda)))))
/* direction: from_spherical of a polar cosine in [-1, 1] (isotropic) */
__CPROVER_ensures(g_fs_n == 1 && g_fs_cost[0] >= -1 && g_fs_cost[0] <= 1 && EQV(out->direction, __CPROVER_uninterpreted_from_spherical(g_fs_cost[0], g_fs_phi[0])))
/* position: pre + u * (post - pre), u in [0, 1]; the end point (u = 1) for a neutral parent */
__CPROVER_ensures(g_frac >= 0 && g_frac <= 1 && (self->is_neutral_ ==> g_frac == 1))
__CPROVER_ensures(EQV(out->position.v[0], FMA(g_frac, self->delta_pos_.v[0], self->dist_->points[SP_pre].pos.v[0]))
               && EQV(out->position.v[1], FMA(g_frac, self->delta_pos_.v[1], self->dist_->points[SP_pre].pos.v[1]))
               && EQV(out->position.v[2], FMA(g_frac, self->delta_pos_.v[2], self->dist_->points[SP_pre].pos.v[2])))
/* time: not earlier than the parent's pre-step time */
__CPROVER_ensures(out->time >= self->dist_->time)
{""" + pc.body + """}
void h_sg(void)
{
    ScintillationGenerator g; GeneratorDistributionData d; Engine* e; TrackInitializer out;
    g.dist_ = &d; g_fs_n = 0; g_vpre = d.points[SP_pre].speed;
    SG_call(&g, e, &out);
    VERIF_CANARY();
}
""")


# ---- ScintillationGenerator::ScintillationGenerator --------------------------
class ArrayArith:
    """Array<real_type,3> arithmetic as the constructors use it (ArrayOperators.hh / ArrayUtils.hh), lowered where it occurs:
    `a.pos - b.pos` -> SUB3(a.pos, b.pos); make_unit_vector(v) -> UNITVEC3R(v) (a Real3 of uninterpreted components); `s * <Real3 call>` -> SCALE3(s, ...)."""
    pat = "array-arith"

    def apply(self, text, report, where):
        from vkit.extract import match_close
        text, n1 = re.subn(r"(\w+)\.pos - (\w+)\.pos", r"SUB3(\1.pos, \2.pos)", text)
        text, n2 = re.subn(r"\bmake_unit_vector\(", "UNITVEC3R(", text)
        n3 = 0
        while True:
            m = re.search(r"([\w.>-]+)\s*\*\s*(UNITVEC3R|SUB3)\(", text)
            if not m:
                break
            o = m.end() - 1
            e = match_close(text, o, "(", ")")
            text = text[:m.start()] + "SCALE3(%s, %s%s)" % (m.group(1), m.group(2).replace("UNITVEC3R", "UNITVEC3R_").replace("SUB3", "SUB3_"), text[o:e + 1]) + text[e + 1:]
            n3 += 1
        text = text.replace("UNITVEC3R_(", "UNITVEC3R(").replace("SUB3_(", "SUB3(")
        if n1 == 0:
            raise ExtractionDrift("no `a.pos - b.pos` step vector in " + where)
        report.append({"where": where, "rule": self.pat, "fires": n1 + n2 + n3, "expected": "+", "note": "Array operator- / make_unit_vector / scalar * Array"})
        return text


SGC_RULES = BASE_RULES + [
    Rule(r"if \(shared_\.scintillation_by_particle\(\)\)", "if (shared->by_particle)", 1, note="params query -> flag"),
    Rule(r"CELER_EXPECT\(shared_\);", "", (0, 1), note="params validity (host-built) not modelled"),
    Rule(r"CELER_EXPECT\(dist_\);", "CELER_EXPECT(dist_->num_photons > 0 && dist_->step_length > 0 && dist_->material != INVALID_ID);", (0, 1), note="GeneratorDistributionData::operator bool (text checked)"),
    Rule(r"auto const& (\w+) = dist_->points\[SP_(\w+)\];", r"GeneratorStepData const \1 = dist_->points[SP_\2];", "+", note="const reference -> const copy"),
    ArrayArith(),
    MEMBERS_SG,
]


def sg_ctor_text(ctx):
    pc = ctx.span(SG, r"^CELER_FUNCTION\s+ScintillationGenerator::ScintillationGenerator\(", r"\n\{\n.*?\n\}", [], name="ScintillationGenerator::ScintillationGenerator")
    k = pc.body.index("\n{\n")
    head, body = pc.body[:k], pc.body[k + 3: -1]
    lines = []
    for mem, expr in init_list(head):
        e = expr.strip()
        if mem == "dist_" and e == "dist":
            lines.append("    self->dist_ = dist;")
        elif mem == "shared_" and e == "shared":
            lines.append("    /* shared_(shared): params reference */")
        elif mem in ("sample_cost_", "sample_phi_"):
            lines.append("    self->%s = URD_make(%s);" % (mem, e.replace("constants::pi", "PI")))
        elif mem == "is_neutral_":
            lines.append("    self->is_neutral_ = %s;" % e.replace("dist_.", "self->dist_->").replace("zero_quantity()", "0"))
        else:
            raise ExtractionDrift("ScintillationGenerator initialiser %s(%s) not understood" % (mem, expr))
    from vkit.extract import lower_casts, GENERIC
    body = re.sub(r"//[^\n]*", "", body)
    body = lower_casts(body, ctx.report, "ScintillationGenerator::ScintillationGenerator")
    for r in GENERIC + SGC_RULES:
        body = r.apply(body, ctx.report, "ScintillationGenerator::ScintillationGenerator")
    return "\n".join(lines) + "\n" + body


def build_scint_ctor(ctx):
    check_urd_ctor(ctx)
    body = sg_ctor_text(ctx)
    return (HDR + MODEL + CG_MODEL + CGC_MODEL + SG_MODEL + """
typedef struct { bool by_particle; } ScintShared;
#define PRE (dist->points[SP_pre])
#define POST (dist->points[SP_post])
void SG_ctor(ScintillationGenerator* self, ScintShared const* shared, GeneratorDistributionData const* dist)
__CPROVER_requires(__CPROVER_rw_ok(self, sizeof(*self)) && __CPROVER_r_ok(shared, sizeof(*shared)) && __CPROVER_r_ok(dist, sizeof(*dist)) && !shared->by_particle)
__CPROVER_requires(dist->num_photons > 0 && dist->step_length > 0 && FINV(dist->step_length) && dist->material != INVALID_ID && FINV(dist->time) && FINV(dist->charge))
/* speeds as the offload helper stores them: pre-step 0 < beta <= 1, post-step 0 <= beta <= 1 (a stopped parent) */
__CPROVER_requires(PRE.speed > 0 && PRE.speed <= 1 && POST.speed >= 0 && POST.speed <= 1)
__CPROVER_assigns(__CPROVER_object_whole(self))
__CPROVER_ensures(self->dist_ == dist && self->is_neutral_ == (dist->charge == 0))
__CPROVER_ensures(self->sample_cost_.a_ == -1 && self->sample_cost_.delta_ == 2 && self->sample_phi_.a_ == 0 && self->sample_phi_.delta_ > 6.28 && self->sample_phi_.delta_ < 6.29)
__CPROVER_ensures(EQV(self->delta_pos_.v[0], POST.pos.v[0] - PRE.pos.v[0]) && EQV(self->delta_pos_.v[1], POST.pos.v[1] - PRE.pos.v[1]) && EQV(self->delta_pos_.v[2], POST.pos.v[2] - PRE.pos.v[2]))
__CPROVER_ensures(self->delta_speed_ == POST.speed - PRE.speed)
/* ... exactly the invariant ScintillationGenerator::operator() is verified under (c20_scint_gen_call) */
__CPROVER_ensures(""" + SG_INV + """)
{""" + body + """}
void h_sgc(void)
{
    ScintillationGenerator g; ScintShared sh; GeneratorDistributionData d;
    SG_ctor(&g, &sh, &d);
    VERIF_CANARY();
}
""")


# ---- CerenkovDndxCalculator::operator() --------------------------------------
DN_MODEL = """
typedef struct { GridExt grid; real_type zsq_; } DndxCalculator;       /* refractive-index grid extents; charge squared */
real_type __CPROVER_uninterpreted_n(real_type);
real_type __CPROVER_uninterpreted_integral(real_type);
real_type __CPROVER_uninterpreted_ninv(real_type);
real_type g_n0;      /* ghost: first table value n(E_front) */
static real_type RI(DndxCalculator const* self, real_type energy) { real_type r = __CPROVER_uninterpreted_n(energy); __CPROVER_assume(r >= 1 && FINV(r)); return r; }
static real_type RI_at0(DndxCalculator const* self) { __CPROVER_assume(g_n0 >= 1 && FINV(g_n0)); return g_n0; }
#define INTEGRAL(e) __CPROVER_uninterpreted_integral(e)
#define RI_INV(x) __CPROVER_uninterpreted_ninv(x)
#define DNDX_CONST 1.0     /* alpha_fine_structure / (hbar_planck * c_light): a positive constant */
"""
ALGO = "src/corecel/math/Algorithms.hh"
DN_RULES = BASE_RULES + [
    Rule(r"calc_refractive_index_\.grid\(\)\.(front|back)\(\)", r"self->grid.\1", "+", note="grid extents"),
    Rule(r"calc_refractive_index_\[0\]", "RI_at0(self)", (0, 1), note="first table value"),
    Rule(r"calc_refractive_index_\.make_inverse\(\)\(", "RI_INV(", (0, 1), note="inverse table lookup -> uninterpreted"),
    Rule(r"calc_refractive_index_\(", "RI(self, ", "+", note="GenericCalculator call -> function of the energy"),
    Rule(r"calc_integral_\(", "INTEGRAL(", "*", note="angle-integral table lookup -> uninterpreted"),
    Rule(r"\(constants::alpha_fine_structure\s*/ \(constants::hbar_planck \* constants::c_light\)\)", "DNDX_CONST", (0, 1), note="positive physical constant"),
    Rule(r"real_type inv_beta = 1 / beta;", "real_type inv_beta = DIV(1, beta);", (0, 1), note="quotient -> uninterpreted with the sign lemma"),
    MulToUF("MUL", note="products -> uninterpreted with assumed IEEE sign lemmas"),
    Rule(r"(?<![\w.>])(zsq_)\b", r"self->\1", "*", note="data member"),
]


def build_dndx(ctx):
    cn = ctx.func(ALGO, r"CELER_CONSTEXPR_FUNCTION T clamp_to_nonneg\(T v\) noexcept", [], name="celeritas::clamp_to_nonneg")
    pc = ctx.func(DNDX, r"^CerenkovDndxCalculator::operator\(\)\(units::LightSpeed beta\)", DN_RULES, name="CerenkovDndxCalculator::operator()")
    return (HDR + MODEL + CG_MODEL.split("real_type __CPROVER_uninterpreted_n")[0] + DN_MODEL + "static real_type clamp_to_nonneg(real_type v)\n{" + cn.body + "}\n" + """
real_type DNDX_call(DndxCalculator const* self, real_type beta)
__CPROVER_requires(__CPROVER_r_ok(self, sizeof(*self)) && beta > 0 && beta <= 1 && FINV(self->grid.front) && FINV(self->grid.back) && self->zsq_ > 0)
__CPROVER_assigns()
/* below the Cerenkov threshold (1/beta above the largest refractive index, n at the top of the table: n increases with energy) NO photons are requested */
__CPROVER_ensures(__CPROVER_uninterpreted_div(1, beta) > __CPROVER_uninterpreted_n(self->grid.back) ==> __CPROVER_return_value == 0)
/* and the mean number per length is never negative */
__CPROVER_ensures(!(__CPROVER_return_value < 0))
{""" + pc.body + """}
void h_dn(void)
{
    DndxCalculator c; real_type b;
    DNDX_call(&c, b);
    VERIF_CANARY();
}
""")


# ---- offload helpers -----------------------------------------------------------
OFF_MODEL = """
typedef struct { real_type speed; Real3 pos; real_type time; size_type material; } OffloadPreStepData;
typedef struct { real_type charge, speed; } ParticleView;     /* ParticleTrackView::charge() / speed() */
typedef struct { real_type step_length; } SimView;            /* SimTrackView::step_length() */
static GeneratorDistributionData const EMPTY_DIST = {0, 0, 0, 0, INVALID_ID, {{0, {{0, 0, 0}}}, {0, {{0, 0, 0}}}}};      /* default member initialisers */
/* PoissonDistribution(lambda)(rng) / NormalDistribution(mean, sigma)(rng): any count / any finite value (supports: C15) */
size_type POISSON_sample(real_type lambda, Engine* rng) __CPROVER_assigns(g_draws) __CPROVER_ensures(1);
real_type NORMAL2_sample(real_type mean, real_type sigma, Engine* rng) __CPROVER_assigns(g_draws) __CPROVER_ensures(FINV(__CPROVER_return_value) && __CPROVER_return_value <= 4e18);
#define SAME3(a, b) (EQV((a).v[0], (b).v[0]) && EQV((a).v[1], (b).v[1]) && EQV((a).v[2], (b).v[2]))
/* what a filled distribution must carry: the parent's pre-step time, the step length, charge and material, the pre-step point from the cached pre-step data and the post-step point */
#define FILLED(out, self) ((out)->time == (self)->pre_step_->time && (out)->step_length == (self)->step_length_ && (out)->charge == (self)->charge_ && (out)->material == (self)->pre_step_->material \\
    && (out)->points[SP_pre].speed == (self)->pre_step_->speed && SAME3((out)->points[SP_pre].pos, (self)->pre_step_->pos) \\
    && (out)->points[SP_post].speed == (self)->post_step_.speed && SAME3((out)->points[SP_post].pos, (self)->post_step_.pos))
#define OFF_INV(self) (__CPROVER_r_ok(self, sizeof(*self)) && __CPROVER_r_ok((self)->pre_step_, sizeof(OffloadPreStepData)) && (self)->step_length_ > 0 && FINV((self)->step_length_) && FINV((self)->pre_step_->time) \\
    && (self)->pre_step_->material != INVALID_ID && (self)->pre_step_->speed > 0 && (self)->pre_step_->speed <= 1 && (self)->post_step_.speed >= 0 && (self)->post_step_.speed <= 1 && FINV((self)->charge_))
"""
OFF_FILL_RULES = BASE_RULES + [
    Rule(r"optical::GeneratorDistributionData (\w+);", r"GeneratorDistributionData \1 = EMPTY_DIST;", 1, note="default member initialisers"),
    Rule(r"return \{\};", "{ *out = EMPTY_DIST; return; }", (0, 1), note="empty result -> written through the result pointer"),
    Rule(r"return (data|result);", r"*out = \1; return;", 1, note="returned by value -> written through the result pointer"),
    Rule(r"PoissonDistribution<real_type>\(([^()]*)\)\(rng\)", r"POISSON_sample(\1, rng)", "+", note="distribution temporary -> stub (any count)"),
    Rule(r"\.points\[StepPoint::(pre|post)\]", r".points[SP_\1]", "+", note="EnumArray[StepPoint]"),
    Rule(r"pre_step_\.", "pre_step_->", "*", note="reference member -> pointer"),
]
CO_MODEL = """
typedef struct { real_type charge_, step_length_; OffloadPreStepData const* pre_step_; GeneratorStepData post_step_; real_type num_photons_per_len_; } CerenkovOffload;
"""
CO_RULES = OFF_FILL_RULES + [
    MulToUF("MUL", note="products -> uninterpreted"),
    Rule(r"(?<![\w.>])(charge_|step_length_|pre_step_|post_step_|num_photons_per_len_)\b", r"self->\1", "+", note="data members -> self->"),
]


def offload_ctor_lines(ctx, path, start, name, allowed):
    pc = ctx.span(path, start, r"\n\{\n.*?\n\}", [], name=name)
    k = pc.body.index("\n{\n")
    head, body = pc.body[:k], pc.body[k + 3: -1]
    lines = []
    for mem, expr in init_list(head):
        e = re.sub(r"\s+", " ", expr.strip())
        if (mem, e) not in allowed:
            raise ExtractionDrift("%s initialiser %s(%s) not understood" % (name, mem, expr))
        lines.append("    " + allowed[(mem, e)])
    body = re.sub(r"//[^\n]*", "", body)
    return "\n".join(lines) + "\n", body


OFF_INIT = {
    ("charge_", "particle.charge()"): "self->charge_ = particle->charge;",
    ("step_length_", "sim.step_length()"): "self->step_length_ = sim->step_length;",
    ("pre_step_", "step_data"): "self->pre_step_ = step_data;",
    ("post_step_", "{particle.speed(), pos}"): "self->post_step_.speed = particle->speed; self->post_step_.pos = *pos;",
    ("shared_", "shared"): "self->shared_ = shared;",
}
CO_CTOR_RULES = BASE_RULES + [
    Rule(r"CELER_EXPECT\(pre_step_\);", "CELER_EXPECT(pre_step_->material != INVALID_ID && pre_step_->speed > 0);", 1, note="OffloadPreStepData::operator bool (text checked)"),
    Rule(r"units::LightSpeed beta\(", "real_type const beta = (", 1, note="Quantity construction -> value"),
    Rule(r"real_type\{0\.5\}", "0.5", "*", note="braced literal"),
    Rule(r"optical::CerenkovDndxCalculator calculate_dndx\(mat, shared, charge_\);", "real_type const calc_dndx_charge = charge_;", 1, note="calculator object -> its charge argument"),
    Rule(r"\bcalculate_dndx\(", "DNDX_call(calc_dndx_charge, ", "+", note="calculator call -> contract"),
    Rule(r"pre_step_\.", "pre_step_->", "*", note="reference member -> pointer"),
    Rule(r"(?<![\w.>])(charge_|step_length_|pre_step_|post_step_|num_photons_per_len_)\b", r"self->\1", "+", note="data members -> self->"),
]


def check_prestep_bool(ctx):
    bo = ctx.func(O + "OffloadData.hh", r"struct OffloadPreStepData\b.*?explicit CELER_FUNCTION operator bool\(\) const", [], name="OffloadPreStepData::operator bool", spans_scope=True)
    if re.sub(r"\s+", " ", bo.body).strip() != "return material && speed > zero_quantity();":
        raise ExtractionDrift("OffloadPreStepData::operator bool changed: " + bo.body)


def lower(ctx, body, rules, where):
    from vkit.extract import lower_casts, GENERIC
    body = lower_casts(body, ctx.report, where)
    for r in GENERIC + rules:
        body = r.apply(body, ctx.report, where)
    return body


def build_cerenkov_offload(ctx):
    check_prestep_bool(ctx)
    init, body = offload_ctor_lines(ctx, CO, r"^CELER_FUNCTION\s+CerenkovOffload::CerenkovOffload\(", "CerenkovOffload::CerenkovOffload", OFF_INIT)
    body = lower(ctx, body, CO_CTOR_RULES, "CerenkovOffload::CerenkovOffload")
    pc = ctx.func(CO, r"^CerenkovOffload::operator\(\)\(Generator& rng\)", CO_RULES, name="CerenkovOffload::operator()")
    return (HDR + MODEL + CG_MODEL + CGC_MODEL + OFF_MODEL + CO_MODEL + """
static void CO_ctor(CerenkovOffload* self, ParticleView const* particle, SimView const* sim, Real3 const* pos, OffloadPreStepData const* step_data)
{""" + init + body + """}
static void CO_call(CerenkovOffload const* self, Engine* rng, GeneratorDistributionData* out)
{""" + pc.body + """}
/* construct and sample: what CerenkovOffloadExecutor does with one track */
void CO_offload(ParticleView const* particle, SimView const* sim, Real3 const* pos, OffloadPreStepData const* step_data, Engine* rng, GeneratorDistributionData* out)
__CPROVER_requires(__CPROVER_r_ok(particle, sizeof(*particle)) && __CPROVER_r_ok(sim, sizeof(*sim)) && __CPROVER_r_ok(pos, sizeof(*pos)) && __CPROVER_r_ok(step_data, sizeof(*step_data)) && __CPROVER_w_ok(out, sizeof(*out)))
/* a charged particle that moved, with cached pre-step data; speeds are fractions of c */
__CPROVER_requires(particle->charge != 0 && FINV(particle->charge) && sim->step_length > 0 && FINV(sim->step_length) && step_data->material != INVALID_ID && FINV(step_data->time)
                   && step_data->speed >= 1e-300 && step_data->speed <= 1 && particle->speed >= 0 && particle->speed <= 1)      /* (a speed that is not a denormal number: half of it is still positive) */
__CPROVER_assigns(g_draws, __CPROVER_object_whole(out))
/* the mean photon density is dN/dx at the MEAN of the pre- and post-step speeds; when it is zero (below threshold) NO photons are requested and nothing is sampled */
__CPROVER_ensures(__CPROVER_uninterpreted_dndx(particle->charge, 0.5 * (step_data->speed + particle->speed)) == 0 ==> (out->num_photons == 0 && g_draws == __CPROVER_old(g_draws)))
/* a non-empty request carries the parent's step: pre-step time, step length, charge, material, the cached pre-step point and the current (post-step) point */
__CPROVER_ensures(out->num_photons > 0 ==> (out->time == step_data->time && out->step_length == sim->step_length && out->charge == particle->charge && out->material == step_data->material
    && out->points[SP_pre].speed == step_data->speed && SAME3(out->points[SP_pre].pos, step_data->pos) && out->points[SP_post].speed == particle->speed && SAME3(out->points[SP_post].pos, *pos)))
{
    CerenkovOffload off;
    CO_ctor(&off, particle, sim, pos, step_data);
    CO_call(&off, rng, out);
}
void h_co(void)
{
    ParticleView p; SimView s; Real3 pos; OffloadPreStepData pre; Engine* e; GeneratorDistributionData out;
    CO_offload(&p, &s, &pos, &pre, e, &out);
    VERIF_CANARY();
}
""")


SO_MODEL = """
typedef struct { real_type yield_per_energy; size_type yield_pdf_size, components_size; } MatScintSpectrumRecord;
typedef struct { bool by_particle; MatScintSpectrumRecord const* materials; size_type n_materials; real_type const* resolution_scale; size_type n_resolution_scale; } ScintShared;
typedef struct { real_type charge_, step_length_; OffloadPreStepData const* pre_step_; GeneratorStepData post_step_; ScintShared const* shared_; real_type mean_num_photons_; } ScintillationOffload;
#define POISSON_THRESHOLD 10
static size_type COLL_index(size_type i, size_type n, char const* what) { __CPROVER_assert(i < n, "collection index in range"); return i; }
"""
SO_COMMON = [
    Rule(r"shared_\.scintillation_by_particle\(\)", "shared_->by_particle", "*", note="params query -> flag"),
    Rule(r"shared_\.materials\.size\(\)", "shared_->n_materials", "*", note="Collection::size"),
    Rule(r"shared_\.materials\[([^\[\]]*)\]", r"shared_->materials[COLL_index(\1, shared_->n_materials, 0)]", "*", note="Collection[] with its range check"),
    Rule(r"shared_\.resolution_scale\[([^\[\]]*)\]", r"shared_->resolution_scale[COLL_index(\1, shared_->n_resolution_scale, 0)]", "*", note="Collection[] with its range check"),
    Rule(r"CELER_EXPECT\(shared_\);", "", (0, 1), note="params validity (host-built) not modelled"),
    Rule(r"poisson_threshold\(\)", "POISSON_THRESHOLD", "*", note="constexpr threshold (value checked)"),
]
SO_CTOR_RULES = BASE_RULES + SO_COMMON + [
    Rule(r"CELER_EXPECT\(pre_step_\);", "CELER_EXPECT(pre_step_->material != INVALID_ID && pre_step_->speed > 0);", 1, note="OffloadPreStepData::operator bool (text checked)"),
    Rule(r"auto const& material = ", "MatScintSpectrumRecord const material = ", 1, note="const reference -> const copy"),
    Rule(r"if \(material\)", "if (material.yield_per_energy > 0 && material.yield_pdf_size != 0 && material.yield_pdf_size == material.components_size)", 1, note="MatScintSpectrumRecord::operator bool (text checked)"),
    Rule(r"pre_step_\.", "pre_step_->", "*", note="reference member -> pointer"),
    MulToUF("MUL", note="products -> uninterpreted with assumed IEEE sign lemmas"),
    Rule(r"(?<![\w.>])(charge_|step_length_|pre_step_|post_step_|shared_|mean_num_photons_)\b", r"self->\1", "+", note="data members -> self->"),
]
SO_RULES = OFF_FILL_RULES + SO_COMMON + [
    Rule(r"NormalDistribution<real_type>\(([^()]*), ([^()]*)\)\(rng\)", r"NORMAL2_sample(\1, \2, rng)", (0, 1), note="distribution temporary -> stub (any finite value)"),
    Rule(r"real_type\{0\.5\}", "0.5", "*", note="braced literal"),
    MulToUF("MUL", note="products -> uninterpreted"),
    Rule(r"(?<![\w.>])(charge_|step_length_|pre_step_|post_step_|shared_|mean_num_photons_)\b", r"self->\1", "+", note="data members -> self->"),
]


def build_scint_offload(ctx):
    check_prestep_bool(ctx)
    text = ctx.read(SO)
    if not re.search(r"poisson_threshold\(\)\s*\{\s*return 10;\s*\}", text):
        raise ExtractionDrift("ScintillationOffload::poisson_threshold() is no longer 10")
    mb = ctx.func(O + "ScintillationData.hh", r"struct MatScintSpectrumRecord\b.*?explicit CELER_FUNCTION operator bool\(\) const", [], name="MatScintSpectrumRecord::operator bool", spans_scope=True)
    if re.sub(r"\s+", " ", mb.body).strip() != "return yield_per_energy > 0 && !yield_pdf.empty() && yield_pdf.size() == components.size();":
        raise ExtractionDrift("MatScintSpectrumRecord::operator bool changed")
    cn = ctx.func(ALGO, r"CELER_CONSTEXPR_FUNCTION T clamp_to_nonneg\(T v\) noexcept", [], name="celeritas::clamp_to_nonneg")
    init, body = offload_ctor_lines(ctx, SO, r"^CELER_FUNCTION ScintillationOffload::ScintillationOffload\(", "ScintillationOffload::ScintillationOffload", OFF_INIT)
    body = lower(ctx, body, SO_CTOR_RULES, "ScintillationOffload::ScintillationOffload")
    pc = ctx.func(SO, r"^ScintillationOffload::operator\(\)\(Generator& rng\)", SO_RULES, name="ScintillationOffload::operator()")
    return (HDR + MODEL + OFF_MODEL + SO_MODEL + "static real_type clamp_to_nonneg(real_type v)\n{" + cn.body + "}\n" + """
static void SO_ctor(ScintillationOffload* self, ParticleView const* particle, SimView const* sim, Real3 const* pos, real_type energy_deposition, ScintShared const* shared, OffloadPreStepData const* step_data)
{    self->mean_num_photons_ = 0;    /* default member initialiser */
""" + init + body + """}
static void SO_call(ScintillationOffload const* self, Engine* rng, GeneratorDistributionData* out)
{""" + pc.body + """}
void SO_offload(ParticleView const* particle, SimView const* sim, Real3 const* pos, real_type energy_deposition, ScintShared const* shared, OffloadPreStepData const* step_data, Engine* rng, GeneratorDistributionData* out)
__CPROVER_requires(__CPROVER_r_ok(particle, sizeof(*particle)) && __CPROVER_r_ok(sim, sizeof(*sim)) && __CPROVER_r_ok(pos, sizeof(*pos)) && __CPROVER_r_ok(step_data, sizeof(*step_data)) && __CPROVER_w_ok(out, sizeof(*out)))
__CPROVER_requires(__CPROVER_r_ok(shared, sizeof(*shared)) && !shared->by_particle && shared->n_materials >= 1 && shared->n_materials <= 64 && shared->n_resolution_scale == shared->n_materials
                   && __CPROVER_r_ok(shared->materials, shared->n_materials * sizeof(MatScintSpectrumRecord)) && __CPROVER_r_ok(shared->resolution_scale, shared->n_materials * sizeof(real_type)))
__CPROVER_requires(FINV(particle->charge) && sim->step_length > 0 && FINV(sim->step_length) && step_data->material < shared->n_materials && FINV(step_data->time)
                   && step_data->speed > 0 && step_data->speed <= 1 && particle->speed >= 0 && particle->speed <= 1 && FINV(energy_deposition) && energy_deposition >= 0)
__CPROVER_assigns(g_draws, __CPROVER_object_whole(out))
/* no energy deposited, or a material without scintillation data: NO photons requested, nothing sampled */
__CPROVER_ensures((energy_deposition == 0 || !(shared->materials[step_data->material].yield_per_energy > 0)) ==> (out->num_photons == 0 && g_draws == __CPROVER_old(g_draws)))
/* a non-empty request carries the parent's step */
__CPROVER_ensures(out->num_photons > 0 ==> (out->time == step_data->time && out->step_length == sim->step_length && out->charge == particle->charge && out->material == step_data->material
    && out->points[SP_pre].speed == step_data->speed && SAME3(out->points[SP_pre].pos, step_data->pos) && out->points[SP_post].speed == particle->speed && SAME3(out->points[SP_post].pos, *pos)))
{
    ScintillationOffload off;
    SO_ctor(&off, particle, sim, pos, energy_deposition, shared, step_data);
    SO_call(&off, rng, out);
}
void h_so(void)
{
    ParticleView p; SimView s; Real3 pos; OffloadPreStepData pre; Engine* e; GeneratorDistributionData out; ScintShared sh; real_type edep; size_type n;
    __CPROVER_assume(n >= 1 && n <= 64);
    MatScintSpectrumRecord* mats = malloc(n * sizeof(MatScintSpectrumRecord)); real_type* rs = malloc(n * sizeof(real_type)); __CPROVER_assume(mats != 0 && rs != 0);
    sh.materials = mats; sh.resolution_scale = rs; sh.n_materials = n; sh.n_resolution_scale = n;
    SO_offload(&p, &s, &pos, edep, &sh, &pre, e, &out);
    VERIF_CANARY();
}
""")


UNITS = [
    Unit("c20_axpy", build_axpy, "h_axpy", enforce="AXPY", unwind=4, timeout=120, backend=["sat"],
         must_have=[r"AXPY.postcondition", r"unwind"], checks=["--bounds-check", "--pointer-check"],
         assumptions=["fma uninterpreted (its value is not decided)"],
         note="axpy<real_type,3>: y[i] <- fma(a, x[i], y[i]) for each of the three components with ONE scale factor (loop fully unwound, N = 3 is a constant: complete)"),
    Unit("c20_scint_gen_call", build_scint_call, "h_sg", enforce="SG_call", replace=["URD_sample", "REJ_sample", "AXPY", "NORMAL_sample", "EXP_sample"], loop_contracts=True, timeout=600, object_bits=10,
         backend=["sat", "cvc5", "z3"], must_have=[r"SG_call.postcondition", r"loop_invariant_step", r"from_spherical", r"wavelength > 0", r"AXPY.precondition"],
         checks=["--bounds-check", "--pointer-check"], replay={"src": "replay/c20.cc", "argv": lambda inputs, fl: [["scint_energy_battery"], ["photon_battery"]]},
         assumptions=["component selection: any valid ScintRecord (Selector: c15_selector)", "polarisation lambda uninterpreted: perpendicularity NOT decided", "from_spherical value uninterpreted",
                      "NormalDistribution: any finite value; ExponentialDistribution: non-negative (assumed)", "IEEE sign / monotonicity lemmas for products, quotients and unit conversions (assumed)",
                      "termination of the rejection loops not decided"],
         note="ScintillationGenerator::operator(): energy = h c / lambda of a positive wavelength; isotropic direction argument in [-1,1]; position = pre + u*(post-pre), u in [0,1] (u = 1 for a neutral parent); "
              "time >= pre-step time on both time-profile branches"),
    Unit("c20_scint_gen_ctor", build_scint_ctor, "h_sgc", enforce="SG_ctor", replay={"src": "replay/c20.cc", "argv": lambda inputs, fl: [["photon_battery"]]}, timeout=300, backend=["sat", "cvc5"],
         must_have=[r"SG_ctor.postcondition", r"celer_expect"], checks=["--bounds-check", "--pointer-check"],
         assumptions=["scintillation by particle type is unimplemented in the source (CELER_ASSERT_UNREACHABLE): excluded by precondition"],
         note="ScintillationGenerator constructor: establishes the invariant the call unit requires -- cos(theta) sampled over [-1,1], phi over [0,2pi), delta_pos = post - pre, delta_speed = post - pre >= -pre, neutral flag"),
    Unit("c20_dndx_call", build_dndx, "h_dn", enforce="DNDX_call", timeout=300, backend=["sat", "cvc5"],
         must_have=[r"DNDX_call.postcondition", r"celer_expect"], checks=["--bounds-check", "--pointer-check"],
         assumptions=["table lookups (refractive index, its inverse, the angle integral) uninterpreted; refractive-index values finite and >= 1; IEEE sign lemmas for products / quotients",
                      "the value of dN/dx above threshold is NOT decided"],
         note="CerenkovDndxCalculator::operator(): zero below the Cerenkov threshold (1/beta > n at the top of the table) and never negative"),
    Unit("c20_cerenkov_offload", build_cerenkov_offload, "h_co", enforce="CO_offload", replace=["POISSON_sample"], timeout=300, backend=["sat", "cvc5"],
         must_have=[r"CO_offload.postcondition", r"celer_expect"], checks=["--bounds-check", "--pointer-check"],
         assumptions=["CerenkovDndxCalculator by its c20_dndx_call contract", "PoissonDistribution: any count (support: C15)"],
         note="CerenkovOffload constructor + operator() (real bodies, composed): dN/dx taken at the MEAN speed; zero density => no photons requested and nothing sampled; a non-empty request carries the parent's "
              "pre-step time, step length, charge, material, cached pre-step point and post-step point"),
    Unit("c20_scint_offload", build_scint_offload, "h_so", enforce="SO_offload", replace=["POISSON_sample", "NORMAL2_sample"], timeout=300, backend=["sat", "cvc5"],
         must_have=[r"SO_offload.postcondition", r"celer_expect", r"collection index"], checks=["--bounds-check", "--pointer-check"],
         assumptions=["PoissonDistribution: any count; NormalDistribution: any finite value <= 4e18 (supports: C15)", "scintillation by particle type unimplemented in the source: excluded by precondition"],
         note="ScintillationOffload constructor + operator() (real bodies, composed): no deposit or no scintillation data => no photons requested, nothing sampled; collection indices in range; a non-empty request "
              "carries the parent's step data"),
    Unit("c20_cerenkov_gen_ctor", build_cerenkov_ctor, "h_cgc", enforce="CG_ctor", replay={"src": "replay/c20.cc", "argv": lambda inputs, fl: [["photon_battery"]]}, timeout=600, backend=["sat", "cvc5", "z3"],
         must_have=[r"CG_ctor.postcondition", r"celer_expect", r"celer_assert"], checks=["--bounds-check", "--pointer-check"],
         assumptions=["CerenkovDndxCalculator by its c20_dndx_call contract (finite, non-negative function of charge and speed)", "make_unit_vector uninterpreted",
                      "IEEE quotient lemmas (sign; a > b > 0 => a/b > 1), assumed", "refractive-index table values finite and >= 1 (assumed)"],
         note="CerenkovGenerator constructor: establishes every clause of the invariant the call unit requires -- energies sampled over exactly the table range, 1/beta of the MEAN speed (> 1), "
              "delta_pos = post - pre, delta_speed = post - pre >= -pre, dN/dx ramp and envelope; its own EXPECT/ASSERT hold"),
    Unit("c20_cerenkov_gen_call", build_cerenkov_call, "h_cg", enforce="CG_call", replace=["URD_sample", "REJ_sample", "AXPY"], loop_contracts=True, replay={"src": "replay/c20.cc", "argv": lambda inputs, fl: [["photon_battery"]]}, timeout=600, object_bits=10,
         backend=["sat", "cvc5", "z3"], must_have=[r"CG_call.postcondition", r"loop_invariant_step", r"sqrt.domain", r"from_spherical", r"URD_sample.precondition", r"AXPY.precondition"],
         checks=["--bounds-check", "--pointer-check"],
         assumptions=["from_spherical / rotate values uninterpreted: unit norm and orthogonality of what they return are NOT decided (trigonometric FP)",
                      "IEEE sign / monotonicity lemmas for products, quotients, sqrt and the unit conversion (assumed)",
                      "refractive-index table values finite and >= 1 (assumed)", "termination of the three rejection loops not decided",
                      "UniformRealDistribution by its c15_uniform_real contract; RejectionSampler: any outcome"],
         note="CerenkovGenerator::operator(): photon energy finite, positive and inside the table range; cone arguments cos(theta) = (1/beta)/n(E) in [0,1] with the photon's own E; polarisation built from "
              "(-sin(theta), same phi) about the same axis; position = pre + u*(post-pre) with one u in [0,1]; time >= pre-step time"),
]
