"""C14: physics table lookups (index safety, extrapolation and scaling branches) + shared grid/loss units."""
from vkit.extract import Rule, NamedLambda
from vkit.runner import Unit
from units.c01 import Q_RULES

XSC = "src/celeritas/grid/XsCalculator.hh"
RNC = "src/celeritas/grid/RangeCalculator.hh"

HDR = '#include "celer.h"\n'

CALC_MODEL = """
#include <stdlib.h>
typedef struct { size_type size; real_type front; real_type back; real_type delta; } UniformGridData;
typedef struct { size_type begin_, end_; } ItemRange;     /* ItemRange<real_type>: [begin, end) into the reals collection */
typedef struct { UniformGridData log_energy; size_type prime_index; ItemRange value; } XsGridData;
typedef struct { real_type const* ptr; size_type size; } Values;
typedef struct { UniformGridData const* data_; } UniformGrid;
typedef struct { XsGridData const* data_; Values const* reals_; UniformGrid loge_grid_; } XsCalculator;
#define EQV(a, b) ((a) == (b) || (__CPROVER_isnand(a) && __CPROVER_isnand(b)))   /* same value (NaN matches NaN) */
#define FIN(x) (!__CPROVER_isnand(x) && !__CPROVER_isinfd(x))
#define NO_SCALING ((size_type)-1)   /* XsGridData::no_scaling() */
/* XsGridData::operator bool (+ UniformGridData::operator bool) */
#define XSG_VALID(d) ((d)->log_energy.size >= 2 && (d)->log_energy.delta > 0 && (d)->log_energy.front < (d)->log_energy.back \\
    && ((d)->value.end_ - (d)->value.begin_) >= 2 && (d)->value.begin_ <= (d)->value.end_ \\
    && ((d)->prime_index < (d)->log_energy.size || (d)->prime_index == NO_SCALING) && (d)->log_energy.size == ((d)->value.end_ - (d)->value.begin_))
/* transcendental functions: uninterpreted (the results hold for ANY log/exp; functional consistency only) */
double __CPROVER_uninterpreted_log(double);
double __CPROVER_uninterpreted_exp(double);
#define STD_LOG(x) __CPROVER_uninterpreted_log(x)
#define STD_EXP(x) __CPROVER_uninterpreted_exp(x)
/* LinearInterpolator<real_type>{{x0,y0},{x1,y1}}(x): uninterpreted (interpolation accuracy / containment is NOT decided) */
double __CPROVER_uninterpreted_interp(double, double, double, double, double);
double __CPROVER_uninterpreted_fdiv(double, double);
#define FDIV(a, b) __CPROVER_uninterpreted_fdiv((a), (b))
/* UniformGrid members: contracts from units c18_ug_find / c18_ug_index */
static size_type UG_size(UniformGrid const* g) { return g->data_->size; }
static real_type UG_front(UniformGrid const* g) { return g->data_->front; }
static real_type UG_back(UniformGrid const* g) { return g->data_->back; }
size_type g_bin;   /* ghost: the bin UniformGrid::find returned */
size_type UG_find(UniformGrid const* g, real_type value)
__CPROVER_requires(g != 0 && g->data_ != 0)
__CPROVER_requires(value >= g->data_->front && value < g->data_->back)     /* find's own CELER_EXPECT: checked at the call site */
__CPROVER_assigns(g_bin)
__CPROVER_ensures(__CPROVER_return_value < g->data_->size - 1 && g_bin == __CPROVER_return_value)   /* the c18_ug_find postcondition (no wrap-around reading of bin + 1 < size) */
;
double __CPROVER_uninterpreted_gridpoint(double, double, size_type);
/* operator[]: its contract (c18_ug_index: requires i < size, returns front + delta*i) is deterministic, so the call is encoded as
 * "assert the precondition, return the value" with the value an uninterpreted function of (front, delta, i) */
static real_type UG_index(UniformGrid const* g, size_type i)
{
    __CPROVER_assert(i < g->data_->size, "UG_index.precondition: UniformGrid::operator[] i < size");
    return __CPROVER_uninterpreted_gridpoint(g->data_->front, g->data_->delta, i);
}
"""

XS_BASIC = [
    Rule(r"\b(\w+) /= ([^;]+);", r"\1 = FDIV(\1, \2);", "*", note="FP division -> uninterpreted function (the unit decides WHICH quotient is formed, not its value; SMT needs minutes per double division)"),
    Rule(r"std::log\(", "STD_LOG(", "*", note="std::log -> uninterpreted function"),
    Rule(r"std::exp\(", "STD_EXP(", "*", note="std::exp -> uninterpreted function"),
    Rule(r"this->get\(", "XS_get(self, ", "*", note="member call"),
    Rule(r"loge_grid_\.(front|back|size)\(\)", r"UG_\1(&self->loge_grid_)", "*", note="UniformGrid accessor"),
    Rule(r"loge_grid_\[([^\[\]]*)\]", r"UG_index(&self->loge_grid_, \1)", "*", note="UniformGrid::operator[] -> stub with the c18_ug_index contract"),
    Rule(r"data_\.prime_index", "self->data_->prime_index", "*", note="const& member"),
]
XS_RULES = Q_RULES + [
    Rule(r"LinearInterpolator<real_type> interpolate_xs\(\s*\{([^{}]*),([^{}]*)\},\s*\{([^{}]*),([^{}]*)\}\);", r"real_type ip_x0_ = \1, ip_y0_ = \2, ip_x1_ = \3, ip_y1_ = \4;", 1, note="LinearInterpolator construction -> its four arguments"),
    Rule(r"std::log\(", "STD_LOG(", "*", note="std::log -> uninterpreted function"),
    Rule(r"std::exp\(", "STD_EXP(", "*", note="std::exp -> uninterpreted function"),
    NamedLambda("calc_extrapolated", "real_type"),
    Rule(r"\b(\w+) /= ([^;]+);", r"\1 = FDIV(\1, \2);", "*", note="FP division -> uninterpreted function (the unit decides WHICH quotient is formed, not its value)"),
    Rule(r"this->get\(", "XS_get(self, ", "*", note="member call"),
    Rule(r"loge_grid_\.(front|back|size)\(\)", r"UG_\1(&self->loge_grid_)", "*", note="UniformGrid accessor"),
    Rule(r"loge_grid_\.find\(", "UG_find(&self->loge_grid_, ", "*", note="UniformGrid::find -> stub with the c18_ug_find contract"),
    Rule(r"loge_grid_\[([^\[\]]*)\]", r"UG_index(&self->loge_grid_, \1)", "*", note="UniformGrid::operator[] -> stub with the c18_ug_index contract"),
    Rule(r"data_\.prime_index", "self->data_->prime_index", "*", note="const& member"),
    Rule(r"auto result = interpolate_xs\(([^()]*)\);", r"real_type result = __CPROVER_uninterpreted_interp(ip_x0_, ip_y0_, ip_x1_, ip_y1_, \1);", (0, 1), note="interpolator call -> uninterpreted function of (x0,y0,x1,y1,x)"),
    Rule(r"return interpolate_xs\(([^()]*)\);", r"return __CPROVER_uninterpreted_interp(ip_x0_, ip_y0_, ip_x1_, ip_y1_, \1);", (0, 1), note="interpolator call -> uninterpreted function"),
]


def xs_get(ctx, fname, locator):
    pc = ctx.func(fname, locator, [
        Rule(r"data_\.value\.size\(\)", "(self->data_->value.end_ - self->data_->value.begin_)", "*", note="ItemRange::size()"),
        Rule(r"reals_\.size\(\)", "self->reals_->size", "*", note="Collection::size()"),
        Rule(r"reals_\[data_\.value\[index\]\]", "(*VAL_AT(self, index))", 1, note="ItemRange[index] (asserts index < size) then Collection[id] (asserts id < size)"),
    ], name=locator.split("::")[0].split()[-1] + "::get")
    return pc


VAL_AT = """
static real_type const* VAL_AT(XsCalculator const* self, size_type index)
{
    __CPROVER_assert(index < self->data_->value.end_ - self->data_->value.begin_, "celer_expect: ItemRange::operator[] i < size");
    size_type id = self->data_->value.begin_ + index;
    __CPROVER_assert(id < self->reals_->size, "celer_expect: Collection::operator[] i < size");
    return &self->reals_->ptr[id];
}
"""
CALC_OK = ("self != 0 && self->data_ != 0 && self->reals_ != 0 && self->loge_grid_.data_ == &self->data_->log_energy && XSG_VALID(self->data_) "
           "&& self->data_->value.end_ <= self->reals_->size && self->reals_->size <= 100000 && __CPROVER_r_ok(self->reals_->ptr, self->reals_->size * sizeof(real_type))")
VAL = "self->reals_->ptr[self->data_->value.begin_ + (%s)]"

CALC_HARNESS = """
void h_calc(void)
{
    XsGridData d; size_type nreals; __CPROVER_assume(nreals <= 100000);
    real_type* r = malloc(nreals * sizeof(real_type)); __CPROVER_assume(r != 0);
    Values vals = {r, nreals};
    XsCalculator c = {&d, &vals, {&d.log_energy}};
    real_type e; size_type i;
    %s
    VERIF_CANARY();
}
"""


def build_xs_get(ctx):
    pc = xs_get(ctx, XSC, r"CELER_FUNCTION real_type XsCalculator::get\(size_type index\) const")
    return (HDR + CALC_MODEL + VAL_AT + """
real_type XS_get(XsCalculator const* self, size_type index)
__CPROVER_requires(""" + CALC_OK + """)
__CPROVER_requires(index < self->data_->value.end_ - self->data_->value.begin_)    /* own CELER_EXPECT */
__CPROVER_assigns()
__CPROVER_ensures(__CPROVER_isnand(""" + VAL % "index" + """) || __CPROVER_return_value == """ + VAL % "index" + """)
{""" + pc.body + "}\n" + CALC_HARNESS % "XS_get(&c, i);")


XS_GET_STUB = """
/* get(): contract enforced in unit c14_xs_get (requires index < value.size; returns reals[value[index]]); deterministic, so encoded as assert + read */
static real_type XS_get(XsCalculator const* self, size_type index)
{
    __CPROVER_assert(index < self->data_->value.end_ - self->data_->value.begin_, "XS_get.precondition: index < data_.value.size()");
    return self->reals_->ptr[self->data_->value.begin_ + index];
}
"""


def build_xs_call(ctx):
    pc = ctx.func(XSC, r"CELER_FUNCTION real_type XsCalculator::operator\(\)\(Energy energy\) const", XS_RULES, name="XsCalculator::operator()")
    return (HDR + CALC_MODEL + XS_GET_STUB + """
#define LOGE STD_LOG(energy)
#define SIZE_ (self->data_->log_energy.size)
#define PRIME (self->data_->prime_index)
#define GRIDPT(i) __CPROVER_uninterpreted_gridpoint(self->data_->log_energy.front, self->data_->log_energy.delta, (i))
real_type XS_call(XsCalculator const* self, real_type energy)
__CPROVER_requires(""" + CALC_OK + """)
__CPROVER_requires(energy > 0 && FIN(energy) && !__CPROVER_isnand(LOGE))
/* table values are finite (so that == below is meaningful) */
__CPROVER_requires(FIN(""" + VAL % "0" + """) && FIN(""" + VAL % "SIZE_ - 1" + """))
__CPROVER_assigns(g_bin)
/* documented extrapolation: at/below the first point the first value, at/above the last point the last value; 1/E scaling exactly for indices >= prime_index */
__CPROVER_ensures(LOGE <= self->data_->log_energy.front ==> EQV(__CPROVER_return_value, (0 >= PRIME ? """ + "FDIV(" + VAL % "0" + """, energy) : """ + VAL % "0" + """)))
__CPROVER_ensures((LOGE > self->data_->log_energy.front && LOGE >= self->data_->log_energy.back) ==> EQV(__CPROVER_return_value, (SIZE_ - 1 >= PRIME ? FDIV(""" + VAL % "SIZE_ - 1" + """, energy) : """ + VAL % "SIZE_ - 1" + """)))
/* inside the grid: linear interpolation in E between points bin and bin+1 (bin from UniformGrid::find), the upper value unscaled iff bin+1 is the prime index, the result scaled iff bin >= prime index */
#define IN_GRID (LOGE > self->data_->log_energy.front && LOGE < self->data_->log_energy.back)
__CPROVER_ensures(IN_GRID ? g_bin + 1 < SIZE_ : 1)
__CPROVER_ensures((IN_GRID && g_bin + 1 < SIZE_) ? ((FIN(""" + VAL % "g_bin" + """) && FIN(""" + VAL % "g_bin + 1" + """)) ? EQV(__CPROVER_return_value,
       (g_bin >= PRIME ? FDIV(__CPROVER_uninterpreted_interp(STD_EXP(GRIDPT(g_bin)), """ + VAL % "g_bin" + """, STD_EXP(GRIDPT(g_bin + 1)), """ + VAL % "g_bin + 1" + """, energy), energy)
                       : __CPROVER_uninterpreted_interp(STD_EXP(GRIDPT(g_bin)), """ + VAL % "g_bin" + """, STD_EXP(GRIDPT(g_bin + 1)), (g_bin + 1 == PRIME ? FDIV(""" + VAL % "g_bin + 1" + """, STD_EXP(GRIDPT(g_bin + 1))) : """ + VAL % "g_bin + 1" + """), energy))) : 1) : 1)
{""" + pc.body + "}\n" + CALC_HARNESS % "XS_call(&c, e);")


def build_xs_index(ctx):
    pc = ctx.func(XSC, r"CELER_FUNCTION real_type XsCalculator::operator\[\]\(size_type index\) const", Q_RULES + XS_BASIC, name="XsCalculator::operator[]")
    return (HDR + CALC_MODEL + XS_GET_STUB + """
real_type XS_index(XsCalculator const* self, size_type index)
__CPROVER_requires(""" + CALC_OK + """)
__CPROVER_requires(index < self->data_->log_energy.size)
__CPROVER_assigns()
/* the tabulated cross section at a grid point: the stored value, divided by the point's energy for indices >= prime_index */
__CPROVER_ensures(FIN(""" + VAL % "index" + """) ==> EQV(__CPROVER_return_value, (index >= self->data_->prime_index ? FDIV(""" + VAL % "index" + """, STD_EXP(__CPROVER_uninterpreted_gridpoint(self->data_->log_energy.front, self->data_->log_energy.delta, index))) : """ + VAL % "index" + """)))
{""" + pc.body + "}\n" + CALC_HARNESS % "XS_index(&c, i);")


UNITS = [
    Unit("c14_xs_get", build_xs_get, "h_calc", enforce="XS_get", timeout=120, must_have=[r"XS_get.postcondition", r"celer_expect"], checks=["--bounds-check", "--pointer-check"],
         note="XsCalculator::get: both index checks (ItemRange, Collection) hold for a valid grid whose value range lies inside the reals"),
    Unit("c14_xs_call", build_xs_call, "h_calc", enforce="XS_call", replace=["UG_find"], timeout=300, backend=["sat", "cvc5"],
         must_have=[r"XS_call.postcondition", r"celer_assert", r"XS_get.precondition", r"UG_find.precondition", r"UG_index.precondition"], checks=["--bounds-check", "--pointer-check"],
         assumptions=["std::log / std::exp / LinearInterpolator are uninterpreted functions (any values; accuracy and containment not decided)", "UniformGrid::find/operator[] by their C18 contracts"],
         note="XsCalculator::operator(): every get()/grid[] index is in range and find() is only called inside the grid; below/above-grid extrapolation, prime-index scaling exactly at indices >= prime_index, upper point unscaled iff it is the prime index"),
    Unit("c14_xs_index", build_xs_index, "h_calc", enforce="XS_index", timeout=300, backend=["sat", "cvc5"],
         must_have=[r"XS_index.postcondition", r"XS_get.precondition", r"UG_index.precondition"], checks=["--bounds-check", "--pointer-check"],
         assumptions=["std::exp uninterpreted"],
         note="XsCalculator::operator[]: value at a knot, scaled by 1/E for indices >= prime_index"),
]


# ---------------------------------------------------------------------------
# MSC step conversions: the final clamps (transcendentals uninterpreted)
# ---------------------------------------------------------------------------
from vkit.extract import IIFE  # noqa: E402

MFG = "src/celeritas/em/msc/detail/MscStepFromGeo.hh"
MTG = "src/celeritas/em/msc/detail/MscStepToGeo.hh"
ALGO = "src/corecel/math/Algorithms.hh"

MSC_MODEL = """
#include <math.h>
double __CPROVER_uninterpreted_log1p(double);
double __CPROVER_uninterpreted_expm1(double);
double __CPROVER_uninterpreted_fastpow(double, double);
/* transcendental results: any value that is not NaN (domain errors are excluded by the callers' ranges; accuracy is NOT decided) */
static double UF_log1p(double x) { double r = __CPROVER_uninterpreted_log1p(x); __CPROVER_assume(!__CPROVER_isnand(r)); return r; }
static double UF_expm1(double x) { double r = __CPROVER_uninterpreted_expm1(x); __CPROVER_assume(!__CPROVER_isnand(r)); return r; }
static double UF_fastpow(double a, double b) { double r = __CPROVER_uninterpreted_fastpow(a, b); __CPROVER_assume(!__CPROVER_isnand(r)); return r; }
typedef struct { real_type min_step_; real_type dtrl_; } UrbanMscParameters;
typedef struct { UrbanMscParameters const* params_; real_type true_step_; real_type alpha_; real_type lambda_; real_type range_; } MscStepFromGeo;
#define FINP(x) (!__CPROVER_isnand(x) && !__CPROVER_isinfd(x))
"""


def algo_min_clamp(ctx):
    """celeritas::min<floating> and celeritas::clamp from Algorithms.hh (the real text)."""
    mn = ctx.func(ALGO, r"CELER_CONSTEXPR_FUNCTION T min\(T a, T b\) noexcept", [Rule(r"std::fmin", "fmin", 1, note="std::fmin -> C fmin")], name="celeritas::min<floating>")
    mx = ctx.func(ALGO, r"CELER_CONSTEXPR_FUNCTION T max\(T a, T b\) noexcept", [Rule(r"std::fmax", "fmax", 1, note="std::fmax -> C fmax")], name="celeritas::max<floating>")
    cl = ctx.func(ALGO, r"inline CELER_FUNCTION T const& clamp\(T const& v, T const& lo, T const& hi\)", [], name="celeritas::clamp")
    return ("static real_type celer_min(real_type a, real_type b)\n{" + mn.body + "}\n"
            + "static real_type celer_max(real_type a, real_type b)\n{" + mx.body + "}\n"
            + "static real_type celer_clamp(real_type v, real_type lo, real_type hi)\n{" + cl.body + "}\n")


MFG_RULES = [
    Rule(r"params_\.min_step\(\)", "self->params_->min_step_", "*", note="UrbanMscParameters::min_step()"),
    Rule(r"\b(alpha_|lambda_|range_|true_step_)\b", r"self->\1", "*", note="data member"),
    Rule(r"MscStep::small_step_alpha\(\)", "0 /* MscStep::small_step_alpha() */", "*", note="constexpr accessor (returns 0; checked on the extracted text)"),
    Rule(r"std::log1p\(", "UF_log1p(", "*", note="std::log1p -> uninterpreted"),
    Rule(r"\bfastpow\(", "UF_fastpow(", "*", note="fastpow -> uninterpreted"),
    Rule(r"\bmin\(", "celer_min(", "*", note="celeritas::min"),
    Rule(r"\bclamp\(", "celer_clamp(", "*", note="celeritas::clamp"),
    Rule(r"real_type\(1\)", "((real_type)1)", "*", note="functional cast"),
    IIFE(["real_type"]),
]


def build_msc_from_geo(ctx):
    import re
    from vkit.extract import ExtractionDrift
    ssa = ctx.func("src/celeritas/phys/Interaction.hh", r"static CELER_CONSTEXPR_FUNCTION real_type small_step_alpha\(\)", [], name="MscStep::small_step_alpha")
    if not re.search(r"return\s+0\s*;", ssa.body):
        raise ExtractionDrift("MscStep::small_step_alpha() is not `return 0;`")
    pc = ctx.func(MFG, r"CELER_FUNCTION real_type MscStepFromGeo::operator\(\)\(real_type gstep\) const", MFG_RULES, name="MscStepFromGeo::operator()")
    return (HDR + MSC_MODEL + algo_min_clamp(ctx) + """
real_type MFG_call(MscStepFromGeo const* self, real_type gstep)
__CPROVER_requires(self != 0 && self->params_ != 0)
__CPROVER_requires(gstep >= 0 && gstep <= self->true_step_)      /* own CELER_EXPECT */
__CPROVER_requires(FINP(self->true_step_) && FINP(self->lambda_) && self->lambda_ > 0 && FINP(self->range_) && self->range_ > 0 && FINP(self->alpha_) && self->alpha_ >= 0 && self->params_->min_step_ > 0)
__CPROVER_assigns()
/* converting a geometric path back to a true path returns a value between the geometric and the original true path */
__CPROVER_ensures(__CPROVER_return_value >= gstep && __CPROVER_return_value <= self->true_step_)
{""" + pc.body + """}
void h_mfg(void)
{
    UrbanMscParameters p; MscStepFromGeo m; m.params_ = &p; real_type g;
    MFG_call(&m, g);
    VERIF_CANARY();
}
""")


MTG_RULES = [
    Rule(r"shared_\.params\.(min_step|dtrl)\(\)", r"self->params_->\1_", "*", note="UrbanMscParameters accessor"),
    Rule(r"\b(energy_|lambda_|range_)\b", r"self->\1", "*", note="data member"),
    Rule(r"value_as<Mass>\(shared_\.electron_mass\)", "self->electron_mass_", "*", note="Quantity value"),
    Rule(r"MscStep::small_step_alpha\(\)", "0 /* MscStep::small_step_alpha() */", "*", note="constexpr accessor"),
    Rule(r"result_type result;", "MscStepToGeoResult result = {0, 0};", 1, note="default member initializers"),
    Rule(r"std::expm1\(", "UF_expm1(", "*", note="std::expm1 -> uninterpreted"),
    Rule(r"\bfastpow\(", "UF_fastpow(", "*", note="fastpow -> uninterpreted"),
    Rule(r"max<real_type>\(", "celer_max(", "*", note="celeritas::max"),
    Rule(r"\bmin\(", "celer_min(", "*", note="celeritas::min"),
    Rule(r"Energy endpoint_energy = helper_\.calc_inverse_range\(rfinal\);", "real_type endpoint_energy = HELPER_calc_inverse_range(rfinal);", 1, note="helper call -> uninterpreted"),
    Rule(r"helper_\.calc_msc_mfp\(endpoint_energy\)", "HELPER_calc_msc_mfp(endpoint_energy)", 1, note="helper call -> uninterpreted"),
    Rule(r"CELER_ENSURE\(result\.step <= tstep \|\| soft_equal\(result\.step, tstep\)\);", "/* NOT PROMOTED: CELER_ENSURE(step <= tstep || soft_equal(step, tstep)) -- needs the accuracy of expm1/pow */", (0, 1), note="in-body ENSURE not promoted (depends on transcendental accuracy)"),
]


def build_msc_to_geo(ctx):
    pc = ctx.func(MTG, r"^MscStepToGeo::operator\(\)\(real_type tstep\) const -> result_type", MTG_RULES, name="MscStepToGeo::operator()")
    return (HDR + MSC_MODEL + algo_min_clamp(ctx) + """
typedef struct { real_type step; real_type alpha; } MscStepToGeoResult;   /* { real_type step{}; real_type alpha{0}; } */
typedef struct { UrbanMscParameters const* params_; real_type electron_mass_; real_type energy_; real_type lambda_; real_type range_; } MscStepToGeo;
double __CPROVER_uninterpreted_inverse_range(double);
double __CPROVER_uninterpreted_msc_mfp(double);
static real_type HELPER_calc_inverse_range(real_type r) { double v = __CPROVER_uninterpreted_inverse_range(r); __CPROVER_assume(!__CPROVER_isnand(v)); return v; }
static real_type HELPER_calc_msc_mfp(real_type e) { double v = __CPROVER_uninterpreted_msc_mfp(e); __CPROVER_assume(!__CPROVER_isnand(v)); return v; }
MscStepToGeoResult MTG_call(MscStepToGeo const* self, real_type tstep)
__CPROVER_requires(self != 0 && self->params_ != 0)
__CPROVER_requires(tstep >= 0 && tstep <= self->range_)      /* own CELER_EXPECT */
__CPROVER_requires(self->energy_ > 0 && self->lambda_ > 0 && self->range_ > 0 && FINP(self->range_) && FINP(self->lambda_))   /* constructor EXPECTs */
__CPROVER_assigns()
/* converting a true path to a geometric path never lengthens it */
__CPROVER_ensures(__CPROVER_return_value.step <= tstep)
{""" + pc.body + """}
void h_mtg(void)
{
    UrbanMscParameters p; MscStepToGeo m; m.params_ = &p; real_type t;
    MTG_call(&m, t);
    VERIF_CANARY();
}
""")


UNITS += [
    Unit("c14_msc_from_geo", build_msc_from_geo, "h_mfg", enforce="MFG_call", timeout=300, backend=["sat", "cvc5"],
         must_have=[r"MFG_call.postcondition", r"celer_expect"], checks=["--bounds-check", "--pointer-check"],
         assumptions=["log1p / fastpow are uninterpreted functions returning any non-NaN value (accuracy not decided)"],
         note="MscStepFromGeo: the returned true path lies in [geometric step, original true step] for ANY value of the transcendental functions (the final clamp decides it)"),
    Unit("c14_msc_to_geo", build_msc_to_geo, "h_mtg", enforce="MTG_call", timeout=300, backend=["sat", "cvc5"],
         must_have=[r"MTG_call.postcondition", r"celer_expect"], checks=["--bounds-check", "--pointer-check"],
         assumptions=["expm1 / fastpow / inverse range / msc mfp are uninterpreted functions returning any non-NaN value", "NOT PROMOTED: MscStepToGeo's CELER_ENSURE(step <= tstep || soft_equal) (needs transcendental accuracy)"],
         note="MscStepToGeo: geometric path <= true path for ANY value of the transcendental functions (final min)"),
]


# ---------------------------------------------------------------------------
# RangeCalculator / InverseRangeCalculator (branch structure, index safety, which knots are interpolated)
# ---------------------------------------------------------------------------
IRC = "src/celeritas/grid/InverseRangeCalculator.hh"

RN_RULES = Q_RULES + [
    Rule(r"UniformGrid loge_grid\(data_\.log_energy\);", "UniformGrid loge_grid = {&self->data_->log_energy};", 1, note="UniformGrid view of the grid data (constructor EXPECT = XsGridData validity, in the requires)"),
    Rule(r"LinearInterpolator<real_type> interpolate_xs\(\s*\{([^{}]*),([^{}]*)\},\s*\{([^{}]*),([^{}]*)\}\);", r"real_type ip_x0_ = \1, ip_y0_ = \2, ip_x1_ = \3, ip_y1_ = \4;", 1, note="LinearInterpolator construction -> its four arguments"),
    Rule(r"std::log\(", "STD_LOG(", "*", note="std::log -> uninterpreted function"),
    Rule(r"std::exp\(", "STD_EXP(", "*", note="std::exp -> uninterpreted function"),
    Rule(r"real_type\(\.5\)", "((real_type).5)", 1, note="functional cast"),
    Rule(r"this->get\(", "XS_get(self, ", "*", note="member call"),
    Rule(r"loge_grid\.(front|back|size)\(\)", r"UG_\1(&loge_grid)", "*", note="UniformGrid accessor"),
    Rule(r"loge_grid\.find\(", "UG_find(&loge_grid, ", "*", note="UniformGrid::find -> stub with the c18_ug_find contract"),
    Rule(r"loge_grid\[([^\[\]]*)\]", r"UG_index(&loge_grid, \1)", "*", note="UniformGrid::operator[] -> stub with the c18_ug_index contract"),
    Rule(r"return interpolate_xs\(([^()]*)\);", r"return __CPROVER_uninterpreted_interp(ip_x0_, ip_y0_, ip_x1_, ip_y1_, \1);", 1, note="interpolator call -> uninterpreted function"),
]


def build_range_get(ctx):
    pc = xs_get(ctx, RNC, r"CELER_FUNCTION real_type RangeCalculator::get\(size_type index\) const")
    return (HDR + CALC_MODEL + VAL_AT + """
real_type RN_get(XsCalculator const* self, size_type index)
__CPROVER_requires(""" + CALC_OK + """)
/* the caller's obligation: index designates a point of THIS grid (the function's own CELER_EXPECT only compares with the whole storage) */
__CPROVER_requires(index < self->data_->value.end_ - self->data_->value.begin_)
__CPROVER_assigns()
__CPROVER_ensures(__CPROVER_isnand(""" + VAL % "index" + """) || __CPROVER_return_value == """ + VAL % "index" + """)
{""" + pc.body + "}\n" + CALC_HARNESS % "RN_get(&c, i);")


def build_range_call(ctx):
    pc = ctx.func(RNC, r"CELER_FUNCTION real_type RangeCalculator::operator\(\)\(Energy energy\) const", RN_RULES, name="RangeCalculator::operator()")
    return (HDR + CALC_MODEL + XS_GET_STUB + """
#define LOGE STD_LOG(energy)
#define SIZE_ (self->data_->log_energy.size)
#define FRONT_ (self->data_->log_energy.front)
#define BACK_ (self->data_->log_energy.back)
#define GRIDPT(i) __CPROVER_uninterpreted_gridpoint(self->data_->log_energy.front, self->data_->log_energy.delta, (i))
real_type RN_call(XsCalculator const* self, real_type energy)
__CPROVER_requires(""" + CALC_OK + """)
__CPROVER_requires(self->data_->prime_index == NO_SCALING)     /* constructor EXPECT: range tables are never scaled */
__CPROVER_requires(energy > 0 && FIN(energy) && !__CPROVER_isnand(LOGE))
__CPROVER_requires(FIN(""" + VAL % "0" + """) && FIN(""" + VAL % "SIZE_ - 1" + """))
__CPROVER_assigns(g_bin)
/* documented extrapolation: below the grid the first range scaled by sqrt(E/Emin) = exp((log E - log Emin)/2); at/above the last point the last range (clipped) */
#define R_LOW EQV(__CPROVER_return_value, """ + VAL % "0" + """ * STD_EXP((real_type).5 * (LOGE - FRONT_)))
#define R_INTERP ((g_bin + 1 < SIZE_) ? ((FIN(""" + VAL % "g_bin" + """) && FIN(""" + VAL % "g_bin + 1" + """)) ? EQV(__CPROVER_return_value, __CPROVER_uninterpreted_interp(STD_EXP(GRIDPT(g_bin)), """ + VAL % "g_bin" + """, STD_EXP(GRIDPT(g_bin + 1)), """ + VAL % "g_bin + 1" + """, energy)) : 1) : 0)
__CPROVER_ensures(LOGE < FRONT_ ==> R_LOW)
/* exactly at the first knot the scaled first value and the interpolation coincide mathematically: either form is accepted */
__CPROVER_ensures(LOGE == FRONT_ ==> (R_LOW || R_INTERP))
__CPROVER_ensures((LOGE > FRONT_ && LOGE >= BACK_) ==> EQV(__CPROVER_return_value, """ + VAL % "SIZE_ - 1" + """))
/* inside the grid: linear interpolation in E between the knots bin and bin+1 (bin from UniformGrid::find) */
#define IN_GRID (LOGE > FRONT_ && LOGE < BACK_)
__CPROVER_ensures(IN_GRID ? R_INTERP : 1)
{""" + pc.body + "}\n" + CALC_HARNESS % "RN_call(&c, e);")


IRC_MODEL = """
typedef struct { real_type const* a; size_type n; } NonuniformGrid;    /* the grid's values storage_[offset_[0..n)) */
typedef struct { UniformGrid log_energy_; NonuniformGrid range_; } InverseRangeCalculator;
double __CPROVER_uninterpreted_ipow2(double);
#define IPOW2(x) __CPROVER_uninterpreted_ipow2(x)
size_type nondet_size_type(void);
static size_type NUG_size(NonuniformGrid const* g) { return g->n; }
static real_type NUG_front(NonuniformGrid const* g) { return g->a[0]; }
static real_type NUG_back(NonuniformGrid const* g) { return g->a[g->n - 1]; }
static real_type NUG_index(NonuniformGrid const* g, size_type i)
{
    __CPROVER_assert(i < g->n, "NUG_index.precondition: NonuniformGrid::operator[] i < size");
    return g->a[i];
}
/* NonuniformGrid::find: contract enforced in c18_nonuniform_find (requires front <= v < back; returns i, i+1 < size, grid[i] <= v < grid[i+1]);
 * encoded as: assert the precondition, return any index satisfying the postcondition */
static size_type NUG_find(NonuniformGrid const* g, real_type v)
{
    __CPROVER_assert(v >= g->a[0] && v < g->a[g->n - 1], "NUG_find.precondition: value >= front && value < back");
    size_type r = nondet_size_type();
    __CPROVER_assume(r < g->n - 1);
    __CPROVER_assume(g->a[r] <= v && v < g->a[r + 1]);
    g_bin = r;
    return r;
}
"""
IRC_RULES = Q_RULES + [
    Rule(r"LinearInterpolator<real_type> interpolate_log_energy\(\s*\{([^{}]*),([^{}]*)\},\s*\{([^{}]*),([^{}]*)\}\);", r"real_type ip_x0_ = \1, ip_y0_ = \2, ip_x1_ = \3, ip_y1_ = \4;", 1, note="LinearInterpolator construction -> its four arguments"),
    Rule(r"std::exp\(", "STD_EXP(", "*", note="std::exp -> uninterpreted function"),
    Rule(r"ipow<2>\(", "IPOW2(", 1, note="ipow<2> -> uninterpreted function (value not decided)"),
    Rule(r"range_\.(front|back|size)\(\)", r"NUG_\1(&self->range_)", "*", note="NonuniformGrid accessor"),
    Rule(r"range_\.find\(", "NUG_find(&self->range_, ", 1, note="NonuniformGrid::find -> stub with the c18_nonuniform_find contract"),
    Rule(r"range_\[([^\[\]]*)\]", r"NUG_index(&self->range_, \1)", "*", note="NonuniformGrid::operator[] (asserts i < size)"),
    Rule(r"log_energy_\.(front|back|size)\(\)", r"UG_\1(&self->log_energy_)", "*", note="UniformGrid accessor"),
    Rule(r"log_energy_\[([^\[\]]*)\]", r"UG_index(&self->log_energy_, \1)", "*", note="UniformGrid::operator[] -> stub with the c18_ug_index contract"),
    Rule(r"auto idx = ", "size_type idx = ", 1, note="auto"),
    Rule(r"auto loge = interpolate_log_energy\(([^()]*)\);", r"real_type loge = __CPROVER_uninterpreted_interp(ip_x0_, ip_y0_, ip_x1_, ip_y1_, \1);", 1, note="interpolator call -> uninterpreted function"),
]


def build_irc_call(ctx):
    pc = ctx.func(IRC, r"^InverseRangeCalculator::operator\(\)\(real_type range\) const -> Energy", IRC_RULES, name="InverseRangeCalculator::operator()")
    return (HDR + CALC_MODEL + IRC_MODEL + """
#define RA(i) (self->range_.a[i])
#define RN (self->range_.n)
#define LG (self->log_energy_.data_)
#define GRIDPT(i) __CPROVER_uninterpreted_gridpoint(LG->front, LG->delta, (i))
real_type IRC_call(InverseRangeCalculator const* self, real_type range)
__CPROVER_requires(self != 0 && LG != 0 && LG->size >= 2 && RN == LG->size && RN <= 100000 && __CPROVER_r_ok(self->range_.a, RN * sizeof(real_type)))   /* constructor EXPECT: range_.size() == log_energy_.size() */
__CPROVER_requires(!__CPROVER_isnand(range) && range >= 0 && range <= RA(RN - 1))    /* own CELER_EXPECT */
__CPROVER_requires(FIN(RA(0)) && FIN(RA(RN - 1)) && RA(0) < RA(RN - 1))   /* the range table is strictly increasing (instance at the ends) */
__CPROVER_assigns(g_bin)
/* documented extrapolation below the table: E = Emin (r / r0)^2 */
#define I_LOW EQV(__CPROVER_return_value, STD_EXP(LG->front) * IPOW2(range / RA(0)))
#define I_INTERP ((g_bin + 1 < RN) ? (RA(g_bin) <= range && range < RA(g_bin + 1) && EQV(__CPROVER_return_value, __CPROVER_uninterpreted_interp(RA(g_bin), STD_EXP(GRIDPT(g_bin)), RA(g_bin + 1), STD_EXP(GRIDPT(g_bin + 1)), range))) : 0)
__CPROVER_ensures(range < RA(0) ==> I_LOW)
/* exactly at the first knot the scaled value and the interpolation coincide mathematically: either form is accepted */
__CPROVER_ensures((range == RA(0) && range < RA(RN - 1)) ==> (I_LOW || I_INTERP))
/* exactly the longest range: the highest energy */
__CPROVER_ensures((range >= RA(0) && range >= RA(RN - 1)) ==> EQV(__CPROVER_return_value, STD_EXP(LG->back)))
/* inside: interpolation on x = range, y = energy between knots bin and bin+1 where range[bin] <= r < range[bin+1] */
__CPROVER_ensures((range > RA(0) && range < RA(RN - 1)) ? I_INTERP : 1)
{""" + pc.body + """}
void h_irc(void)
{
    UniformGridData d; size_type n; __CPROVER_assume(n >= 2 && n <= 100000);
    real_type* r = malloc(n * sizeof(real_type)); __CPROVER_assume(r != 0);
    InverseRangeCalculator c = {{&d}, {r, n}}; real_type x;
    IRC_call(&c, x);
    VERIF_CANARY();
}
""")


UNITS += [
    Unit("c14_range_get", build_range_get, "h_calc", enforce="RN_get", timeout=120, must_have=[r"RN_get.postcondition", r"celer_expect"], checks=["--bounds-check", "--pointer-check"],
         note="RangeCalculator::get: both index checks hold when the index designates a point of this grid"),
    Unit("c14_range_call", build_range_call, "h_calc", enforce="RN_call", replace=["UG_find"], timeout=300, backend=["sat", "cvc5", "z3"],
         must_have=[r"RN_call.postcondition", r"celer_assert", r"XS_get.precondition", r"UG_find.precondition", r"UG_index.precondition"], checks=["--bounds-check", "--pointer-check"],
         assumptions=["std::log / std::exp / LinearInterpolator are uninterpreted functions", "UniformGrid::find/operator[] by their C18 contracts"],
         note="RangeCalculator::operator(): every index in range, find() only inside the grid; sqrt(E/Emin) scaling below the grid, clipping to the last value above, interpolation between knots bin and bin+1 inside"),
    Unit("c14_inverse_range_call", build_irc_call, "h_irc", enforce="IRC_call", timeout=300, backend=["sat", "cvc5", "z3"],
         must_have=[r"IRC_call.postcondition", r"celer_assert", r"celer_expect", r"NUG_find.precondition", r"NUG_index.precondition", r"UG_index.precondition"], checks=["--bounds-check", "--pointer-check"],
         assumptions=["std::exp / ipow<2> / LinearInterpolator are uninterpreted functions", "NonuniformGrid::find by its c18_nonuniform_find contract; UniformGrid::operator[] by c18_ug_index"],
         note="InverseRangeCalculator::operator(): every index in range, find() only called with front <= r < back; (r/r0)^2 scaling below the table, highest energy exactly at the longest range, interpolation between the knots that bracket r"),
]


# ---------------------------------------------------------------------------
# ValueGridXsBuilder::build (host): which grid point becomes the prime index
# ---------------------------------------------------------------------------
VGB = "src/celeritas/grid/ValueGridBuilder.cc"
VGB_MODEL = """
typedef struct { real_type log_emin_, log_eprime_, log_emax_; size_type xs_size; } ValueGridXsBuilder;
typedef size_type ValueGridId;
size_type g_k;            /* ghost: the grid point the prime energy lies on (constructor EXPECT is_on_grid_point: it exists) */
size_type g_found;        /* ghost: what UniformGrid::find returns */
size_type g_prime;        /* ghost: the prime index handed to the inserter */
UniformGridData g_grid;   /* ghost: the grid from_bounds builds (contract enforced in c18_from_bounds) */
_Bool __CPROVER_uninterpreted_soft_equal(double, double);
/* soft_equal: a tolerance comparison (uninterpreted); what is assumed about it, from the constructor's is_on_grid_point EXPECT and the
   log spacing: the prime energy is soft-equal to grid point g_k and to no other grid point (neighbouring points differ by far more than the tolerance) */
static bool SOFT_EQ_grid(size_type i, real_type v) { return i == g_k; }
static UniformGridData UGD_from_bounds(real_type lo, real_type hi, size_type n) { __CPROVER_assert(lo < hi && n >= 2, "celer_expect: UniformGridData::from_bounds front < back, size >= 2"); g_grid.size = n; g_grid.front = lo; g_grid.back = hi; return g_grid; }
/* UniformGrid::find(log_eprime): precondition front <= v < back (c18_ug_find); returns the bin containing the value, which -- the value being a grid point up to
   roundoff -- is g_k or, if roundoff put the value just below the point, g_k - 1 (stated in the code's own comment; assumed) */
static size_type VGB_find(UniformGridData const* d, real_type v)
{
    __CPROVER_assert(v >= d->front && v < d->back, "UG_find.precondition: value >= front && value < back");
    __CPROVER_assume(g_found < d->size - 1 && (g_found == g_k || g_found + 1 == g_k));
    return g_found;
}
static size_type GRID_point(UniformGridData const* d, size_type i) { __CPROVER_assert(i < d->size, "UG_index.precondition: UniformGrid::operator[] i < size"); return i; }
static ValueGridId INSERT_call(UniformGridData d, size_type prime_index, size_type n) { __CPROVER_assert(prime_index < n, "ValueGridInserter precondition: prime_index < xs.size()"); g_prime = prime_index; return 0; }
"""
VGB_RULES = [
    Rule(r"auto log_energy\s*=\s*UniformGridData::from_bounds\(log_emin_, log_emax_, xs_\.size\(\)\);", "UniformGridData log_energy = UGD_from_bounds(self->log_emin_, self->log_emax_, self->xs_size);", 1, note="from_bounds -> stub recording the grid (contract: c18_from_bounds)"),
    Rule(r"UniformGrid grid\{log_energy\};", "UniformGridData const* grid = &log_energy;", 1, note="UniformGrid view"),
    Rule(r"auto prime_index = grid\.find\(log_eprime_\);", "size_type prime_index = VGB_find(grid, self->log_eprime_);", 1, note="UniformGrid::find -> stub (c18_ug_find contract + the roundoff statement of the code's comment)"),
    Rule(r"soft_equal<real_type>\(grid\[([^\[\]]*)\], log_eprime_\)", r"SOFT_EQ_grid(GRID_point(grid, \1), self->log_eprime_)", "*", note="soft_equal(grid[i], log_eprime) -> predicate on the grid point index (assumed: true exactly for the prime grid point)"),
    Rule(r"xs_\.size\(\)", "self->xs_size", "*", note="vector size"),
    Rule(r"return insert\(\s*UniformGridData::from_bounds\(log_emin_, log_emax_, self->xs_size\),\s*prime_index,\s*make_span\(xs_\)\);", "return INSERT_call(UGD_from_bounds(self->log_emin_, self->log_emax_, self->xs_size), prime_index, self->xs_size);", 1, note="inserter call -> stub recording the prime index"),
]


def build_vgb_prime(ctx):
    pc = ctx.func(VGB, r"^auto ValueGridXsBuilder::build\(ValueGridInserter insert\) const -> ValueGridId", VGB_RULES, name="ValueGridXsBuilder::build (host)")
    return (HDR + CALC_MODEL + VGB_MODEL + """
ValueGridId VGB_build(ValueGridXsBuilder const* self)
/* constructor EXPECTs: emin > 0, eprime >= emin, emax > eprime, at least two points, eprime on grid point g_k */
__CPROVER_requires(self != 0 && self->xs_size >= 2 && self->xs_size <= 100000 && self->log_emin_ <= self->log_eprime_ && self->log_eprime_ < self->log_emax_ && self->log_emin_ < self->log_emax_)
__CPROVER_requires(g_k < self->xs_size - 1)          /* the prime point is not the last one (emax > eprime) */
__CPROVER_assigns(g_grid, g_prime)
/* the table is scaled from exactly the grid point the prime energy lies on -- also when roundoff made find() return the bin below, and also when that point is the first or second one */
__CPROVER_ensures(g_prime == g_k)
{""" + pc.body + """}
void h_vgb(void)
{
    ValueGridXsBuilder b;
    VGB_build(&b);
    VERIF_CANARY();
}
""")


UNITS += [
    Unit("c14_xs_builder_prime", build_vgb_prime, "h_vgb", enforce="VGB_build", timeout=300, backend=["sat", "cvc5"],
         must_have=[r"VGB_build.postcondition", r"celer_assert", r"UG_find.precondition", r"UG_index.precondition"], checks=["--bounds-check", "--pointer-check"],
         assumptions=["soft_equal(grid[i], log_eprime) holds exactly for the grid point the prime energy lies on (constructor EXPECT is_on_grid_point + log spacing; tolerance comparison uninterpreted)",
                      "UniformGrid::find returns that point's bin or the one below (roundoff; the code's own comment)", "ValueGridInserter and the std::vector handling are not under contract"],
         note="ValueGridXsBuilder::build (host code, whole function): the prime index handed to the inserter is the grid point of the prime energy for every position of that point incl. the first two; both in-body CELER_ASSERTs hold; find/operator[] preconditions hold"),
]


# ---------------------------------------------------------------------------
# GenericCalculator::operator() (non-uniform x grid; used for optical / generic tables)
# ---------------------------------------------------------------------------
GNC = "src/celeritas/grid/GenericCalculator.hh"
GNC_MODEL = IRC_MODEL + """
typedef struct { NonuniformGrid x_grid_; real_type const* y; size_type ny; } GenericCalculator;     /* y = reals_[y_offset_[0..ny)) */
static real_type GNC_at(GenericCalculator const* self, size_type index) { __CPROVER_assert(index < self->ny, "celer_expect: GenericCalculator::operator[] index < y_offset_.size()"); return self->y[index]; }   /* operator[] */
"""
GNC_RULES = [
    Rule(r"LinearInterpolator<real_type> interpolate_xs\(\s*\{([^{}]*),([^{}]*)\},\s*\{([^{}]*),([^{}]*)\}\);", r"real_type ip_x0_ = \1, ip_y0_ = \2, ip_x1_ = \3, ip_y1_ = \4;", 1, note="LinearInterpolator construction -> its four arguments"),
    Rule(r"x_grid_\.(front|back|size)\(\)", r"NUG_\1(&self->x_grid_)", "*", note="NonuniformGrid accessor"),
    Rule(r"x_grid_\.find\(", "NUG_find(&self->x_grid_, ", "*", note="NonuniformGrid::find -> stub with the c18_nonuniform_find contract"),
    Rule(r"x_grid_\[([^\[\]]*)\]", r"NUG_index(&self->x_grid_, \1)", "*", note="NonuniformGrid::operator[] (asserts i < size)"),
    Rule(r"\(\*this\)\[([^\[\]]*)\]", r"GNC_at(self, \1)", "*", note="operator[] (asserts index < size)"),
    Rule(r"return interpolate_xs\(([^()]*)\);", r"return __CPROVER_uninterpreted_interp(ip_x0_, ip_y0_, ip_x1_, ip_y1_, \1);", "*", note="interpolator call -> uninterpreted function (exactness at the knots: c18_interp_linear)"),
]


def build_generic_call(ctx):
    pc = ctx.func(GNC, r"^CELER_FUNCTION real_type GenericCalculator::operator\(\)\(real_type x\) const", GNC_RULES, name="GenericCalculator::operator()")
    return (HDR + CALC_MODEL + GNC_MODEL + """
#define XA(i) (self->x_grid_.a[i])
#define XN (self->x_grid_.n)
real_type GNC_call(GenericCalculator const* self, real_type x)
__CPROVER_requires(self != 0 && XN >= 2 && XN <= 100000 && self->ny == XN && __CPROVER_r_ok(self->x_grid_.a, XN * sizeof(real_type)) && __CPROVER_r_ok(self->y, XN * sizeof(real_type)))    /* constructor EXPECT: same number of x and y points */
__CPROVER_requires(!__CPROVER_isnand(x) && FIN(XA(0)) && FIN(XA(XN - 1)) && XA(0) < XA(XN - 1))
__CPROVER_assigns(g_bin)
/* clamped outside the table: first value at or below the first abscissa, last value at or above the last */
__CPROVER_ensures(x <= XA(0) ==> EQV(__CPROVER_return_value, self->y[0]))
__CPROVER_ensures((x > XA(0) && x >= XA(XN - 1)) ==> EQV(__CPROVER_return_value, self->y[XN - 1]))
/* inside: interpolation between exactly the two knots that bracket x */
__CPROVER_ensures((x > XA(0) && x < XA(XN - 1)) ? (g_bin + 1 < XN && XA(g_bin) <= x && x < XA(g_bin + 1)
      && EQV(__CPROVER_return_value, __CPROVER_uninterpreted_interp(XA(g_bin), self->y[g_bin], XA(g_bin + 1), self->y[g_bin + 1], x))) : 1)
{""" + pc.body + """}
void h_gnc(void)
{
    size_type n; __CPROVER_assume(n >= 2 && n <= 100000);
    real_type* xs = malloc(n * sizeof(real_type)); real_type* ys = malloc(n * sizeof(real_type)); __CPROVER_assume(xs != 0 && ys != 0);
    GenericCalculator c = {{xs, n}, ys, n}; real_type x;
    GNC_call(&c, x);
    VERIF_CANARY();
}
""")


UNITS += [
    Unit("c14_generic_call", build_generic_call, "h_gnc", enforce="GNC_call", timeout=300, backend=["sat", "cvc5", "z3"],
         must_have=[r"GNC_call.postcondition", r"celer_assert", r"NUG_find.precondition", r"NUG_index.precondition", r"GenericCalculator::operator\[\]"], checks=["--bounds-check", "--pointer-check"],
         assumptions=["LinearInterpolator uninterpreted here (its exactness at the left knot / on flat bins: c18_interp_linear)", "NonuniformGrid::find by its c18_nonuniform_find contract"],
         note="GenericCalculator::operator(): every grid / value index in range, find() only called strictly inside the table, clamped to the end values outside, interpolation between the two knots that bracket x"),
]
