"""C14: physics table lookups (index safety, extrapolation and scaling branches) + shared grid/loss units."""
from vkit.extract import Rule, NamedLambda
from vkit.runner import Unit
from units.c01 import Q_RULES

XSC = "src/celeritas/grid/XsCalculator.hh"
RNC = "src/celeritas/grid/RangeCalculator.hh"

HDR = '#include "celer.h"\n'

CALC_MODEL = """
#include <stdlib.h>
typedef struct { size_type size; real_type front; real_type back; real_type delta; } UniformGridData;
typedef struct { size_type begin_, end_; } ItemRange;     /* ItemRange<real_type>: [begin, end) into the reals collection */
typedef struct { UniformGridData log_energy; size_type prime_index; ItemRange value; } XsGridData;
typedef struct { real_type const* ptr; size_type size; } Values;
typedef struct { UniformGridData const* data_; } UniformGrid;
typedef struct { XsGridData const* data_; Values const* reals_; UniformGrid loge_grid_; } XsCalculator;
#define EQV(a, b) ((a) == (b) || (__CPROVER_isnand(a) && __CPROVER_isnand(b)))   /* same value (NaN matches NaN) */
#define FIN(x) (!__CPROVER_isnand(x) && !__CPROVER_isinfd(x))
#define NO_SCALING ((size_type)-1)   /* XsGridData::no_scaling() */
/* XsGridData::operator bool (+ UniformGridData::operator bool) */
#define XSG_VALID(d) ((d)->log_energy.size >= 2 && (d)->log_energy.delta > 0 && (d)->log_energy.front < (d)->log_energy.back \\
    && ((d)->value.end_ - (d)->value.begin_) >= 2 && (d)->value.begin_ <= (d)->value.end_ \\
    && ((d)->prime_index < (d)->log_energy.size || (d)->prime_index == NO_SCALING) && (d)->log_energy.size == ((d)->value.end_ - (d)->value.begin_))
/* transcendental functions: uninterpreted (the results hold for ANY log/exp; functional consistency only) */
double __CPROVER_uninterpreted_log(double);
double __CPROVER_uninterpreted_exp(double);
#define STD_LOG(x) __CPROVER_uninterpreted_log(x)
#define STD_EXP(x) __CPROVER_uninterpreted_exp(x)
/* LinearInterpolator<real_type>{{x0,y0},{x1,y1}}(x): uninterpreted (interpolation accuracy / containment is NOT decided) */
double __CPROVER_uninterpreted_interp(double, double, double, double, double);
/* UniformGrid members: contracts from units c18_ug_find / c18_ug_index */
static size_type UG_size(UniformGrid const* g) { return g->data_->size; }
static real_type UG_front(UniformGrid const* g) { return g->data_->front; }
static real_type UG_back(UniformGrid const* g) { return g->data_->back; }
size_type g_bin;   /* ghost: the bin UniformGrid::find returned */
size_type UG_find(UniformGrid const* g, real_type value)
__CPROVER_requires(g != 0 && g->data_ != 0)
__CPROVER_requires(value >= g->data_->front && value < g->data_->back)     /* find's own CELER_EXPECT: checked at the call site */
__CPROVER_assigns(g_bin)
__CPROVER_ensures(__CPROVER_return_value + 1 < g->data_->size && g_bin == __CPROVER_return_value)
;
double __CPROVER_uninterpreted_gridpoint(double, double, size_type);
/* operator[]: its contract (c18_ug_index: requires i < size, returns front + delta*i) is deterministic, so the call is encoded as
 * "assert the precondition, return the value" with the value an uninterpreted function of (front, delta, i) */
static real_type UG_index(UniformGrid const* g, size_type i)
{
    __CPROVER_assert(i < g->data_->size, "UG_index.precondition: UniformGrid::operator[] i < size");
    return __CPROVER_uninterpreted_gridpoint(g->data_->front, g->data_->delta, i);
}
"""

XS_BASIC = [
    Rule(r"std::log\(", "STD_LOG(", "*", note="std::log -> uninterpreted function"),
    Rule(r"std::exp\(", "STD_EXP(", "*", note="std::exp -> uninterpreted function"),
    Rule(r"this->get\(", "XS_get(self, ", "*", note="member call"),
    Rule(r"loge_grid_\.(front|back|size)\(\)", r"UG_\1(&self->loge_grid_)", "*", note="UniformGrid accessor"),
    Rule(r"loge_grid_\[([^\[\]]*)\]", r"UG_index(&self->loge_grid_, \1)", "*", note="UniformGrid::operator[] -> stub with the c18_ug_index contract"),
    Rule(r"data_\.prime_index", "self->data_->prime_index", "*", note="const& member"),
]
XS_RULES = Q_RULES + [
    Rule(r"LinearInterpolator<real_type> interpolate_xs\(\s*\{([^{}]*),([^{}]*)\},\s*\{([^{}]*),([^{}]*)\}\);", r"real_type ip_x0_ = \1, ip_y0_ = \2, ip_x1_ = \3, ip_y1_ = \4;", 1, note="LinearInterpolator construction -> its four arguments"),
    Rule(r"std::log\(", "STD_LOG(", "*", note="std::log -> uninterpreted function"),
    Rule(r"std::exp\(", "STD_EXP(", "*", note="std::exp -> uninterpreted function"),
    NamedLambda("calc_extrapolated", "real_type"),
    Rule(r"this->get\(", "XS_get(self, ", "*", note="member call"),
    Rule(r"loge_grid_\.(front|back|size)\(\)", r"UG_\1(&self->loge_grid_)", "*", note="UniformGrid accessor"),
    Rule(r"loge_grid_\.find\(", "UG_find(&self->loge_grid_, ", "*", note="UniformGrid::find -> stub with the c18_ug_find contract"),
    Rule(r"loge_grid_\[([^\[\]]*)\]", r"UG_index(&self->loge_grid_, \1)", "*", note="UniformGrid::operator[] -> stub with the c18_ug_index contract"),
    Rule(r"data_\.prime_index", "self->data_->prime_index", "*", note="const& member"),
    Rule(r"auto result = interpolate_xs\(([^()]*)\);", r"real_type result = __CPROVER_uninterpreted_interp(ip_x0_, ip_y0_, ip_x1_, ip_y1_, \1);", (0, 1), note="interpolator call -> uninterpreted function of (x0,y0,x1,y1,x)"),
    Rule(r"return interpolate_xs\(([^()]*)\);", r"return __CPROVER_uninterpreted_interp(ip_x0_, ip_y0_, ip_x1_, ip_y1_, \1);", (0, 1), note="interpolator call -> uninterpreted function"),
]


def xs_get(ctx, fname, locator):
    pc = ctx.func(fname, locator, [
        Rule(r"data_\.value\.size\(\)", "(self->data_->value.end_ - self->data_->value.begin_)", "*", note="ItemRange::size()"),
        Rule(r"reals_\.size\(\)", "self->reals_->size", "*", note="Collection::size()"),
        Rule(r"reals_\[data_\.value\[index\]\]", "(*VAL_AT(self, index))", 1, note="ItemRange[index] (asserts index < size) then Collection[id] (asserts id < size)"),
    ], name=locator.split("::")[0].split()[-1] + "::get")
    return pc


VAL_AT = """
static real_type const* VAL_AT(XsCalculator const* self, size_type index)
{
    __CPROVER_assert(index < self->data_->value.end_ - self->data_->value.begin_, "celer_expect: ItemRange::operator[] i < size");
    size_type id = self->data_->value.begin_ + index;
    __CPROVER_assert(id < self->reals_->size, "celer_expect: Collection::operator[] i < size");
    return &self->reals_->ptr[id];
}
"""
CALC_OK = ("self != 0 && self->data_ != 0 && self->reals_ != 0 && self->loge_grid_.data_ == &self->data_->log_energy && XSG_VALID(self->data_) "
           "&& self->data_->value.end_ <= self->reals_->size && self->reals_->size <= 100000 && __CPROVER_r_ok(self->reals_->ptr, self->reals_->size * sizeof(real_type))")
VAL = "self->reals_->ptr[self->data_->value.begin_ + (%s)]"

CALC_HARNESS = """
void h_calc(void)
{
    XsGridData d; size_type nreals; __CPROVER_assume(nreals <= 100000);
    real_type* r = malloc(nreals * sizeof(real_type)); __CPROVER_assume(r != 0);
    Values vals = {r, nreals};
    XsCalculator c = {&d, &vals, {&d.log_energy}};
    real_type e; size_type i;
    %s
    VERIF_CANARY();
}
"""


def build_xs_get(ctx):
    pc = xs_get(ctx, XSC, r"CELER_FUNCTION real_type XsCalculator::get\(size_type index\) const")
    return (HDR + CALC_MODEL + VAL_AT + """
real_type XS_get(XsCalculator const* self, size_type index)
__CPROVER_requires(""" + CALC_OK + """)
__CPROVER_requires(index < self->data_->value.end_ - self->data_->value.begin_)    /* own CELER_EXPECT */
__CPROVER_assigns()
__CPROVER_ensures(__CPROVER_isnand(""" + VAL % "index" + """) || __CPROVER_return_value == """ + VAL % "index" + """)
{""" + pc.body + "}\n" + CALC_HARNESS % "XS_get(&c, i);")


XS_GET_STUB = """
/* get(): contract enforced in unit c14_xs_get (requires index < value.size; returns reals[value[index]]); deterministic, so encoded as assert + read */
static real_type XS_get(XsCalculator const* self, size_type index)
{
    __CPROVER_assert(index < self->data_->value.end_ - self->data_->value.begin_, "XS_get.precondition: index < data_.value.size()");
    return self->reals_->ptr[self->data_->value.begin_ + index];
}
"""


def build_xs_call(ctx):
    pc = ctx.func(XSC, r"CELER_FUNCTION real_type XsCalculator::operator\(\)\(Energy energy\) const", XS_RULES, name="XsCalculator::operator()")
    return (HDR + CALC_MODEL + XS_GET_STUB + """
#define LOGE STD_LOG(energy)
#define SIZE_ (self->data_->log_energy.size)
#define PRIME (self->data_->prime_index)
#define GRIDPT(i) __CPROVER_uninterpreted_gridpoint(self->data_->log_energy.front, self->data_->log_energy.delta, (i))
real_type XS_call(XsCalculator const* self, real_type energy)
__CPROVER_requires(""" + CALC_OK + """)
__CPROVER_requires(energy > 0 && FIN(energy) && !__CPROVER_isnand(LOGE))
/* table values are finite (so that == below is meaningful) */
__CPROVER_requires(FIN(""" + VAL % "0" + """) && FIN(""" + VAL % "SIZE_ - 1" + """))
__CPROVER_assigns(g_bin)
/* documented extrapolation: at/below the first point the first value, at/above the last point the last value; 1/E scaling exactly for indices >= prime_index */
__CPROVER_ensures(LOGE <= self->data_->log_energy.front ==> EQV(__CPROVER_return_value, (0 >= PRIME ? """ + VAL % "0" + """ / energy : """ + VAL % "0" + """)))
__CPROVER_ensures((LOGE > self->data_->log_energy.front && LOGE >= self->data_->log_energy.back) ==> EQV(__CPROVER_return_value, (SIZE_ - 1 >= PRIME ? """ + VAL % "SIZE_ - 1" + """ / energy : """ + VAL % "SIZE_ - 1" + """)))
/* inside the grid: linear interpolation in E between points bin and bin+1 (bin from UniformGrid::find), the upper value unscaled iff bin+1 is the prime index, the result scaled iff bin >= prime index */
__CPROVER_ensures((LOGE > self->data_->log_energy.front && LOGE < self->data_->log_energy.back && (g_bin + 1 < SIZE_ ==> (FIN(""" + VAL % "g_bin" + """) && FIN(""" + VAL % "g_bin + 1" + """)))) ==>
    (g_bin + 1 < SIZE_ && EQV(__CPROVER_return_value,
       (g_bin >= PRIME ? __CPROVER_uninterpreted_interp(STD_EXP(GRIDPT(g_bin)), """ + VAL % "g_bin" + """, STD_EXP(GRIDPT(g_bin + 1)), """ + VAL % "g_bin + 1" + """, energy) / energy
                       : __CPROVER_uninterpreted_interp(STD_EXP(GRIDPT(g_bin)), """ + VAL % "g_bin" + """, STD_EXP(GRIDPT(g_bin + 1)), (g_bin + 1 == PRIME ? """ + VAL % "g_bin + 1" + """ / STD_EXP(GRIDPT(g_bin + 1)) : """ + VAL % "g_bin + 1" + """), energy)))))
{""" + pc.body + "}\n" + CALC_HARNESS % "XS_call(&c, e);")


def build_xs_index(ctx):
    pc = ctx.func(XSC, r"CELER_FUNCTION real_type XsCalculator::operator\[\]\(size_type index\) const", Q_RULES + XS_BASIC, name="XsCalculator::operator[]")
    return (HDR + CALC_MODEL + XS_GET_STUB + """
real_type XS_index(XsCalculator const* self, size_type index)
__CPROVER_requires(""" + CALC_OK + """)
__CPROVER_requires(index < self->data_->log_energy.size)
__CPROVER_assigns()
/* the tabulated cross section at a grid point: the stored value, divided by the point's energy for indices >= prime_index */
__CPROVER_ensures(FIN(""" + VAL % "index" + """) ==> EQV(__CPROVER_return_value, (index >= self->data_->prime_index ? """ + VAL % "index" + """ / STD_EXP(__CPROVER_uninterpreted_gridpoint(self->data_->log_energy.front, self->data_->log_energy.delta, index)) : """ + VAL % "index" + """)))
{""" + pc.body + "}\n" + CALC_HARNESS % "XS_index(&c, i);")


UNITS = [
    Unit("c14_xs_get", build_xs_get, "h_calc", enforce="XS_get", timeout=120, must_have=[r"XS_get.postcondition", r"celer_expect"], checks=["--bounds-check", "--pointer-check"],
         note="XsCalculator::get: both index checks (ItemRange, Collection) hold for a valid grid whose value range lies inside the reals"),
    Unit("c14_xs_call", build_xs_call, "h_calc", enforce="XS_call", replace=["UG_find"], timeout=300, backend=["sat", "cvc5"],
         must_have=[r"XS_call.postcondition", r"celer_assert", r"XS_get.precondition", r"UG_find.precondition", r"UG_index.precondition"], checks=["--bounds-check", "--pointer-check"],
         assumptions=["std::log / std::exp / LinearInterpolator are uninterpreted functions (any values; accuracy and containment not decided)", "UniformGrid::find/operator[] by their C18 contracts"],
         note="XsCalculator::operator(): every get()/grid[] index is in range and find() is only called inside the grid; below/above-grid extrapolation, prime-index scaling exactly at indices >= prime_index, upper point unscaled iff it is the prime index"),
    Unit("c14_xs_index", build_xs_index, "h_calc", enforce="XS_index", timeout=300, backend=["sat", "cvc5"],
         must_have=[r"XS_index.postcondition", r"XS_get.precondition", r"UG_index.precondition"], checks=["--bounds-check", "--pointer-check"],
         assumptions=["std::exp uninterpreted"],
         note="XsCalculator::operator[]: value at a knot, scaled by 1/E for indices >= prime_index"),
]
