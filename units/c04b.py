"""C04 (subset, continued): final-state helpers and the interactors built on them."""
import re
from vkit.extract import Rule, IIFE, TempCall, init_list, ExtractionDrift
from vkit.runner import Unit
from units.c01 import Q_RULES
from units.c04 import HDR, INTERACTION_MODEL, interaction_factories

D = "src/celeritas/em/interactor/"
IFS = D + "detail/IoniFinalStateHelper.hh"
BFS = D + "detail/BremFinalStateHelper.hh"

COMMON = """
#define NOTNAN(x) (!__CPROVER_isnand(x))
#define UF_sqrt(x) __CPROVER_uninterpreted_sqrt(x)
real_type __CPROVER_uninterpreted_sqrt(real_type);
/* ExitingDirectionSampler{costheta, dir}(rng): one azimuthal draw; the direction value is outside this unit */
Real3 EDS_sample(real_type costheta, Real3 dir, Engine* rng) __CPROVER_assigns(g_draws) __CPROVER_ensures(g_draws == __CPROVER_old(g_draws) + 1 && !__CPROVER_isnand(__CPROVER_return_value));
/* calc_exiting_direction({p0, d0}, {p1, d1}): momentum-conserving direction; value outside this unit */
typedef struct { real_type p_in; Real3 d_in; real_type p_out; Real3 d_out; } ExitArgs;
ExitArgs g_exit;      /* ghost: the momenta last handed to calc_exiting_direction (= unit(in - out), momentum conservation) */
Real3 calc_exiting_direction2(real_type p0, Real3 d0, real_type p1, Real3 d1) __CPROVER_assigns(g_exit) __CPROVER_ensures(g_exit.p_in == p0 && g_exit.d_in == d0 && g_exit.p_out == p1 && g_exit.d_out == d1);
/* IEEE-754 fact about correctly rounded multiplication, assumed (no installed solver decides 53-bit FP products): rounding is monotone,
   so  x >= 0, 0 < l <= 1  =>  0 <= x*l <= x */
real_type FMUL_frac(real_type x, real_type l)
__CPROVER_requires(x >= 0 && l > 0 && l <= 1)
__CPROVER_assigns()
__CPROVER_ensures(__CPROVER_return_value >= 0 && __CPROVER_return_value <= x)
;
"""

RESULT_INIT = Rule(r"Interaction result;", "Interaction result = {0, 0, {0, 0}, 0, IA_scattered};", 1, note="default member initializers (Quantity value_{} = 0, Span {}, energy_deposition{0}, action{scattered})")
VALUE_AS = Rule(r"value_as<[\w:]+>\(", "(", "*", note="value_as<Q>(q) -> the real_type itself")
NULLPTR = Rule(r"\bnullptr\b", "0", "*", note="nullptr")


def members(*names):
    return Rule(r"(?<![\w.>])(%s)\b" % "|".join(names), r"self->\1", "+", note="data members -> self->")


def ctor_body(ctx, path, locator, name, extra=()):
    """constructor: member initialiser list -> assignments (in declaration order as written), then the body"""
    pc = ctx.span(path, locator, r"\n\{\n.*?\n\}", [], name=name)
    k = pc.body.index("\n{\n")
    head, body = pc.body[:k], pc.body[k + 3 : -1]
    lines = []
    for mem, expr in init_list(head):
        for r in [VALUE_AS] + list(extra):
            expr = re.sub(r.pat, r.repl, expr)
        lines.append("    self->%s = %s;" % (mem, expr))
    if not lines:
        raise ExtractionDrift("no member initialisers found for " + name)
    body = re.sub(r"CELER_EXPECT\(secondary_\);", "CELER_EXPECT(self->secondary_ != 0);", body)
    return "\n".join(lines) + "\n" + body


# ---------------------------------------------------------------------------
IFS_MODEL = COMMON + """
typedef struct { real_type inc_energy_; Real3 inc_direction_; real_type inc_momentum_, inc_mass_, electron_energy_, electron_mass_; size_type electron_id_; Secondary* secondary_; } IoniFinalStateHelper;
"""
IFS_CTOR_SIG = """
void IFS_ctor(IoniFinalStateHelper* self, real_type inc_energy, Real3 inc_direction, real_type inc_momentum, real_type inc_mass, real_type electron_energy, real_type electron_mass, size_type electron_id, Secondary* secondary)
__CPROVER_requires(__CPROVER_rw_ok(self, sizeof(*self)) && secondary != 0)
__CPROVER_requires(NOTNAN(inc_energy) && NOTNAN(inc_momentum) && NOTNAN(inc_mass) && NOTNAN(electron_energy) && NOTNAN(electron_mass))
__CPROVER_assigns(*self)
__CPROVER_ensures(self->inc_energy_ == inc_energy && self->inc_momentum_ == inc_momentum && self->inc_mass_ == inc_mass && self->electron_energy_ == electron_energy
                  && self->electron_mass_ == electron_mass && self->electron_id_ == electron_id && self->secondary_ == secondary)
"""
IFS_CALL_SIG = """
Interaction IFS_call(IoniFinalStateHelper const* self, Engine* rng)
__CPROVER_requires(__CPROVER_r_ok(self, sizeof(*self)) && __CPROVER_rw_ok(self->secondary_, sizeof(Secondary)))
__CPROVER_requires(self->electron_energy_ >= 0 && self->electron_energy_ <= self->inc_energy_ && !__CPROVER_isinfd(self->inc_energy_))
__CPROVER_requires(!__CPROVER_isnand(self->inc_momentum_) && !__CPROVER_isnand(self->inc_direction_))
__CPROVER_assigns(*self->secondary_, g_draws, g_exit)
/* momentum: the primary's new direction is unit(p_inc d_inc - p_e d_e) with d_e the direction just given to the delta ray */
__CPROVER_ensures(g_exit.p_in == self->inc_momentum_ && g_exit.d_in == self->inc_direction_ && g_exit.d_out == self->secondary_->direction)
/* ledger: the delta ray takes electron_energy, the primary keeps inc - electron_energy (>= 0), nothing is deposited locally */
__CPROVER_ensures(self->secondary_->energy == self->electron_energy_ && self->secondary_->particle_id == self->electron_id_)
__CPROVER_ensures(__CPROVER_return_value.energy == self->inc_energy_ - self->electron_energy_ && __CPROVER_return_value.energy >= 0)
__CPROVER_ensures(__CPROVER_return_value.secondaries.ptr == self->secondary_ && __CPROVER_return_value.secondaries.size == 1)
__CPROVER_ensures(__CPROVER_return_value.energy_deposition == 0 && __CPROVER_return_value.action == IA_scattered && g_draws == __CPROVER_old(g_draws) + 1)
"""
IFS_MEMBERS = members("inc_energy_", "inc_direction_", "inc_momentum_", "inc_mass_", "electron_energy_", "electron_mass_", "electron_id_", "secondary_")
IFS_RULES = Q_RULES + [
    Rule(r"std::sqrt\(", "UF_sqrt(", 1, note="sqrt -> uninterpreted (its value only feeds the directions)"),
    Rule(r"CELER_ASSERT\(costheta <= 1\);", "", 1, note="numeric assertion on the polar angle dropped: NOT decided (FP product/quotient/sqrt)"),
    Rule(r"ExitingDirectionSampler\{costheta, inc_direction_\}\(rng\)", "EDS_sample(costheta, inc_direction_, rng)", 1, note="direction sampler -> stub (one draw)"),
    Rule(r"calc_exiting_direction\(\s*\{([^{}]*),([^{}]*)\},\s*\{([^{}]*),([^{}]*)\}\)", r"calc_exiting_direction2(\1,\2,\3,\4)", 1, note="aggregate arguments flattened"),
    RESULT_INIT,
    Rule(r"result\.secondaries = \{secondary_, 1\};", "result.secondaries.ptr = secondary_; result.secondaries.size = 1;", 1, note="Span aggregate assignment"),
    IFS_MEMBERS,
]


def ifs_ctor_text(ctx):
    return ctor_body(ctx, IFS, r"^IoniFinalStateHelper::IoniFinalStateHelper\(Energy inc_energy,", "IoniFinalStateHelper::IoniFinalStateHelper")


def build_ifs_ctor(ctx):
    return (HDR + INTERACTION_MODEL + IFS_MODEL + IFS_CTOR_SIG + "{\n" + ifs_ctor_text(ctx) + """}
void h_ifs_ctor(void)
{
    IoniFinalStateHelper h; real_type a, c, d, e, f; Real3 b; size_type id; Secondary s;
    IFS_ctor(&h, a, b, c, d, e, f, id, &s);
    VERIF_CANARY();
}
""")


def build_ifs_call(ctx):
    pc = ctx.func(IFS, r"CELER_FUNCTION Interaction IoniFinalStateHelper::operator\(\)\(Engine& rng\)", IFS_RULES, name="IoniFinalStateHelper::operator()")
    return (HDR + INTERACTION_MODEL + IFS_MODEL + IFS_CALL_SIG + "{" + pc.body + """}
void h_ifs_call(void)
{
    IoniFinalStateHelper h; Secondary s; Engine* e;
    h.secondary_ = &s;
    IFS_call(&h, e);
    VERIF_CANARY();
}
""")


# ---------------------------------------------------------------------------
BFS_MODEL = COMMON + """
typedef struct { Real3 inc_direction_; real_type inc_momentum_, exit_energy_; size_type gamma_id_; real_type gamma_energy_, costheta_; Secondary* secondary_; } BremFinalStateHelper;
"""
BFS_CTOR_SIG = """
void BFS_ctor(BremFinalStateHelper* self, real_type inc_energy, Real3 inc_direction, real_type inc_momentum, size_type gamma_id, real_type gamma_energy, real_type costheta, Secondary* secondary)
__CPROVER_requires(__CPROVER_rw_ok(self, sizeof(*self)) && secondary != 0)
__CPROVER_requires(NOTNAN(inc_energy) && NOTNAN(inc_momentum) && NOTNAN(gamma_energy) && !__CPROVER_isinfd(inc_energy) && !__CPROVER_isinfd(gamma_energy))
__CPROVER_assigns(*self)
/* the exiting energy is the incident energy minus the photon's */
__CPROVER_ensures(self->exit_energy_ == inc_energy - gamma_energy && self->gamma_energy_ == gamma_energy && self->gamma_id_ == gamma_id && self->secondary_ == secondary && self->inc_momentum_ == inc_momentum)
"""
BFS_CALL_SIG = """
Interaction BFS_call(BremFinalStateHelper const* self, Engine* rng)
__CPROVER_requires(__CPROVER_r_ok(self, sizeof(*self)) && __CPROVER_rw_ok(self->secondary_, sizeof(Secondary)))
__CPROVER_requires(!__CPROVER_isnand(self->gamma_energy_) && !__CPROVER_isnand(self->exit_energy_) && !__CPROVER_isnand(self->inc_momentum_) && !__CPROVER_isnand(self->inc_direction_))
__CPROVER_assigns(*self->secondary_, g_draws, g_exit)
/* momentum: the primary's new direction is unit(p_inc d_inc - k d_gamma): the photon's momentum is its energy, along the direction just given to it */
__CPROVER_ensures(g_exit.p_in == self->inc_momentum_ && g_exit.d_in == self->inc_direction_ && g_exit.p_out == self->gamma_energy_ && g_exit.d_out == self->secondary_->direction)
__CPROVER_ensures(self->secondary_->energy == self->gamma_energy_ && self->secondary_->particle_id == self->gamma_id_)
__CPROVER_ensures(__CPROVER_return_value.energy == self->exit_energy_)
__CPROVER_ensures(__CPROVER_return_value.secondaries.ptr == self->secondary_ && __CPROVER_return_value.secondaries.size == 1)
__CPROVER_ensures(__CPROVER_return_value.energy_deposition == 0 && __CPROVER_return_value.action == IA_scattered && g_draws == __CPROVER_old(g_draws) + 1)
"""
BFS_MEMBERS = members("inc_direction_", "inc_momentum_", "exit_energy_", "gamma_id_", "gamma_energy_", "costheta_", "secondary_")
BFS_RULES = Q_RULES + [
    Rule(r"ExitingDirectionSampler\{costheta_, inc_direction_\}\(rng\)", "EDS_sample(costheta_, inc_direction_, rng)", 1, note="direction sampler -> stub (one draw)"),
    Rule(r"calc_exiting_direction\(\s*\{([^{}]*),([^{}]*)\},\s*\{([^{}]*),([^{}]*)\}\)", r"calc_exiting_direction2(\1,\2,\3,\4)", 1, note="aggregate arguments flattened"),
    RESULT_INIT,
    Rule(r"result\.secondaries = \{secondary_, 1\};", "result.secondaries.ptr = secondary_; result.secondaries.size = 1;", 1, note="Span aggregate assignment"),
    BFS_MEMBERS,
]


def bfs_ctor_text(ctx):
    return ctor_body(ctx, BFS, r"^BremFinalStateHelper::BremFinalStateHelper\(Energy inc_energy,", "BremFinalStateHelper::BremFinalStateHelper")


def build_bfs_ctor(ctx):
    return (HDR + INTERACTION_MODEL + BFS_MODEL + BFS_CTOR_SIG + "{\n" + bfs_ctor_text(ctx) + """}
void h_bfs_ctor(void)
{
    BremFinalStateHelper h; real_type a, c, e, f; Real3 b; size_type id; Secondary s;
    BFS_ctor(&h, a, b, c, id, e, f, &s);
    VERIF_CANARY();
}
""")


def build_bfs_call(ctx):
    pc = ctx.func(BFS, r"CELER_FUNCTION Interaction BremFinalStateHelper::operator\(\)\(Engine& rng\)", BFS_RULES, name="BremFinalStateHelper::operator()")
    return (HDR + INTERACTION_MODEL + BFS_MODEL + BFS_CALL_SIG + "{" + pc.body + """}
void h_bfs_call(void)
{
    BremFinalStateHelper h; Secondary s; Engine* e;
    h.secondary_ = &s;
    BFS_call(&h, e);
    VERIF_CANARY();
}
""")



# ---------------------------------------------------------------------------
# interactors built on the helpers
INTERACTOR_COMMON = """
#define ALLOC_OK(n) (g_alloc_ok && (n) <= g_cap)
#define UNTOUCHED(k) (g_buf[k].particle_id == g_old.particle_id && g_buf[k].energy == g_old.energy)
/* storage exhausted: explicit failure, no random draw consumed, no secondary slot written */
#define FAIL_CLEAN(r) ((r).action == IA_failed && g_draws == 0 && (r).secondaries.size == 0 && UNTOUCHED(g_k))
#define NBUF 4
#define BUF_REQ (g_cap <= NBUF && __CPROVER_rw_ok(g_buf, NBUF * sizeof(Secondary)) && g_k < NBUF && g_old.particle_id == g_buf[g_k].particle_id && g_old.energy == g_buf[g_k].energy && g_draws == 0 && g_requested == 0)
#define HARNESS_BUF  size_type cap, k; unsigned r1; __CPROVER_assume(cap <= NBUF && k < NBUF); Secondary buf[NBUF]; g_buf = buf; g_cap = cap; g_k = k; g_alloc_ok = (r1 != 0); g_old = buf[k];
"""
class AllocIdioms:
    """The secondary allocation idioms: `allocate_(n)` -> ALLOC_call(n) (stub with the c16_alloc contract) wherever it occurs (at least once);
    `if (Secondary* p = ALLOC_call(n))` -> declaration + if; a Span<Secondary> built on the result -> {ptr, size} with empty()/data()/size()/front()/operator[]."""
    pat = "alloc-idioms"

    def apply(self, text, report, where):
        import re as _re
        text, n = _re.subn(r"\ballocate_\(", "ALLOC_call(", text)
        if n == 0:
            raise ExtractionDrift("no allocate_( call in " + where)
        text, n2 = _re.subn(r"if \(Secondary\* (\w+) = (ALLOC_call\([^()]*\))\)", r"Secondary* \1 = \2;\n    if (\1)", text)
        spans = _re.findall(r"Span<Secondary> (\w+)\{", text)
        text, n3 = _re.subn(r"Span<Secondary> (\w+)\{([^{};]*)\};", r"SpanSecondary \1 = {\2};", text)
        for nm in spans:
            text = _re.sub(r"\b%s\.empty\(\)" % nm, "(%s.size == 0)" % nm, text)
            text = _re.sub(r"\b%s\.data\(\)" % nm, "%s.ptr" % nm, text)
            text = _re.sub(r"\b%s\.size\(\)" % nm, "%s.size" % nm, text)
            text = _re.sub(r"\b%s\.front\(\)" % nm, "%s.ptr[0]" % nm, text)
            text = _re.sub(r"&%s\[(\d)\]" % nm, r"(%s.ptr + \1)" % nm, text)
        report.append({"where": where, "rule": self.pat, "fires": n + n2 + n3, "expected": "+", "note": "allocator functor -> stub with the c16_alloc contract; Span<Secondary> over the allocation -> {ptr, size}"})
        return text


ALLOC1 = AllocIdioms()
FACTORY = Rule(r"Interaction::from_(failure|absorption|unchanged)\(\)", r"Interaction_from_\1()", "+", note="static factory (extracted)")


def factories(ctx):
    from units.c04 import INT
    fu = ctx.func(INT, r"CELER_FUNCTION Interaction Interaction::from_unchanged\(\)", [RESULT_INIT, Rule(r"Action::(\w+)", r"IA_\1", "+", note="enum")], name="Interaction::from_unchanged")
    return interaction_factories(ctx) + "static Interaction Interaction_from_unchanged(void)\n{" + fu.body + "}\n"


# The constructors are NOT replaced by their contracts in the interactor units: a pointer member havocked by contract replacement and then
# constrained by an assumed equality does not dereference in CBMC (value-set analysis).  The real extracted constructor body is inlined instead.
def ifs_stubs(ctx):
    return IFS_CTOR_SIG + "{\n" + ifs_ctor_text(ctx) + "}\n" + IFS_CALL_SIG + ";\n"


def bfs_stubs(ctx):
    return BFS_CTOR_SIG + "{\n" + bfs_ctor_text(ctx) + "}\n" + BFS_CALL_SIG + ";\n"

# ---- Moller-Bhabha ---------------------------------------------------------
MB = D + "MollerBhabhaInteractor.hh"
MB_MODEL = """
typedef struct { real_type inc_energy_, inc_momentum_; Real3 inc_direction_; real_type electron_cutoff_; bool inc_particle_is_electron_; real_type electron_mass; size_type electron_id; } MollerBhabhaInteractor;
/* Moller / Bhabha energy distributions: the sampled fraction of the incident energy, in (0, 1] (assumed; Moller is in fact <= 1/2) */
real_type MB_sample_moller(MollerBhabhaInteractor const* self, Engine* rng) __CPROVER_requires(self->inc_particle_is_electron_) __CPROVER_assigns(g_draws) __CPROVER_ensures(__CPROVER_return_value > 0 && __CPROVER_return_value <= 1 && g_draws > __CPROVER_old(g_draws));
real_type MB_sample_bhabha(MollerBhabhaInteractor const* self, Engine* rng) __CPROVER_requires(!self->inc_particle_is_electron_) __CPROVER_assigns(g_draws) __CPROVER_ensures(__CPROVER_return_value > 0 && __CPROVER_return_value <= 1 && g_draws > __CPROVER_old(g_draws));
"""
MB_RULES = Q_RULES + [
    ALLOC1, NULLPTR, FACTORY,
    Rule(r"\[this, &rng\]", "[&]", 1, note="lambda capture list"),
    IIFE(["real_type"]),
    Rule(r"MollerEnergyDistribution\(\s*shared_\.electron_mass,\s*electron_cutoff_,\s*inc_energy_\)\(rng\)", "MB_sample_moller(self, rng)", 1, note="energy distribution -> stub (assumed range)"),
    Rule(r"BhabhaEnergyDistribution\(\s*shared_\.electron_mass,\s*electron_cutoff_,\s*inc_energy_\)\(rng\)", "MB_sample_bhabha(self, rng)", 1, note="energy distribution -> stub (assumed range)"),
    Rule(r"Energy secondary_energy = inc_energy_ \* (\(\{.*?\}\));", r"real_type secondary_energy = FMUL_frac(inc_energy_, \1);", 1, flags=16, note="Quantity * fraction -> assumed IEEE lemma 0 <= E*eps <= E"),
    Rule(r"CELER_ASSERT\(secondary_energy >= electron_cutoff_\);", "", 1, note="threshold assertion dropped: NOT decided (enforced inside the sampled distribution; FP product)"),
    Rule(r"IoniFinalStateHelper sample_interaction\(", "IoniFinalStateHelper sample_interaction; IFS_ctor(&sample_interaction, ", 1, note="constructor call"),
    Rule(r"return sample_interaction\(rng\);", "return IFS_call(&sample_interaction, rng);", 1, note="functor call"),
    Rule(r"shared_\.ids\.electron", "self->electron_id", 1, note="params"),
    Rule(r"shared_\.electron_mass", "self->electron_mass", "+", note="params"),
    members("inc_energy_", "inc_momentum_", "inc_direction_", "electron_cutoff_", "inc_particle_is_electron_"),
]


def build_mb(ctx):
    pc = ctx.func(MB, r"CELER_FUNCTION Interaction MollerBhabhaInteractor::operator\(\)\(Engine& rng\)", MB_RULES, name="MollerBhabhaInteractor::operator()")
    return (HDR + INTERACTION_MODEL + factories(ctx) + IFS_MODEL + ifs_stubs(ctx) + INTERACTOR_COMMON + MB_MODEL + """
Interaction MB_call(MollerBhabhaInteractor const* self, Engine* rng)
__CPROVER_requires(__CPROVER_r_ok(self, sizeof(*self)) && self->inc_energy_ > 0 && !__CPROVER_isinfd(self->inc_energy_) && NOTNAN(self->inc_momentum_) && NOTNAN(self->inc_direction_) && NOTNAN(self->electron_mass) && self->electron_id != INVALID_ID && BUF_REQ)
__CPROVER_assigns(g_draws, g_requested, g_exit, __CPROVER_object_whole(g_buf))
__CPROVER_ensures(g_requested == 1)
__CPROVER_ensures(!ALLOC_OK(1) ==> FAIL_CLEAN(__CPROVER_return_value))
/* ledger: incident = outgoing + delta ray, nothing deposited; the delta ray is an electron with 0 <= energy <= incident */
__CPROVER_ensures(ALLOC_OK(1) ==> (__CPROVER_return_value.action == IA_scattered && __CPROVER_return_value.secondaries.ptr == g_buf && __CPROVER_return_value.secondaries.size == 1))
__CPROVER_ensures(ALLOC_OK(1) ==> (g_buf[0].particle_id == self->electron_id && g_buf[0].energy >= 0 && g_buf[0].energy <= self->inc_energy_))
__CPROVER_ensures(ALLOC_OK(1) ==> (__CPROVER_return_value.energy == self->inc_energy_ - g_buf[0].energy && __CPROVER_return_value.energy >= 0))
__CPROVER_ensures(ALLOC_OK(1) ==> __CPROVER_return_value.energy_deposition == 0)
__CPROVER_ensures((ALLOC_OK(1) && g_k != 0) ==> UNTOUCHED(g_k))
{""" + pc.body + """}
void h_mb(void)
{
    MollerBhabhaInteractor m; Engine* e; unsigned r2; HARNESS_BUF
    m.inc_particle_is_electron_ = (r2 != 0);
    MB_call(&m, e);
    VERIF_CANARY();
}
""")


# ---- Muon / hadron ionisation ----------------------------------------------
MH = D + "MuHadIonizationInteractor.hh"
MH_MODEL = """
typedef struct { real_type inc_energy_; Real3 inc_direction_; real_type inc_momentum_, inc_mass_, electron_mass_; size_type electron_id_; } MuHadIonizationInteractor;
real_type g_min, g_max;   /* ghost: the energy sampler's min / max secondary energy */
/* EnergySampler::operator(): a value in [min_secondary_energy, max_secondary_energy] (assumed contract of the distribution) */
real_type MH_sample_energy(MuHadIonizationInteractor const* self, Engine* rng) __CPROVER_requires(g_min < g_max) __CPROVER_assigns(g_draws) __CPROVER_ensures(__CPROVER_return_value >= g_min && __CPROVER_return_value <= g_max && g_draws > __CPROVER_old(g_draws));
"""
MH_RULES = Q_RULES + [
    Rule(r"sample_energy_\.min_secondary_energy\(\)", "g_min", 1, note="sampler accessor -> ghost"),
    Rule(r"sample_energy_\.max_secondary_energy\(\)", "g_max", 1, note="sampler accessor -> ghost"),
    ALLOC1, NULLPTR, FACTORY,
    Rule(r"sample_energy_\(rng\)", "MH_sample_energy(self, rng)", 1, note="energy sampler -> stub (assumed range)"),
    TempCall("IoniFinalStateHelper", "IFS_ctor", "IFS_call"),
    members("inc_energy_", "inc_direction_", "inc_momentum_", "inc_mass_", "electron_mass_", "electron_id_"),
]


def build_mh(ctx):
    pc = ctx.func(MH, r"CELER_FUNCTION Interaction MuHadIonizationInteractor<ES>::operator\(\)\(Engine& rng\)", MH_RULES, name="MuHadIonizationInteractor<ES>::operator()")
    return (HDR + INTERACTION_MODEL + factories(ctx) + IFS_MODEL + ifs_stubs(ctx) + INTERACTOR_COMMON + MH_MODEL + """
Interaction MH_call(MuHadIonizationInteractor const* self, Engine* rng)
__CPROVER_requires(__CPROVER_r_ok(self, sizeof(*self)) && self->inc_energy_ > 0 && !__CPROVER_isinfd(self->inc_energy_) && NOTNAN(self->inc_momentum_) && NOTNAN(self->inc_direction_) && NOTNAN(self->inc_mass_) && NOTNAN(self->electron_mass_) && self->electron_id_ != INVALID_ID && BUF_REQ)
/* assumed about the sampler: 0 <= min, max <= incident energy (kinematic limit) */
__CPROVER_requires(g_min >= 0 && g_max <= self->inc_energy_ && NOTNAN(g_min) && NOTNAN(g_max))
__CPROVER_assigns(g_draws, g_requested, g_exit, __CPROVER_object_whole(g_buf))
/* nothing can be produced: explicit 'unchanged', no storage requested, no draw */
__CPROVER_ensures(g_min >= g_max ==> (__CPROVER_return_value.action == IA_unchanged && g_requested == 0 && g_draws == 0 && __CPROVER_return_value.secondaries.size == 0 && UNTOUCHED(g_k)))
__CPROVER_ensures((g_min < g_max && !ALLOC_OK(1)) ==> FAIL_CLEAN(__CPROVER_return_value))
__CPROVER_ensures((g_min < g_max && ALLOC_OK(1)) ==> (__CPROVER_return_value.action == IA_scattered && __CPROVER_return_value.secondaries.ptr == g_buf && __CPROVER_return_value.secondaries.size == 1))
__CPROVER_ensures((g_min < g_max && ALLOC_OK(1)) ==> (g_buf[0].particle_id == self->electron_id_ && g_buf[0].energy >= g_min && g_buf[0].energy <= g_max))
__CPROVER_ensures((g_min < g_max && ALLOC_OK(1)) ==> (__CPROVER_return_value.energy == self->inc_energy_ - g_buf[0].energy && __CPROVER_return_value.energy >= 0))
__CPROVER_ensures((g_min < g_max && ALLOC_OK(1)) ==> __CPROVER_return_value.energy_deposition == 0)
__CPROVER_ensures((g_min < g_max && ALLOC_OK(1) && g_k != 0) ==> UNTOUCHED(g_k))
{""" + pc.body + """}
void h_mh(void)
{
    MuHadIonizationInteractor m; Engine* e; HARNESS_BUF
    MH_call(&m, e);
    VERIF_CANARY();
}
""")


# ---- bremsstrahlung interactors (Seltzer-Berger, relativistic, muon) -------
BR_MODEL = """
typedef struct { real_type inc_energy_, inc_momentum_; Real3 inc_direction_; size_type gamma_id; } BremInteractor;
/* photon energy sampler: 0 < k <= incident kinetic energy (assumed contract of SBEnergySampler / RBEnergySampler / the muon-brems rejection loop) */
real_type BR_sample_photon_energy(BremInteractor const* self, Engine* rng) __CPROVER_assigns(g_draws) __CPROVER_ensures(__CPROVER_return_value > 0 && __CPROVER_return_value <= self->inc_energy_ && g_draws > __CPROVER_old(g_draws));
real_type BR_sample_costheta(BremInteractor const* self, Engine* rng) __CPROVER_assigns(g_draws) __CPROVER_ensures(g_draws > __CPROVER_old(g_draws));
real_type BR_sample_costheta_k(BremInteractor const* self, real_type k, Engine* rng) __CPROVER_assigns(g_draws) __CPROVER_ensures(g_draws > __CPROVER_old(g_draws));
"""
BR_RULES = Q_RULES + [
    ALLOC1, NULLPTR, FACTORY,
    Rule(r"sample_photon_energy_\(rng\)", "BR_sample_photon_energy(self, rng)", 1, note="photon energy sampler -> stub (assumed range)"),
    Rule(r"sample_costheta_\(rng\)", "BR_sample_costheta(self, rng)", 1, note="polar angle sampler -> stub"),
    TempCall("BremFinalStateHelper", "BFS_ctor", "BFS_call"),
    Rule(r"shared_\.ids\.gamma", "self->gamma_id", 1, note="params"),
    members("inc_energy_", "inc_momentum_", "inc_direction_"),
]
MUB_RULES = Q_RULES + [
    ALLOC1, NULLPTR, FACTORY,
    Rule(r"real_type gamma_energy;\s*do\s*\{\s*gamma_energy = sample_energy_\(rng\);\s*\}\s*while \(RejectionSampler\{gamma_energy \* calc_dcs_\(\(gamma_energy\)\),\s*envelope_\}\(rng\)\);",
         "real_type gamma_energy = BR_sample_photon_energy(self, rng);", 1, flags=16, note="rejection loop over the differential cross section -> stub (assumed range); number of draws NOT decided"),
    Rule(r"this->sample_cos_theta\(gamma_energy, rng\)", "BR_sample_costheta_k(self, gamma_energy, rng)", 1, note="polar angle sampler -> stub"),
    TempCall("BremFinalStateHelper", "BFS_ctor", "BFS_call"),
    Rule(r"particle_\.energy\(\)", "self->inc_energy_", 1, note="ParticleTrackView accessor -> field"),
    Rule(r"particle_\.momentum\(\)", "self->inc_momentum_", 1, note="ParticleTrackView accessor -> field"),
    Rule(r"shared_\.gamma", "self->gamma_id", 1, note="params"),
    members("inc_direction_"),
]


def brem_builder(path, cls, rules):
    def build(ctx):
        pc = ctx.func(D + path, r"CELER_FUNCTION Interaction %s::operator\(\)\(Engine& rng\)" % cls, rules, name=cls + "::operator()")
        return (HDR + INTERACTION_MODEL + factories(ctx) + BFS_MODEL + bfs_stubs(ctx) + INTERACTOR_COMMON + BR_MODEL + """
Interaction BR_call(BremInteractor const* self, Engine* rng)
__CPROVER_requires(__CPROVER_r_ok(self, sizeof(*self)) && self->inc_energy_ > 0 && !__CPROVER_isinfd(self->inc_energy_) && NOTNAN(self->inc_momentum_) && NOTNAN(self->inc_direction_) && self->gamma_id != INVALID_ID && BUF_REQ)
__CPROVER_assigns(g_draws, g_requested, g_exit, __CPROVER_object_whole(g_buf))
__CPROVER_ensures(g_requested == 1)
__CPROVER_ensures(!ALLOC_OK(1) ==> FAIL_CLEAN(__CPROVER_return_value))
/* ledger: incident = outgoing + photon, nothing deposited; the photon has 0 < k <= incident */
__CPROVER_ensures(ALLOC_OK(1) ==> (__CPROVER_return_value.action == IA_scattered && __CPROVER_return_value.secondaries.ptr == g_buf && __CPROVER_return_value.secondaries.size == 1))
__CPROVER_ensures(ALLOC_OK(1) ==> (g_buf[0].particle_id == self->gamma_id && g_buf[0].energy > 0 && g_buf[0].energy <= self->inc_energy_))
__CPROVER_ensures(ALLOC_OK(1) ==> (__CPROVER_return_value.energy == self->inc_energy_ - g_buf[0].energy && __CPROVER_return_value.energy >= 0))
__CPROVER_ensures(ALLOC_OK(1) ==> __CPROVER_return_value.energy_deposition == 0)
__CPROVER_ensures((ALLOC_OK(1) && g_k != 0) ==> UNTOUCHED(g_k))
{""" + pc.body + """}
void h_br(void)
{
    BremInteractor m; Engine* e; HARNESS_BUF
    BR_call(&m, e);
    VERIF_CANARY();
}
""")
    return build


def brem_unit(name, path, cls, rules, extra_assume=()):
    return Unit(name, brem_builder(path, cls, rules), "h_br", enforce="BR_call", replace=["BFS_call", "BR_sample_photon_energy", "BR_sample_costheta", "BR_sample_costheta_k"], timeout=300, backend=["sat", "cvc5", "z3"],
                must_have=[r"BR_call.postcondition", r"ALLOC_call.precondition", r"BFS_call.precondition"], checks=["--bounds-check", "--pointer-check"],
                assumptions=["photon energy sampler returns 0 < k <= incident energy (assumed)", "BremFinalStateHelper contracts (operator() enforced in c04_brem_final_call; the constructor body is inlined)", "StackAllocator contract (enforced in c16_alloc)"] + list(extra_assume),
                note=cls + "::operator(): explicit failure with zero draws and nothing written when storage is exhausted; otherwise incident = outgoing + photon, no deposit, gamma id, only slot 0 written")


# ---- Klein-Nishina ---------------------------------------------------------
KN = D + "KleinNishinaInteractor.hh"
KN_MODEL = """
typedef struct { real_type inc_energy_; Real3 inc_direction_; real_type inv_electron_mass; size_type electron_id; } KleinNishinaInteractor;
real_type g_omc;   /* ghost: 1 - cos(theta) belonging to the sampled epsilon */
/* the rejection loop's result: epsilon = E'/E in [epsilon_0, 1] with epsilon_0 > 0 (assumed; the loop's own CELER_ASSERT states it) and the matching 1 - cos(theta) */
real_type KN_sample_epsilon(KleinNishinaInteractor const* self, Engine* rng) __CPROVER_assigns(g_draws, g_omc) __CPROVER_ensures(__CPROVER_return_value > 0 && __CPROVER_return_value <= 1 && g_draws > __CPROVER_old(g_draws));
Real3 KN_calc_exiting_direction(real_type e0, Real3 d0, real_type e1, Real3 d1) __CPROVER_assigns() __CPROVER_ensures(1);
#define KN_CUTOFF 1e-4
"""
KN_RULES = Q_RULES + [
    ALLOC1, NULLPTR, FACTORY,
    Rule(r"using Energy = units::MevEnergy;", "", 1, note="Quantity alias dropped"),
    Rule(r"real_type const inc_energy_per_mecsq = .*?\} while \(BernoulliDistribution\(reject_prob\)\(rng\)\);",
         "real_type epsilon = KN_sample_epsilon(self, rng); real_type one_minus_costheta = g_omc;", 1, flags=16,
         note="epsilon_0 computation, distribution set-up and the rejection loop -> stub with assumed result range; number of draws NOT decided"),
    RESULT_INIT,
    Rule(r"result\.energy = \(epsilon \* inc_energy_\);", "result.energy = FMUL_frac(inc_energy_, epsilon);", 1, note="FP product -> assumed IEEE lemma 0 <= E*eps <= E"),
    Rule(r"result\.secondaries = \{electron_secondary, 1\};", "result.secondaries.ptr = electron_secondary; result.secondaries.size = 1;", 1, note="Span aggregate assignment"),
    Rule(r"ExitingDirectionSampler\{1 - one_minus_costheta,\s*result\.direction\}\(rng\)", "EDS_sample(1 - one_minus_costheta, result.direction, rng)", 1, note="direction sampler -> stub"),
    Rule(r"KleinNishinaInteractor::secondary_cutoff\(\)", "KN_CUTOFF", 1, note="constexpr threshold (value re-read from the header each run)"),
    Rule(r"\*electron_secondary = \{\};", "electron_secondary->particle_id = INVALID_ID; electron_secondary->energy = 0; electron_secondary->direction = 0;", 1, note="value-initialised Secondary (invalid id, zero energy)"),
    Rule(r"shared_\.ids\.electron", "self->electron_id", 1, note="params"),
    Rule(r"calc_exiting_direction\(\s*\{([^{}]*),([^{}]*)\},\s*\{([^{}]*),([^{}]*)\}\)", r"calc_exiting_direction2(\1,\2,\3,\4)", 1, note="aggregate arguments flattened"),
    members("inc_energy_", "inc_direction_"),
]


def kn_cutoff(ctx):
    pc = ctx.func(KN, r"static CELER_CONSTEXPR_FUNCTION units::MevEnergy secondary_cutoff\(\)", [], name="KleinNishinaInteractor::secondary_cutoff")
    m = re.search(r"return units::MevEnergy\{([0-9.eE+-]+)\};", pc.body)
    if not m:
        raise ExtractionDrift("secondary_cutoff() is not a literal")
    return m.group(1)


def build_kn(ctx):
    pc = ctx.func(KN, r"CELER_FUNCTION Interaction KleinNishinaInteractor::operator\(\)\(Engine& rng\)", KN_RULES, name="KleinNishinaInteractor::operator()")
    return (HDR + INTERACTION_MODEL + factories(ctx) + COMMON + INTERACTOR_COMMON + KN_MODEL.replace("1e-4", kn_cutoff(ctx)) + """
Interaction KN_call(KleinNishinaInteractor const* self, Engine* rng)
__CPROVER_requires(__CPROVER_r_ok(self, sizeof(*self)) && self->inc_energy_ > 0 && !__CPROVER_isinfd(self->inc_energy_) && NOTNAN(self->inc_direction_) && self->electron_id != INVALID_ID && BUF_REQ)
__CPROVER_assigns(g_draws, g_omc, g_requested, g_exit, __CPROVER_object_whole(g_buf))
__CPROVER_ensures(g_requested == 1)
__CPROVER_ensures(!ALLOC_OK(1) ==> FAIL_CLEAN(__CPROVER_return_value))
__CPROVER_ensures(ALLOC_OK(1) ==> (__CPROVER_return_value.action == IA_scattered && __CPROVER_return_value.secondaries.ptr == g_buf && __CPROVER_return_value.secondaries.size == 1))
/* the scattered photon keeps 0 <= E' <= E */
__CPROVER_ensures(ALLOC_OK(1) ==> (__CPROVER_return_value.energy >= 0 && __CPROVER_return_value.energy <= self->inc_energy_))
/* ledger: the recoil energy E - E' goes either to the electron (at or above the production threshold) or, below it, to the local deposit with the secondary slot cleared */
#define KN_EMIT (g_buf[0].energy == self->inc_energy_ - __CPROVER_return_value.energy && g_buf[0].particle_id == self->electron_id && __CPROVER_return_value.energy_deposition == 0)
#define KN_DEPOSIT (__CPROVER_return_value.energy_deposition == self->inc_energy_ - __CPROVER_return_value.energy && g_buf[0].particle_id == INVALID_ID && g_buf[0].energy == 0)
__CPROVER_ensures((ALLOC_OK(1) && self->inc_energy_ - __CPROVER_return_value.energy > KN_CUTOFF) ==> KN_EMIT)
__CPROVER_ensures((ALLOC_OK(1) && self->inc_energy_ - __CPROVER_return_value.energy < KN_CUTOFF) ==> KN_DEPOSIT)
/* exactly at the threshold either outcome satisfies the property; the ledger must close either way */
__CPROVER_ensures(ALLOC_OK(1) ==> (KN_EMIT || KN_DEPOSIT))
__CPROVER_ensures(ALLOC_OK(1) ==> __CPROVER_return_value.energy_deposition >= 0)
__CPROVER_ensures((ALLOC_OK(1) && g_k != 0) ==> UNTOUCHED(g_k))
/* momentum: an emitted electron goes along unit(k d_inc - k' d'), with (k', d') the scattered photon actually returned (a photon's momentum is its energy) */
__CPROVER_ensures((ALLOC_OK(1) && g_buf[0].particle_id == self->electron_id) ==> (g_exit.p_in == self->inc_energy_ && g_exit.d_in == self->inc_direction_ && g_exit.p_out == __CPROVER_return_value.energy && g_exit.d_out == __CPROVER_return_value.direction))
{""" + pc.body + """}
void h_kn(void)
{
    KleinNishinaInteractor m; Engine* e; HARNESS_BUF
    KN_call(&m, e);
    VERIF_CANARY();
}
""")


# ---- e+ annihilation -------------------------------------------------------
EGG = D + "EPlusGGInteractor.hh"
EGG_MODEL = """
typedef struct { real_type inc_energy_; Real3 inc_direction_; real_type electron_mass; size_type gamma; } EPlusGGInteractor;
/* the rejection loop's result: the energy fraction of the first photon, in (0, 1) (assumed: ReciprocalDistribution on [1/2 - s, 1/2 + s], s < 1/2) */
real_type EGG_sample_epsil(EPlusGGInteractor const* self, Engine* rng) __CPROVER_assigns(g_draws) __CPROVER_ensures(__CPROVER_return_value > 0 && __CPROVER_return_value <= 1 && g_draws > __CPROVER_old(g_draws));
Real3 ISO_sample(Engine* rng) __CPROVER_assigns(g_draws) __CPROVER_ensures(g_draws > __CPROVER_old(g_draws));
double __CPROVER_uninterpreted_exitdir(double, double, double, double);
/* calc_exiting_direction(in, out) = unit(in - out) (momentum conservation).  Both annihilation photons are returned, so the second photon must get
   p(e+) - k1 d1: the OUT momentum has to be the FIRST photon's (energy, direction), the IN momentum the positron's along the incident direction. */
static Real3 EGG_exiting_direction(real_type p_in, Real3 d_in, real_type p_out, Real3 d_out)
{
    __CPROVER_assert(p_out == g_buf[0].energy && d_out == g_buf[0].direction, "momentum.eplus_gg: the second photon's direction is p(e+) minus the FIRST photon's momentum (k1, d1)");
    return __CPROVER_uninterpreted_exitdir(p_in, d_in, p_out, d_out);
}
"""
EGG_RULES = Q_RULES + [
    ALLOC1, NULLPTR, FACTORY, VALUE_AS,
    Rule(r"result\.secondaries = \{secondaries, 2\};", "result.secondaries.ptr = secondaries; result.secondaries.size = 2;", 1, note="Span aggregate assignment"),
    Rule(r"IsotropicDistribution<real_type> gamma_dir;", "", 1, note="distribution object dropped"),
    Rule(r"gamma_dir\(rng\)", "ISO_sample(rng)", 1, note="isotropic direction -> stub"),
    Rule(r"ReciprocalDistribution<real_type> sample_eps\(.*?\} while \(BernoulliDistribution\(.*?\)\(rng\)\);", "real_type epsil = EGG_sample_epsil(self, rng);", 1, flags=16,
         note="distribution set-up and rejection loop -> stub with assumed result range; number of draws NOT decided"),
    Rule(r"std::sqrt\(", "UF_sqrt(", "+", note="sqrt -> uninterpreted (feeds only the directions)"),
    Rule(r"CELER_ASSERT\(std::fabs\(cost\) <= 1\);", "", 1, note="numeric assertion on the polar angle dropped: NOT decided"),
    Rule(r"real_type const gamma_energy = epsil \* total_energy;", "real_type const gamma_energy = FMUL_frac(total_energy, epsil);", 1, note="FP product -> assumed IEEE lemma 0 <= E*eps <= E"),
    Rule(r"ExitingDirectionSampler\{cost, inc_direction_\}\(rng\)", "EDS_sample(cost, inc_direction_, rng)", 1, note="direction sampler -> stub"),
    Rule(r"calc_exiting_direction\(\s*\{([^{}]*),([^{}]*)\},\s*\{([^{}]*),([^{}]*)\}\)", r"EGG_exiting_direction(\1,\2,\3,\4)", 1, note="aggregate arguments flattened; stub checks WHICH momenta are subtracted"),
    Rule(r"shared_\.gamma", "self->gamma", 1, note="params"),
    Rule(r"shared_\.electron_mass", "self->electron_mass", "+", note="params"),
    members("inc_energy_", "inc_direction_"),
]


def build_egg(ctx):
    pc = ctx.func(EGG, r"CELER_FUNCTION Interaction EPlusGGInteractor::operator\(\)\(Engine& rng\)", EGG_RULES, name="EPlusGGInteractor::operator()")
    return (HDR + INTERACTION_MODEL + factories(ctx) + COMMON + INTERACTOR_COMMON + EGG_MODEL + """
#define EGG_TOTAL (self->inc_energy_ + 2 * self->electron_mass)
Interaction EGG_call(EPlusGGInteractor const* self, Engine* rng)
__CPROVER_requires(__CPROVER_r_ok(self, sizeof(*self)) && self->inc_energy_ >= 0 && !__CPROVER_isinfd(self->inc_energy_) && self->electron_mass > 0 && !__CPROVER_isinfd(EGG_TOTAL) && self->gamma != INVALID_ID && BUF_REQ)
__CPROVER_assigns(g_draws, g_requested, g_exit, __CPROVER_object_whole(g_buf))
__CPROVER_ensures(g_requested == 2)
__CPROVER_ensures(!ALLOC_OK(2) ==> FAIL_CLEAN(__CPROVER_return_value))
/* the positron is absorbed; two photons are emitted, nothing deposited locally */
__CPROVER_ensures(ALLOC_OK(2) ==> (__CPROVER_return_value.action == IA_absorbed && __CPROVER_return_value.energy == 0 && __CPROVER_return_value.energy_deposition == 0
      && __CPROVER_return_value.secondaries.ptr == g_buf && __CPROVER_return_value.secondaries.size == 2 && g_buf[0].particle_id == self->gamma && g_buf[1].particle_id == self->gamma))
/* ledger with 2 m c^2 for the annihilated pair: at rest each photon carries m c^2; in flight k1 + k2 = T + 2 m c^2 term by term, both non-negative */
__CPROVER_ensures((ALLOC_OK(2) && self->inc_energy_ == 0) ==> (g_buf[0].energy == self->electron_mass && g_buf[1].energy == self->electron_mass))
__CPROVER_ensures((ALLOC_OK(2) && self->inc_energy_ != 0) ==> (g_buf[0].energy >= 0 && g_buf[0].energy <= EGG_TOTAL && g_buf[1].energy == EGG_TOTAL - g_buf[0].energy && g_buf[1].energy >= 0))
__CPROVER_ensures((ALLOC_OK(2) && g_k > 1) ==> UNTOUCHED(g_k))
{""" + pc.body + """}
void h_egg(void)
{
    EPlusGGInteractor m; Engine* e; HARNESS_BUF
    EGG_call(&m, e);
    VERIF_CANARY();
}
""")


UNITS = [
    Unit("c04_ioni_final_ctor", build_ifs_ctor, "h_ifs_ctor", enforce="IFS_ctor", timeout=120, must_have=[r"IFS_ctor.postcondition", r"celer_expect"],
         note="IoniFinalStateHelper constructor: every member takes the corresponding argument (member initialiser list extracted)"),
    Unit("c04_ioni_final_call", build_ifs_call, "h_ifs_call", enforce="IFS_call", replace=["EDS_sample", "calc_exiting_direction2"], timeout=300, backend=["sat", "cvc5"],
         must_have=[r"IFS_call.postcondition"], checks=["--bounds-check", "--pointer-check"],
         assumptions=["direction sampling / exiting direction not verified (values outside the ledger)", "CELER_ASSERT(costheta <= 1) dropped: numeric, not decided"],
         note="IoniFinalStateHelper::operator(): secondary = electron_energy with the electron id, primary keeps inc - electron_energy >= 0, no local deposit, one secondary, scattered"),
    Unit("c04_brem_final_ctor", build_bfs_ctor, "h_bfs_ctor", enforce="BFS_ctor", timeout=300, backend=["sat", "cvc5", "z3"], must_have=[r"BFS_ctor.postcondition", r"celer_expect"],
         note="BremFinalStateHelper constructor: exit_energy = inc_energy - gamma_energy; other members take their arguments"),
    Unit("c04_brem_final_call", build_bfs_call, "h_bfs_call", enforce="BFS_call", replace=["EDS_sample", "calc_exiting_direction2"], timeout=300, backend=["sat", "cvc5"],
         must_have=[r"BFS_call.postcondition"], checks=["--bounds-check", "--pointer-check"],
         assumptions=["direction sampling / exiting direction not verified (values outside the ledger)"],
         note="BremFinalStateHelper::operator(): photon = gamma_energy with the gamma id, primary keeps exit_energy, no local deposit, one secondary, scattered"),
    Unit("c04_moller_bhabha", build_mb, "h_mb", enforce="MB_call", replace=["IFS_call", "MB_sample_moller", "MB_sample_bhabha", "FMUL_frac"], timeout=300, backend=["sat", "cvc5", "z3"],
         must_have=[r"MB_call.postcondition", r"ALLOC_call.precondition", r"IFS_call.precondition", r"FMUL_frac.precondition", r"MB_sample_moller.precondition"], checks=["--bounds-check", "--pointer-check"],
         assumptions=["Moller/Bhabha distributions return a fraction in (0,1] (assumed)", "IEEE lemma 0 <= E*eps <= E (assumed)", "IoniFinalStateHelper contracts (operator() enforced in c04_ioni_final_call; the constructor body is inlined)", "StackAllocator contract (enforced in c16_alloc)", "secondary_energy >= electron_cutoff not decided"],
         note="MollerBhabhaInteractor::operator(): explicit failure with zero draws and nothing written when storage is exhausted; otherwise incident = outgoing + delta ray, no deposit, electron id, only slot 0 written; the distribution matching the incident particle type is used"),
    Unit("c04_muhad_ionization", build_mh, "h_mh", enforce="MH_call", replace=["IFS_call", "MH_sample_energy"], timeout=300, backend=["sat", "cvc5", "z3"],
         must_have=[r"MH_call.postcondition", r"ALLOC_call.precondition", r"IFS_call.precondition", r"MH_sample_energy.precondition"], checks=["--bounds-check", "--pointer-check"],
         assumptions=["energy sampler returns a value in [min, max] with max <= incident energy (assumed)", "IoniFinalStateHelper contracts (operator() enforced in c04_ioni_final_call; the constructor body is inlined)", "StackAllocator contract (enforced in c16_alloc)"],
         note="MuHadIonizationInteractor::operator(): 'unchanged' with no allocation and no draw when min >= max; explicit clean failure when storage is exhausted; otherwise incident = outgoing + delta ray"),
    brem_unit("c04_seltzer_berger", "SeltzerBergerInteractor.hh", "SeltzerBergerInteractor", BR_RULES),
    brem_unit("c04_relativistic_brem", "RelativisticBremInteractor.hh", "RelativisticBremInteractor", BR_RULES),
    brem_unit("c04_mu_brems", "MuBremsstrahlungInteractor.hh", "MuBremsstrahlungInteractor", MUB_RULES, ["muon-brems rejection loop replaced by its assumed result; draw count not decided"]),
    Unit("c04_klein_nishina", build_kn, "h_kn", enforce="KN_call", replace=["KN_sample_epsilon", "FMUL_frac", "EDS_sample", "calc_exiting_direction2"], timeout=300, backend=["sat", "cvc5", "z3"],
         must_have=[r"KN_call.postcondition", r"ALLOC_call.precondition", r"FMUL_frac.precondition"], checks=["--bounds-check", "--pointer-check"],
         assumptions=["rejection loop result epsilon in (0,1] (assumed; draw count not decided)", "IEEE lemma 0 <= E*eps <= E (assumed)", "directions not verified", "StackAllocator contract (enforced in c16_alloc)"],
         note="KleinNishinaInteractor::operator(): clean failure; 0 <= E' <= E; the recoil E - E' goes to the electron (>= threshold, electron id) or to the local deposit with the slot cleared (< threshold); only slot 0 written"),
    Unit("c04_eplus_gg", build_egg, "h_egg", enforce="EGG_call", replace=["EGG_sample_epsil", "FMUL_frac", "EDS_sample", "ISO_sample"], timeout=300, backend=["sat", "cvc5", "z3"],
         must_have=[r"EGG_call.postcondition", r"ALLOC_call.precondition", r"FMUL_frac.precondition", r"momentum.eplus_gg"], checks=["--bounds-check", "--pointer-check"],
         replay={"src": "replay/c04.cc", "argv": lambda inputs, fl: [["eplus_gg_momentum"]]},
         assumptions=["rejection loop result epsil in (0,1] (assumed; draw count not decided)", "IEEE lemma 0 <= E*eps <= E (assumed)", "directions not verified", "StackAllocator contract (enforced in c16_alloc)"],
         note="EPlusGGInteractor::operator(): clean failure; positron absorbed, two gammas; at rest m c^2 each, in flight k1 + k2 = T + 2 m c^2 term by term, both >= 0; only slots 0,1 written"),
]


# ---- neutron elastic (CHIPS) -----------------------------------------------------
NE = "src/celeritas/neutron/interactor/ChipsNeutronElasticInteractor.hh"
NE_MODEL = """
/* exact-integer abstraction of real_type (VERIF_REAL_AS_INT): additions and subtractions are exact and associative, so ANY algebraically equivalent way of forming the
   two kinetic energies satisfies the ledger below; products, quotients, sqrt, the boost and the rotations are uninterpreted / havoc (their values are not decided). */
typedef struct { Real3 mom; real_type energy; } FourVector;
typedef struct { Real3 inc_direction_; real_type target_mass; real_type neutron_mass_, neutron_energy_, neutron_p_; } ChipsNeutronElasticInteractor;
long __CPROVER_uninterpreted_mul_l(long, long);
long __CPROVER_uninterpreted_div_l(long, long);
long __CPROVER_uninterpreted_sqrt_l(long);
long __CPROVER_uninterpreted_sq_l(long);
#define MUL(a, b) __CPROVER_uninterpreted_mul_l((a), (b))
#define FDIV(a, b) __CPROVER_uninterpreted_div_l((a), (b))
FourVector g_out;       /* ghost: the scattered neutron's four-momentum in the lab frame (result of the boost: any value with energy >= rest mass and <= the total energy) */
real_type NE_sample_q2(ChipsNeutronElasticInteractor const* self, Engine* rng) __CPROVER_assigns(g_draws) __CPROVER_ensures(g_draws > __CPROVER_old(g_draws));
real_type NE_sample_phi(ChipsNeutronElasticInteractor const* self, Engine* rng) __CPROVER_assigns(g_draws) __CPROVER_ensures(g_draws > __CPROVER_old(g_draws));
Real3 NE_from_spherical(real_type costheta, real_type phi) __CPROVER_assigns() __CPROVER_ensures(1);
Real3 NE_boost_vector(FourVector const* lv) __CPROVER_assigns() __CPROVER_ensures(1);
/* boost(v, &p): Lorentz transformation of p (numerics not decided); the scattered neutron's lab energy lies between its rest mass and its incident total energy: it cannot gain energy from a target at rest (kinematics, assumed) */
void NE_boost(Real3 v, FourVector* p, real_type mass, real_type total)   /* total: the neutron's incident total energy */
__CPROVER_requires(p != 0)
__CPROVER_assigns(*p, g_out)
__CPROVER_ensures(p->energy >= mass && p->energy <= total && g_out.energy == p->energy)
;
Real3 NE_rotate_unit(Real3 mom, Real3 dir) __CPROVER_assigns() __CPROVER_ensures(1);
"""
NE_RULES = Q_RULES + [
    VALUE_AS, RESULT_INIT,
    Rule(r"target_\.nuclear_mass\(\)", "self->target_mass", 1, note="IsotopeView accessor -> field"),
    Rule(r"std::sqrt\(", "__CPROVER_uninterpreted_sqrt_l(", "*", note="sqrt -> uninterpreted"),
    Rule(r"ipow<2>\(", "__CPROVER_uninterpreted_sq_l(", "*", note="ipow<2> -> uninterpreted"),
    Rule(r"real_type\(0\.5\)", "1", "*", note="constant factor folded into the uninterpreted product (value not decided)"),
    Rule(r"sample_momentum_square_\(rng\)", "NE_sample_q2(self, rng)", 1, note="momentum-transfer sampler -> stub"),
    Rule(r"sample_phi_\(rng\)", "NE_sample_phi(self, rng)", 1, note="azimuth sampler -> stub"),
    Rule(r"CELER_ASSERT\(std::fabs\(cos_theta\) <= 1\);", "", 1, note="numeric assertion on the polar angle dropped: NOT decided"),
    Rule(r"Real3 cm_mom = cm_p \* from_spherical\(([^;]*)\);", r"Real3 cm_mom = MUL(cm_p, NE_from_spherical(\1));", 1, note="scalar * vector -> uninterpreted"),
    Rule(r"FourVector nlv1\(\s*\{cm_mom, ([^;]*)\}\);", r"FourVector nlv1 = {cm_mom, \1};", 1, note="aggregate construction"),
    Rule(r"FourVector lv\(\{\{0, 0, \(?neutron_p_\)?\},\s*neutron_energy_ \+ target_mass\}\);", "FourVector lv = {neutron_p_, neutron_energy_ + target_mass};", 1, note="aggregate construction (momentum abstracted to its z component)"),
    Rule(r"boost\(boost_vector\(lv\), &nlv1\);", "NE_boost(NE_boost_vector(&lv), &nlv1, neutron_mass_, neutron_energy_);", 1, note="Lorentz boost -> stub"),
    Rule(r"rotate\(make_unit_vector\(nlv1\.mom\), inc_direction_\)", "NE_rotate_unit(nlv1.mom, inc_direction_)", 1, note="direction numerics -> stub"),
    Rule(r"Energy\(([^()]*)\)", r"(\1)", "*", note="Quantity construction -> value"),
    Rule(r"(\w[\w.]*) / ([\w.(][\w.()<>]*)", r"FDIV(\1, \2)", "*", note="quotients -> uninterpreted"),
    Rule(r"(?<![\w.>])(neutron_mass_|neutron_energy_|neutron_p_|inc_direction_)\b", r"self->\1", "+", note="data members"),
    Rule(r"Action::(\w+)", r"IA_\1", "*", note="enum"),
    Rule(r"Interaction::IA_", "IA_", "*", note="enum scope"),
]


def build_neutron_elastic(ctx):
    from units.c18 import ALGO as ALGO_HH
    cn = ctx.func(ALGO_HH, r"CELER_CONSTEXPR_FUNCTION T clamp_to_nonneg\(T v\) noexcept", [], name="celeritas::clamp_to_nonneg")
    pc = ctx.func(NE, r"CELER_FUNCTION Interaction ChipsNeutronElasticInteractor::operator\(\)\(Engine& rng\)", NE_RULES + [MulToUF_()], name="ChipsNeutronElasticInteractor::operator()")
    return (HDR + INTERACTION_MODEL + NE_MODEL + "static real_type clamp_to_nonneg(real_type v)\n{" + cn.body + "}\n" + """
Interaction NE_call(ChipsNeutronElasticInteractor const* self, Engine* rng)
__CPROVER_requires(__CPROVER_r_ok(self, sizeof(*self)) && self->neutron_mass_ > 0 && self->neutron_mass_ <= 100000 && self->neutron_energy_ >= self->neutron_mass_ && self->neutron_energy_ <= 1000000 && self->target_mass > 0 && self->target_mass <= 1000000)
__CPROVER_assigns(g_draws, g_out)
/* elastic scattering: no secondaries, the neutron survives */
__CPROVER_ensures(__CPROVER_return_value.action == IA_scattered && __CPROVER_return_value.secondaries.size == 0)
/* ledger: incident kinetic energy (E_n - m_n) = outgoing kinetic energy + nuclear recoil deposited locally, both non-negative */
__CPROVER_ensures(__CPROVER_return_value.energy >= 0 && __CPROVER_return_value.energy_deposition >= 0)
__CPROVER_ensures(__CPROVER_return_value.energy + __CPROVER_return_value.energy_deposition == self->neutron_energy_ - self->neutron_mass_)
{""" + pc.body + """}
void h_ne(void)
{
    ChipsNeutronElasticInteractor m; Engine* e;
    NE_call(&m, e);
    VERIF_CANARY();
}
""")


def MulToUF_():
    from vkit.extract import MulToUF
    return MulToUF()


UNITS += [
    Unit("c04_neutron_elastic", build_neutron_elastic, "h_ne", enforce="NE_call", replace=["NE_sample_q2", "NE_sample_phi", "NE_from_spherical", "NE_boost_vector", "NE_boost", "NE_rotate_unit"], timeout=300, backend=["sat", "cvc5", "z3"],
         defines=["VERIF_REAL_AS_INT"], must_have=[r"NE_call.postcondition", r"celer_ensure"], checks=["--bounds-check", "--pointer-check", "--no-signed-overflow-check", "--no-div-by-zero-check"],
         assumptions=["exact-integer abstraction of real_type (rounding of the sums not covered)", "the scattered neutron's lab energy lies between its rest mass and its incident total energy (kinematics of the Lorentz boost; numerics not decided)", "momentum, angles, directions not decided"],
         note="ChipsNeutronElasticInteractor::operator(): no secondaries, scattered; T_in = T_out + recoil deposit with both >= 0, for ANY result of the boost (the deposit is what is left of the total energy)"),
]


# ---- Coulomb (Wentzel) scattering, Rayleigh, combined bremsstrahlung ---------------------------
CSI = D + "CoulombScatteringInteractor.hh"
RAY = D + "RayleighInteractor.hh"
CBI = D + "CombinedBremInteractor.hh"

CS_MODEL = """
typedef struct { Real3 inc_direction_; real_type inc_energy_; } SimpleInteractor;
real_type g_recoil;     /* ghost: the recoil energy calc_recoil_energy returns */
real_type CS_sample_angle(SimpleInteractor const* self, Engine* rng) __CPROVER_assigns(g_draws) __CPROVER_ensures(g_draws > __CPROVER_old(g_draws));
/* calc_recoil_energy(cos_theta): 0 <= recoil <= incident kinetic energy (the function's own CELER_ASSERT at the call site; two-body kinematics, numerics not decided) */
real_type CS_calc_recoil_energy(SimpleInteractor const* self, real_type cos_theta) __CPROVER_assigns(g_recoil) __CPROVER_ensures(__CPROVER_return_value >= 0 && __CPROVER_return_value <= self->inc_energy_ && g_recoil == __CPROVER_return_value);
"""
CS_RULES = Q_RULES + [
    VALUE_AS, RESULT_INIT,
    Rule(r"sample_angle_\(rng\)", "CS_sample_angle(self, rng)", "*", note="angle sampler -> stub"),
    Rule(r"ExitingDirectionSampler\{cos_theta, inc_direction_\}\(rng\)", "EDS_sample(cos_theta, inc_direction_, rng)", "*", note="direction sampler -> stub"),
    Rule(r"particle_\.energy\(\)", "self->inc_energy_", "*", note="ParticleTrackView accessor -> field"),
    Rule(r"this->calc_recoil_energy\(", "CS_calc_recoil_energy(self, ", "*", note="member call -> stub with its asserted range"),
    members("inc_direction_"),
]


def build_coulomb(ctx):
    pc = ctx.func(CSI, r"CELER_FUNCTION Interaction CoulombScatteringInteractor::operator\(\)\(Engine& rng\)", CS_RULES, name="CoulombScatteringInteractor::operator()")
    return (HDR + INTERACTION_MODEL + COMMON + CS_MODEL + """
Interaction CS_call(SimpleInteractor const* self, Engine* rng)
__CPROVER_requires(__CPROVER_r_ok(self, sizeof(*self)) && self->inc_energy_ > 0 && !__CPROVER_isinfd(self->inc_energy_))
__CPROVER_assigns(g_draws, g_recoil)
/* no secondaries; incident = outgoing + nuclear recoil deposited locally, term by term, both >= 0 */
__CPROVER_ensures(__CPROVER_return_value.action == IA_scattered && __CPROVER_return_value.secondaries.size == 0)
__CPROVER_ensures(__CPROVER_return_value.energy == self->inc_energy_ - g_recoil && __CPROVER_return_value.energy >= 0 && __CPROVER_return_value.energy_deposition == g_recoil && g_recoil >= 0)
{""" + pc.body + """}
void h_cs(void)
{
    SimpleInteractor m; Engine* e;
    CS_call(&m, e);
    VERIF_CANARY();
}
""")


RAY_RULES = Q_RULES + [
    RESULT_INIT,
    Rule(r"SampleInput input = this->evaluate_weight_and_prob\(\);.*?\} while \(2 \* generate_canonical\(rng\) > 1 \+ ipow<2>\(cost\) \|\| cost < -1\);", "real_type cost = RAY_sample_cost(self, rng);", 1, flags=16,
         note="form-factor weights and the angular rejection loop -> stub (any cosine); number of draws NOT decided"),
    Rule(r"ExitingDirectionSampler\{cost, inc_direction_\}\(rng\)", "EDS_sample(cost, inc_direction_, rng)", "*", note="direction sampler -> stub"),
    Rule(r"Interaction::Action::scattered", "IA_scattered", "*", note="enum"),
    members("inc_energy_", "inc_direction_"),
]


def build_rayleigh(ctx):
    pc = ctx.func(RAY, r"CELER_FUNCTION Interaction RayleighInteractor::operator\(\)\(Engine& rng\)", RAY_RULES, name="RayleighInteractor::operator()")
    return (HDR + INTERACTION_MODEL + COMMON + CS_MODEL + """
real_type RAY_sample_cost(SimpleInteractor const* self, Engine* rng) __CPROVER_assigns(g_draws) __CPROVER_ensures(g_draws > __CPROVER_old(g_draws));
Interaction RAY_call(SimpleInteractor const* self, Engine* rng)
__CPROVER_requires(__CPROVER_r_ok(self, sizeof(*self)) && self->inc_energy_ > 0 && !__CPROVER_isinfd(self->inc_energy_))
__CPROVER_assigns(g_draws)
/* coherent scattering: the photon keeps all its energy; nothing emitted, nothing deposited */
__CPROVER_ensures(__CPROVER_return_value.action == IA_scattered && __CPROVER_return_value.secondaries.size == 0 && __CPROVER_return_value.energy == self->inc_energy_ && __CPROVER_return_value.energy_deposition == 0)
{""" + pc.body + """}
void h_ray(void)
{
    SimpleInteractor m; Engine* e;
    RAY_call(&m, e);
    VERIF_CANARY();
}
""")


CB_RULES = Q_RULES + [
    ALLOC1, NULLPTR, FACTORY,
    Rule(r"Energy gamma_energy;", "real_type gamma_energy = 0;", 1, note="Quantity default"),
    Rule(r"particle_\.energy\(\) >= seltzer_berger_upper_limit\(\)", "CB_above_sb_limit(self)", 1, note="model switch (either answer)"),
    Rule(r"(?:RBEnergySampler|SBEnergySampler) sample_energy\{.*?\};", "", 2, flags=16, note="energy sampler construction dropped (Seltzer-Berger below / relativistic above the switch)"),
    Rule(r"sample_energy\(rng\)", "BR_sample_photon_energy(self, rng)", 2, note="photon energy sampler -> stub (assumed range)"),
    Rule(r"sample_costheta_\(rng\)", "BR_sample_costheta(self, rng)", 1, note="polar angle sampler -> stub"),
    TempCall("BremFinalStateHelper", "BFS_ctor", "BFS_call"),
    Rule(r"particle_\.energy\(\)", "self->inc_energy_", "*", note="ParticleTrackView accessor -> field"),
    Rule(r"particle_\.momentum\(\)", "self->inc_momentum_", "*", note="ParticleTrackView accessor -> field"),
    Rule(r"shared_\.rb_data\.ids\.gamma", "self->gamma_id", 1, note="params"),
    members("inc_direction_"),
]


def build_combined_brem(ctx):
    src = brem_builder("CombinedBremInteractor.hh", "CombinedBremInteractor", CB_RULES)(ctx)
    return src.replace("Interaction BR_call(BremInteractor const* self, Engine* rng)", "bool CB_above_sb_limit(BremInteractor const* self) __CPROVER_assigns() __CPROVER_ensures(__CPROVER_return_value == 0 || __CPROVER_return_value == 1);\nInteraction BR_call(BremInteractor const* self, Engine* rng)", 1)


UNITS += [
    Unit("c04_coulomb_scattering", build_coulomb, "h_cs", enforce="CS_call", replace=["CS_sample_angle", "CS_calc_recoil_energy", "EDS_sample"], timeout=300, backend=["sat", "cvc5"],
         must_have=[r"CS_call.postcondition", r"celer_assert"], checks=["--bounds-check", "--pointer-check"],
         assumptions=["calc_recoil_energy in [0, E] (its call-site CELER_ASSERT; two-body kinematics not decided)"],
         note="CoulombScatteringInteractor::operator(): no secondaries; incident = outgoing + recoil deposit term by term, both >= 0"),
    Unit("c04_rayleigh", build_rayleigh, "h_ray", enforce="RAY_call", replace=["RAY_sample_cost", "EDS_sample"], timeout=300, backend=["sat", "cvc5"],
         must_have=[r"RAY_call.postcondition", r"celer_ensure"], checks=["--bounds-check", "--pointer-check"],
         assumptions=["angular rejection loop replaced by its result (draw count not decided)"],
         note="RayleighInteractor::operator(): energy unchanged, nothing emitted or deposited"),
    Unit("c04_combined_brem", build_combined_brem, "h_br", enforce="BR_call", replace=["BFS_call", "BR_sample_photon_energy", "BR_sample_costheta", "CB_above_sb_limit"], timeout=300, backend=["sat", "cvc5", "z3"],
         must_have=[r"BR_call.postcondition", r"ALLOC_call.precondition", r"BFS_call.precondition"], checks=["--bounds-check", "--pointer-check"],
         assumptions=["photon energy samplers return 0 < k <= incident energy (assumed)", "BremFinalStateHelper::operator() by its contract; constructor body inlined", "StackAllocator contract (c16_alloc)"],
         note="CombinedBremInteractor::operator(): clean failure; incident = outgoing + photon on both sides of the Seltzer-Berger / relativistic switch"),
]
