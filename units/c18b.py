"""C18 (continued): N-dimensional indexers, find_interp, two-dimensional grid calculators."""
from vkit.extract import Rule, LoopContracts, NamedLambda
from vkit.runner import Unit

HYP = "src/corecel/data/HyperslabIndexer.hh"
RRI = "src/orange/univ/detail/RaggedRightIndexer.hh"
FI = "src/corecel/grid/FindInterp.hh"
TGC = "src/corecel/grid/TwodGridCalculator.hh"
TSC = "src/corecel/grid/TwodSubgridCalculator.hh"
TGD = "src/corecel/grid/TwodGridData.hh"
HDR = '#include "celer.h"\n'

# ---------------------------------------------------------------------------
# HyperslabIndexer<3> / HyperslabInverseIndexer<3>
# ---------------------------------------------------------------------------
HYP_MODEL = """
#define N 3
typedef struct { size_type d[N]; } Coords;             /* Array<size_type, N> */
typedef struct { Coords const* dims_; } HyperslabIndexer;   /* the class holds a reference to the caller's dims */
#define DIM_MAX 16ul                                 /* stated bound of this unit: each extent <= 16 (products then cannot wrap) */
#define DIMS_OK(p) ((p)->d[0] > 0 && (p)->d[1] > 0 && (p)->d[2] > 0 && (p)->d[0] <= DIM_MAX && (p)->d[1] <= DIM_MAX && (p)->d[2] <= DIM_MAX)
static size_type hyperslab_size(Coords const* dims) { return dims->d[0] * dims->d[1] * dims->d[2]; }   /* detail::hyperslab_size: product of the extents */
"""
HYP_RULES = [
    Rule(r"\bdims_\[([^\[\]]*)\]", r"self->dims_->d[\1]", "+", note="Array reference member: dims_[i]"),
    Rule(r"\bcoords\[([^\[\]]*)\]", r"coords.d[\1]", "+", note="Array<size_type,N> element"),
    Rule(r"\bdims_\.size\(\)", "N", "*", note="Array<.,N>::size() == N"),
    Rule(r"hyperslab_size\(dims_\)", "hyperslab_size(self->dims_)", "*", note="detail::hyperslab_size(dims_)"),
]


def _hyp_pieces(ctx):
    fw = ctx.func(HYP, r"^CELER_FUNCTION size_type HyperslabIndexer<N>::operator\(\)\(Coords const& coords\) const", HYP_RULES, name="HyperslabIndexer<N>::operator()")
    bw = ctx.func(HYP, r"^HyperslabInverseIndexer<N>::operator\(\)\(size_type index\) const", HYP_RULES, name="HyperslabInverseIndexer<N>::operator()")
    return fw, bw


def _hyp_text(ctx):
    fw, bw = _hyp_pieces(ctx)
    return (HDR + HYP_MODEL + """
size_type HI_call(HyperslabIndexer const* self, Coords coords)
__CPROVER_requires(__CPROVER_r_ok(self, sizeof(*self)) && __CPROVER_r_ok(self->dims_, sizeof(Coords)) && DIMS_OK(self->dims_))
__CPROVER_requires(coords.d[0] < self->dims_->d[0] && coords.d[1] < self->dims_->d[1] && coords.d[2] < self->dims_->d[2])      /* own CELER_EXPECTs */
__CPROVER_assigns()
/* row-major flattening: inside the slab, and last coordinate fastest */
__CPROVER_ensures(__CPROVER_return_value < hyperslab_size(self->dims_))
__CPROVER_ensures(__CPROVER_return_value == (coords.d[0] * self->dims_->d[1] + coords.d[1]) * self->dims_->d[2] + coords.d[2])
{""" + fw.body + """}
Coords HII_call(HyperslabIndexer const* self, size_type index)
__CPROVER_requires(__CPROVER_r_ok(self, sizeof(*self)) && __CPROVER_r_ok(self->dims_, sizeof(Coords)) && DIMS_OK(self->dims_))
__CPROVER_requires(index <= hyperslab_size(self->dims_) && index <= DIM_MAX * DIM_MAX * DIM_MAX)   /* (the second conjunct is implied by DIMS_OK; stated for the solver) */                                                                        /* own CELER_EXPECT (one-past-the-end allowed) */
__CPROVER_assigns()
/* every coordinate inside its extent (the slowest one only for a real index, index == size is the end marker) */
__CPROVER_ensures(__CPROVER_return_value.d[1] < self->dims_->d[1] && __CPROVER_return_value.d[2] < self->dims_->d[2])
__CPROVER_ensures(index < hyperslab_size(self->dims_) ==> __CPROVER_return_value.d[0] < self->dims_->d[0])
/* and flattening the result gives the index back */
__CPROVER_ensures((__CPROVER_return_value.d[0] * self->dims_->d[1] + __CPROVER_return_value.d[1]) * self->dims_->d[2] + __CPROVER_return_value.d[2] == index)
{""" + bw.body + """}
""")


def build_hyp_index(ctx):
    return _hyp_text(ctx) + """
void h_hi(void)
{
    Coords dims, c; HyperslabIndexer ix = {&dims};
    HI_call(&ix, c);
    VERIF_CANARY();
}
"""


def build_hyp_inverse(ctx):
    return _hyp_text(ctx) + """
void h_hii(void)
{
    Coords dims; size_type i; HyperslabIndexer ix = {&dims};
    HII_call(&ix, i);
    VERIF_CANARY();
}
"""


def build_hyp_roundtrip(ctx):
    return _hyp_text(ctx) + """
/* the two REAL bodies composed (not their contracts): inverse(index(c)) == c and index(inverse(i)) == i */
void h_hrt(void)
{
    Coords dims, c; size_type i; HyperslabIndexer ix = {&dims};
    __CPROVER_assume(DIMS_OK(&dims));
    __CPROVER_assume(c.d[0] < dims.d[0] && c.d[1] < dims.d[1] && c.d[2] < dims.d[2]);
    __CPROVER_assume(i < hyperslab_size(&dims) && i < DIM_MAX * DIM_MAX * DIM_MAX);
    size_type f = HI_call(&ix, c);
    Coords b = HII_call(&ix, f);
    __CPROVER_assert(b.d[0] == c.d[0] && b.d[1] == c.d[1] && b.d[2] == c.d[2], "hyperslab.roundtrip: inverse(index(c)) == c");
    Coords k = HII_call(&ix, i);
    __CPROVER_assert(k.d[0] < dims.d[0] && k.d[1] < dims.d[1] && k.d[2] < dims.d[2], "hyperslab.inverse_in_range");
    __CPROVER_assert(HI_call(&ix, k) == i, "hyperslab.roundtrip: index(inverse(i)) == i");
    VERIF_CANARY();
}
"""


HYP_CHECKS = ["--bounds-check", "--pointer-check", "--div-by-zero-check", "--unsigned-overflow-check"]
HYP_ASSUME = ["template parameter N bound to 3 (one instantiation)", "each extent <= 16 (stated bound; the products then cannot wrap; unsigned-overflow check on)",
              "constructors only check dims > 0 (CELER_EXPECT, compiled out) and bind a reference: taken as the precondition"]
UNITS = [
    Unit("c18_hyperslab_index", build_hyp_index, "h_hi", enforce="HI_call", unwind=4, timeout=300, backend=["sat", "kissat", "cvc5"],
         bounded="extents <= 16 each (N = 3 loop fully unwound: complete)", must_have=[r"HI_call.postcondition"], checks=HYP_CHECKS, assumptions=HYP_ASSUME,
         note="HyperslabIndexer<3>::operator(): the flattened index is inside the slab and is the row-major one (last coordinate fastest)"),
    Unit("c18_hyperslab_inverse", build_hyp_inverse, "h_hii", enforce="HII_call", unwind=4, timeout=300, backend=["sat", "kissat", "cvc5"],
         bounded="extents <= 16 each (N = 3 loop fully unwound: complete)", must_have=[r"HII_call.postcondition"], checks=HYP_CHECKS, assumptions=HYP_ASSUME,
         note="HyperslabInverseIndexer<3>::operator(): every coordinate inside its extent and flattening them gives the index back"),
    Unit("c18_hyperslab_roundtrip", build_hyp_roundtrip, "h_hrt", unwind=4, timeout=300, backend=["sat", "kissat", "cvc5"],
         bounded="extents <= 16 each (N = 3 loops fully unwound: complete)", must_have=[r"hyperslab.roundtrip", r"hyperslab.inverse_in_range"], checks=HYP_CHECKS, assumptions=HYP_ASSUME,
         note="lemma over the two real bodies: inverse(index(c)) == c and index(inverse(i)) == i for every slab with extents <= 16"),
]

# ---------------------------------------------------------------------------
# RaggedRightIndexer<4> / RaggedRightInverseIndexer<4>
# ---------------------------------------------------------------------------
RR_MODEL = """
#define N 4
typedef struct { size_type offsets[N + 1]; } RaggedRightIndexerData;      /* Array<size_type, N + 1> offsets */
typedef struct { RaggedRightIndexerData const* rrd_; } RaggedRightIndexer;
typedef struct { size_type d[2]; } Size2;
typedef Size2 Coords;
#define RRD_OK(p) ((p)->offsets[0] <= (p)->offsets[1] && (p)->offsets[1] <= (p)->offsets[2] && (p)->offsets[2] <= (p)->offsets[3] && (p)->offsets[3] <= (p)->offsets[4])
"""
RR_RULES = [
    Rule(r"auto const& offsets = rrd_\.offsets;", "size_type const* offsets = self->rrd_->offsets;", 1, note="reference to the offsets array"),
    Rule(r"\bcoords\[([01])\]", r"coords.d[\1]", "*", note="Size2 element"),
    Rule(r"offsets\.back\(\)", "offsets[N]", "*", note="Array<.,N+1>::back()"),
    Rule(r"return Coords\{([^{}]*)\};", r"{ Coords r_ = {{\1}}; return r_; }", "*", note="brace-constructed Array return value"),
]


def _rr_text(ctx):
    fw = ctx.func(RRI, r"^CELER_FUNCTION size_type RaggedRightIndexer<N>::operator\(\)\(Coords coords\) const", RR_RULES, name="RaggedRightIndexer<N>::operator()")
    bw = ctx.func(RRI, r"^RaggedRightInverseIndexer<N>::operator\(\)\(size_type index\) const", RR_RULES + [
        LoopContracts(["    __CPROVER_assigns(i)\n    __CPROVER_loop_invariant(i < N && offsets[i] <= index)\n    __CPROVER_decreases(N - i)\n"])],
        name="RaggedRightInverseIndexer<N>::operator()")
    return (HDR + RR_MODEL + """
size_type RR_call(RaggedRightIndexer const* self, Coords coords)
__CPROVER_requires(__CPROVER_r_ok(self, sizeof(*self)) && __CPROVER_r_ok(self->rrd_, sizeof(RaggedRightIndexerData)) && RRD_OK(self->rrd_))
__CPROVER_requires(coords.d[0] < N && coords.d[1] < self->rrd_->offsets[coords.d[0] + 1] - self->rrd_->offsets[coords.d[0]])      /* own CELER_EXPECTs */
__CPROVER_assigns()
/* the flattened index lies in row coords[0]'s own segment, at position coords[1] */
__CPROVER_ensures(__CPROVER_return_value >= self->rrd_->offsets[coords.d[0]] && __CPROVER_return_value < self->rrd_->offsets[coords.d[0] + 1])
__CPROVER_ensures(__CPROVER_return_value - self->rrd_->offsets[coords.d[0]] == coords.d[1])
{""" + fw.body + """}
Coords RRI_call(RaggedRightIndexer const* self, size_type index)
__CPROVER_requires(__CPROVER_r_ok(self, sizeof(*self)) && __CPROVER_r_ok(self->rrd_, sizeof(RaggedRightIndexerData)) && RRD_OK(self->rrd_))
__CPROVER_requires(self->rrd_->offsets[0] == 0 && index < self->rrd_->offsets[N])                                                        /* own CELER_EXPECT; offsets start at 0 */
__CPROVER_assigns()
/* the row whose segment contains the index, and the position inside that segment */
__CPROVER_ensures(__CPROVER_return_value.d[0] < N)
__CPROVER_ensures(__CPROVER_return_value.d[0] < N ? (self->rrd_->offsets[__CPROVER_return_value.d[0]] <= index && index < self->rrd_->offsets[__CPROVER_return_value.d[0] + 1]
                                                    && __CPROVER_return_value.d[1] == index - self->rrd_->offsets[__CPROVER_return_value.d[0]]) : 0)
{""" + bw.body + """}
""")


def build_rr_index(ctx):
    return _rr_text(ctx) + "void h_rr(void) { RaggedRightIndexerData d; RaggedRightIndexer ix = {&d}; Coords c; RR_call(&ix, c); VERIF_CANARY(); }\n"


def build_rr_inverse(ctx):
    return _rr_text(ctx) + "void h_rri(void) { RaggedRightIndexerData d; RaggedRightIndexer ix = {&d}; size_type i; RRI_call(&ix, i); VERIF_CANARY(); }\n"


RR_ASSUME = ["template parameter N bound to 4 (one instantiation; the loop is closed by a loop contract that does not depend on N)", "offsets non-decreasing and starting at 0 (how the host builds them)"]
UNITS += [
    Unit("c18_ragged_index", build_rr_index, "h_rr", enforce="RR_call", timeout=120, backend=["sat", "cvc5"], must_have=[r"RR_call.postcondition"],
         checks=["--bounds-check", "--pointer-check", "--unsigned-overflow-check"], assumptions=RR_ASSUME,
         note="RaggedRightIndexer::operator(): the flattened index lies in the row's own segment at the given position"),
    Unit("c18_ragged_inverse", build_rr_inverse, "h_rri", enforce="RRI_call", loop_contracts=True, timeout=120, backend=["sat", "cvc5"],
         must_have=[r"RRI_call.postcondition", r"loop_invariant_step"], checks=["--bounds-check", "--pointer-check", "--unsigned-overflow-check"], assumptions=RR_ASSUME,
         note="RaggedRightInverseIndexer::operator(): returns the row whose segment contains the index and the offset inside it (hence the inverse of the indexer); the scan never reads past offsets[N]"),
]

# ---------------------------------------------------------------------------
# find_interp<NonuniformGrid<real_type>> and the two-dimensional grid calculators built on it
# ---------------------------------------------------------------------------
NUG_MODEL = """
/* NonuniformGrid<real_type> seen through its interface: size n >= 2, front, back, and the two knots of the bin that find() returns.
   (A grid is a pure function index -> value; find_interp reads it only at the returned bin's two knots, which the bounds obligations below check.) */
typedef struct { size_type n; real_type front, back; } NonuniformGrid;
typedef struct { size_type index; real_type fraction; } FindInterp;
size_type nondet_size_type(void); real_type nondet_real(void);
size_type g_bin; real_type g_lo, g_hi;      /* ghost: the bin find() returned and the knots grid[bin], grid[bin + 1] */
static real_type NUG_front(NonuniformGrid const* g) { return g->front; }
static real_type NUG_back(NonuniformGrid const* g) { return g->back; }
static size_type NUG_size(NonuniformGrid const* g) { return g->n; }
static real_type NUG_index(NonuniformGrid const* g, size_type i)
{
    __CPROVER_assert(i < g->n, "NUG_index.precondition: NonuniformGrid::operator[] i < size");
    return i == g_bin ? g_lo : (i == g_bin + 1 ? g_hi : nondet_real());
}
/* NonuniformGrid::find: contract enforced in c18_nonuniform_find (requires front <= v < back; returns i, i+1 < size, grid[i] <= v < grid[i+1]);
 * encoded as: assert the precondition, return any index satisfying the postcondition; sortedness instances front <= grid[i], grid[i+1] <= back */
static size_type NUG_find(NonuniformGrid const* g, real_type v)
{
    __CPROVER_assert(v >= g->front && v < g->back, "NUG_find.precondition: value >= front && value < back");
    size_type r = nondet_size_type();
    __CPROVER_assume(r < g->n - 1);
    g_bin = r; g_lo = nondet_real(); g_hi = nondet_real();
    __CPROVER_assume(g_lo <= v && v < g_hi && g->front <= g_lo && g_hi <= g->back);
    return r;
}
#define FINV(x) (!__CPROVER_isnand(x) && !__CPROVER_isinfd(x))
/* correctly rounded quotient: value uninterpreted (no installed back end decides 53-bit division bounds in minutes); assumed IEEE facts:
   0 <= a <= b, b > 0  =>  0 <= a/b <= 1;   0/b == 0.   The unit asserts that the divisor is positive and proves 0 <= a <= b from the grid contract. */
real_type __CPROVER_uninterpreted_div(real_type, real_type);
static real_type DIVQ4(real_type a, real_type b, real_type c, real_type d)      /* (a - b) / (c - d) */
{
    real_type n = a - b, den = c - d;                                       /* the two IEEE subtractions, bit-precise */
    /* assumed IEEE fact (monotone rounding of a difference with a common subtrahend): a <= c  =>  a - d <= c - d */
    __CPROVER_assume(!(a <= c && b == d && FINV(a) && FINV(c) && FINV(d)) || n <= den);
    __CPROVER_assert(den > 0, "find_interp.divisor_positive: upper knot - lower knot > 0");
    real_type r = __CPROVER_uninterpreted_div(n, den);
    __CPROVER_assume(!(n >= 0 && n <= den && den > 0 && FINV(den)) || (r >= 0 && r <= 1));
    __CPROVER_assume(!(n == 0 && den > 0) || r == 0);
    return r;
}
"""
FI_RULES = [
    Rule(r"FindInterp<typename Grid::value_type> result;", "FindInterp result = {0, 0};", 1, note="default member initialisers of FindInterp"),
    Rule(r"grid\.find\(", "NUG_find(grid, ", "+", note="Grid::find -> NonuniformGrid::find by its c18_nonuniform_find contract"),
    Rule(r"grid\.(front|back|size)\(\)", r"NUG_\1(grid)", "+", note="NonuniformGrid accessors"),
    Rule(r"\bgrid\[([^\[\]]*)\]", r"NUG_index(grid, \1)", "+", note="NonuniformGrid::operator[] (EXPECT i < size asserted)"),
    Rule(r"auto const (lower_val|upper_val)", r"real_type const \1", 2, note="auto -> Grid::value_type"),
    Rule(r"result\.fraction = \((\w+) - (\w+)\)\s*/\s*\((\w+) - (\w+)\);", r"result.fraction = DIVQ4(\1, \2, \3, \4);", 1, note="quotient -> uninterpreted with the assumed IEEE bound lemma; divisor > 0 asserted"),
]


def _fi_text(ctx):
    pc = ctx.func(FI, r"^find_interp\(Grid const& grid, typename Grid::value_type value\)", FI_RULES, name="celeritas::find_interp")
    return (HDR + NUG_MODEL + """
FindInterp find_interp(NonuniformGrid const* grid, real_type value)
__CPROVER_requires(__CPROVER_r_ok(grid, sizeof(*grid)) && grid->n >= 2)
__CPROVER_requires(value >= grid->front && value < grid->back && grid->front >= -1e300 && grid->back <= 1e300)              /* own CELER_EXPECT; grid values within +-1e300 (differences cannot overflow) */
__CPROVER_assigns(g_bin, g_lo, g_hi)
/* the lower index of the bracketing bin (never the last grid point) */
__CPROVER_ensures(__CPROVER_return_value.index < grid->n - 1 && __CPROVER_return_value.index == g_bin)
/* the fraction of the way from the lower to the upper knot: (value - lower) / (upper - lower), in [0, 1], exactly 0 on the lower knot */
__CPROVER_ensures(__CPROVER_return_value.fraction == __CPROVER_uninterpreted_div(value - g_lo, g_hi - g_lo))
__CPROVER_ensures(__CPROVER_return_value.fraction >= 0 && __CPROVER_return_value.fraction <= 1)
__CPROVER_ensures(value == g_lo ==> __CPROVER_return_value.fraction == 0)
{""" + pc.body + """}
""")


def build_find_interp(ctx):
    return _fi_text(ctx) + """
void h_fi(void)
{
    NonuniformGrid g; real_type v;
    FindInterp r = find_interp(&g, v);
    VERIF_CANARY();
}
"""


UNITS += [
    Unit("c18_find_interp", build_find_interp, "h_fi", enforce="find_interp", timeout=600, backend=["sat", "kissat", "cvc5", "z3"],
         must_have=[r"find_interp.postcondition", r"celer_assert", r"NUG_find.precondition", r"NUG_index.precondition"], checks=["--bounds-check", "--pointer-check"],
         assumptions=["Grid bound to NonuniformGrid<real_type>; NonuniformGrid::find by its c18_nonuniform_find contract", "IEEE lemmas assumed: a <= c => a - d <= c - d (monotone rounding); 0 <= n <= den, den > 0 => 0 <= n/den <= 1; 0/den == 0 (the quotient's value is uninterpreted, the subtractions are bit-precise)", "grid values within +-1e300"],
         note="find_interp: the bracketing bin's lower index (index + 1 < size, the in-body CELER_ASSERT), fraction = (value - lower)/(upper - lower) in [0, 1] in IEEE double arithmetic, exactly 0 on a knot; any grid length"),
]

# ---------------------------------------------------------------------------
# TwodGridData::at, TwodSubgridCalculator::operator(): bilinear interpolation reads exactly the four corners of the located cell
# ---------------------------------------------------------------------------
TWOD_MODEL = """
typedef struct { size_type nx, ny, values_front, values_size; } TwodGridData;         /* x.size(), y.size(), values.front().get(), values.size() */
typedef struct { TwodGridData const* grids_; real_type const* storage_; size_type storage_size; NonuniformGrid ygrid; FindInterp x_loc_; } TwodSubgridCalculator;
#define TGD_OK(g) ((g)->nx >= 2 && (g)->ny >= 2 && (g)->nx <= 32 && (g)->ny <= 32 && (g)->values_size == (g)->nx * (g)->ny && (g)->values_front <= 1000000)
real_type g_corner[2][2]; size_type g_cx, g_cy; unsigned g_nread[2][2];   /* ghost: reads per corner */           /* ghost: the table values at the four corners (xo, yo) of cell (g_cx, g_cy) */
/* Collection<real_type>[ItemId]: bounds asserted; the read value is the corner value when the index is that corner's flattened index */
static real_type STORAGE_at(TwodSubgridCalculator const* self, size_type id)
{
    __CPROVER_assert(id < self->storage_size, "celer_expect: Collection::operator[] i < size");
    size_type base = self->grids_->values_front;
    for (int xo = 0; xo < 2; ++xo) for (int yo = 0; yo < 2; ++yo)
        if (id == base + (g_cx + xo) * self->grids_->ny + (g_cy + yo)) { ++g_nread[xo][yo]; return g_corner[xo][yo]; }
    __CPROVER_assert(0, "twod.reads_only_the_four_corners_of_the_located_cell");
    return 0;
}
"""
TGD_RULES = [
    Rule(r"this->x\.size\(\)", "self->nx", "+", note="ItemRange::size()"),
    Rule(r"this->y\.size\(\)", "self->ny", "+", note="ItemRange::size()"),
    Rule(r"return ItemId<real_type>\{index \+ this->values\.front\(\)\.get\(\)\};", "return index + self->values_front;", 1, note="ItemId construction -> integer"),
]
TSC_RULES = [
    Rule(r"NonuniformGrid<real_type> const y_grid\{grids_\.y, storage_\};", "NonuniformGrid const* y_grid = &self->ygrid;", 1, note="grid view over the y knots"),
    Rule(r"y_grid\.(front|back)\(\)", r"NUG_\1(y_grid)", "+", note="NonuniformGrid accessors"),
    Rule(r"InterpT const y_loc = find_interp\(y_grid, y\);", "FindInterp const y_loc = find_interp(y_grid, y);", 1, note="find_interp by its c18_find_interp contract"),
    Rule(r"\) -> real_type \{", ") {", "*", note="trailing return type of the lambda dropped (result type given to the lowering)"),
    NamedLambda("at_corner", "real_type"),
    Rule(r"size_type xo, size_type yo = \(([^;]*?), ([^;]*?)\);", r"size_type xo = (\1); size_type yo = (\2);", "+", note="two-parameter lambda: parameter binding split"),
    Rule(r"this->at\(", "TSC_at(self, ", "+", note="member call"),
    Rule(r"(?<![\w.>])x_loc_\.", "self->x_loc_.", "+", note="data member"),
]


def build_twod(ctx):
    at = ctx.func(TGD, r"CELER_FUNCTION ItemId<real_type> at\(size_type ix, size_type iy\) const", TGD_RULES, name="TwodGridData::at")
    sat = ctx.func(TSC, r"^CELER_FUNCTION real_type TwodSubgridCalculator::at\(size_type x_idx,\s*size_type y_idx\) const", [
        Rule(r"return storage_\[grids_\.at\(x_idx, y_idx\)\];", "return STORAGE_at(self, TGD_at(self->grids_, x_idx, y_idx));", 1, note="Collection read through TwodGridData::at")], name="TwodSubgridCalculator::at")
    call = ctx.func(TSC, r"^CELER_FUNCTION real_type TwodSubgridCalculator::operator\(\)\(real_type y\) const", TSC_RULES, name="TwodSubgridCalculator::operator()")
    fi = _fi_text(ctx)
    return (fi + TWOD_MODEL + """
size_type TGD_at(TwodGridData const* self, size_type ix, size_type iy)
{""" + at.body + """}
static real_type TSC_at(TwodSubgridCalculator const* self, size_type x_idx, size_type y_idx)
{""" + sat.body + """}
real_type TSC_call(TwodSubgridCalculator const* self, real_type y)
__CPROVER_requires(__CPROVER_r_ok(self, sizeof(*self)) && __CPROVER_r_ok(self->grids_, sizeof(TwodGridData)) && TGD_OK(self->grids_))
/* constructor EXPECTs: values inside the storage, x location inside the x grid with a fraction in [0, 1) */
__CPROVER_requires(self->grids_->values_front + self->grids_->values_size <= self->storage_size && self->x_loc_.index < self->grids_->nx - 1 && self->x_loc_.fraction >= 0 && self->x_loc_.fraction < 1)
__CPROVER_requires(self->ygrid.n == self->grids_->ny && y >= self->ygrid.front && y < self->ygrid.back && self->ygrid.front >= -1e300 && self->ygrid.back <= 1e300)     /* own CELER_EXPECT */
__CPROVER_requires(g_cx == self->x_loc_.index && g_nread[0][0] == 0 && g_nread[0][1] == 0 && g_nread[1][0] == 0 && g_nread[1][1] == 0)
__CPROVER_assigns(g_bin, g_lo, g_hi, g_cy, __CPROVER_object_whole(g_nread))
/* the y cell is the one find_interp located, inside the grid (the value itself -- four IEEE products -- is NOT decided: no installed back end finishes on them) */
__CPROVER_ensures(g_cy == g_bin && g_cy < self->grids_->ny - 1)
/* each of the four corners of the cell enters the interpolation exactly once */
__CPROVER_ensures(g_nread[0][0] == 1 && g_nread[0][1] == 1 && g_nread[1][0] == 1 && g_nread[1][1] == 1)
{
    g_cy = nondet_size_type();       /* ghost: bound to the located y bin by the assumption inside find_interp's stub use below */
""" + call.body.replace("FindInterp const y_loc = find_interp(y_grid, y);", "FindInterp const y_loc = find_interp(y_grid, y); __CPROVER_assume(g_cy == y_loc.index);") + """}
void h_twod(void)
{
    TwodGridData g; TwodSubgridCalculator c; c.grids_ = &g; real_type y;
    TSC_call(&c, y);
    VERIF_CANARY();
}
""")


UNITS += [
    Unit("c18_twod_subgrid", build_twod, "h_twod", enforce="TSC_call", replace=["find_interp"], unwind=8, timeout=600, bounded="grid extents <= 32 x 32", backend=["sat", "kissat", "cvc5"],
         must_have=[r"TSC_call.postcondition", r"twod.reads_only_the_four_corners", r"celer_expect", r"celer_ensure", r"find_interp.precondition"], checks=["--bounds-check", "--pointer-check", "--unsigned-overflow-check"],
         assumptions=["find_interp by its c18_find_interp contract", "grid extents <= 32 x 32 (stated bound: the index products are decided by SAT only for small extents)", "table storage seen through the four corner values of the located cell (any other read is an assertion failure)"],
         note="TwodSubgridCalculator::operator() + TwodGridData::at (real bodies): every table read is in range and is one of the four corners of the cell located by the x and y lookups (row-major: ix * ny + iy); the interpolated value itself is not decided"),
]

# ---------------------------------------------------------------------------
# three-argument lower_bound / upper_bound: the default comparator is TRANSPARENT (a mixed-type search compares each element with the value
# in their common type, as std::lower_bound does with operator<)
# ---------------------------------------------------------------------------
ALGO = "src/corecel/math/Algorithms.hh"
LB3_MODEL = """
#include <stdlib.h>
typedef double E;                 /* element type of the searched range */
typedef float T;                  /* type of the searched value: a MIXED-type search (float query in a double grid) */
typedef E const* ForwardIt;
enum { CMP_transparent = 0, CMP_value_type = 1 };
size_t g_n; E const* g_a; size_t g_k;     /* the sorted range, a witness index */
size_t nondet_size_t(void);
/* Less<>{}(e, v)  = e < v in the common type (double);   Less<T>{}(e, v) = T(e) < v: the element is first converted to the value's type */
#define COMP(kind, e, v) ((kind) == CMP_transparent ? ((e) < (E)(v)) : ((T)(e) < (v)))
/* four-argument lower_bound(first, last, value, comp) by its contract (c18_lower_bound_d: lower_bound_impl for a strict weak order): witness instances at r-1, r and g_k */
static ForwardIt LB4(ForwardIt first, ForwardIt last, T value, int comp)
{
    __CPROVER_assert(first == g_a && last == g_a + g_n, "lower_bound.precondition: whole range");
    size_t r = nondet_size_t();
    __CPROVER_assume(r <= g_n);
    __CPROVER_assume(r > 0 ? COMP(comp, g_a[r - 1], value) : 1);
    __CPROVER_assume(r < g_n ? !COMP(comp, g_a[r], value) : 1);
    __CPROVER_assume(g_k < g_n ? (g_k < r ? COMP(comp, g_a[g_k], value) : !COMP(comp, g_a[g_k], value)) : 1);
    return g_a + r;
}
"""


def build_lower_bound3(ctx):
    pc = ctx.func(ALGO, r"CELER_FORCEINLINE_FUNCTION ForwardIt lower_bound\(ForwardIt first,\s*ForwardIt last,\s*T const& value\)", [
        Rule(r"(?:::celeritas::)?lower_bound\(first, last, value, Less<>\{\}\)", "LB4(first, last, value, CMP_transparent)", (0, 1), note="default comparator Less<> (transparent)"),
        Rule(r"(?:::celeritas::)?lower_bound\(first, last, value, Less<\w+>\{\}\)", "LB4(first, last, value, CMP_value_type)", (0, 1), note="comparator Less<X>: operands converted to X first"),
    ], name="celeritas::lower_bound(first, last, value)")
    return (HDR + LB3_MODEL + """
ForwardIt lower_bound3(ForwardIt first, ForwardIt last, T value)
__CPROVER_requires(g_n <= 64 && first == g_a && last == g_a + g_n && __CPROVER_r_ok(g_a, g_n * sizeof(E)) && !__CPROVER_isnanf(value))
__CPROVER_assigns()
/* std::lower_bound semantics with operator< on the operands' own types: everything before the result is < value, the witness element at or after it is not */
__CPROVER_ensures(__CPROVER_same_object(__CPROVER_return_value, g_a) && __CPROVER_return_value >= g_a && __CPROVER_return_value <= g_a + g_n)
__CPROVER_ensures(g_k < g_n ==> ((g_a + g_k < __CPROVER_return_value) == (g_a[g_k] < (E)value)))
{""" + pc.body + """}
void h_lb3(void)
{
    T v; size_t n, k; __CPROVER_assume(n <= 64);
    E a[64];
    for (unsigned i = 0; i < 64; ++i) __CPROVER_assume(!__CPROVER_isnand(a[i]));
    g_a = a; g_n = n; g_k = k;
    lower_bound3(a, a + n, v);
    VERIF_CANARY();
}
""")


UNITS += [
    Unit("c18_lower_bound3_mixed", build_lower_bound3, "h_lb3", enforce="lower_bound3", unwind=66, timeout=300, backend=["sat", "cvc5"],
         must_have=[r"lower_bound3.postcondition", r"lower_bound.precondition"], checks=["--bounds-check", "--pointer-check"],
         assumptions=["four-argument lower_bound by the c18_lower_bound_d contract (witness instances), for whichever comparator the wrapper passes", "one mixed-type binding: double elements, float value; range length <= 64 in the harness (the wrapper has no loop)"],
         note="celeritas::lower_bound(first, last, value): forwards with a transparent comparator, so a float query in a double grid is compared in double (std::lower_bound semantics), not after narrowing the grid points"),
]
